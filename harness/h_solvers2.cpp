// C01 / C05 / C15 harness, second solver package: the REAL amgcl::solver::{gmres,fgmres,lgmres,idrs,bicgstabl}
// <builtin<Q>> at the exact rational type Q, called through operator()(A, P, rhs, x) as make_solver.hpp does.
//
// Ops (the same text is fed to the Lean model, lean/Amgcl/Driver/Solvers2.lean):
//   solve_gmres      side M maxiter tol abstol ns                       A PREC f x0
//   solve_fgmres     M maxiter tol abstol ns                            A PREC f x0
//   solve_lgmres     side M K always_reset maxiter tol abstol ns        A PREC f x0
//   solve_idrs       s omega smoothing replacement maxiter tol abstol ns   A PREC f x0  RAW
//   solve_bicgstabl  side L delta convex maxiter tol abstol ns          A PREC f x0
//   bicgstabl_vs_bicgstab side L delta convex maxiter tol abstol ns   A PREC f x0      (C05h: BiCGStab(1) = BiCGStab; result of solve_bicgstabl)
//   lgmres_vs_gmres  side M K always_reset maxiter tol abstol ns        A PREC f x0      (C05: first cycle of LGMRES(M,K) =
//       GMRES(M+K)): result line = that of solve_lgmres on a fresh object; oracle: the REAL solver::gmres with restart length
//       M+K is run on the same input, and both runs go through a preconditioner object that records the addresses of the
//       arguments of every apply(), from which the number of restart cycles of the call is read off (see TracePrec)
//   hist_gmres | hist_fgmres | hist_lgmres | hist_bicgstabl   <params as above>  n k (A PREC f x0)^k   (ONE solver object)
//   hist_idrs        <params as above>  n k RAW (A PREC f x0)^k
//   dblhist_<solver> <params as above> n k (A PREC f x0)^k     labelled TEST in DOUBLE precision (C15): the history is run on
//       ONE real solver object at double (op-line rationals rounded to double; matrices scaled by 10^200 make the first
//       calls overflow to Inf/NaN inside the work arrays) and every call is compared BITWISE with the same call on a fresh
//       object.  The canonical result line is the constant "ok" (the Lean model only validates the shape of the line).
// RAW = the s random vectors the constructor of idrs draws (mt19937(pid*nt+tid), uniform(-1,1)) before it
//   orthonormalises them into the shadow space P.  They are an INPUT of the Lean model.  The harness runs with ONE
//   OpenMP thread; if RAW equals the stream of mt19937(0) the real object is used untouched (tag P_native), otherwise
//   the harness overwrites the object's private P with RAW and repeats the constructor's orthonormalisation
//   statements on it (tag P_injected) - the solve itself is always the real operator().
// PREC = id | diag <vec> | mat <CRS>; result "ok <iters> <res> <x>" or "precondition <x>"; hist_*: joined by " | ".
// M >= 1 (L >= 1, s >= 1) is required: bad-input otherwise.
//
// Implementation-side oracles (exact arithmetic, independent of the Lean model):
//   C01  reported residual == |sqrt(<R,R>)|/norm_rhs with R = f - A x (right, fgmres) resp. P(f - A x) (left),
//        recomputed densely from the returned x with the same sqrt; iters <= maxiter; early return on ||f|| < eps
//   C05  exact preconditioner (P A == I) and exact root of <r0,r0>: exactly one iteration and A x == f;
//        identity of the GMRES / FGMRES iterate: x - x0 in P K_k(AP, r0)   (rank test, exact)
//        LGMRES(M,K) vs GMRES(M+K) (op lgmres_vs_gmres, Lean: C05f.lgmres_first_cycle_refines_gmres): identical result
//        (iterations, reported residual, x as rationals) whenever K = 0 or the LGMRES call made at most one restart cycle
//   C15  every call of a history equals the same call on a fresh object (LGMRES: only with always_reset; without it
//        the carried augmentation vectors are the documented exception and the difference is only tagged); rhs and
//        matrix unchanged; zero rhs -> zero vector, 0 iterations; converged guess returned unchanged in 0 iterations
#include "solvers_common.hpp"
#include <amgcl/solver/gmres.hpp>
#include <amgcl/solver/fgmres.hpp>
#include <amgcl/solver/lgmres.hpp>
#include <amgcl/solver/idrs.hpp>
#include <amgcl/solver/bicgstabl.hpp>
#include <amgcl/solver/bicgstab.hpp>
#include <tuple>
#include <random>
#include <cstring>
#ifdef _OPENMP
#include <omp.h>
#endif
using namespace vh;
using namespace vsolv;

#ifndef VH_PROP
#define VH_PROP 0
#endif
static const bool O_C01 = VH_PROP == 0 || VH_PROP == 1;
static const bool O_C05 = VH_PROP == 0 || VH_PROP == 5;
static const bool O_C15 = VH_PROP == 0 || VH_PROP == 15;

typedef amgcl::solver::gmres<Backend>  GMRES;
typedef amgcl::solver::fgmres<Backend> FGMRES;
typedef amgcl::solver::lgmres<Backend> LGMRES;
typedef amgcl::solver::idrs<Backend>   IDRS;
typedef amgcl::solver::bicgstabl<Backend> BICGSTABL;
typedef amgcl::solver::bicgstab<Backend>  BICGSTAB;

// read/write access to the private member idrs::P (explicit-instantiation idiom; no change to /repo)
typedef std::vector<std::shared_ptr<Backend::vector>> VecList;
template <typename Tag, typename Tag::type M> struct Rob { friend typename Tag::type get(Tag) { return M; } };
struct IdrsP { typedef VecList IDRS::*type; friend type get(IdrsP); };
template struct Rob<IdrsP, &IDRS::P>;

enum { S_GMRES = 0, S_FGMRES = 1, S_LGMRES = 2, S_IDRS = 3, S_BICGSTABL = 4 };
struct Prm { int solver = 0; bool left = false; long M = 1, K = 0, maxiter = 0; Q tol, abstol; bool always_reset = true, ns = false;
             long s = 1; Q omega; bool smoothing = false, replacement = false;          // idrs
             long L = 1; Q delta; bool convex = true;                                      // bicgstabl
             std::vector<std::vector<Q>> raw; };                                           // idrs: the random vectors

static bool parse_side(Cur &c) { const std::string &s = c.tok(); if (s == "left") return true; if (s == "right") return false; throw bad_input("side"); }
static Prm parse_prm(int solver, Cur &c) {
    Prm p; p.solver = solver;
    if (solver == S_IDRS) { p.s = parse_nat(c); p.omega = c.rat(); p.smoothing = parse_bool(c); p.replacement = parse_bool(c); }
    else if (solver == S_BICGSTABL) { p.left = parse_side(c); p.L = parse_nat(c); p.delta = c.rat(); p.convex = parse_bool(c); }
    else {
        if (solver == S_GMRES || solver == S_LGMRES) p.left = parse_side(c);
        p.M = parse_nat(c);
        if (solver == S_LGMRES) { p.K = parse_nat(c); p.always_reset = parse_bool(c); }
    }
    p.maxiter = parse_nat(c); p.tol = c.rat(); p.abstol = c.rat(); p.ns = parse_bool(c);
    if (p.M < 1 || p.s < 1 || p.L < 1) throw bad_input("M/s/L");
    return p;
}
static amgcl::preconditioner::side::type side_of(const Prm &p) { return p.left ? amgcl::preconditioner::side::left : amgcl::preconditioner::side::right; }
static GMRES::params gm_prm(const Prm &p) { GMRES::params q; q.M = p.M; q.pside = side_of(p); q.maxiter = p.maxiter; q.tol = p.tol; q.abstol = p.abstol; q.ns_search = p.ns; q.verbose = false; return q; }
static FGMRES::params fg_prm(const Prm &p) { FGMRES::params q; q.M = p.M; q.maxiter = p.maxiter; q.tol = p.tol; q.abstol = p.abstol; q.ns_search = p.ns; q.verbose = false; return q; }
static LGMRES::params lg_prm(const Prm &p) { LGMRES::params q; q.M = p.M; q.K = p.K; q.always_reset = p.always_reset; q.pside = side_of(p); q.maxiter = p.maxiter; q.tol = p.tol; q.abstol = p.abstol; q.ns_search = p.ns; q.verbose = false; return q; }

static IDRS::params id_prm(const Prm &p) { IDRS::params q; q.s = p.s; q.omega = p.omega; q.smoothing = p.smoothing; q.replacement = p.replacement; q.maxiter = p.maxiter; q.tol = p.tol; q.abstol = p.abstol; q.ns_search = p.ns; q.verbose = false; return q; }
static BICGSTABL::params bl_prm(const Prm &p) { BICGSTABL::params q; q.L = (int)p.L; q.delta = p.delta; q.convex = p.convex; q.pside = side_of(p); q.maxiter = p.maxiter; q.tol = p.tol; q.abstol = p.abstol; q.ns_search = p.ns; q.verbose = false; return q; }

// the stream the constructor of idrs draws with one thread on rank 0: std::mt19937 rng(0), uniform(-1, 1), j outer, i inner
static std::vector<std::vector<Q>> native_raw(long n, long s) {
    std::mt19937 rng(0); std::uniform_real_distribution<Q> rnd(-1, 1);
    std::vector<std::vector<Q>> raw(s, std::vector<Q>(n));
    for (long j = 0; j < s; ++j) for (long i = 0; i < n; ++i) raw[j][i] = rnd(rng);
    return raw;
}
static bool same_raw(const std::vector<std::vector<Q>> &a, const std::vector<std::vector<Q>> &b) {
    if (a.size() != b.size()) return false;
    for (size_t j = 0; j < a.size(); ++j) { if (a[j].size() != b[j].size()) return false; for (size_t i = 0; i < a[j].size(); ++i) if (a[j][i].v != b[j][i].v) return false; }
    return true;
}
// an idrs object whose shadow space comes from p.raw (see the header comment)
static std::shared_ptr<IDRS> make_idrs(const Prm &p, long n, bool *native = 0) {
    auto S = std::make_shared<IDRS>(n, id_prm(p));
    bool nat = same_raw(p.raw, native_raw(n, p.s));
    if (native) *native = nat;
    if (!nat) {
        VecList &P = (*S).*get(IdrsP());
        amgcl::solver::detail::default_inner_product ipf;
        for (long j = 0; j < p.s; ++j) for (long i = 0; i < n; ++i) (*P[j])[i] = p.raw[j][i];
        for (long j = 0; j < p.s; ++j) {                      // idrs.hpp:205-216, verbatim
            for (long k = 0; k < j; ++k) { Q alpha = ipf(*P[k], *P[j]); amgcl::backend::axpby(-alpha, *P[k], Q(1), *P[j]); }
            Q norm_pj = std::abs(sqrt(ipf(*P[j], *P[j])));
            amgcl::backend::axpby(amgcl::math::inverse(norm_pj), *P[j], Q(0), *P[j]);
        }
    }
    return S;
}

// ------------------------------------------------------------------ labelled TEST in double precision (C05)
// GMRES / FGMRES after k iterations of ONE cycle minimise the (preconditioned) residual norm over x0 + K_k.  The
// reference is an independent dense least-squares minimiser in EXACT rational arithmetic (normal equations on the Krylov
// basis); the real solver is run at double with maxiter = k, tol = abstol = 0, and its reported residual is compared
// with the exact minimum up to 1e-6 * ||r0||.  This is a floating-point test on well-conditioned inputs, not a proof.
typedef amgcl::backend::builtin<double> BackendD;
struct PrecD {
    typedef BackendD backend_type; typedef BackendD::matrix matrix;
    int kind = 0; std::shared_ptr<amgcl::backend::numa_vector<double>> d; std::shared_ptr<matrix> M, A;
    template <class V1, class V2> void apply(const V1 &rhs, V2 &&x) const {
        if (kind == 0) amgcl::backend::copy(rhs, x);
        else if (kind == 1) amgcl::backend::vmul(1.0, *d, rhs, 0.0, x);
        else amgcl::backend::spmv(1.0, *M, rhs, 0.0, x);
    }
    const matrix& system_matrix() const { return *A; }
};
static std::shared_ptr<BackendD::matrix> crs_d(const Mat &A) {
    std::vector<double> v(A.val.size()); for (size_t i = 0; i < v.size(); ++i) v[i] = A.val[i].v.get_d();
    return std::make_shared<BackendD::matrix>((size_t)A.n, (size_t)A.m, A.ptr, A.col, v);
}
static bool solve_q(Dense G, std::vector<Q> b, std::vector<Q> &c) {      // exact Gaussian elimination, false if singular
    size_t k = G.size(); c.assign(k, Q(0));
    for (size_t col = 0; col < k; ++col) {
        size_t p = col; while (p < k && G[p][col] == 0) ++p; if (p == k) return false;
        std::swap(G[p], G[col]); std::swap(b[p], b[col]);
        for (size_t i = col + 1; i < k; ++i) if (G[i][col] != 0) { Q fct = G[i][col] / G[col][col]; for (size_t j = col; j < k; ++j) G[i][j] -= fct * G[col][j]; b[i] -= fct * b[col]; }
    }
    for (size_t i = k; i-- > 0; ) { Q sum = b[i]; for (size_t j = i + 1; j < k; ++j) sum -= G[i][j] * c[j]; c[i] = sum / G[i][i]; }
    return true;
}
static bool small_entries(const Dense &D, double bound) { for (auto &r : D) for (auto &x : r) if (std::fabs(x.v.get_d()) > bound) return false; return true; }

struct OutD { bool thrown = false; size_t it = 0; double res = 0; std::vector<double> x; };
static bool same_bits(const OutD &a, const OutD &b) {
    if (a.thrown != b.thrown || a.x.size() != b.x.size()) return false;
    if (!a.thrown && (a.it != b.it || std::memcmp(&a.res, &b.res, sizeof(double)) != 0)) return false;
    return a.x.empty() || std::memcmp(a.x.data(), b.x.data(), a.x.size() * sizeof(double)) == 0;
}
template <class SolverD> static OutD call_d(const SolverD &S, const CallData &d) {
    const long n = d.n();
    auto Ad = crs_d(d.A); PrecD Pd; Pd.kind = d.pk; Pd.A = Ad;
    if (d.pk == 1) { std::vector<double> dv(n); for (long i = 0; i < n; ++i) dv[i] = d.pd[i].v.get_d(); Pd.d = std::make_shared<amgcl::backend::numa_vector<double>>(dv); }
    if (d.pk == 2) Pd.M = crs_d(d.PM);
    std::vector<double> fd(n), xd(n); for (long i = 0; i < n; ++i) { fd[i] = d.f[i].v.get_d(); xd[i] = d.x0[i].v.get_d(); }
    amgcl::backend::numa_vector<double> F(fd), X(xd);
    OutD o;
    try { std::tie(o.it, o.res) = S(*Ad, Pd, F, X); } catch (const std::runtime_error&) { o.thrown = true; }
    o.x.assign(X.data(), X.data() + X.size());
    return o;
}
// MK: () -> shared_ptr<SolverD> (a freshly constructed object)
template <class MK> static void dbl_history(MK mk, const std::vector<CallData> &cs, Result &r) {
    auto S = mk();
    bool nonfinite = false;
    for (size_t k = 0; k < cs.size(); ++k) {
        OutD o = call_d(*S, cs[k]);
        auto F = mk(); OutD fr = call_d(*F, cs[k]);
        if (O_C15 && !same_bits(o, fr)) r.fail("TEST(double): history call " + std::to_string(k) + " differs bitwise from the same call on a fresh object");
        for (double v : o.x) if (!std::isfinite(v)) nonfinite = true;
        if (!o.thrown && !std::isfinite(o.res)) nonfinite = true;
    }
    if (nonfinite) r.tag("dbl_nonfinite_call");
}

// the private norm() of gmres / fgmres / lgmres / idrs: std::abs(sqrt(inner_product(x, x)))
static Q nrmA(const std::vector<Q> &v) { return vq::abs(vq::sqrt(dot(v, v))); }
static bool left_kind(const Prm &p) { return p.left && (p.solver == S_GMRES || p.solver == S_LGMRES || p.solver == S_BICGSTABL); }
// the norm the solver uses: bicgstabl has sqrt(|<x,x>|), the others |sqrt(<x,x>)|
static Q snorm(const Prm &p, const std::vector<Q> &v) { return p.solver == S_BICGSTABL ? nrm(v) : nrmA(v); }

// ------------------------------------------------------------------ property oracles on ONE call's result
// `fresh_semantics`: the object is known to behave like a fresh one for this call (false for LGMRES without
// always_reset inside a history: augmentation vectors of earlier calls take part)
static void oracle(const Prm &p, const CallData &d, const Out &o, Result &r, bool fresh_semantics) {
    const long n = d.n();
    if (O_C15 && !o.inputs_untouched) r.fail("rhs or system matrix modified by the solve");
    Dense A = dense(d.A), PD = d.pdense();
    Q nf = snorm(p, d.f), eps = mach_eps();
    bool tiny = nf < eps;
    if (tiny) r.tag(dot(d.f, d.f) == 0 ? "zero_rhs" : "tiny_rhs");
    if (tiny && !p.ns) {
        if (O_C15 && (o.thrown || o.it != 0)) r.fail("zero rhs: expected 0 iterations");
        if (O_C15) for (long i = 0; i < n; ++i) if (o.x[i] != 0) { r.fail("zero rhs: x is not the zero vector"); break; }
        if (O_C01 && !o.thrown && o.res.v != nf.v) r.fail("zero rhs: reported value is not ||f||");
        return;
    }
    if (tiny) { nf = Q(1); r.tag("ns_search"); }
    if (o.thrown) { r.tag("precondition"); if (p.solver < S_IDRS) r.fail("gmres / fgmres / lgmres have no preconditions"); return; }
    Q epsT = std::max(p.tol * nf, p.abstol);
    if (O_C01 && p.solver != S_BICGSTABL && o.it > p.maxiter) r.fail("iters > maxiter");
    if (O_C01 && p.solver == S_BICGSTABL && o.it > p.maxiter + p.L - 1) r.fail("bicgstabl: iters > maxiter + L - 1");
    if (p.solver == S_BICGSTABL && o.it > p.maxiter) r.tag("iters_above_maxiter");
    std::vector<Q> tr = resid(A, d.f, o.x);
    std::vector<Q> trp = left_kind(p) ? dmv(PD, tr) : tr;
    Q truth = snorm(p, trp) / nf;
    if (O_C01 && o.res.v != truth.v) r.fail("reported residual != recomputed true residual of the returned x");
    // C15: converged guess
    std::vector<Q> r0 = resid(A, d.f, d.x0), r0p = left_kind(p) ? dmv(PD, r0) : r0;
    Q res0 = snorm(p, r0p);
    // the entry test: gmres family `norm_r < eps`, idrs `res_norm <= eps`, bicgstabl loop guard `zeta >= eps`
    bool conv0 = p.solver == S_IDRS ? !(res0 > epsT) : res0 < epsT;
    if (conv0) {
        r.tag("conv_guess");
        if (O_C15 && o.it != 0) r.fail("converged initial guess: iterations were made");
        if (O_C15) for (long i = 0; i < n; ++i) if (o.x[i].v != d.x0[i].v) { r.fail("converged initial guess modified"); break; }
    }
    if (o.it >= p.maxiter && !(snorm(p, trp) < epsT)) r.tag("maxiter_hit"); else if (o.it > 0) r.tag("converged");
    // (idrs does not count the step in which it converges: `if (res_norm <= eps || ++iter >= maxiter) break;`)
    if (!conv0 && p.maxiter > 0 && O_C01 && o.it == 0 && p.solver != S_IDRS) r.fail("no iteration made although not converged and maxiter > 0");
    if (p.solver >= S_IDRS) {
        // C05: exact preconditioner -> the exact solution after the first (half) step.  idrs: the first k-step gives
        // beta = 1, r = 0 and leaves through `res_norm <= eps` WITHOUT counting the step (it == 0); bicgstabl: alpha = 1,
        // zeta = 0 < eps in the first BiCG step (it == 1).  (A zero <r0,P0> resp. <B,B> throws and was handled above.)
        bool exactP = n > 0 && is_identity(dmul(PD, A));
        if (exactP) {
            r.tag("exact_prec");
            bool applies = fresh_semantics && p.maxiter >= 1 && !conv0 && (p.solver == S_IDRS ? epsT >= 0 : epsT > 0);
            if (applies && O_C05) {
                if (o.it != (p.solver == S_IDRS ? 0 : 1)) r.fail("exact preconditioner: unexpected iteration count");
                for (long i = 0; i < n; ++i) if (tr[i] != 0) { r.fail("exact preconditioner: A x != f after the first step"); break; }
                r.tag("exact_prec_one_step");
            }
        }
        return;
    }
    long MM = p.solver == S_LGMRES ? p.M + p.K : p.M;
    if (o.it > MM) r.tag("restarted");
    // C05: the iterate lies in the right affine space: x - x0 in P K_k(AP, r0) (right) / K_k(PA, P r0) (left), k = iters
    // (for LGMRES only when no augmentation vector can take part: K = 0, or the first cycle of a fresh-like object)
    bool plain = p.solver != S_LGMRES || p.K == 0;
    if (O_C05 && fresh_semantics && plain && o.it >= 1 && n <= 12) {
        std::vector<std::vector<Q>> Kr; std::vector<Q> z = left_kind(p) ? r0p : dmv(PD, r0);
        for (long k = 0; k < o.it; ++k) { Kr.push_back(z); z = dmv(PD, dmv(A, z)); }
        std::vector<Q> dx(n); for (long i = 0; i < n; ++i) dx[i] = o.x[i] - d.x0[i];
        std::vector<std::vector<Q>> K2 = Kr; K2.push_back(dx);
        if (rank_of(K2) != rank_of(Kr)) r.fail("x_k - x0 not in the (preconditioned) Krylov space of dimension k = iters");
        r.tag("krylov_membership");
    }
    // C05, labelled TEST (double): residual-norm minimisation over the Krylov space (one cycle, no restart)
    Dense Ainv, Pinv;
    if (O_C05 && fresh_semantics && (p.solver == S_GMRES || p.solver == S_FGMRES) && o.it >= 1 && o.it <= p.M && n >= 1 && n <= 10
            && small_entries(A, 1e3) && small_entries(PD, 1e3) && dinv(A, Ainv) && small_entries(Ainv, 1e3) && dinv(PD, Pinv) && small_entries(Pinv, 1e3)) {
        const long k = o.it;
        std::vector<std::vector<Q>> Kr; std::vector<Q> z = left_kind(p) ? r0p : dmv(PD, r0);
        for (long i = 0; i < k; ++i) { Kr.push_back(z); z = dmv(PD, dmv(A, z)); }
        // residual map: right/fgmres  y -> A y,  left  y -> P A y ;  target r0 resp. P r0
        std::vector<std::vector<Q>> W; for (auto &kv : Kr) { std::vector<Q> w = dmv(A, kv); if (left_kind(p)) w = dmv(PD, w); W.push_back(w); }
        Dense G(k, std::vector<Q>(k)); std::vector<Q> b(k), c;
        for (long i = 0; i < k; ++i) { b[i] = dot(W[i], r0p); for (long j = 0; j < k; ++j) G[i][j] = dot(W[i], W[j]); }
        if (solve_q(G, b, c)) {
            std::vector<Q> rm = r0p; for (long i = 0; i < k; ++i) for (long t = 0; t < n; ++t) rm[t] -= c[i] * W[i][t];
            double min_norm = std::sqrt(dot(rm, rm).v.get_d()), r0_norm = std::sqrt(dot(r0p, r0p).v.get_d());
            // the real solver at double
            auto Ad = crs_d(d.A); PrecD Pd; Pd.kind = d.pk; Pd.A = Ad;
            if (d.pk == 1) { std::vector<double> dv(n); for (long i = 0; i < n; ++i) dv[i] = d.pd[i].v.get_d(); Pd.d = std::make_shared<amgcl::backend::numa_vector<double>>(dv); }
            if (d.pk == 2) Pd.M = crs_d(d.PM);
            std::vector<double> fd(n), xd(n); for (long i = 0; i < n; ++i) { fd[i] = d.f[i].v.get_d(); xd[i] = d.x0[i].v.get_d(); }
            amgcl::backend::numa_vector<double> F(fd), X(xd);
            size_t itd = 0; double resd = 0;
            if (p.solver == S_GMRES) { amgcl::solver::gmres<BackendD>::params q; q.M = p.M; q.pside = side_of(p); q.maxiter = k; q.tol = 0; q.abstol = 0; q.ns_search = p.ns; amgcl::solver::gmres<BackendD> S(n, q); std::tie(itd, resd) = S(*Ad, Pd, F, X); }
            else { amgcl::solver::fgmres<BackendD>::params q; q.M = p.M; q.maxiter = k; q.tol = 0; q.abstol = 0; q.ns_search = p.ns; amgcl::solver::fgmres<BackendD> S(n, q); std::tie(itd, resd) = S(*Ad, Pd, F, X); }
            double nfd = tiny ? 1.0 : std::sqrt(dot(d.f, d.f).v.get_d());
            double got = resd * nfd;
            if (!(std::fabs(got - min_norm) <= 1e-6 * std::max(r0_norm, 1e-300))) {       // (NaN fails)
                std::ostringstream m; m << "TEST(double): gmres residual after k=" << k << " iterations " << got << " != least-squares minimum over the Krylov space " << min_norm;
                r.fail(m.str());
            }
            r.tag("ls_min_double_test");
        }
    }
    // C05: exact preconditioner and exact root -> one iteration, exact solution
    bool exactP = n > 0 && is_identity(dmul(PD, A));
    if (exactP) {
        r.tag("exact_prec");
        Q nr = res0; bool root_exact = nr * nr == dot(r0p, r0p);
        if (root_exact) r.tag("exact_root");
        bool applies = fresh_semantics && p.maxiter >= 1 && !conv0 && epsT > 0 && root_exact && dot(r0p, r0p) != 0;
        if (applies && O_C05) {
            if (o.it != 1) r.fail("exact preconditioner: expected exactly one iteration");
            for (long i = 0; i < n; ++i) if (tr[i] != 0) { r.fail("exact preconditioner: A x != f after one iteration"); break; }
            r.tag("exact_prec_one_step");
        }
    }
}


// ------------------------------------------------------------------ C05: the first cycle of LGMRES(M, K) is GMRES(M + K)
// The harness owns the preconditioner class, so it can watch the real solver from outside: TracePrec records the addresses
// of (input, output) of every apply().  gmres.hpp / lgmres.hpp call apply() in exactly these places:
//   right:  pass    preconditioner::spmv(right, P, A, z, v_new, *r)  ->  P.apply(z, *r)        output == r
//           update  P.apply(dx = *r, tmp = *v[0] resp. *ws[0])                                  input  == r
//   left:   head    P.apply(*v[0], *r)                                                          output == r
//           pass    preconditioner::spmv(left, ...) -> spmv(A, z, *r); P.apply(*r, v_new)       input  == r
// (r is the output of the first apply of a call on either side).  Hence the number of inner passes of every restart cycle
// of ONE call is observable: cycles = #updates (right) resp. #heads - 1 (left).  Every recorded apply must fall in one of
// the two classes and the passes must add up to the reported iteration count, otherwise the trace is declared unreadable
// and no verdict is derived from it.
struct TracePrec : Prec {
    mutable std::vector<std::pair<const void*, const void*>> log;
    template <class V1, class V2> void apply(const V1 &rhs, V2 &&x) const {
        log.push_back(std::make_pair((const void*)&rhs, (const void*)&x));
        Prec::apply(rhs, x);
    }
};
struct Traced { Out o; long cycles = 0, first_passes = 0; bool readable = false; };
template <class Solver> static Traced call_traced(const Solver &S, const CallData &d, bool left) {
    auto A = d.A.crs();
    TracePrec P; static_cast<Prec&>(P) = make_prec(d, A);
    NVec F(d.f), X(d.x0);
    Traced t;
    try { size_t it; Q res; std::tie(it, res) = S(*A, P, F, X); t.o.it = (long)it; t.o.res = res; }
    catch (const std::runtime_error&) { t.o.thrown = true; }
    t.o.x.assign(X.data(), X.data() + X.size());
    if (t.o.thrown) return t;
    if (P.log.empty()) { t.readable = t.o.it == 0; return t; }       // early return (left) / no pass made (right)
    const void *r = P.log[0].second;
    long passes = 0, updates = 0, heads = 0;
    for (auto &e : P.log) {
        if (left) {
            if (e.second == r && e.first != r) ++heads;
            else if (e.first == r && e.second != r) { ++passes; if (heads == 1) ++t.first_passes; }
            else return t;
        } else {
            if (e.second == r && e.first != r) { ++passes; if (updates == 0) ++t.first_passes; }
            else if (e.first == r && e.second != r) ++updates;
            else return t;
        }
    }
    t.cycles = left ? heads - 1 : updates;
    t.readable = passes == t.o.it && t.cycles >= 0;
    return t;
}

static const char *solver_name(int s) { return s == S_GMRES ? "gmres" : s == S_FGMRES ? "fgmres" : s == S_LGMRES ? "lgmres" : s == S_IDRS ? "idrs" : "bicgstabl"; }

static Out run_fresh(const Prm &p, const CallData &d) {
    switch (p.solver) {
        case S_GMRES:  { GMRES S(d.n(), gm_prm(p)); return call(S, d); }
        case S_FGMRES: { FGMRES S(d.n(), fg_prm(p)); return call(S, d); }
        case S_LGMRES: { LGMRES S(d.n(), lg_prm(p)); return call(S, d); }
        case S_IDRS:   { auto S = make_idrs(p, d.n()); return call(*S, d); }
        default:       { BICGSTABL S(d.n(), bl_prm(p)); return call(S, d); }
    }
}

template <class Solver>
static void run_history(const Solver &S, const Prm &p, const std::vector<CallData> &cs, Result &r) {
    std::string out; long total_it = 0;
    const bool carries = p.solver == S_LGMRES && !p.always_reset && p.K > 0;   // the documented exception of C15
    bool carried = false;                                                      // an earlier call stored an augmentation vector
    for (size_t k = 0; k < cs.size(); ++k) {
        Out o = call(S, cs[k]);                      // the shared object
        Out fr = run_fresh(p, cs[k]);                // a freshly constructed object, same call
        bool same = same_out(o, fr);
        if (!same) {
            if (carries) r.tag("lgmres_history_dependent");
            else if (O_C15) r.fail("history: call " + std::to_string(k) + " differs from the same call on a fresh object");
        }
        oracle(p, cs[k], o, r, !(carries && carried));
        if (carries && !o.thrown && o.it > 0) carried = true;
        if (k) out += " | ";
        out += show(o);
        total_it += o.thrown ? 0 : o.it;
    }
    r.out = out;
    r.nontrivial = cs.size() >= 2 && total_it >= 2;
    r.tag(std::string("hist_") + solver_name(p.solver)); r.tag("hist_len" + std::to_string(cs.size()));
    if (carries) r.tag("lgmres_no_reset");
}

static Result execute(const Toks &t) {
    Cur c(t);
    const std::string &op = t[0];
    Result r;
    int solver = -1; bool hist = false;
    if (op == "solve_gmres") solver = S_GMRES; else if (op == "solve_fgmres") solver = S_FGMRES; else if (op == "solve_lgmres") solver = S_LGMRES;
    else if (op == "solve_idrs") solver = S_IDRS; else if (op == "solve_bicgstabl") solver = S_BICGSTABL;
    else if (op == "hist_gmres") { solver = S_GMRES; hist = true; } else if (op == "hist_fgmres") { solver = S_FGMRES; hist = true; } else if (op == "hist_lgmres") { solver = S_LGMRES; hist = true; }
    else if (op == "hist_idrs") { solver = S_IDRS; hist = true; } else if (op == "hist_bicgstabl") { solver = S_BICGSTABL; hist = true; }
    else if (op == "lgmres_vs_gmres") {
        Prm p = parse_prm(S_LGMRES, c);
        CallData d = parse_call(c);
        c.expect_end(); validate(d);
        LGMRES SL(d.n(), lg_prm(p));
        Traced tl = call_traced(SL, d, p.left);
        Prm pg = p; pg.solver = S_GMRES; pg.M = p.M + p.K;
        GMRES SG(d.n(), gm_prm(pg));
        Traced tg = call_traced(SG, d, p.left);
        oracle(p, d, tl.o, r, true);
        r.out = show(tl.o);
        r.tag("lgmres_vs_gmres"); r.tag(p.left ? "left" : "right"); r.tag("M" + std::to_string(p.M)); r.tag("K" + std::to_string(p.K));
        if (!tl.readable || !tg.readable) { r.tag("trace_unreadable"); if (O_C05) r.fail("lgmres_vs_gmres: the apply() trace of the call could not be classified (head / pass / update)"); return r; }
        r.tag("cycles" + std::to_string(tl.cycles));
        const bool applies = p.K == 0 || tl.cycles <= 1;
        if (applies) {
            r.tag(p.K == 0 ? "K0_is_gmres" : "one_cycle_is_gmres");
            if (O_C05) {
                if (!same_out(tl.o, tg.o)) r.fail("LGMRES(M,K) with " + std::to_string(tl.cycles) + " restart cycle(s) differs from GMRES(M+K) on the same input");
                else if (tl.cycles != tg.cycles || tl.first_passes != tg.first_passes) r.fail("LGMRES(M,K) and GMRES(M+K) return the same result through different cycle structures");
            }
        } else {
            r.tag("multi_cycle");
            // the first cycle is still GMRES(M+K)'s: the same number of passes before the first update
            if (O_C05 && tl.first_passes != tg.first_passes) r.fail("first restart cycle of LGMRES(M,K) makes another number of passes than that of GMRES(M+K)");
        }
        r.nontrivial = applies && p.K >= 1 && tl.o.it >= 2;
        return r;
    }
    else if (op == "bicgstabl_vs_bicgstab") {
        // C05h `bicgstabl_L1_is_bicgstab`: BiCGStab(1) and BiCGStab walk through the same iterates.  The two codes differ
        // in the comparison with the threshold (bicgstab: `res > eps` / `norm(s) > eps`, bicgstabl: `zeta >= eps` /
        // `zeta < eps`) and in WHEN a breakdown is noticed (bicgstabl tests rho1 and sigma at once, bicgstab tests the
        // previous rho one pass later and never sigma).  Up to the first norm that EQUALS eps the trajectories coincide,
        // and at that point bicgstab returns with res == eps; hence: verdict iff both return normally and the residual
        // bicgstab reports is not exactly eps.  Independently: whenever bicgstab throws, bicgstabl must have thrown.
        Prm p = parse_prm(S_BICGSTABL, c);
        CallData d = parse_call(c);
        c.expect_end(); validate(d);
        BICGSTABL SL(d.n(), bl_prm(p));
        Out ol = call(SL, d);
        oracle(p, d, ol, r, true);
        r.out = show(ol);
        r.tag("bicgstabl_vs_bicgstab"); r.tag(p.left ? "left" : "right"); r.tag("L" + std::to_string(p.L)); if (p.delta > 0) r.tag("delta");
        if (p.L != 1) { r.tag("L_not_1"); return r; }
        BICGSTAB::params q; q.pside = side_of(p); q.check_after = false; q.maxiter = p.maxiter; q.tol = p.tol; q.abstol = p.abstol; q.ns_search = p.ns; q.verbose = false;
        BICGSTAB SB(d.n(), q);
        Out ob = call(SB, d);
        if (ob.thrown) { r.tag("bicgstab_threw"); if (O_C05 && !ol.thrown) r.fail("bicgstab throws (zero rho / zero omega) but bicgstabl with L = 1 returns normally on the same input"); return r; }
        if (ol.thrown) { r.tag("bicgstabl_threw_only"); return r; }
        Q nf = nrm(d.f); const bool tiny = nf < mach_eps();
        if (tiny && !p.ns) { r.tag("zero_rhs"); if (O_C05 && !same_out(ol, ob)) r.fail("zero rhs: bicgstabl(L=1) and bicgstab differ"); return r; }
        if (tiny) nf = Q(1);
        Q epsT = std::max(p.tol * nf, p.abstol);
        if ((ob.res * nf).v == epsT.v) { r.tag("residual_equals_eps"); return r; }      // `>` vs `>=`: no verdict
        r.tag("L1_is_bicgstab"); r.tag("it" + std::to_string(ob.it));
        if (O_C05 && !same_out(ol, ob)) {
            std::ostringstream m; m << "BiCGStab(1) and BiCGStab differ on the same input: bicgstabl " << show(ol) << " | bicgstab " << show(ob);
            r.fail(m.str());
        }
        r.nontrivial = ob.it >= 2;
        return r;
    }
    else if (op.rfind("dblhist_", 0) == 0) {
        std::string sn = op.substr(8); bool dbl_ok = false;
        for (int k = S_GMRES; k <= S_BICGSTABL; ++k) if (sn == solver_name(k)) { solver = k; dbl_ok = true; }
        if (!dbl_ok) { r.out = "bad-op"; return r; }
        Prm p = parse_prm(solver, c);
        long n = parse_nat(c), k = parse_nat(c);
        std::vector<CallData> cs; for (long i = 0; i < k; ++i) cs.push_back(parse_call(c));
        c.expect_end();
        for (auto &d : cs) { validate(d); if (d.n() != n) throw bad_input("n"); }
        typedef amgcl::solver::gmres<BackendD> GD; typedef amgcl::solver::fgmres<BackendD> FD; typedef amgcl::solver::lgmres<BackendD> LD;
        typedef amgcl::solver::idrs<BackendD> ID; typedef amgcl::solver::bicgstabl<BackendD> BD;
        auto common = [&](auto &q) { q.maxiter = p.maxiter; q.tol = p.tol.v.get_d(); q.abstol = p.abstol.v.get_d(); q.ns_search = p.ns; q.verbose = false; };
        if (solver == S_GMRES) dbl_history([&]() { GD::params q; q.M = p.M; q.pside = side_of(p); common(q); return std::make_shared<GD>(n, q); }, cs, r);
        else if (solver == S_FGMRES) dbl_history([&]() { FD::params q; q.M = p.M; common(q); return std::make_shared<FD>(n, q); }, cs, r);
        else if (solver == S_LGMRES) dbl_history([&]() { LD::params q; q.M = p.M; q.K = p.K; q.always_reset = true; q.pside = side_of(p); common(q); return std::make_shared<LD>(n, q); }, cs, r);
        else if (solver == S_IDRS) dbl_history([&]() { ID::params q; q.s = p.s; q.omega = p.omega.v.get_d(); q.smoothing = p.smoothing; q.replacement = p.replacement; common(q); return std::make_shared<ID>(n, q); }, cs, r);
        else dbl_history([&]() { BD::params q; q.L = (int)p.L; q.delta = p.delta.v.get_d(); q.convex = p.convex; q.pside = side_of(p); common(q); return std::make_shared<BD>(n, q); }, cs, r);
        r.out = "ok"; r.nontrivial = cs.size() >= 2; r.tag(std::string("dblhist_") + solver_name(solver));
        return r;
    }
    else { r.out = "bad-op"; return r; }
#ifdef _OPENMP
    if (omp_get_max_threads() != 1) { r.out = "harness-needs-OMP_NUM_THREADS=1"; r.fail("the idrs constructor seeds its generator per thread: run with one thread"); return r; }
#endif
    Prm p = parse_prm(solver, c);
    if (!hist) {
        CallData d = parse_call(c);
        if (solver == S_IDRS) { for (long j = 0; j < p.s; ++j) { p.raw.push_back(c.vec()); if ((long)p.raw.back().size() != d.n()) throw bad_input("raw"); } }
        c.expect_end(); validate(d);
        if (solver == S_IDRS) { bool nat = same_raw(p.raw, native_raw(d.n(), p.s)); r.tag(nat ? "P_native" : "P_injected"); r.tag("s" + std::to_string(p.s)); if (p.smoothing) r.tag("smoothing"); if (p.replacement) r.tag("replacement"); }
        if (solver == S_BICGSTABL) { r.tag("L" + std::to_string(p.L)); if (p.convex) r.tag("convex"); if (p.delta > 0) r.tag("delta"); }
        Out o = run_fresh(p, d);
        oracle(p, d, o, r, true);
        r.out = show(o);
        r.nontrivial = !o.thrown && o.it >= 2;
        r.tag(solver_name(solver)); if (solver != S_FGMRES && solver != S_IDRS) r.tag(p.left ? "left" : "right");
        if (solver < S_IDRS) r.tag("M" + std::to_string(p.M)); if (solver == S_LGMRES) r.tag("K" + std::to_string(p.K));
        if (!o.thrown) r.tag("it" + std::to_string(o.it));
        r.tag(d.pk == 0 ? "prec_id" : d.pk == 1 ? "prec_diag" : "prec_mat");
        r.tag(is_symmetric(d.A) ? "sym" : "nonsym");
        bool x0nz = false; for (auto &v : d.x0) if (v != 0) x0nz = true; if (x0nz) r.tag("x0_nonzero");
    } else {
        long n = parse_nat(c), k = parse_nat(c);
        if (solver == S_IDRS) { for (long j = 0; j < p.s; ++j) { p.raw.push_back(c.vec()); if ((long)p.raw.back().size() != n) throw bad_input("raw"); } }
        std::vector<CallData> cs;
        for (long i = 0; i < k; ++i) cs.push_back(parse_call(c));
        c.expect_end();
        for (auto &d : cs) { validate(d); if (d.n() != n) throw bad_input("n"); }
        if (solver == S_GMRES) { GMRES S(n, gm_prm(p)); run_history(S, p, cs, r); }
        else if (solver == S_FGMRES) { FGMRES S(n, fg_prm(p)); run_history(S, p, cs, r); }
        else if (solver == S_LGMRES) { LGMRES S(n, lg_prm(p)); run_history(S, p, cs, r); }
        else if (solver == S_IDRS) { bool nat; auto S = make_idrs(p, n, &nat); run_history(*S, p, cs, r); r.tag(nat ? "P_native" : "P_injected"); }
        else { BICGSTABL S(n, bl_prm(p)); run_history(S, p, cs, r); }
    }
    return r;
}

// ------------------------------------------------------------------ generators
static void put_prm(Rng &rng, Line &l, int solver, long maxit_hi) {
    if (solver == S_IDRS) {
        static const std::vector<Q> om = { Q(0), Q::frac(7, 10), Q::frac(7, 10), Q::frac(1, 2), Q::frac(9, 10), Q(2) };
        l << rng.range(1, 3) << rng.pick(om) << rng.coin(1, 3) << rng.coin(1, 3);
        l << rng.range(0, maxit_hi) << gen_tol(rng) << gen_abstol(rng) << rng.coin(1, 6);
        return;
    }
    if (solver == S_BICGSTABL) {
        static const std::vector<Q> dl = { Q(0), Q(0), Q(0), Q::frac(1, 100), Q::frac(1, 2), Q(1), Q(5) };
        l << (rng.coin() ? "left" : "right") << rng.range(1, 3) << rng.pick(dl) << rng.coin();
        l << rng.range(0, maxit_hi) << gen_tol(rng) << gen_abstol(rng) << rng.coin(1, 6);
        return;
    }
    if (solver == S_GMRES || solver == S_LGMRES) l << (rng.coin() ? "left" : "right");
    if (solver == S_LGMRES) { long K = rng.range(0, 2); l << rng.range(1, 3 - (K > 1 ? 1 : 0)) << K << rng.coin(); }
    else l << rng.range(1, 4);
    l << rng.range(0, maxit_hi) << gen_tol(rng) << gen_abstol(rng);
    l << rng.coin(1, 6);
}
// right-hand sides whose norm has an exact rational root (so that the exact-preconditioner clause is testable)
static std::vector<Q> pythag(Rng &rng, long n) {
    static const std::vector<std::vector<long>> base = { {3, 4}, {1, 2, 2}, {2, 3, 6}, {1, 4, 8}, {5, 12}, {2, 2, 1}, {7}, {6, 8} };
    std::vector<Q> f(n, Q(0)); if (!n) return f;
    for (int tries = 0; tries < 20; ++tries) {
        const auto &b = rng.pick(base); if ((long)b.size() > n) continue;
        std::vector<long> pos; for (long i = 0; i < n; ++i) pos.push_back(i);
        for (size_t i = 0; i < b.size(); ++i) { long k = rng.range((long)i, n - 1); std::swap(pos[i], pos[k]); f[pos[i]] = Q(rng.coin() ? b[i] : -b[i]); }
        return f;
    }
    f[0] = Q(2); return f;
}
static void put_call2(Rng &rng, Line &l, long n) {
    std::string fam, kind; Mat A = gen_matrix(rng, n, fam);
    n = A.n;
    if (n > 0 && rng.coin(1, 8)) {                  // exact inverse as preconditioner, rhs with an exact norm, x0 = 0
        Dense I;
        if (dinv(dense(A), I)) { l << A << "mat" << dense_to_mat(I) << pythag(rng, n) << std::vector<Q>(n, Q(0)); return; }
    }
    l << A; put_prec(rng, l, A);
    std::vector<Q> f = gen_rhs(rng, n, kind);
    l << f << gen_x0(rng, A, f);
}

// the s raw vectors of an idrs object of size n: the native stream, or small rationals (also degenerate ones)
static void put_raw(Rng &rng, Line &l, long n, long s) {
    int k = (int)rng.range(0, 9);
    if (k < 3) { auto raw = native_raw(n, s); for (auto &v : raw) l << v; return; }
    for (long j = 0; j < s; ++j) {
        std::vector<Q> v = gen_vec(rng, n, rng.coin());
        if (k == 9 && j == s - 1) v = std::vector<Q>(n, Q(0));          // a zero shadow vector -> zero pivot
        l << v;
    }
}
static long prm_s(const std::string &prm_line) { return atol(split(prm_line)[0].c_str()); }

// a double-precision history whose first call(s) overflow: SPD matrix scaled by 10^200 (all entries finite doubles)
static std::string gen_dblhist(Rng &rng, int solver) {
    Line l; l << (std::string("dblhist_") + solver_name(solver));
    Line pl;
    if (solver == S_IDRS) pl << rng.range(2, 4) << Q::frac(7, 10) << rng.coin(1, 3) << rng.coin(1, 3);
    else if (solver == S_BICGSTABL) pl << (rng.coin() ? "left" : "right") << rng.range(1, 3) << (rng.coin() ? Q(0) : Q::frac(1, 100)) << rng.coin();
    else { if (solver != S_FGMRES) pl << (rng.coin() ? "left" : "right"); pl << rng.range(2, 5); if (solver == S_LGMRES) pl << rng.range(0, 2) << 1L; }
    pl << rng.range(6, 20) << Q::frac(1, 100000000) << Q(0) << 0L;
    l << pl.get();
    long n = rng.range(4, 9), len = rng.range(2, 3);
    static const Q big = Q::parse("1" + std::string(200, '0'));
    // how the leading call(s) fail: 0 overflow (entries * 10^200), 1 the zero matrix on the same pattern (zero pivots /
    // breakdown exceptions: the call THROWS after it has written into the work space), 2 a singular matrix (all stored
    // entries 1), 3 overflow in the right-hand side only, 4 zero matrix as the solve-time matrix with a huge rhs
    const long mode = rng.range(0, 4);
    l << n << len;
    for (long j = 0; j < len; ++j) {
        Mat A = gen_spd(rng, n, 0);
        if (A.n != n) { Dense D(n, std::vector<Q>(n)); for (long i = 0; i < n; ++i) { D[i][i] = Q(4); if (i) D[i][i-1] = Q(-1); if (i + 1 < n) D[i][i+1] = Q(-1); } A = dense_to_mat(D); }
        std::vector<Q> f = gen_vec(rng, n, true);
        if (j + 1 < len) {                                             // the failing calls come first
            if (mode == 0) for (auto &v : A.val) v = v * big;
            else if (mode == 1 || mode == 4) for (auto &v : A.val) v = Q(0);
            else if (mode == 2) for (auto &v : A.val) v = Q(1);
            if (mode == 3 || mode == 4) for (auto &v : f) v = v * big;
        }
        l << A << "id" << f << std::vector<Q>(n, Q(0));
    }
    return l.get();
}

static void generate(Rng &rng, const Opts &o, std::vector<std::string> &lines) {
    long N = o.cases > 0 ? o.cases : (o.thorough() ? 3000 : 420);
    // fixed edge cases: 1x1, n = 0, zero matrix, maxiter 0, restart with M = 1, identity matrix (breakdown-like H(1,0) = 0)
    lines.push_back("solve_gmres right 2 3 0 0 0 2 2 0 0 id 2 1 2 2 0 0");
    lines.push_back("solve_gmres left 2 3 0 0 0 2 2 0 0 id 2 1 2 2 0 0");
    lines.push_back("solve_gmres right 1 4 1/100 0 0 2 2 2 0 2 1 1 2 0 1 1 3 id 2 1 3 2 0 0");
    lines.push_back("solve_gmres right 3 5 1/100 0 0 1 1 1 0 2 id 1 4 1 0");
    lines.push_back("solve_gmres left 2 2 1/100 0 0 0 0 id 0 0");
    lines.push_back("solve_gmres right 2 0 1/10 0 0 2 2 1 0 2 1 1 3 id 2 1 2 2 0 0");
    lines.push_back("solve_gmres right 2 4 1/1000 0 0 2 2 1 0 1 1 1 1 id 2 3 4 2 0 0");
    lines.push_back("solve_fgmres 2 3 0 0 0 2 2 0 0 id 2 1 2 2 0 0");
    lines.push_back("solve_fgmres 2 4 1/1000 0 0 2 2 2 0 2 1 1 2 0 1 1 3 diag 2 1/2 1/3 2 3 4 2 0 0");
    lines.push_back("solve_fgmres 1 3 1/100 0 0 0 0 id 0 0");
    lines.push_back("solve_lgmres right 2 1 1 5 1/1000 0 0 2 2 2 0 2 1 1 2 0 1 1 3 id 2 1 3 2 0 0");
    lines.push_back("solve_lgmres left 1 2 0 4 0 0 0 2 2 2 0 2 1 1 2 0 1 1 3 diag 2 1/2 1/3 2 1 3 2 1 1");
    lines.push_back("solve_lgmres right 2 0 1 3 0 0 0 2 2 0 0 id 2 1 2 2 0 0");
    lines.push_back("hist_lgmres right 1 2 0 3 0 0 0 2 2 2 2 0 2 1 1 2 0 1 1 3 id 2 1 3 2 0 0 2 2 2 0 2 1 1 2 0 1 1 3 id 2 1 3 2 0 0");
    lines.push_back("solve_idrs 1 7/10 0 0 4 0 0 0 2 2 2 0 2 1 1 2 0 1 1 3 id 2 1 3 2 0 0 2 1 0");
    lines.push_back("solve_idrs 2 7/10 1 1 5 1/1000 0 0 2 2 2 0 2 1 1 2 0 1 1 3 diag 2 1/2 1/3 2 1 3 2 1 1 2 1 0 2 1 1");
    lines.push_back("solve_idrs 2 0 0 0 3 0 0 0 2 2 2 0 2 1 1 2 0 1 1 3 id 2 1 3 2 0 0 2 1 0 2 0 0");       // zero shadow vector: zero pivot
    lines.push_back("solve_idrs 1 7/10 0 0 3 0 0 0 2 2 0 0 id 2 1 2 2 0 0 2 1 1");                            // zero matrix
    lines.push_back("solve_idrs 1 7/10 0 0 3 0 0 0 0 0 id 0 0 0");                                            // n = 0
    lines.push_back("solve_bicgstabl right 1 0 1 4 0 0 0 2 2 2 0 2 1 1 2 0 1 1 3 id 2 1 3 2 0 0");
    lines.push_back("solve_bicgstabl left 2 0 0 4 1/1000 0 0 2 2 2 0 2 1 1 2 0 1 1 3 diag 2 1/2 1/3 2 1 3 2 1 1");
    lines.push_back("solve_bicgstabl right 2 1/2 0 6 0 0 0 3 3 2 0 2 1 1 3 0 1 1 3 2 1 2 1 1 2 4 id 3 1 3 2 3 0 0 0");
    lines.push_back("solve_bicgstabl right 3 0 0 3 0 0 0 2 2 0 0 id 2 1 2 2 0 0");                             // zero matrix: zero sigma
    lines.push_back("solve_bicgstabl left 2 0 1 3 0 0 0 0 0 id 0 0");                                          // n = 0
    // an Arnoldi step with H(j,j) == 0 exactly and H(j+1,j) != 0 (generate_plane_rotation's |dy| > |dx| branch with dx = 0):
    // cyclic shift matrix, r0 = e_0, identity preconditioner; also a 2x2 saddle-point-like matrix with zero diagonal
    lines.push_back("solve_gmres right 3 3 1/1000 0 0 3 3 1 2 1 1 0 1 1 1 1 id 3 1 0 0 3 0 0 0");
    lines.push_back("solve_gmres left 2 3 1/1000 0 0 3 3 1 2 1 1 0 1 1 1 1 id 3 1 0 0 3 0 0 0");
    lines.push_back("solve_fgmres 3 3 1/1000 0 0 3 3 1 2 1 1 0 1 1 1 1 id 3 1 0 0 3 0 0 0");
    lines.push_back("solve_lgmres right 2 1 1 3 1/1000 0 0 3 3 1 2 1 1 0 1 1 1 1 id 3 1 0 0 3 0 0 0");
    lines.push_back("solve_gmres right 2 2 1/1000 0 0 2 2 1 1 2 1 0 3 id 2 4 0 2 0 0");
    // GMRES that does not converge, maxiter not a multiple of M / smaller than M (the budget must hold inside a cycle)
    lines.push_back("solve_gmres right 3 2 0 0 0 4 4 2 0 4 1 -1 3 0 -1 1 4 2 -1 3 1 -1 2 4 3 -1 2 2 -1 3 4 id 4 1 2 3 4 4 0 0 0 0");
    lines.push_back("solve_gmres left 2 3 0 0 0 4 4 2 0 4 1 -1 3 0 -1 1 4 2 -1 3 1 -1 2 4 3 -1 2 2 -1 3 4 diag 4 1/4 1/4 1/4 1/4 4 1 2 3 4 4 1 0 0 1");
    // BiCGStab(L), right preconditioning, non-zero initial guess (the final update must ADD P X to x)
    lines.push_back("solve_bicgstabl right 2 0 1 4 0 0 0 3 3 2 0 4 1 -1 3 0 -1 1 4 2 -1 2 1 -1 2 4 diag 3 1/4 1/4 1/4 3 1 2 3 3 1 -1 2");
    // IDR(2) history on one object: the first call leaves non-zero values in the strict lower triangle of M
    lines.push_back("hist_idrs 2 7/10 0 0 3 0 0 0 3 2 3 1 0 1 3 0 1 2 3 3 2 0 4 1 -1 3 0 -1 1 4 2 -1 2 1 -1 2 4 id 3 1 2 3 3 0 0 0 3 3 2 0 3 1 1 3 0 -1 1 5 2 1 2 1 -2 2 4 id 3 2 0 1 3 1 1 0");
    // LGMRES(M,K) vs GMRES(M+K): one cycle of M+K = 3 passes; K = 0 with restarts; two cycles (no verdict); left side
    lines.push_back("lgmres_vs_gmres right 2 1 1 3 0 0 0 3 3 2 0 3 2 1 3 0 4 1 5 2 2 2 1 4 2 3 id 3 25 0 0 3 0 0 0");
    lines.push_back("lgmres_vs_gmres right 1 0 1 4 0 0 0 3 3 2 0 3 2 1 3 0 4 1 5 2 2 2 1 4 2 3 id 3 25 0 0 3 0 0 0");
    lines.push_back("lgmres_vs_gmres right 1 1 1 4 0 0 0 3 3 2 0 3 2 1 3 0 4 1 5 2 2 2 1 4 2 3 id 3 25 0 0 3 0 0 0");
    lines.push_back("lgmres_vs_gmres left 1 2 1 3 0 0 0 3 3 2 0 3 2 1 3 0 4 1 5 2 2 2 1 4 2 3 diag 3 1/3 1/5 1/3 3 25 0 0 3 1 0 1");
    lines.push_back("lgmres_vs_gmres right 2 1 1 0 0 0 0 2 2 1 0 1 1 1 1 id 2 1 2 2 0 0");                      // maxiter 0
    lines.push_back("lgmres_vs_gmres right 2 1 1 3 0 0 0 2 2 1 0 1 1 1 1 id 2 0 0 2 1 1");                      // zero rhs
    lines.push_back("lgmres_vs_gmres right 0 1 1 3 0 0 0 2 2 1 0 1 1 1 1 id 2 1 2 2 0 0");                      // M = 0: bad-input
    // malformed stream
    lines.push_back("solve_idrs 0 7/10 0 0 3 0 0 0 2 2 1 0 1 1 1 1 id 2 1 2 2 0 0");                          // s = 0
    lines.push_back("solve_idrs 1 7/10 0 0 3 0 0 0 2 2 1 0 1 1 1 1 id 2 1 2 2 0 0 3 1 1 1");                  // raw vector of wrong size
    lines.push_back("solve_idrs 2 7/10 0 0 3 0 0 0 2 2 1 0 1 1 1 1 id 2 1 2 2 0 0 2 1 1");                    // raw vector missing
    lines.push_back("solve_bicgstabl right 0 0 1 3 0 0 0 2 2 1 0 1 1 1 1 id 2 1 2 2 0 0");                    // L = 0
    lines.push_back("solve_bicgstabl right 1 0 2 3 0 0 0 2 2 1 0 1 1 1 1 id 2 1 2 2 0 0");                    // convex not a boolean
    lines.push_back("solve_gmres right 0 3 0 0 0 2 2 1 0 1 1 1 1 id 2 1 2 2 0 0");              // M = 0
    lines.push_back("solve_fgmres 0 3 0 0 0 2 2 1 0 1 1 1 1 id 2 1 2 2 0 0");                    // M = 0
    lines.push_back("solve_lgmres right 0 1 1 3 0 0 0 2 2 1 0 1 1 1 1 id 2 1 2 2 0 0");          // M = 0
    lines.push_back("solve_gmres up 2 3 0 0 0 2 2 1 0 1 1 1 1 id 2 1 2 2 0 0");                  // bad side
    lines.push_back("solve_gmres right 2 3 0 0 0 2 2 1 0 1 1 1 1 id 3 1 2 3 2 0 0");             // rhs too long
    lines.push_back("solve_gmres right 2 3 0 0 0 2 2 1 2 1 1 1 1 id 2 1 2 2 0 0");               // column out of range
    lines.push_back("solve_fgmres 2 3 0 0 0 2 3 1 0 1 1 1 1 id 2 1 2 2 0 0");                    // non-square
    lines.push_back("solve_fgmres 2 x 0 0 0 2 2 1 0 1 1 1 1 id 2 1 2 2 0 0");                    // maxiter not a number
    lines.push_back("solve_lgmres right 2 1 2 3 0 0 0 2 2 1 0 1 1 1 1 id 2 1 2 2 0 0");          // always_reset not a boolean
    lines.push_back("solve_gmres right 2 3 0 0 0 2 2 1 0 1 1 1 1 id 2 1 2 2 0 0 7");             // trailing token
    lines.push_back("solve_gmres right 2 3 0 0 0 2 2 1 0 1 1 1 1 id 2 1 2 2 0");                 // x0 too short
    lines.push_back("hist_gmres right 2 3 0 0 0 2 2 2 2 1 0 1 1 1 1 id 2 1 2 2 0 0 1 1 1 0 1 id 1 1 1 0");   // second call has another n
    for (int rep = 0; rep < (o.thorough() ? 30 : 8); ++rep) for (int solver = S_GMRES; solver <= S_BICGSTABL; ++solver) lines.push_back(gen_dblhist(rng, solver));
    const long nmax = o.thorough() ? 8 : 6;
    for (long k = 0; k < N; ++k) {
        Line l;
        int which = (int)rng.range(0, 31);
        long n = rng.range(1, nmax);
        if (rng.coin(1, 40)) n = 0;
        if (which < 5) { l << "solve_gmres"; put_prm(rng, l, S_GMRES, 4); put_call2(rng, l, n); }
        else if (which < 8) { l << "solve_fgmres"; put_prm(rng, l, S_FGMRES, 4); put_call2(rng, l, n); }
        else if (which < 12) { l << "solve_lgmres"; put_prm(rng, l, S_LGMRES, 4); put_call2(rng, l, n); }
        else if (which < 17) {
            l << "solve_idrs"; Line pl; put_prm(rng, pl, S_IDRS, 6); l << pl.get();
            Line cl; put_call2(rng, cl, n); l << cl.get();
            long nn = atol(split(cl.get())[0].c_str());
            put_raw(rng, l, nn, prm_s(pl.get()));
        }
        else if (which < 22) { l << "solve_bicgstabl"; put_prm(rng, l, S_BICGSTABL, 6); put_call2(rng, l, n); }
        else {
            int solver = which < 24 ? S_GMRES : which < 25 ? S_FGMRES : which < 28 ? S_LGMRES : which < 30 ? S_IDRS : S_BICGSTABL;
            l << (std::string("hist_") + solver_name(solver));
            Line pl;
            if (solver == S_LGMRES && rng.coin(2, 3)) {            // histories that exercise the carried augmentation vectors
                pl << (rng.coin() ? "left" : "right") << rng.range(1, 2) << rng.range(1, 2) << rng.coin(1, 3) << rng.range(2, 4) << gen_tol(rng) << gen_abstol(rng) << 0L;
            } else put_prm(rng, pl, solver, solver >= S_IDRS ? 4 : 3);
            l << pl.get();
            long len = rng.range(2, o.thorough() ? 5 : 3);
            n = rng.range(1, 4);
            std::vector<std::string> calls;
            for (long j = 0; j < len; ) {
                Line c; std::string fam, kind; Mat A = gen_matrix(rng, n, fam);
                if (A.n != n) continue;
                c << A; put_prec(rng, c, A); std::vector<Q> f = gen_rhs(rng, n, kind); c << f << gen_x0(rng, A, f);
                calls.push_back(c.get()); ++j;
            }
            l << n << len;
            if (solver == S_IDRS) put_raw(rng, l, n, prm_s(pl.get()));
            for (auto &s : calls) l << s;
        }
        lines.push_back(l.get());
    }
    // LGMRES(M,K) vs GMRES(M+K) (C05f): generated AFTER all other cases so that their stream is unchanged; maxiter mostly
    // within one cycle, thresholds mostly 0
    for (long k = 0; k < N / 8; ++k) {
        Line l;
        long n = rng.range(1, nmax);
        l << "lgmres_vs_gmres";
        long K = rng.range(0, 2), M = rng.range(1, 3 - (K > 1 ? 1 : 0));
        long mx = rng.coin(3, 4) ? rng.range(1, std::min<long>(M + K, 4)) : rng.range(0, 4);
        l << (rng.coin() ? "left" : "right") << M << K << rng.coin();
        if (rng.coin(2, 3)) l << mx << Q(0) << Q(0) << 0L; else l << mx << gen_tol(rng) << gen_abstol(rng) << rng.coin(1, 6);
        put_call2(rng, l, n);
        lines.push_back(l.get());
    }
    // BiCGStab(1) vs BiCGStab (C05h): generated after everything else (the earlier stream is unchanged)
    lines.push_back("bicgstabl_vs_bicgstab right 1 0 1 4 0 0 0 3 3 2 0 4 1 -1 3 0 -1 1 4 2 -1 2 1 -1 2 4 diag 3 1/4 1/4 1/4 3 1 2 3 3 1 -1 2");
    lines.push_back("bicgstabl_vs_bicgstab left 1 1/2 0 3 1/1000 0 0 2 2 2 0 2 1 1 2 0 1 1 3 diag 2 1/2 1/3 2 1 3 2 1 1");
    lines.push_back("bicgstabl_vs_bicgstab right 2 0 1 4 0 0 0 2 2 2 0 2 1 1 2 0 1 1 3 id 2 1 3 2 0 0");      // L = 2: model only
    lines.push_back("bicgstabl_vs_bicgstab right 1 0 1 4 0 0 0 2 2 0 0 id 2 1 2 2 0 0");                      // zero matrix: both throw / sigma
    lines.push_back("bicgstabl_vs_bicgstab right 0 0 1 4 0 0 0 2 2 1 0 1 1 1 1 id 2 1 2 2 0 0");              // L = 0: bad-input
    for (long k = 0; k < N / 6; ++k) {
        Line l;
        long n = rng.range(1, nmax);
        static const std::vector<Q> dl = { Q(0), Q(0), Q(0), Q::frac(1, 100), Q::frac(1, 2), Q(1), Q(5) };
        l << "bicgstabl_vs_bicgstab" << (rng.coin() ? "left" : "right") << 1L << rng.pick(dl) << rng.coin();
        if (rng.coin(1, 2)) l << rng.range(1, 5) << Q(0) << Q(0) << 0L; else l << rng.range(0, 6) << gen_tol(rng) << gen_abstol(rng) << rng.coin(1, 6);
        put_call2(rng, l, n);
        lines.push_back(l.get());
    }
}

VH_MAIN(generate, execute)
