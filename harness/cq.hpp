// Exact Gaussian rationals std::complex<Q> as an amgcl value type (C16 complex ops).  Include BEFORE any amgcl header.
// Every operation of libstdc++'s generic std::complex<T> that amgcl uses (+ - * /, conj, norm, ==) is exact at T = Q; division is
// z / w = z * conj(w) / |w|^2 with the total division of Q (z / 0 = 0), as the Lean carrier CRat.
// std::abs(std::complex<Q>) (math::norm of a complex scalar, i.e. the pivot magnitude of detail::inverse) is libstdc++'s generic
// __complex_abs spelled out for Q: s * rsqrt((x/s)^2 + (y/s)^2) with s = max(|x|, |y|) (0 for z = 0).  (The generic template
// itself does not compile for Q: inside namespace std the unqualified abs / sqrt calls are ambiguous between the std:: overloads of
// qtype.hpp and ADL.)  The Lean driver evaluates the same function (Driver/DirectC.lean, cabs).
#pragma once
#include "qtype.hpp"
#include <complex>
namespace std {
template <> inline vq::Q abs<vq::Q>(const complex<vq::Q> &z) {
    vq::Q x = z.real(), y = z.imag();
    const vq::Q ax = vq::abs(x), ay = vq::abs(y);
    const vq::Q s = ax < ay ? ay : ax;
    if (s.v == 0) return s;
    x /= s; y /= s;
    return s * vq::sqrt(x * x + y * y);
}
}
