// C17 harness (oracle-only part): solves through the reorder / scaled-problem adapters and the row-order independence
// of every solver / preconditioner class that accepts a user matrix.  Real amgcl code at the exact type Q; the oracle
// is always evaluated against the ORIGINAL system.
//   s_reorder kind ord A perm f   solve (Pi A Pi^T) y = Pi f through adapter::reorder (ord 0: the given permutation,
//                                 ord 1: reorder<cuthill_mckee<false>>, 2: cuthill_mckee<true>), x = inverse(y):
//                                 kind 0 exact solve: A x == f; kind 1 AMG + BiCGStab: reported residual == residual of x in A x = f
//   s_scaled  kind A f            solve (S A S) y = S f with scale_diagonal (S = 1/rsqrt|a_ii|), x = S y: same oracles
//   s_order   cls b A pmask f     preconditioner / solver class built from a row-SHUFFLED user matrix equals the one built
//                                 from the sorted matrix (apply on all unit vectors / full solve):
//                                 cls 0 make_block_solver<amg<builtin<static_matrix<Q,b,b>>, .., ilu0>, bicgstab> (solve),
//                                 1 preconditioner::cpr<amg, as_preconditioner<ilu0>> (block_size b), 2 preconditioner::cpr_drs,
//                                 3 preconditioner::schur_pressure_correction (pmask), 4 make_solver<amg,..> (solve),
//                                 5 preconditioner::dummy
// Output: `<iters> <reported residual>` | `exact` | `same` | `breakdown`; no Lean model is involved ("no_model").
#include "gen_adapters.hpp"
#include <amgcl/adapter/crs_tuple.hpp>
#include <amgcl/adapter/block_matrix.hpp>
#include <amgcl/adapter/reorder.hpp>
#include <amgcl/adapter/scaled_problem.hpp>
#include <amgcl/value_type/static_matrix.hpp>
#include <amgcl/make_solver.hpp>
#include <amgcl/make_block_solver.hpp>
#include <amgcl/amg.hpp>
#include <amgcl/coarsening/aggregation.hpp>
#include <amgcl/coarsening/smoothed_aggregation.hpp>
#include <amgcl/relaxation/ilu0.hpp>
#include <amgcl/relaxation/spai0.hpp>
#include <amgcl/relaxation/gauss_seidel.hpp>
#include <amgcl/relaxation/as_preconditioner.hpp>
#include <amgcl/solver/bicgstab.hpp>
#include <amgcl/solver/preonly.hpp>
#include <amgcl/preconditioner/dummy.hpp>
#include <amgcl/preconditioner/cpr.hpp>
#include <amgcl/preconditioner/cpr_drs.hpp>
#include <amgcl/preconditioner/schur_pressure_correction.hpp>
using namespace vh;
namespace C = amgcl::coarsening; namespace R = amgcl::relaxation; namespace S = amgcl::solver;
typedef amgcl::backend::builtin<Q> SB;

static std::vector<Q> to_std(const NVec &v) { std::vector<Q> r(v.size()); for (size_t i = 0; i < v.size(); ++i) r[i] = v[i]; return r; }
static Q dot(const std::vector<Q> &a, const std::vector<Q> &b) { Q s(0); for (size_t i = 0; i < a.size(); ++i) s += a[i] * b[i]; return s; }
static Q nrm(const std::vector<Q> &v) { return vq::sqrt(vq::abs(dot(v, v))); }
static bool veq(const std::vector<Q> &a, const std::vector<Q> &b) { if (a.size() != b.size()) return false; for (size_t i = 0; i < a.size(); ++i) if (a[i].v != b[i].v) return false; return true; }
static Mat checked(Cur &c) { Mat A = c.mat(); std::string why; if (!crs_wf(*A.crs(), why)) throw bad_input(why); return A; }
static Mat sorted_copy(const Mat &A) {
    auto rows = to_rows(A); for (auto &r : rows) std::stable_sort(r.begin(), r.end(), [](const std::pair<long,Q> &a, const std::pair<long,Q> &b) { return a.first < b.first; });
    return from_rows(A.n, A.m, rows);
}
static bool full_diag(const Mat &A) { for (long i = 0; i < A.n; ++i) { bool d = false; for (auto j = A.ptr[i]; j < A.ptr[i+1]; ++j) if (A.col[j] == i) d = true; if (!d) return false; } return true; }

static void judge(Result &r, const Mat &A, const std::vector<Q> &f, const std::vector<Q> &x, long kind, size_t iters, const Q &res, const char *what) {
    std::vector<Q> rr = dmv(dense(A), x); for (size_t i = 0; i < rr.size(); ++i) rr[i] = f[i] - rr[i];
    if (kind == 0) {
        for (auto &e : rr) if (e != 0) { r.fail(std::string(what) + ": the back-transformed solution does not satisfy the original system"); break; }
        r.out = "exact";
    } else {
        Q truth = nrm(rr) / nrm(f);
        if (res.v != truth.v) r.fail(std::string(what) + ": reported residual is not the residual of the back-transformed x in the original system");
        r.out = (Line() << iters << res).get(); r.tag("it" + std::to_string(iters));
    }
}
template <class Prm> static void amg_prm(Prm &p, long kind) {
    if (kind == 0) { p.coarse_enough = 100000; p.direct_coarse = true; } else { p.coarse_enough = 1; p.direct_coarse = true; }
}
template <class SP> static void it_prm(SP &p) { p.maxiter = 3; p.tol = 0; p.abstol = 0; }

static std::vector<ptrdiff_t> g_perm;
struct fixed_order { template <class Matrix, class Vector> static void get(const Matrix&, Vector &perm) { for (size_t i = 0; i < g_perm.size(); ++i) perm[i] = g_perm[i]; } };

typedef amgcl::make_solver<amgcl::amg<SB, C::smoothed_aggregation, R::spai0>, S::preonly<SB>> ExactSolver;
typedef amgcl::make_solver<amgcl::amg<SB, C::smoothed_aggregation, R::ilu0>, S::bicgstab<SB>> IterSolver;

template <class Ord> static void run_reorder(Result &r, const Mat &A, const std::vector<Q> &f, long kind) {
    std::vector<ptrdiff_t> ptr(A.ptr), col(A.col); std::vector<Q> val(A.val); ptrdiff_t n = A.n;
    auto At = std::tie(n, ptr, col, val);
    amgcl::adapter::reorder<Ord> perm(At);
    std::vector<Q> F(f), Fp(A.n), Y(A.n, Q(0)), X(A.n, Q::poisoned());
    perm.forward(F, Fp);
    size_t it = 0; Q res(0);
    try {
        if (kind == 0) { ExactSolver::params p; amg_prm(p.precond, 0); ExactSolver solve(perm(At), p); std::tie(it, res) = solve(Fp, Y); }
        else { IterSolver::params p; amg_prm(p.precond, 1); it_prm(p.solver); IterSolver solve(perm(At), p); std::tie(it, res) = solve(Fp, Y); }
        perm.inverse(Y, X);
        judge(r, A, f, X, kind, it, res, "reorder adapter");
        // second documented usage: the views perm(rhs), perm(x) instead of forward / inverse
        if (kind == 0) {
            std::vector<Q> X2(A.n, Q(0)); ExactSolver::params p; amg_prm(p.precond, 0); ExactSolver solve(perm(At), p);
            auto fv = perm(F); auto xv = perm(X2);
            solve(fv, xv);
            if (!veq(X2, X)) r.fail("reorder adapter: solving on the reordered_vector views differs from forward / inverse");
        }
    } catch (const std::runtime_error &e) { r.out = "breakdown"; r.tag("breakdown"); if (kind == 0) r.fail(std::string("exact solve threw: ") + e.what()); }
}

// ---- row-order independence of classes that accept a user matrix
struct Built { bool threw = false; std::vector<std::vector<Q>> cols; };
template <class P, class Prm> static Built build_apply(const Mat &A, const Prm &prm) {      // preconditioner interface: apply on every unit vector
    Built b; std::vector<ptrdiff_t> ptr(A.ptr), col(A.col); std::vector<Q> val(A.val); ptrdiff_t n = A.n;
    try {
        P p(std::tie(n, ptr, col, val), prm);
        for (long k = 0; k < A.n; ++k) { std::vector<Q> e(A.n, Q(0)); e[k] = Q(1); NVec F = nvec(e), X(A.n); for (long i = 0; i < A.n; ++i) X[i] = Q::poisoned(); p.apply(F, X); b.cols.push_back(to_std(X)); }
    } catch (const std::exception &e) { if (getenv("VH_DEBUG")) std::cerr << "exception: " << e.what() << "\n"; b.threw = true; }
    return b;
}
template <class Sv, class Prm> static Built build_solve(const Mat &A, const Prm &prm, const std::vector<Q> &f) {   // solver interface: one solve
    Built b; std::vector<ptrdiff_t> ptr(A.ptr), col(A.col); std::vector<Q> val(A.val); ptrdiff_t n = A.n;
    try {
        Sv solve(std::tie(n, ptr, col, val), prm);
        NVec F = nvec(f), X(A.n); for (long i = 0; i < A.n; ++i) X[i] = Q(0);
        size_t it; Q res; std::tie(it, res) = solve(F, X);
        b.cols.push_back(to_std(X)); b.cols.push_back({ Q((long)it), res });
    } catch (const std::exception &e) { if (getenv("VH_DEBUG")) std::cerr << "exception: " << e.what() << "\n"; b.threw = true; }
    return b;
}
static void compare(Result &r, const Built &s, const Built &u, const std::string &name) {
    if (s.threw != u.threw) { r.fail(name + ": construction from the row-shuffled user matrix " + (u.threw ? "throws" : "succeeds") + " while the sorted matrix " + (s.threw ? "throws" : "succeeds")); return; }
    if (s.threw) { r.out = "breakdown"; r.tag("breakdown"); return; }
    for (size_t k = 0; k < s.cols.size(); ++k) if (!veq(s.cols[k], u.cols[k])) { r.fail(name + " built from the row-shuffled user matrix differs from the one built from the sorted matrix"); return; }
    r.out = "same";
}

template <int B> static void order_block_solver(Result &r, const Mat &A, const std::vector<Q> &f) {
    typedef amgcl::backend::builtin<amgcl::static_matrix<Q, B, B>> BB;
    typedef amgcl::make_block_solver<amgcl::amg<BB, C::aggregation, R::ilu0>, S::bicgstab<BB>> Sv;
    typename Sv::params p; amg_prm(p.precond, 1); it_prm(p.solver);
    Built u = build_solve<Sv>(A, p, f);
    compare(r, build_solve<Sv>(sorted_copy(A), p, f), u, "make_block_solver");
    // and the result must be about the user's system: truthful residual against the scalar matrix
    if (!u.threw && r.ok) { Result j; judge(j, A, f, u.cols[0], 1, 0, u.cols[1][1], "make_block_solver on a row-shuffled matrix"); if (!j.ok) r.fail(j.why); }
}

static Result execute(const Toks &t) {
    Cur c(t); const std::string &op = t[0]; Result r;
    if (op == "s_reorder") {
        long kind = c.nat(), ord = c.nat(); Mat A = checked(c); auto perm = c.natvec(); auto f = c.vec(); c.expect_end();
        long n = A.n; if (kind < 0 || kind > 1 || ord < 0 || ord > 2 || A.n != A.m || n == 0 || (long)perm.size() != n || (long)f.size() != n) throw bad_input("shape");
        { std::vector<char> seen(n, 0); for (auto p : perm) { if (p < 0 || p >= n || seen[p]) throw bad_input("perm"); seen[p] = 1; } }
        if (dot(f, f) == 0) throw bad_input("zero rhs");
        g_perm.assign(perm.begin(), perm.end());
        if (ord == 0) run_reorder<fixed_order>(r, A, f, kind);
        else if (ord == 1) run_reorder<amgcl::reorder::cuthill_mckee<false>>(r, A, f, kind);
        else run_reorder<amgcl::reorder::cuthill_mckee<true>>(r, A, f, kind);
        r.tag(ord == 0 ? "reorder_fixed" : ord == 1 ? "reorder_cmk" : "reorder_rcmk"); r.tag(kind ? "iterative" : "exact"); r.nontrivial = n > 2;
    } else if (op == "s_scaled") {
        long kind = c.nat(); Mat A = checked(c); auto f = c.vec(); c.expect_end();
        long n = A.n; if (kind < 0 || kind > 1 || A.n != A.m || n == 0 || (long)f.size() != n || !full_diag(A)) throw bad_input("shape");
        if (dot(f, f) == 0) throw bad_input("zero rhs");
        std::vector<ptrdiff_t> ptr(A.ptr), col(A.col); std::vector<Q> val(A.val); ptrdiff_t nn = n;
        auto At = std::tie(nn, ptr, col, val);
        auto scale = amgcl::adapter::scale_diagonal<SB>(At);
        std::vector<Q> F(f), Y(n, Q(0));
        size_t it = 0; Q res(0);
        try {
            // option 1 of the documentation: rhs untouched, `*scale.rhs(b)`; option 2 (in-place `scale(b)`) is compared below
            auto Fs = scale.rhs(F);
            if (kind == 0) { ExactSolver::params p; amg_prm(p.precond, 0); ExactSolver solve(scale.matrix(At), p); std::tie(it, res) = solve(*Fs, Y); }
            else { IterSolver::params p; amg_prm(p.precond, 1); it_prm(p.solver); IterSolver solve(scale.matrix(At), p); std::tie(it, res) = solve(*Fs, Y); }
            std::vector<Q> F2(f); scale(F2); for (long i = 0; i < n; ++i) if (F2[i].v != (*Fs)[i].v) { r.fail("scaled_problem: rhs() and in-place scaling differ"); break; }
            if (!veq(F, f)) r.fail("scaled_problem::rhs modified the user's right-hand side");
            std::vector<Q> X(Y); scale(X);                       // postprocess the solution
            if (kind == 0) judge(r, A, f, X, 0, it, res, "scaled problem");
            else {
                // the solver reports the residual of the SCALED system: || S f - S A S y || / || S f ||  (that is what it iterates on)
                std::vector<Q> rr = dmv(dense(A), X); Q num(0), den(0);
                for (long i = 0; i < n; ++i) { Q e = (*scale.s)[i] * (f[i] - rr[i]); num += e * e; Q g = (*scale.s)[i] * f[i]; den += g * g; }
                Q truth = vq::sqrt(vq::abs(num)) / vq::sqrt(vq::abs(den));
                if (res.v != truth.v) r.fail("scaled problem: reported residual is not the S-weighted residual of x = S y in the original system");
                r.out = (Line() << it << res).get(); r.tag("it" + std::to_string(it));
            }
        } catch (const std::runtime_error &e) { r.out = "breakdown"; r.tag("breakdown"); if (kind == 0) r.fail(std::string("exact solve threw: ") + e.what()); }
        r.tag("scaled"); r.tag(kind ? "iterative" : "exact"); r.nontrivial = n > 2;
    } else if (op == "s_order") {
        long cls = c.nat(), b = c.nat(); Mat A = checked(c); auto pm = c.natvec(); auto f = c.vec(); c.expect_end();
        long n = A.n; if (cls < 0 || cls > 5 || b < 1 || b > 4 || A.n != A.m || n == 0 || (long)f.size() != n || !full_diag(A) || !crs_nodup(*A.crs())) throw bad_input("shape");
        if (dot(f, f) == 0) throw bad_input("zero rhs");
        typedef amgcl::amg<SB, C::smoothed_aggregation, R::spai0> AMG;
        typedef R::as_preconditioner<SB, R::ilu0> ILU;
        if (cls == 0) {
            if (n % b || b < 2) throw bad_input("block size");
            if (b == 2) order_block_solver<2>(r, A, f); else if (b == 3) order_block_solver<3>(r, A, f); else order_block_solver<4>(r, A, f);
            r.tag("order_make_block_solver");
        } else if (cls == 1 || cls == 2) {
            if (n % b || b < 2) throw bad_input("block size");
            if (cls == 1) { typedef amgcl::preconditioner::cpr<AMG, ILU> P; P::params p; p.block_size = (int)b; amg_prm(p.pprecond, 0); p.sprecond.solve.serial = true;
                compare(r, build_apply<P>(sorted_copy(A), p), build_apply<P>(A, p), "preconditioner::cpr"); r.tag("order_cpr"); }
            else { typedef amgcl::preconditioner::cpr_drs<AMG, ILU> P; P::params p; p.block_size = (int)b; amg_prm(p.pprecond, 0); p.sprecond.solve.serial = true;
                compare(r, build_apply<P>(sorted_copy(A), p), build_apply<P>(A, p), "preconditioner::cpr_drs"); r.tag("order_cpr_drs"); }
        } else if (cls == 3) {
            if ((long)pm.size() != n) throw bad_input("pmask");
            long np = 0; for (auto v : pm) { if (v < 0 || v > 1) throw bad_input("pmask"); np += v; } if (np == 0 || np == n) throw bad_input("pmask");
            typedef amgcl::make_solver<ILU, S::preonly<SB>> US; typedef amgcl::make_solver<AMG, S::preonly<SB>> PS;
            typedef amgcl::preconditioner::schur_pressure_correction<US, PS> P;
            for (int adj = 0; adj <= 2 && r.ok; ++adj) {
                P::params p; p.pmask.assign(pm.begin(), pm.end()); p.usolver.precond.solve.serial = true; amg_prm(p.psolver.precond, 0); p.adjust_p = adj; p.simplec_dia = adj != 1; p.approx_schur = adj == 2;
                compare(r, build_apply<P>(sorted_copy(A), p), build_apply<P>(A, p), "preconditioner::schur_pressure_correction");
            }
            r.tag("order_schur");
        } else if (cls == 4) {
            typedef amgcl::make_solver<amgcl::amg<SB, C::aggregation, R::gauss_seidel>, S::bicgstab<SB>> Sv;
            Sv::params p; amg_prm(p.precond, 1); p.precond.relax.serial = true; it_prm(p.solver);
            compare(r, build_solve<Sv>(sorted_copy(A), p, f), build_solve<Sv>(A, p, f), "make_solver<amg>"); r.tag("order_make_solver");
        } else {
            typedef amgcl::preconditioner::dummy<SB> P; P::params p;
            compare(r, build_apply<P>(sorted_copy(A), p), build_apply<P>(A, p), "preconditioner::dummy"); r.tag("order_dummy");
        }
        r.nontrivial = n > 2 && !crs_sorted_nodup(*A.crs()); if (crs_sorted_nodup(*A.crs())) r.tag("sorted_in");
    } else r.out = "bad-op";
    return r;
}

static void generate(Rng &rng, const Opts &o, std::vector<std::string> &lines) {
    long rounds = o.cases > 0 ? o.cases : (o.thorough() ? 120 : 15);
    for (long k = 0; k < rounds; ++k) {
        for (long kind = 0; kind < 2; ++kind) for (long ord = 0; ord < 3; ++ord) {
            long n = rng.range(2, o.thorough() ? 12 : 8);
            Mat A = rng.coin() ? gen_spd(rng, n, -1) : gen_diag_dominant(rng, n, (int)rng.range(20, 60)); n = A.n;
            if (rng.coin(1, 3)) A = shuffle_rows(rng, A, (int)rng.range(0, 2));
            std::vector<Q> f = gen_vec(rng, n); if (dot(f, f) == 0) f[0] = Q(1);
            lines.push_back((Line() << "s_reorder" << kind << ord << A << gen_perm(rng, n) << f).get());
        }
        for (long kind = 0; kind < 2; ++kind) {
            long n = rng.range(2, o.thorough() ? 12 : 8);
            Mat A = rng.coin() ? gen_spd(rng, n, -1) : gen_diag_dominant(rng, n, (int)rng.range(20, 60)); n = A.n;
            if (rng.coin(1, 3)) A = shuffle_rows(rng, A, (int)rng.range(0, 2));
            std::vector<Q> f = gen_vec(rng, n); if (dot(f, f) == 0) f[0] = Q(1);
            lines.push_back((Line() << "s_scaled" << kind << A << f).get());
        }
        for (long cls = 0; cls <= 5; ++cls) {
            long b = (cls <= 2) ? rng.range(2, cls == 0 ? 4 : 3) : 1;
            long nb = rng.range(2, o.thorough() ? 5 : 4);
            Mat A;
            if (cls <= 2) A = rng.coin() ? kron(gen_spd(rng, nb, -1), spd_block(rng, b, false)) : gen_block_structured(rng, nb, nb, b, (int)rng.range(20, 60), (int)rng.range(40, 100), false, true);
            else { long n = rng.range(3, o.thorough() ? 12 : 8); A = rng.coin() ? gen_spd(rng, n, -1) : gen_diag_dominant(rng, n, (int)rng.range(20, 60)); }
            if (rng.coin(7, 8)) A = shuffle_rows(rng, A, (int)rng.range(0, 2));
            std::vector<long> pm(A.n, 0); if (cls == 3) { for (auto &v : pm) v = rng.coin(1, 3); pm[0] = 0; pm[A.n - 1] = 1; }
            std::vector<Q> f = gen_vec(rng, A.n); if (dot(f, f) == 0) f[0] = Q(1);
            lines.push_back((Line() << "s_order" << cls << b << A << pm << f).get());
        }
    }
    lines.push_back("s_reorder 0 0 2 2 1 0 1 1 1 1 2 0 0 2 1 1");          // not a permutation
    lines.push_back("s_scaled 0 2 2 1 1 1 1 1 1 2 1 1");                    // no diagonal in row 0
}

VH_MAIN(generate, execute)
