// C07 / C17 harness, part 4: Eigen at COMPLEX and BLOCK values, on exact-in-binary64 data (Gaussian integers).
// Complex numbers are written as two rationals `re im`; complex vectors as `n re im ...`.
//   eigc_spmv a A x b y | eigc_residual f A x | eigc_axpby a x b y | eigc_axpbypcz a x b y c z | eigc_vmul a x y b z
//   eigc_inner_product x y | eigc_copy_clear x        amgcl::backend::eigen<std::complex<double>> (backend/eigen.hpp)
//   eig_copy A x                                      eigen<double>::copy_matrix / copy_vector / create_vector, then spmv
//   evt_ops cx b X Y v w c                            every specialisation of value_type/eigen.hpp at Eigen::Matrix<T,b,b>,
//                                                     T = double (cx 0) or std::complex<double> (cx 1), b = 2..4
//   mxp_spmv b pm pv ct a A x beta y | mxp_residual b pm pv ct f A x | mxp_vmul b pm pv ct a X y beta z
//                                                     the MIXED scalar/block overloads (detail/matrix_ops.hpp, builtin.hpp mixed
//                                                     vmul, backend::reinterpret_as_rhs) with a block matrix / block diagonal of
//                                                     static_matrix<TM,b,b> and FLAT SCALAR vectors of TV, TM, TV in {float (0),
//                                                     double (1)} independently (pm, pv), b = 2..4, ct 0 std::vector / 1
//                                                     numa_vector, on data exact in binary32; POISON = NaN in an output that the
//                                                     call must overwrite (beta = 0, residual)
// Oracles: the defining formulas evaluated in exact rational arithmetic (independent of the Lean model).
#include "gen.hpp"
#include <complex>
#include <amgcl/backend/builtin.hpp>
#include <amgcl/value_type/complex.hpp>
#include <Eigen/SparseCore>
#include <Eigen/Dense>
#include <amgcl/backend/eigen.hpp>
#include <amgcl/value_type/eigen.hpp>
#include <amgcl/value_type/static_matrix.hpp>
using namespace vh;

typedef std::complex<Q> CQ; typedef std::complex<double> CD;
static CQ rdc(Cur &c) { Q r = c.rat(); Q i = c.rat(); return CQ(r, i); }
static std::vector<CQ> rdcv(Cur &c) { long n = c.nat(); if (n < 0) throw bad_input("n"); std::vector<CQ> v(n); for (auto &x : v) x = rdc(c); return v; }
static bool small_int(const Q &x) { return !x.poison && x.v.get_den() == 1 && abs(x.v.get_num()) <= (1L << 20); }
static bool small_int(const CQ &x) { return small_int(x.real()) && small_int(x.imag()); }
static bool small_ints(const std::vector<CQ> &v) { for (auto &x : v) if (!small_int(x)) return false; return true; }
static bool ceq(const CQ &a, const CQ &b) { return a.real().v == b.real().v && a.imag().v == b.imag().v; }
static bool cveq(const std::vector<CQ> &a, const std::vector<CQ> &b) { if (a.size() != b.size()) return false; for (size_t i = 0; i < a.size(); ++i) if (!ceq(a[i], b[i])) return false; return true; }
static bool czero(const CQ &a) { return a.real() == 0 && a.imag() == 0; }
static CD to_cd(const CQ &q) { return CD(q.real().v.get_d(), q.imag().v.get_d()); }
static CQ from_cd(const CD &d) { return CQ(std::isnan(d.real()) ? Q::poisoned() : Q(d.real()), std::isnan(d.imag()) ? Q::poisoned() : Q(d.imag())); }
static CQ cconj(const CQ &a) { return CQ(a.real(), Q(0) - a.imag()); }
typedef Eigen::Matrix<CD, Eigen::Dynamic, 1> ECVec;
static ECVec ecvec(const std::vector<CQ> &v) { ECVec e(v.size()); for (size_t i = 0; i < v.size(); ++i) e[i] = to_cd(v[i]); return e; }
static std::vector<CQ> cqvec(const ECVec &e) { std::vector<CQ> v(e.size()); for (long i = 0; i < e.size(); ++i) v[i] = from_cd(e[i]); return v; }
static Line& putc(Line &l, const CQ &c) { l << c.real(); l << c.imag(); return l; }
static Line& putcv(Line &l, const std::vector<CQ> &v) { l << v.size(); for (auto &c : v) putc(l, c); return l; }
static Line& putca(Line &l, const std::vector<CQ> &v) { for (auto &c : v) putc(l, c); return l; }

struct CMat { long n = 0, m = 0; std::vector<ptrdiff_t> ptr, col; std::vector<CQ> val; };
static CMat rdcmat(Cur &c) {
    CMat A; A.n = c.nat(); A.m = c.nat(); if (A.n < 0 || A.m < 0) throw bad_input("shape"); A.ptr.push_back(0);
    for (long i = 0; i < A.n; ++i) { long k = c.nat(); if (k < 0) throw bad_input("k"); for (long j = 0; j < k; ++j) { long cc = c.nat(); if (cc < 0 || cc >= A.m) throw bad_input("col"); A.col.push_back(cc); A.val.push_back(rdc(c)); } A.ptr.push_back((ptrdiff_t)A.col.size()); }
    return A;
}
static std::vector<CQ> cmv(const CMat &A, const std::vector<CQ> &x) { std::vector<CQ> y(A.n, CQ(Q(0))); for (long i = 0; i < A.n; ++i) for (auto j = A.ptr[i]; j < A.ptr[i+1]; ++j) y[i] += A.val[j] * x[A.col[j]]; return y; }

// ---------------------------------------------------------------- value_type/eigen.hpp
template <class T> struct conv;
template <> struct conv<double> { static double to(const CQ &q) { return q.real().v.get_d(); } static CQ from(double d) { return CQ(Q(d), Q(0)); } };
template <> struct conv<CD> { static CD to(const CQ &q) { return to_cd(q); } static CQ from(const CD &d) { return from_cd(d); } };
template <class T> static bool trace_lt(const T &, const T &, std::false_type) { return false; }
typedef std::vector<CQ> CA;      // row-major dense
static CA dmulc(int n, int k, int m, const CA &X, const CA &Y) { CA Z(n * m, CQ(Q(0))); for (int i = 0; i < n; ++i) for (int j = 0; j < m; ++j) for (int l = 0; l < k; ++l) Z[i * m + j] += X[i * k + l] * Y[l * m + j]; return Z; }
static CA dcj(const CA &X) { CA Z(X); for (auto &z : Z) z = cconj(z); return Z; }
static CA dadj(int n, int m, const CA &X) { CA Z(m * n); for (int i = 0; i < n; ++i) for (int j = 0; j < m; ++j) Z[j * n + i] = cconj(X[i * m + j]); return Z; }
// exact inverse by Gauss-Jordan with complex rational pivots; false for a singular matrix
static bool dinv(int n, CA M, CA &I) {
    I.assign(n * n, CQ(Q(0))); for (int i = 0; i < n; ++i) I[i * n + i] = CQ(Q(1));
    for (int c = 0; c < n; ++c) {
        int p = c; while (p < n && czero(M[p * n + c])) ++p; if (p == n) return false;
        for (int j = 0; j < n; ++j) { std::swap(M[p * n + j], M[c * n + j]); std::swap(I[p * n + j], I[c * n + j]); }
        CQ pv = M[c * n + c]; Q d = pv.real() * pv.real() + pv.imag() * pv.imag(); CQ ip(pv.real() / d, (Q(0) - pv.imag()) / d);
        for (int j = 0; j < n; ++j) { M[c * n + j] = M[c * n + j] * ip; I[c * n + j] = I[c * n + j] * ip; }
        for (int i = 0; i < n; ++i) if (i != c && !czero(M[i * n + c])) { CQ f = M[i * n + c]; for (int j = 0; j < n; ++j) { M[i * n + j] -= f * M[c * n + j]; I[i * n + j] -= f * I[c * n + j]; } }
    }
    return true;
}
template <class T, int B> struct EVT {
    typedef Eigen::Matrix<T, B, B> Mx; typedef Eigen::Matrix<T, B, 1> Vx;
    static Mx mx(const CA &a) { Mx M; for (int i = 0; i < B; ++i) for (int j = 0; j < B; ++j) M(i, j) = conv<T>::to(a[i * B + j]); return M; }
    static Vx vx(const CA &a) { Vx V; for (int i = 0; i < B; ++i) V(i) = conv<T>::to(a[i]); return V; }
    template <class M> static CA ca(const M &m) { CA a(m.rows() * m.cols()); for (int i = 0; i < m.rows(); ++i) for (int j = 0; j < m.cols(); ++j) a[i * m.cols() + j] = conv<T>::from(m(i, j)); return a; }
    static bool lt(const Mx &X, const Mx &Y, std::true_type) { return X < Y; }
    static bool lt(const Mx &, const Mx &, std::false_type) { return false; }

    static Result run(bool cx, const CA &X, const CA &Y, const CA &v, const CA &w, const CQ &c) {
        namespace m = amgcl::math; Result r; Line l;
        static_assert(std::is_same<typename m::rhs_of<Mx>::type, Vx>::value, "rhs_of"); static_assert(m::static_rows<Mx>::value == B && m::static_cols<Vx>::value == 1, "static_rows");
        static_assert(std::is_same<typename m::element_of<Mx>::type, T>::value && m::is_static_matrix<Mx>::value, "element_of");
        Mx Xe = mx(X), Ye = mx(Y); Vx ve = vx(v), we = vx(w);
        Mx adj = m::adjoint(Xe); CA a1 = ca(adj); putca(l, a1); l << "|";
        if (!cveq(a1, dadj(B, B, X))) r.fail("value_type/eigen.hpp: math::adjoint is not the conjugate transpose");
        Mx xy = Xe * Ye; CA a2 = ca(xy); putca(l, a2); l << "|"; if (!cveq(a2, dmulc(B, B, B, X, Y))) r.fail("Eigen block product");
        Vx xv = Xe * ve; CA a3 = ca(xv); putca(l, a3); l << "|"; if (!cveq(a3, dmulc(B, B, 1, X, v))) r.fail("Eigen block times rhs");
        T ipv = m::inner_product(ve, we); CA a4(1, conv<T>::from(ipv)); putca(l, a4); l << "|";
        if (!cveq(a4, dmulc(1, B, 1, dadj(B, 1, dcj(v)), dcj(w)))) r.fail("value_type/eigen.hpp: math::inner_product of rhs vectors is not sum x_i conj(y_i) (conjugate-linear in the SECOND argument, as for scalars and static_matrix)");
        Mx ipm = m::inner_product(Xe, Ye); CA a5 = ca(ipm); putca(l, a5); l << "|";
        if (!cveq(a5, dmulc(B, B, B, dadj(B, B, dcj(X)), dcj(Y)))) r.fail("value_type/eigen.hpp: math::inner_product of blocks is not X^T conj(Y) (the static_matrix convention: p(i,j) = sum_k x(k,i) conj(y(k,j)))");
        Q ss(0); for (auto &e : X) ss += e.real() * e.real() + e.imag() * e.imag();
        double nr = m::norm(Xe); if (nr != std::sqrt(ss.v.get_d())) r.fail("value_type/eigen.hpp: math::norm is not the Frobenius norm");
        { long s = (long)std::llround(std::sqrt(ss.v.get_d())); if (Q(s * s).v == ss.v) { l << Q(nr); r.tag("norm_exact"); } else l << "irr"; } l << "|";
        Mx z = m::zero<Mx>(); CA a6 = ca(z); putca(l, a6); l << "|"; for (auto &e : a6) if (!czero(e)) r.fail("value_type/eigen.hpp: math::zero");
        bool zx = m::is_zero(Xe), zz = m::is_zero(z); l << zx << zz << "|"; { bool all0 = true; for (auto &e : X) if (!czero(e)) all0 = false; if (zx != all0 || !zz) r.fail("value_type/eigen.hpp: math::is_zero"); }
        Mx id = m::identity<Mx>(); CA a7 = ca(id); putca(l, a7); l << "|"; for (int i = 0; i < B; ++i) for (int j = 0; j < B; ++j) if (!ceq(a7[i * B + j], CQ(Q(i == j ? 1 : 0)))) r.fail("value_type/eigen.hpp: math::identity");
        Mx cm = m::constant<Mx>(c.real().v.get_d()); CA a8 = ca(cm); putca(l, a8); l << "|"; for (auto &e : a8) if (!ceq(e, CQ(c.real(), Q(0)))) r.fail("value_type/eigen.hpp: math::constant");      // takes the REAL scalar type
        CA Iq; bool inv = dinv(B, X, Iq), integral = inv && small_ints(Iq);
        if (integral) {
            Mx ie = m::inverse(Xe); CA a9 = ca(ie); putca(l, a9); r.tag("inverse");
            if (!cveq(a9, Iq)) r.fail("value_type/eigen.hpp: math::inverse of a unimodular block is not its inverse");
        } else l << "noninv";
        l << "|";
        if (!cx) { bool b = lt(Xe, Ye, std::integral_constant<bool, std::is_same<T, double>::value>()); l << b; Q t1(0), t2(0); for (int i = 0; i < B; ++i) { t1 += X[i * B + i].real(); t2 += Y[i * B + i].real(); } if (b != (t1 < t2)) r.fail("value_type/eigen.hpp: operator< is not the comparison of traces"); }
        else l << "-";
        r.out = l.get(); r.nontrivial = true; r.tag(cx ? "complex" : "real"); r.tag("b" + std::to_string(B));
        return r;
    }
};

// ---------------------------------------------------------------- mixed scalar/block overloads at two precisions
struct BMatQ { long n = 0, m = 0; std::vector<ptrdiff_t> ptr, col; std::vector<std::vector<Q>> val; };
static BMatQ rdbmat(Cur &c, int B) {
    BMatQ A; A.n = c.nat(); A.m = c.nat(); if (A.n < 0 || A.m < 0) throw bad_input("shape"); A.ptr.push_back(0);
    for (long i = 0; i < A.n; ++i) { long k = c.nat(); if (k < 0) throw bad_input("k"); for (long j = 0; j < k; ++j) { long cc = c.nat(); if (cc < 0 || cc >= A.m) throw bad_input("col"); A.col.push_back(cc); std::vector<Q> v(B * B); for (auto &e : v) e = c.rat(); A.val.push_back(v); } A.ptr.push_back((ptrdiff_t)A.col.size()); }
    return A;
}
static bool f32_exact(const Q &x) { return x.poison || (x.v.get_den() == 1 && abs(x.v.get_num()) <= (1L << 12)); }
static bool f32_exact(const std::vector<Q> &v) { for (auto &x : v) if (!f32_exact(x)) return false; return true; }
template <class T> static T to_t(const Q &q) { return q.poison ? std::numeric_limits<T>::quiet_NaN() : (T)q.v.get_d(); }
template <class T> static Q from_t(T d) { return std::isnan(d) ? Q::poisoned() : Q((double)d); }
template <class TV, bool NUMA> struct Cont;
template <class TV> struct Cont<TV, false> { typedef std::vector<TV> type; static type make(const std::vector<Q> &v) { type x(v.size()); for (size_t i = 0; i < v.size(); ++i) x[i] = to_t<TV>(v[i]); return x; } };
template <class TV> struct Cont<TV, true> { typedef amgcl::backend::numa_vector<TV> type; static type make(const std::vector<Q> &v) { std::vector<TV> x(v.size()); for (size_t i = 0; i < v.size(); ++i) x[i] = to_t<TV>(v[i]); return type(x); } };
template <class V> static std::vector<Q> back(const V &x) { std::vector<Q> v(x.size()); for (size_t i = 0; i < v.size(); ++i) v[i] = from_t(x[i]); return v; }
static bool qsame(const std::vector<Q> &a, const std::vector<Q> &b) { if (a.size() != b.size()) return false; for (size_t i = 0; i < a.size(); ++i) { if (a[i].poison != b[i].poison) return false; if (!a[i].poison && a[i].v != b[i].v) return false; } return true; }

template <class TM, class TV, int B, bool NUMA> struct MixedP {
    typedef amgcl::static_matrix<TM, B, B> blk; typedef Cont<TV, NUMA> CV;
    static blk to_blk(const std::vector<Q> &v) { blk x; for (int p = 0; p < B; ++p) for (int q = 0; q < B; ++q) x(p, q) = to_t<TM>(v[p * B + q]); return x; }
    static Result run(const std::string &op, Cur &c) {
        Result r; std::vector<Q> out, ref;
        if (op == "mxp_vmul") {
            Q a = c.rat(); long n = c.nat(); if (n < 1) throw bad_input("n"); std::vector<std::vector<Q>> X(n, std::vector<Q>(B * B)); for (auto &b : X) for (auto &e : b) e = c.rat();
            auto y = c.vec(); Q be = c.rat(); auto z = c.vec(); c.expect_end();
            if ((long)y.size() != n * B || (long)z.size() != n * B) throw bad_input("shape");
            for (auto &b : X) if (!f32_exact(b)) throw bad_input("exact"); if (!f32_exact(y) || !f32_exact(z) || !f32_exact(a) || !f32_exact(be) || a.poison || be.poison) throw bad_input("exact");
            std::vector<blk> xb(n); for (long i = 0; i < n; ++i) xb[i] = to_blk(X[i]);
            amgcl::backend::numa_vector<blk> Xv(xb); auto Y = CV::make(y); auto Z = CV::make(z);
            amgcl::backend::vmul(to_t<TV>(a), Xv, Y, to_t<TV>(be), Z);
            out = back(Z); ref.resize(n * B);
            for (long i = 0; i < n; ++i) for (int p = 0; p < B; ++p) { Q s(0); for (int q = 0; q < B; ++q) s += X[i][p * B + q] * y[i * B + q]; ref[i * B + p] = be == 0 ? a * s : a * s + be * z[i * B + p]; }
            if (!qsame(out, ref)) r.fail("mixed vmul (block diagonal of static_matrix<" + std::string(sizeof(TM) == 4 ? "float" : "double") + "> with " + (sizeof(TV) == 4 ? "float" : "double") + " scalar vectors) != a X y + b z");
            r.nontrivial = true;
        } else {
            bool is_spmv = op == "mxp_spmv"; Q a(1), be(0); std::vector<Q> f, x, y;
            BMatQ A;
            if (is_spmv) { a = c.rat(); A = rdbmat(c, B); x = c.vec(); be = c.rat(); y = c.vec(); } else { f = c.vec(); A = rdbmat(c, B); x = c.vec(); y = f; }
            c.expect_end();
            if (A.n < 1 || A.m < 1 || (long)x.size() != A.m * B || (long)y.size() != A.n * B) throw bad_input("shape");
            for (auto &b : A.val) if (!f32_exact(b)) throw bad_input("exact"); if (!f32_exact(x) || !f32_exact(y) || !f32_exact(a) || !f32_exact(be) || a.poison || be.poison) throw bad_input("exact");
            for (auto &e : x) if (e.poison) throw bad_input("poisoned input");
            std::vector<blk> vb(A.val.size()); for (size_t i = 0; i < vb.size(); ++i) vb[i] = to_blk(A.val[i]);
            amgcl::backend::crs<blk> M((size_t)A.n, (size_t)A.m, A.ptr, A.col, vb);
            auto X = CV::make(x); auto Y = CV::make(y);
            ref.assign(A.n * B, Q(0));
            for (long i = 0; i < A.n; ++i) for (auto j = A.ptr[i]; j < A.ptr[i+1]; ++j) for (int p = 0; p < B; ++p) for (int q = 0; q < B; ++q) ref[i * B + p] += A.val[j][p * B + q] * x[A.col[j] * B + q];
            if (is_spmv) { amgcl::backend::spmv(to_t<TV>(a), M, X, to_t<TV>(be), Y); out = back(Y); for (size_t i = 0; i < ref.size(); ++i) ref[i] = be == 0 ? a * ref[i] : a * ref[i] + be * y[i]; }
            else { for (auto &e : f) if (e.poison) throw bad_input("poisoned input"); auto F = CV::make(f); std::vector<Q> pz(A.n * B, Q::poisoned()); auto Rr = CV::make(pz); amgcl::backend::residual(F, M, X, Rr); out = back(Rr); for (size_t i = 0; i < ref.size(); ++i) ref[i] = f[i] - ref[i]; }
            if (!qsame(out, ref)) r.fail(std::string("mixed ") + (is_spmv ? "spmv" : "residual") + " (crs<static_matrix<" + (sizeof(TM) == 4 ? "float" : "double") + "," + std::to_string(B) + "," + std::to_string(B) + ">> with " + (sizeof(TV) == 4 ? "float" : "double") + " scalar vectors) != defining formula on the expanded matrix");
            r.nontrivial = !A.col.empty();
            bool empty_row = false; for (long i = 0; i < A.n; ++i) if (A.ptr[i] == A.ptr[i+1]) empty_row = true; if (empty_row) r.tag("empty_block_row"); if (A.n != A.m) r.tag("rectangular");
        }
        r.out = (Line() << out).get();
        r.tag(op); r.tag("b" + std::to_string(B)); r.tag(std::string("m") + (sizeof(TM) == 4 ? "f" : "d") + "_v" + (sizeof(TV) == 4 ? "f" : "d")); r.tag(NUMA ? "numa_vector" : "std_vector");
        return r;
    }
};
template <class TM, class TV, int B> static Result mixedp_ct(const std::string &op, long ct, Cur &c) { return ct ? MixedP<TM, TV, B, true>::run(op, c) : MixedP<TM, TV, B, false>::run(op, c); }
template <class TM, class TV> static Result mixedp_b(const std::string &op, long b, long ct, Cur &c) { return b == 2 ? mixedp_ct<TM, TV, 2>(op, ct, c) : b == 3 ? mixedp_ct<TM, TV, 3>(op, ct, c) : mixedp_ct<TM, TV, 4>(op, ct, c); }
static Result mixedp(const std::string &op, Cur &c) {
    long b = c.nat(), pm = c.nat(), pv = c.nat(), ct = c.nat();
    if (b < 2 || b > 4 || pm < 0 || pm > 1 || pv < 0 || pv > 1 || ct < 0 || ct > 1) throw bad_input("hdr");
    return pm ? (pv ? mixedp_b<double, double>(op, b, ct, c) : mixedp_b<double, float>(op, b, ct, c)) : (pv ? mixedp_b<float, double>(op, b, ct, c) : mixedp_b<float, float>(op, b, ct, c));
}

static Result execute(const Toks &t) {
    Cur c(t); const std::string &op = t[0]; Result r;
    if (op == "mxp_spmv" || op == "mxp_residual" || op == "mxp_vmul") return mixedp(op, c);
    if (op == "eigc_spmv" || op == "eigc_residual") {
        bool is_spmv = op == "eigc_spmv"; CQ a(Q(1)), b(Q(0)); std::vector<CQ> f, x, y; CMat A;
        if (is_spmv) { a = rdc(c); A = rdcmat(c); x = rdcv(c); b = rdc(c); y = rdcv(c); } else { f = rdcv(c); A = rdcmat(c); x = rdcv(c); y = f; }
        c.expect_end();
        if ((long)x.size() != A.m || (long)y.size() != A.n) throw bad_input("shape");
        if (!small_ints(A.val) || !small_ints(x) || !small_ints(y) || !small_int(a) || !small_int(b)) throw bad_input("not exact in binary64");
        std::vector<CD> val(A.val.size()); for (size_t i = 0; i < val.size(); ++i) val[i] = to_cd(A.val[i]);
        ptrdiff_t dummy_i = 0; CD dummy_v = 0;
        typename amgcl::backend::eigen<CD>::matrix M(A.n, A.m, (ptrdiff_t)val.size(), A.ptr.data(), A.col.empty() ? &dummy_i : A.col.data(), val.empty() ? &dummy_v : val.data());
        ECVec X = ecvec(x), Y = ecvec(y);
        std::vector<CQ> ref = cmv(A, x);
        if (is_spmv) { amgcl::backend::spmv(to_cd(a), M, X, to_cd(b), Y); for (long i = 0; i < A.n; ++i) ref[i] = czero(b) ? a * ref[i] : a * ref[i] + b * y[i]; }
        else { ECVec F = ecvec(f), R(A.n); R.setConstant(CD(std::numeric_limits<double>::quiet_NaN(), 0)); amgcl::backend::residual(F, M, X, R); Y = R; for (long i = 0; i < A.n; ++i) ref[i] = f[i] - ref[i]; }
        std::vector<CQ> out = cqvec(Y);
        if (!cveq(out, ref)) r.fail(std::string("eigen backend (complex) ") + (is_spmv ? "spmv" : "residual") + " != defining formula");
        Line l; putcv(l, out); r.out = l.get(); r.nontrivial = !A.col.empty(); r.tag(op);
    } else if (op == "eigc_axpby" || op == "eigc_axpbypcz" || op == "eigc_vmul") {
        CQ a = rdc(c); std::vector<CQ> x = rdcv(c), y, z; CQ b(Q(0)), cc(Q(0));
        if (op == "eigc_axpby") { b = rdc(c); z = rdcv(c); }
        else if (op == "eigc_axpbypcz") { b = rdc(c); y = rdcv(c); cc = rdc(c); z = rdcv(c); }
        else { y = rdcv(c); b = rdc(c); z = rdcv(c); }
        c.expect_end();
        if (x.size() != z.size() || (op != "eigc_axpby" && x.size() != y.size())) throw bad_input("shape");
        if (!small_ints(x) || !small_ints(y) || !small_ints(z) || !small_int(a) || !small_int(b) || !small_int(cc)) throw bad_input("not exact");
        ECVec X = ecvec(x), Y = ecvec(y), Z = ecvec(z); std::vector<CQ> ref(x.size());
        if (op == "eigc_axpby") { amgcl::backend::axpby(to_cd(a), X, to_cd(b), Z); for (size_t i = 0; i < x.size(); ++i) ref[i] = czero(b) ? a * x[i] : a * x[i] + b * z[i]; }
        else if (op == "eigc_axpbypcz") { amgcl::backend::axpbypcz(to_cd(a), X, to_cd(b), Y, to_cd(cc), Z); for (size_t i = 0; i < x.size(); ++i) ref[i] = czero(cc) ? a * x[i] + b * y[i] : a * x[i] + b * y[i] + cc * z[i]; }
        else { amgcl::backend::vmul(to_cd(a), X, Y, to_cd(b), Z); for (size_t i = 0; i < x.size(); ++i) ref[i] = czero(b) ? a * x[i] * y[i] : a * x[i] * y[i] + b * z[i]; }
        std::vector<CQ> out = cqvec(Z);
        if (!cveq(out, ref)) r.fail("eigen backend (complex) " + op + " != defining formula");
        Line l; putcv(l, out); r.out = l.get(); r.nontrivial = x.size() > 0; r.tag(op);
    } else if (op == "eigc_inner_product") {
        auto x = rdcv(c), y = rdcv(c); c.expect_end(); if (x.size() != y.size()) throw bad_input("shape"); if (!small_ints(x) || !small_ints(y)) throw bad_input("not exact");
        ECVec X = ecvec(x), Y = ecvec(y); CD s = amgcl::backend::inner_product(X, Y);
        CQ ref(Q(0)); for (size_t i = 0; i < x.size(); ++i) ref += x[i] * cconj(y[i]);
        // the builtin backend on the same data (value_type/complex.hpp: x * conj(y)) must agree: Krylov solvers are backend independent
        if (!ceq(from_cd(s), ref)) r.fail("eigen backend: inner_product(x, y) is not sum x_i conj(y_i) (linear in x, conjugate-linear in y, as in the builtin backend)");
        bool cplx = false; for (auto &e : x) if (e.imag() != 0) cplx = true; bool cply = false; for (auto &e : y) if (e.imag() != 0) cply = true;
        Line l; putc(l, from_cd(s)); r.out = l.get(); r.nontrivial = x.size() > 1 && cplx && cply; r.tag(op);
    } else if (op == "eigc_copy_clear") {
        auto x = rdcv(c); c.expect_end(); if (!small_ints(x)) throw bad_input("not exact");
        ECVec X = ecvec(x), Y(x.size()); Y.setConstant(CD(std::numeric_limits<double>::quiet_NaN(), 0));
        amgcl::backend::copy(X, Y); std::vector<CQ> o1 = cqvec(Y); if (!cveq(o1, x)) r.fail("eigen backend copy");
        amgcl::backend::clear(Y); std::vector<CQ> o2 = cqvec(Y); for (auto &e : o2) if (!czero(e)) r.fail("eigen backend clear");
        Line l; putcv(l, o1); l << "|"; putcv(l, o2); r.out = l.get(); r.nontrivial = x.size() > 0; r.tag(op);
    } else if (op == "eig_copy") {
        Mat A = c.mat(); auto x = c.vec(); c.expect_end();
        std::string why; if (!crs_wf(*A.crs(), why) || (long)x.size() != A.m) throw bad_input("shape");
        for (auto &v : A.val) if (!small_int(v)) throw bad_input("not exact"); for (auto &v : x) if (!small_int(v)) throw bad_input("not exact");
        typedef amgcl::backend::eigen<double> EB; typedef amgcl::backend::builtin<double> BB;
        std::vector<double> val(A.val.size()); for (size_t i = 0; i < val.size(); ++i) val[i] = A.val[i].v.get_d();
        auto Ab = std::make_shared<BB::matrix>((size_t)A.n, (size_t)A.m, A.ptr, A.col, val);
        std::vector<double> xd(x.size()); for (size_t i = 0; i < x.size(); ++i) xd[i] = x[i].v.get_d();
        auto xb = std::make_shared<BB::vector>(xd);
        EB::params prm; std::vector<Q> out;
        if (A.col.empty()) { out.assign(A.n, Q(0)); }       // Eigen::Map of an empty matrix needs non-null arrays
        else {
            auto M = EB::copy_matrix(Ab, prm); auto X = EB::copy_vector(xb, prm); auto X2 = EB::copy_vector(*xb, prm); auto Y = EB::create_vector((size_t)A.n, prm);
            if ((long)amgcl::backend::rows(*M) != A.n || (long)amgcl::backend::cols(*M) != A.m || (long)amgcl::backend::nonzeros(*M) != (long)A.col.size()) r.fail("eigen backend copy_matrix: dimensions");
            if ((long)Y->size() != A.n || X->size() != X2->size()) r.fail("eigen backend create_vector / copy_vector: size");
            Y->setConstant(std::numeric_limits<double>::quiet_NaN());
            amgcl::backend::spmv(1.0, *M, *X, 0.0, *Y);
            out.resize(A.n); for (long i = 0; i < A.n; ++i) out[i] = std::isnan((*Y)[i]) ? Q::poisoned() : Q((*Y)[i]);
            Ab.reset();                                      // the Eigen map must keep the host matrix alive (hold_host)
            auto Y2 = EB::create_vector((size_t)A.n, prm); amgcl::backend::spmv(1.0, *M, *X2, 0.0, *Y2);
            for (long i = 0; i < A.n; ++i) if (Q((*Y2)[i]).v != out[i].v) r.fail("eigen backend copy_matrix: result changes after the caller drops the host matrix");
        }
        std::vector<Q> ref = dmv(dense(A), x);
        for (long i = 0; i < A.n; ++i) if (out[i].poison || out[i].v != ref[i].v) { r.fail("eigen backend copy_matrix / copy_vector: A*x differs from the builtin matrix"); break; }
        r.out = (Line() << out).get(); r.nontrivial = !A.col.empty(); r.tag(op);
    } else if (op == "evt_ops") {
        long cx = c.nat(), b = c.nat(); auto X = rdcv(c), Y = rdcv(c), v = rdcv(c), w = rdcv(c); CQ cc = rdc(c); c.expect_end();
        if (cx < 0 || cx > 1 || b < 2 || b > 4 || (long)X.size() != b * b || (long)Y.size() != b * b || (long)v.size() != b || (long)w.size() != b) throw bad_input("shape");
        if (!small_ints(X) || !small_ints(Y) || !small_ints(v) || !small_ints(w) || !small_int(cc)) throw bad_input("not exact");
        if (!cx) { for (auto *a : { &X, &Y, &v, &w }) for (auto &e : *a) if (e.imag() != 0) throw bad_input("real"); if (cc.imag() != 0) throw bad_input("real"); }
        if (cx) r = b == 2 ? EVT<CD, 2>::run(true, X, Y, v, w, cc) : b == 3 ? EVT<CD, 3>::run(true, X, Y, v, w, cc) : EVT<CD, 4>::run(true, X, Y, v, w, cc);
        else r = b == 2 ? EVT<double, 2>::run(false, X, Y, v, w, cc) : b == 3 ? EVT<double, 3>::run(false, X, Y, v, w, cc) : EVT<double, 4>::run(false, X, Y, v, w, cc);
        r.tag(op);
    } else return Result("bad-op");
    return r;
}

// ---------------------------------------------------------------- generators
static CQ gint(Rng &rng, bool cx, long pm = 4) { return CQ(Q(rng.range(-pm, pm)), cx ? Q(rng.range(-pm, pm)) : Q(0)); }
static std::vector<CQ> gvec(Rng &rng, long n, bool cx = true) { std::vector<CQ> v(n); for (auto &x : v) x = gint(rng, cx); return v; }
static CMat gcmat(Rng &rng, long n, long m, int dens, bool unsorted) {
    CMat A; A.n = n; A.m = m; A.ptr.push_back(0);
    for (long i = 0; i < n; ++i) { std::vector<long> cols; for (long j = 0; j < m; ++j) if (rng.range(0, 99) < dens) cols.push_back(j);
        if (unsorted) for (size_t k = cols.size(); k > 1; --k) std::swap(cols[k-1], cols[rng.next() % k]);
        for (auto j : cols) { A.col.push_back(j); CQ v = gint(rng, true); if (czero(v)) v = CQ(Q(1), Q(1)); A.val.push_back(v); } A.ptr.push_back((ptrdiff_t)A.col.size()); }
    return A;
}
static Line& putm(Line &l, const CMat &A) { l << A.n << A.m; for (long i = 0; i < A.n; ++i) { l << (long)(A.ptr[i+1] - A.ptr[i]); for (auto j = A.ptr[i]; j < A.ptr[i+1]; ++j) { l << (long)A.col[j]; putc(l, A.val[j]); } } return l; }
// unimodular block: a product of elementary matrices (row additions with Gaussian integer factors, swaps, unit scalings)
static CA gunimod(Rng &rng, int b, bool cx) {
    CA M(b * b, CQ(Q(0))); for (int i = 0; i < b; ++i) M[i * b + i] = CQ(Q(1));
    int steps = (int)rng.range(1, 4);
    for (int s = 0; s < steps; ++s) {
        int i = (int)rng.range(0, b - 1), j = (int)rng.range(0, b - 1); if (i == j) j = (j + 1) % b;
        long k = rng.range(0, 3);
        if (k <= 1) { CQ f = gint(rng, cx, 2); for (int q = 0; q < b; ++q) M[i * b + q] += f * M[j * b + q]; }
        else if (k == 2) { for (int q = 0; q < b; ++q) std::swap(M[i * b + q], M[j * b + q]); }
        else { CQ u = cx ? (rng.coin() ? CQ(Q(0), Q(1)) : CQ(Q(0), Q(-1))) : CQ(Q(-1)); for (int q = 0; q < b; ++q) M[i * b + q] = u * M[i * b + q]; }
    }
    return M;
}
static void generate(Rng &rng, const Opts &o, std::vector<std::string> &lines) {
    long N = o.cases > 0 ? o.cases : (o.thorough() ? 3000 : 600);
    long kq = 0;
    for (long k = 0; k < N; ++k) {
        Line l; long n = rng.range(0, 8), m = rng.range(0, 8);
        if (k % 3 == 2) {      // the mixed overloads at two precisions
            long b = rng.range(2, 4), pm = rng.range(0, 1), pv = rng.coin(3, 4) ? 1 - pm : pm, ct = rng.range(0, 1), which = rng.range(0, 2);
            auto sint = [&](long pm_) { return Q(rng.range(-pm_, pm_)); };
            auto svec = [&](long len) { std::vector<Q> v(len); for (auto &e : v) e = sint(4); return v; };
            long nb = rng.range(1, 5), mb = rng.coin() ? nb : rng.range(1, 5);
            auto putblk = [&](Line &ll) { for (long e = 0; e < b * b; ++e) ll << sint(3); };
            if (which == 2) { Q be = rng.coin(1, 3) ? Q(0) : sint(3); l << "mxp_vmul" << b << pm << pv << ct << sint(3) << nb; for (long i = 0; i < nb; ++i) putblk(l); l << svec(nb * b) << be; std::vector<Q> z = svec(nb * b); if (be == 0) for (auto &e : z) if (rng.coin()) e = Q::poisoned(); l << z; }
            else {
                std::vector<std::vector<long>> cols(nb); for (long i = 0; i < nb; ++i) { if (rng.coin(1, 4)) continue; for (long j = 0; j < mb; ++j) if (rng.coin(1, 2)) cols[i].push_back(j); if (rng.coin()) for (size_t q = cols[i].size(); q > 1; --q) std::swap(cols[i][q-1], cols[i][rng.next() % q]); }
                auto putmat = [&](Line &ll) { ll << nb << mb; for (long i = 0; i < nb; ++i) { ll << (long)cols[i].size(); for (auto j : cols[i]) { ll << j; putblk(ll); } } };
                if (which == 0) { Q be = rng.coin(1, 3) ? Q(0) : sint(3); l << "mxp_spmv" << b << pm << pv << ct << sint(3); putmat(l); l << svec(mb * b) << be; std::vector<Q> y = svec(nb * b); if (be == 0) for (auto &e : y) if (rng.coin()) e = Q::poisoned(); l << y; }
                else { l << "mxp_residual" << b << pm << pv << ct << svec(nb * b); putmat(l); l << svec(mb * b); }
            }
            lines.push_back(l.get()); continue;
        }
        switch (kq++ % 9) {
            case 0: { CMat A = gcmat(rng, std::max<long>(n, 1), std::max<long>(m, 1), 45, rng.coin()); if (A.col.empty()) { A = gcmat(rng, 2, 2, 100, false); } l << "eigc_spmv"; putc(l, gint(rng, true)); putm(l, A); putcv(l, gvec(rng, A.m)); putc(l, rng.coin(1, 4) ? CQ(Q(0)) : gint(rng, true)); putcv(l, gvec(rng, A.n)); break; }
            case 1: { CMat A = gcmat(rng, std::max<long>(n, 1), std::max<long>(m, 1), 45, rng.coin()); if (A.col.empty()) { A = gcmat(rng, 2, 2, 100, false); } l << "eigc_residual"; putcv(l, gvec(rng, A.n)); putm(l, A); putcv(l, gvec(rng, A.m)); break; }
            case 2: l << "eigc_axpby"; putc(l, gint(rng, true)); putcv(l, gvec(rng, n)); putc(l, rng.coin(1, 4) ? CQ(Q(0)) : gint(rng, true)); putcv(l, gvec(rng, n)); break;
            case 3: l << "eigc_axpbypcz"; putc(l, gint(rng, true)); putcv(l, gvec(rng, n)); putc(l, gint(rng, true)); putcv(l, gvec(rng, n)); putc(l, rng.coin(1, 4) ? CQ(Q(0)) : gint(rng, true)); putcv(l, gvec(rng, n)); break;
            case 4: l << "eigc_vmul"; putc(l, gint(rng, true)); putcv(l, gvec(rng, n)); putcv(l, gvec(rng, n)); putc(l, rng.coin(1, 4) ? CQ(Q(0)) : gint(rng, true)); putcv(l, gvec(rng, n)); break;
            case 5: l << "eigc_inner_product"; putcv(l, gvec(rng, n, !rng.coin(1, 8))); putcv(l, gvec(rng, n, !rng.coin(1, 8))); break;
            case 6: if (rng.coin(1, 3)) { l << "eigc_copy_clear"; putcv(l, gvec(rng, n)); } else { Mat A = gen_sparse(rng, std::max<long>(n, 1), std::max<long>(m, 1), 45, true); if (rng.coin()) A = unsort(rng, A); l << "eig_copy" << A << gen_vec(rng, A.m, true); } break;
            default: {
                bool cx = rng.coin(); int b = (int)rng.range(2, 4);
                CA X = rng.coin(2, 3) ? gunimod(rng, b, cx) : (rng.coin(1, 8) ? CA(b * b, CQ(Q(0))) : gvec(rng, b * b, cx)), Y = gvec(rng, b * b, cx);
                l << "evt_ops" << (long)cx << (long)b; putcv(l, X); putcv(l, Y); putcv(l, gvec(rng, b, cx)); putcv(l, gvec(rng, b, cx)); putc(l, gint(rng, cx));
            }
        }
        lines.push_back(l.get());
    }
    lines.push_back("eigc_axpby 1 0 2 1 0 1 0 1 0 1 1 0");                   // size mismatch
    lines.push_back("eigc_inner_product 1 1 0 2 1 0 1 0");
    lines.push_back("evt_ops 0 2 4 1 0 0 1 0 0 1 0 4 1 0 0 0 0 0 1 0 2 1 0 0 0 2 1 0 0 0 1 0");      // imaginary part in the real variant
    lines.push_back("evt_ops 1 5 0 0 0 0 0 0");
    lines.push_back("mxp_spmv 5 0 1 0 1 1 1 0 2 1 1 0 2 0 0");                // block size outside 2..4
    lines.push_back("mxp_spmv 2 0 1 0 1 1 1 0 3 1 1 1 0 2 0 0");              // x of the wrong length
    lines.push_back("mxp_vmul 2 0 1 0 1 1 1 0 0 1 2 1 1 0 1 0");              // z of the wrong length
    lines.push_back("evt_ops 1 2 4 1 0 0 0 0 0 1 0 4 1 0 0 0 0 0 1 0 2 1 0 0 0 2 1 0 0 0");        // truncated
}

VH_MAIN(generate, execute)
