// C16 harness, Cuthill-McKee: the REAL amgcl::reorder::cuthill_mckee<rev>::get against the loop-by-loop Lean model
// (lean/Amgcl/Model/CuthillMcKee.lean, driver lean/Amgcl/Driver/Cmk.lean).  The correspondence is EQUALITY of the
// permutation (not merely "is a permutation").
// Ops:
//   direct_cmk rev A             pattern of the CRS matrix A in stored order (values are never looked at by the code)
//   direct_cmk_pat rev n code    compact form for the exhaustive enumeration: entry (i,j) is stored iff bit i*n+j of `code`
//                                is set, rows in increasing column order
//   direct_cmk_pats rev n k code_1 .. code_k   the same for k patterns in one request (result lines concatenated): keeps the
//                                exhaustive 5x5 enumeration of the thorough tier affordable
//   direct_sky_empty kind        kind 0: solver::skyline_lu<double> constructed from a 0 x 0 matrix + operator() on empty vectors,
//                                kind 1: amg<builtin<double>, smoothed_aggregation, spai0> on a 0 x 0 system (its own coarsest level);
//                                forked child, result `ok` / `precondition` / `crash` (finding F42: factorize() read D[0] of an
//                                empty vector); the model side runs CMK.get + the skyline model on the empty matrix (kind 0)
// Result line: `ok n p_0 .. p_{n-1}`; for n = 0 (`if (n == 0) return;`, fix of finding F41) `ok 0`: the real code is run in a
// forked child on an empty `perm` and on a longer one (which must be left untouched); `crash` + oracle failure if the child
// dies; `precondition` (amgcl's exception) is an oracle failure as well.
// Implementation-side oracles (independent of the model): the result is a permutation of 0..n-1; it does not depend on the
// incoming content of `perm`; perm[0] = 0 (the initial node).
#include "direct_common.hpp"
#include <amgcl/reorder/cuthill_mckee.hpp>
#include <amgcl/solver/skyline_lu.hpp>
#include <amgcl/amg.hpp>
#include <amgcl/coarsening/smoothed_aggregation.hpp>
#include <amgcl/relaxation/spai0.hpp>
#include <unistd.h>
#include <sys/wait.h>
#include <fcntl.h>
using namespace vh;

static std::vector<long> run_cmk(long rev, const Mat &A, long fill) {
    auto Ac = A.crs(); std::vector<long> perm(A.n, fill);
    if (rev) amgcl::reorder::cuthill_mckee<true>::get(*Ac, perm); else amgcl::reorder::cuthill_mckee<false>::get(*Ac, perm);
    return perm;
}

// run `f` in a forked child; true iff it returns 0 (sanitizer reports, signals and exceptions are all "does not survive")
template <class F> static int child_status(F f) {
    fflush(0);
    pid_t pid = fork();
    if (pid < 0) throw std::runtime_error("fork");
    if (pid == 0) {
        int fd = open("/dev/null", O_WRONLY); if (fd >= 0) { dup2(fd, 2); dup2(fd, 1); }
        int rc = 3; try { rc = f(); } catch (...) { rc = 4; }
        _exit(rc);
    }
    int st = 0; waitpid(pid, &st, 0);
    return WIFEXITED(st) ? WEXITSTATUS(st) : -1;
}
template <class F> static bool survives(F f) { return child_status(f) == 0; }
// n = 0: the code returns at once and leaves `perm` (empty, or longer than it should be) untouched
static bool survives_empty(long rev, const Mat &A) {
    return survives([&]() -> int {
        if (!run_cmk(rev, A, -1).empty()) return 1;
        auto Ac = A.crs(); std::vector<long> longer(3, 7);
        if (rev) amgcl::reorder::cuthill_mckee<true>::get(*Ac, longer); else amgcl::reorder::cuthill_mckee<false>::get(*Ac, longer);
        for (long v : longer) if (v != 7) return 1;
        return 0; });
}
static int status_sky_empty(long kind) {
    return child_status([&]() -> int {
        std::vector<ptrdiff_t> ptr(1, 0), col; std::vector<double> val;
        amgcl::backend::crs<double, ptrdiff_t, ptrdiff_t> A(0, 0, ptr, col, val);
        try {
            if (kind == 0) { amgcl::solver::skyline_lu<double> S(A); std::vector<double> f, x; S(f, x); }
            else { amgcl::amg<amgcl::backend::builtin<double>, amgcl::coarsening::smoothed_aggregation, amgcl::relaxation::spai0> P(A); }
        } catch (const std::exception &) { return 9; }
        return 0; });
}

static Mat pat_matrix(long n, unsigned long long code) {
    std::vector<std::vector<std::pair<long,Q>>> rows(n);
    for (long i = 0; i < n; ++i) for (long j = 0; j < n; ++j) if ((code >> (i * n + j)) & 1ULL) rows[i].push_back({j, Q(1)});
    return from_rows(n, n, rows);
}

static Result run(long rev, const Mat &A) {
    Result r; long n = A.n;
    r.tag(rev ? "rcm" : "cm"); r.nontrivial = n >= 2;
    if (n == 0) { r.tag("n0"); if (survives_empty(rev, A)) r.out = "ok 0"; else { r.out = "crash"; r.fail("cuthill_mckee::get on an empty matrix crashes or touches perm"); } return r; }
    std::vector<long> p;
    try { p = run_cmk(rev, A, -1); } catch (const std::exception &) { r.out = "precondition"; r.fail("cuthill_mckee::get threw on a square well-formed pattern"); return r; }
    if (!is_perm(p, n)) r.fail("cuthill_mckee::get did not return a permutation of 0..n-1");
    if (p[0] != 0) r.fail("perm[0] is not the initial node 0");
    if (run_cmk(rev, A, 7) != p) r.fail("result depends on the incoming content of perm");
    { Line l; l << "ok" << p; r.out = l.get(); }
    // distribution tags: connectivity (of the symmetrised graph), symmetry, empty rows, node 0 with neighbours, duplicates, unsorted
    std::vector<std::set<long>> adj(n); bool sym = true, dup = false, unsorted = false, empty_row = false; long off0 = 0, maxdeg = 0;
    for (long i = 0; i < n; ++i) { std::set<long> s; long w = A.ptr[i+1] - A.ptr[i]; maxdeg = std::max(maxdeg, w); if (w == 0) empty_row = true;
        for (auto j = A.ptr[i]; j < A.ptr[i+1]; ++j) { long c = A.col[j]; if (!s.insert(c).second) dup = true; if (j > A.ptr[i] && A.col[j-1] > c) unsorted = true;
            if (c != i) { adj[i].insert(c); if (i == 0) ++off0; } } }
    for (long i = 0; i < n; ++i) for (long c : adj[i]) if (!adj[c].count(i)) sym = false;
    { std::vector<std::set<long>> u = adj; for (long i = 0; i < n; ++i) for (long c : adj[i]) u[c].insert(i);
      std::vector<char> seen(n, 0); std::vector<long> st{0}; seen[0] = 1; long cnt = 1; while (!st.empty()) { long v = st.back(); st.pop_back(); for (long w : u[v]) if (!seen[w]) { seen[w] = 1; ++cnt; st.push_back(w); } }
      r.tag(cnt == n ? "connected" : "disconnected"); }
    r.tag(sym ? "sym_pattern" : "nonsym_pattern"); if (dup) r.tag("dup_cols"); if (unsorted) r.tag("unsorted_rows"); if (empty_row) r.tag("empty_row");
    if (off0) r.tag("node0_has_neighbours"); else r.tag("node0_isolated");
    { bool ident = true; for (long i = 0; i < n; ++i) if (p[i] != i) ident = false; if (!ident) r.tag("non_identity_result"); }
    return r;
}

static Result execute(const Toks &t) {
    Cur c(t);
    const std::string &op = t[0];
    if (op == "direct_cmk") {
        long rev = c.nat(); auto A = c.mat(); c.expect_end();
        std::string why; if (rev < 0 || rev > 1 || A.n < 0 || A.m != A.n) throw bad_input("shape");
        for (auto v : A.col) if (v < 0 || v >= A.m) throw bad_input("col");
        return run(rev, A);
    } else if (op == "direct_cmk_pat") {
        long rev = c.nat(), n = c.nat(); const std::string &s = c.tok(); c.expect_end();
        if (rev < 0 || rev > 1 || n < 0 || n > 7 || s.empty() || s.size() > 18) throw bad_input("shape");
        for (char ch : s) if (ch < '0' || ch > '9') throw bad_input("code");
        unsigned long long code = strtoull(s.c_str(), 0, 10);
        if (n * n < 64 && (code >> (n * n)) != 0) throw bad_input("code");
        Result r = run(rev, pat_matrix(n, code)); r.tag("pattern_enum"); return r;
    } else if (op == "direct_cmk_pats") {
        long rev = c.nat(), n = c.nat(), k = c.nat();
        if (rev < 0 || rev > 1 || n < 0 || n > 7 || k < 1 || k > 64) throw bad_input("shape");
        std::vector<unsigned long long> codes;
        for (long q = 0; q < k; ++q) { const std::string &s = c.tok(); if (s.empty() || s.size() > 18) throw bad_input("code");
            for (char ch : s) if (ch < '0' || ch > '9') throw bad_input("code");
            unsigned long long code = strtoull(s.c_str(), 0, 10); if (n * n < 64 && (code >> (n * n)) != 0) throw bad_input("code"); codes.push_back(code); }
        c.expect_end();
        Result r; Line l; std::set<std::string> tags;
        for (auto code : codes) { Result one = run(rev, pat_matrix(n, code)); l << one.out; if (!one.ok) r.fail(one.why + " (pattern " + std::to_string(code) + ")");
            r.nontrivial = r.nontrivial || one.nontrivial; for (auto &t : one.tags) tags.insert(t); }
        for (auto &t : tags) r.tag(t); r.tag("pattern_enum"); r.tag("pattern_batch"); r.out = l.get(); return r;
    }
    else if (op == "direct_sky_empty") {
        long kind = c.nat(); c.expect_end(); if (kind < 0 || kind > 1) throw bad_input("kind");
        Result r; r.tag(kind ? "amg_empty" : "sky_empty");
        int st = status_sky_empty(kind);
        if (st == 0) r.out = "ok"; else if (st == 9) { r.out = "precondition"; r.fail("exception on a 0 x 0 system"); }
        else { r.out = "crash"; r.fail(kind ? "amg on a 0 x 0 system crashes" : "skyline_lu on a 0 x 0 matrix crashes"); }
        return r;
    }
    Result r; r.out = "bad-op"; return r;
}

// ------------------------------------------------------------------ generators (values are irrelevant: all 1)
typedef std::vector<std::vector<std::pair<long,Q>>> Rows;
static void add(Rows &rows, long i, long j) { rows[i].push_back({j, Q(1)}); }
static void relabel(Rng &rng, Rows &rows, bool keep0) {
    long n = (long)rows.size(); std::vector<long> p(n); std::iota(p.begin(), p.end(), 0);
    for (long k = n; k > 1; --k) std::swap(p[k-1], p[rng.next() % k]);
    if (keep0) { for (long i = 0; i < n; ++i) if (p[i] == 0) { std::swap(p[i], p[0]); break; } }
    Rows out(n); for (long i = 0; i < n; ++i) for (auto &cv : rows[i]) out[p[i]].push_back({p[cv.first], cv.second});
    for (auto &r : out) std::sort(r.begin(), r.end(), [](const std::pair<long,Q> &a, const std::pair<long,Q> &b) { return a.first < b.first; });
    rows.swap(out);
}
static Mat gen_pattern(Rng &rng, long n, int fam) {
    Rows rows(n);
    auto diag = [&](int pct) { for (long i = 0; i < n; ++i) if (rng.range(0, 99) < pct) add(rows, i, i); };
    switch (fam) {
    case 0: { int d = (int)rng.range(1, 30); for (long i = 0; i < n; ++i) for (long j = 0; j < n; ++j) if (rng.range(0, 99) < d) add(rows, i, j); break; }   // non-symmetric random
    case 1: { int d = (int)rng.range(1, 25); diag((int)rng.range(0, 100)); for (long i = 0; i < n; ++i) for (long j = 0; j < i; ++j) if (rng.range(0, 99) < d) { add(rows, i, j); add(rows, j, i); } break; }   // symmetric random
    case 2: {   // disconnected, interleaved components (+ isolated nodes), symmetric or not
        long comps = rng.range(2, 5); std::vector<long> comp(n); for (auto &v : comp) v = rng.range(0, comps); int d = (int)rng.range(10, 70); bool sym = rng.coin(); diag((int)rng.range(0, 100));
        for (long i = 0; i < n; ++i) for (long j = 0; j < i; ++j) if (comp[i] == comp[j] && comp[i] != comps && rng.range(0, 99) < d) { add(rows, i, j); if (sym || rng.coin()) add(rows, j, i); }
        break; }
    case 3: {   // star(s): centre 0 or elsewhere, possibly several stars
        long k = rng.range(1, 3); diag(rng.coin() ? 100 : 0); std::vector<long> centre(k); for (auto &v : centre) v = rng.coin(1, 3) ? 0 : rng.range(0, n - 1);
        for (long i = 0; i < n; ++i) { long c = centre[rng.range(0, k - 1)]; if (i != c && rng.coin(4, 5)) { add(rows, i, c); add(rows, c, i); } }
        break; }
    case 4: {   // chain(s) / band, natural or shuffled numbering
        long bw = rng.range(1, 3); diag(rng.coin() ? 100 : 50);
        for (long i = 0; i < n; ++i) for (long b = 1; b <= bw; ++b) if (i + b < n && !rng.coin(1, 12)) { add(rows, i, i + b); add(rows, i + b, i); }
        if (rng.coin()) relabel(rng, rows, rng.coin()); break; }
    case 5: {   // cliques of decreasing / random sizes + isolated nodes: the fallback meets stale heads of higher degrees
        long i = 0; diag(rng.coin() ? 100 : 0);
        while (i < n) { long s = rng.range(1, std::max<long>(1, std::min<long>(n - i, 7))); for (long a = i; a < i + s; ++a) for (long b = i; b < i + s; ++b) if (a != b && !rng.coin(1, 10)) add(rows, a, b); i += s; }
        if (rng.coin(2, 3)) relabel(rng, rows, rng.coin()); break; }
    case 6: {   // 2D grid, 5-point
        long nx = std::max<long>(1, (long)std::sqrt((double)n)), ny = (n + nx - 1) / nx; diag(100);
        for (long k = 0; k < n; ++k) { long x = k % nx, y = k / nx; (void)ny; if (x + 1 < nx && k + 1 < n) { add(rows, k, k + 1); add(rows, k + 1, k); } if (k + nx < n) { add(rows, k, k + nx); add(rows, k + nx, k); } (void)y; }
        if (rng.coin(1, 3)) relabel(rng, rows, rng.coin()); break; }
    default: {  // node 0 isolated or with only incoming / only outgoing edges; the rest random
        int d = (int)rng.range(5, 40); int mode = (int)rng.range(0, 2);
        for (long i = 1; i < n; ++i) for (long j = 1; j < n; ++j) if (rng.range(0, 99) < d) add(rows, i, j);
        if (mode == 1) for (long j = 1; j < n; ++j) if (rng.coin(1, 3)) add(rows, 0, j);
        if (mode == 2) for (long j = 1; j < n; ++j) if (rng.coin(1, 3)) add(rows, j, 0);
        break; }
    }
    for (auto &r : rows) std::sort(r.begin(), r.end(), [](const std::pair<long,Q> &a, const std::pair<long,Q> &b) { return a.first < b.first; });
    for (auto &r : rows) r.erase(std::unique(r.begin(), r.end(), [](const std::pair<long,Q> &a, const std::pair<long,Q> &b) { return a.first == b.first; }), r.end());
    // storage order / duplicates
    int st = (int)rng.range(0, 3);
    if (st == 1) shuffle_rows_inplace(rng, rows);
    if (st == 2) { for (auto &r : rows) { size_t k = r.size(); for (size_t j = 0; j < k; ++j) if (rng.coin(1, 4)) r.push_back(r[j]); } shuffle_rows_inplace(rng, rows); }
    return from_rows(n, n, rows);
}

static void emit_pat(std::vector<std::string> &lines, long rev, long n, unsigned long long code) {
    Line l; l << "direct_cmk_pat" << rev << n << std::to_string(code); lines.push_back(l.get());
}

static void generate(Rng &rng, const Opts &o, std::vector<std::string> &lines) {
    const bool T = o.thorough();
    long scale = o.cases > 0 ? o.cases : (T ? 8 : 1);
    // ---- n = 0
    lines.push_back("direct_cmk 0 0 0"); lines.push_back("direct_cmk 1 0 0"); lines.push_back("direct_cmk_pat 0 0 0");
    lines.push_back("direct_sky_empty 0"); lines.push_back("direct_sky_empty 1");
    // ---- exhaustive: every pattern (diagonal included) up to 3x3 (thorough: 4x4); quick 4x4: every off-diagonal pattern with the
    //      diagonal masks all / none / pseudo-random, both variants
    for (long n = 1; n <= (T ? 4 : 3); ++n) for (unsigned long long code = 0; code < (1ULL << (n * n)); ++code) for (long rev = 0; rev < 2; ++rev) emit_pat(lines, rev, n, code);
    if (!T) for (unsigned long long off = 0; off < (1ULL << 12); ++off) {
        unsigned long long base = 0; int b = 0; for (long i = 0; i < 4; ++i) for (long j = 0; j < 4; ++j) if (i != j) { if ((off >> b) & 1ULL) base |= 1ULL << (i * 4 + j); ++b; }
        unsigned long long masks[3] = {15, 0, (mix(off, o.seed) >> 8) & 15};
        for (int m = 0; m < 3; ++m) { unsigned long long code = base; for (long i = 0; i < 4; ++i) if ((masks[m] >> i) & 1ULL) code |= 1ULL << (i * 4 + i);
            for (long rev = 0; rev < 2; ++rev) emit_pat(lines, rev, 4, code); }
    }
    // ---- 5x5: thorough = every off-diagonal pattern, diagonal mask derived from the code (all / none / pseudo-random);
    //      quick = a random sample of full 5x5 and 6x6 patterns
    if (T) {
        const unsigned long long B = 16;   // patterns per request
        for (unsigned long long off0 = 0; off0 < (1ULL << 20); off0 += B) {
            Line l; l << "direct_cmk_pats" << (long)((mix(off0, o.seed + 1) >> 16) & 1) << 5L << (long)B;
            for (unsigned long long off = off0; off < off0 + B; ++off) {
                unsigned long long code = 0; int b = 0; for (long i = 0; i < 5; ++i) for (long j = 0; j < 5; ++j) if (i != j) { if ((off >> b) & 1ULL) code |= 1ULL << (i * 5 + j); ++b; }
                unsigned long long h = mix(off, o.seed); int dm = (int)(h % 3); unsigned long long dmask = dm == 0 ? 31 : dm == 1 ? 0 : ((h >> 8) & 31);
                for (long i = 0; i < 5; ++i) if ((dmask >> i) & 1ULL) code |= 1ULL << (i * 5 + i);
                l << std::to_string(code);
            }
            lines.push_back(l.get());
        }
    }
    for (long k = 0; k < (T ? 20000 : 6000); ++k) { long n = rng.range(5, 6); unsigned long long code = rng.next() & ((1ULL << (n * n)) - 1);
        if (rng.coin()) code &= rng.next(); if (rng.coin(1, 4)) code &= rng.next(); emit_pat(lines, rng.range(0, 1), n, code); }
    for (long k = 0; k < 40; ++k) { long n = rng.range(0, 5), cnt = rng.range(1, 8); Line l; l << "direct_cmk_pats" << rng.range(0, 1) << n << cnt;
        for (long q = 0; q < cnt; ++q) { unsigned long long code = n ? (rng.next() & rng.next() & ((1ULL << (n * n)) - 1)) : 0; l << std::to_string(code); } lines.push_back(l.get()); }
    // ---- random patterns up to n = 60
    for (long k = 0; k < 1500 * scale; ++k) {
        long n = rng.coin(1, 4) ? rng.range(1, 8) : rng.range(2, 60); int fam = (int)rng.range(0, 7);
        Mat A = gen_pattern(rng, n, fam);
        long rev = rng.range(0, 1); if (rng.coin(1, 3)) { Line l; l << "direct_cmk" << (1 - rev) << A; lines.push_back(l.get()); }
        Line l; l << "direct_cmk" << rev << A; lines.push_back(l.get());
    }
    // ---- malformed stream: both sides must answer bad-input
    lines.push_back("direct_cmk 0 2 3 1 0 1 1 1 1");                 // not square
    lines.push_back("direct_cmk 0 2 2 1 2 1 1 1 1");                 // column index out of range
    lines.push_back("direct_cmk 2 2 2 1 0 1 1 1 1");                 // rev out of range
    lines.push_back("direct_cmk 0 2 2 1 0 1 1 1");                   // truncated
    lines.push_back("direct_cmk_pat 0 2 16");                        // code has a bit outside the 2x2 pattern
    lines.push_back("direct_cmk_pat 0 2");                           // truncated
    lines.push_back("direct_cmk_pats 0 2 2 3 16");                   // second code has a bit outside the 2x2 pattern
    lines.push_back("direct_cmk_pats 1 2 3 3 5");                    // fewer codes than announced
    lines.push_back("direct_cmk_pats 0 2 0");                        // empty batch
    lines.push_back("direct_sky_empty 2");                           // kind out of range
}

VH_MAIN(generate, execute)
