// C18 harness: composite preconditioners (schur_pressure_correction, cpr, deflated_solver) at the exact type Q.
// The composites take their inner solvers as template arguments; we pass RECORDING inner solver classes that
//   * log the sub-matrices they are constructed with (Kuu, the adjusted Kpp, App, K),
//   * compute "multiply by the dense matrix of the op line" (or point Jacobi / identity) — the same function the
//     Lean model is given; `generate` obtains EXACT inverses by dense Gaussian elimination at Q of the logged Kuu
//     and of the matrix-free Schur operator S extracted by applying the object's spmv to the unit vectors; `execute`
//     re-verifies exactness (Kuu*Umat = I, S*Pmat = I) in exact arithmetic before the K x = f oracle is applied.
// Private members (Kup, Kpu, x2u, ..., Fpp, Scatter, E) are read through -fno-access-control (see tools/checks/C18.json).
//
// Ops (dense matrices are `r c v11 ... vrc`, row-major):
//   comp_schur     nt type adjust_p approx_schur simplec_dia K pmask Umat Pmat f
//   comp_schur_mv  nt adjust_p approx_schur simplec_dia K pmask Umat k (alpha beta x y){k} f xr
//                  the object as the matrix-free operator the pressure solver iterates on: k calls of
//                  backend::spmv(alpha, S, x, beta, y) in sequence on ONE object, then backend::residual(f, S, xr, r)
//   comp_cpr       B active_rows K skind Smat Pmat f
//   comp_cpr_upd   B active_rows K skind Smat Pmat f upd K2
//   comp_cprb      B active_rows Kb skind Smat Pmat f          (Kb: CRS of row-major BxB blocks)
//   comp_cprb_upd  B active_rows Kb skind Smat Pmat f upd Kb2
//   comp_defl      nt A nvec Z0 .. Z{nvec-1} pkind Pmat b x0
//   comp_pmask     n pattern        (pmask_pattern -> pmask through the real property-tree constructor)
#include "gen.hpp"
#include <amgcl/backend/builtin.hpp>
#include <amgcl/value_type/static_matrix.hpp>
#include <amgcl/preconditioner/schur_pressure_correction.hpp>
#include <amgcl/preconditioner/cpr.hpp>
#include <amgcl/preconditioner/dummy.hpp>
#include <amgcl/solver/preonly.hpp>
#include <amgcl/deflated_solver.hpp>
#ifdef _OPENMP
#include <omp.h>
#endif
using namespace vh;

typedef amgcl::backend::builtin<Q> BE;

// ------------------------------------------------------------------------------------------------ dense helpers
struct DM {                       // dense r x c matrix
    long r = 0, c = 0; Dense d;
    DM() {}
    DM(long r, long c) : r(r), c(c), d(r, std::vector<Q>(c)) {}
    Q& operator()(long i, long j) { return d[i][j]; }
    const Q& operator()(long i, long j) const { return d[i][j]; }
};
static DM dident(long n) { DM I(n, n); for (long i = 0; i < n; ++i) I(i, i) = Q(1); return I; }
static DM dmul(const DM &A, const DM &B) {
    DM C(A.r, B.c);
    for (long i = 0; i < A.r; ++i) for (long k = 0; k < A.c; ++k) if (A(i, k) != 0) for (long j = 0; j < B.c; ++j) C(i, j) += A(i, k) * B(k, j);
    return C;
}
static DM dadd(const DM &A, const DM &B, long sgn = 1) { DM C(A.r, A.c); for (long i = 0; i < A.r; ++i) for (long j = 0; j < A.c; ++j) C(i, j) = sgn > 0 ? A(i, j) + B(i, j) : A(i, j) - B(i, j); return C; }
static bool deq(const DM &A, const DM &B) {
    if (A.r != B.r || A.c != B.c) return false;
    for (long i = 0; i < A.r; ++i) for (long j = 0; j < A.c; ++j) if (A(i, j).poison || B(i, j).poison || A(i, j).v != B(i, j).v) return false;
    return true;
}
static std::vector<Q> dmv(const DM &A, const std::vector<Q> &x) {
    std::vector<Q> y(A.r); for (long i = 0; i < A.r; ++i) for (long j = 0; j < A.c; ++j) y[i] += A(i, j) * x[j]; return y;
}
static bool veq(const std::vector<Q> &a, const std::vector<Q> &b) {
    if (a.size() != b.size()) return false;
    for (size_t i = 0; i < a.size(); ++i) if (a[i].poison || b[i].poison || a[i].v != b[i].v) return false;
    return true;
}
// Gauss-Jordan with row search: exact inverse over Q, false if singular
static bool dinverse(const DM &A, DM &inv) {
    long n = A.r; if (A.c != n) return false;
    DM M = A; inv = dident(n);
    for (long k = 0; k < n; ++k) {
        long p = -1; for (long i = k; i < n; ++i) if (M(i, k) != 0) { p = i; break; }
        if (p < 0) return false;
        std::swap(M.d[p], M.d[k]); std::swap(inv.d[p], inv.d[k]);
        Q piv = M(k, k);
        for (long j = 0; j < n; ++j) { M(k, j) /= piv; inv(k, j) /= piv; }
        for (long i = 0; i < n; ++i) if (i != k && M(i, k) != 0) { Q f = M(i, k); for (long j = 0; j < n; ++j) { M(i, j) -= f * M(k, j); inv(i, j) -= f * inv(k, j); } }
    }
    return true;
}
template <class M> static DM ddense(const M &A) { DM D(A.nrows, A.ncols); for (size_t i = 0; i < A.nrows; ++i) for (auto j = A.ptr[i]; j < A.ptr[i+1]; ++j) D(i, A.col[j]) += A.val[j]; return D; }
static DM ddense(const Mat &A) { DM D(A.n, A.m); for (long i = 0; i < A.n; ++i) for (auto j = A.ptr[i]; j < A.ptr[i+1]; ++j) D(i, A.col[j]) += A.val[j]; return D; }
static DM parse_dense(Cur &c) {
    long r = c.nat(), cc = c.nat(); if (r < 0 || cc < 0 || r > 4096 || cc > 4096) throw bad_input("dense");
    DM M(r, cc); for (long i = 0; i < r; ++i) for (long j = 0; j < cc; ++j) M(i, j) = c.rat(); return M;
}
static Line& operator<<(Line &l, const DM &M) { l << M.r << M.c; for (long i = 0; i < M.r; ++i) for (long j = 0; j < M.c; ++j) l << M(i, j); return l; }
static std::vector<Q> vecof(const NVec &v) { std::vector<Q> r(v.size()); for (size_t i = 0; i < v.size(); ++i) r[i] = v[i]; return r; }
static bool has_poison(const std::vector<Q> &v) { for (auto &x : v) if (x.poison) return true; return false; }
static void poison(NVec &v) { for (size_t i = 0; i < v.size(); ++i) v[i] = Q::poisoned(); }

// component access for scalar and block vector elements
static inline Q comp(const Q &x, int) { return x; }
static inline Q& comp(Q &x, int) { return x; }
template <int B> static inline Q comp(const amgcl::static_matrix<Q,B,1> &x, int r) { return x(r); }
template <int B> static inline Q& comp(amgcl::static_matrix<Q,B,1> &x, int r) { return x(r); }

// ------------------------------------------------------------------------------------------------ inner solvers
// USolver / PSolver of schur_pressure_correction (make_solver-like interface)
struct InnerSolver {
    typedef BE backend_type; typedef BE::matrix matrix; typedef BE::params backend_params; typedef Q value_type;
    struct params {
        int role = 0;                 // 0 = U, 1 = P
        const DM *M = nullptr;        // the inner solve: x = M rhs;  nullptr: own exact inverse by Gaussian elimination (U) / identity (P)
        std::vector<std::pair<int, std::shared_ptr<Crs>>> *built = nullptr;
        params() {}
        params(const boost::property_tree::ptree&) {}      // pmask_pattern cases go through schur's ptree constructor
    } prm;
    std::shared_ptr<Crs> A; DM own; bool own_ok = false; mutable long calls = 0;
    // the pressure solver is handed the composite object as a matrix-free operator: like a restarted Krylov solver it
    // re-evaluates the true residual rhs - Op*x at its (non-zero) answer through backend::residual; logged for oracle (O6)
    struct OpRes { std::vector<Q> rhs, x, res; }; mutable std::vector<OpRes> opres;
    template <class Matrix>
    InnerSolver(const Matrix &A_, const params &p = params(), const backend_params& = backend_params()) : prm(p), A(std::make_shared<Crs>(A_)) {
        if (prm.built) prm.built->push_back({prm.role, A});
        if (!prm.M) { if (prm.role == 0) own_ok = dinverse(ddense(*A), own); else { own = dident(A->nrows); own_ok = true; } }
    }
    template <class V1, class V2> void mul(const V1 &rhs, V2 &x) const {
        const DM &M = prm.M ? *prm.M : own; ++calls;
        std::vector<Q> y(M.r);
        for (long i = 0; i < M.r; ++i) for (long j = 0; j < M.c; ++j) y[i] += M(i, j) * rhs[j];
        for (long i = 0; i < M.r; ++i) x[i] = y[i];
    }
    template <class V1, class V2> std::tuple<size_t, Q> operator()(const V1 &rhs, V2 &&x) const { mul(rhs, x); return std::make_tuple(size_t(1), Q(0)); }
    template <class Op, class V1, class V2> std::tuple<size_t, Q> operator()(const Op &op, const V1 &rhs, V2 &&x) const {
        mul(rhs, x);
        const size_t m = A->nrows; OpRes o; o.rhs.resize(m); o.x.resize(m);
        for (size_t i = 0; i < m; ++i) { o.rhs[i] = rhs[i]; o.x[i] = x[i]; }
        amgcl::backend::numa_vector<Q> r(m); for (size_t i = 0; i < m; ++i) r[i] = Q::poisoned();
        amgcl::backend::residual(rhs, op, x, r);
        o.res.resize(m); for (size_t i = 0; i < m; ++i) o.res[i] = r[i];
        opres.push_back(o);
        return std::make_tuple(size_t(1), Q(0));
    }
    const matrix& system_matrix() const { return *A; }
    std::shared_ptr<matrix> system_matrix_ptr() const { return A; }
};

// PPrecond / SPrecond of cpr, Precond of deflated_solver
template <class Backend>
struct InnerPrecond {
    typedef Backend backend_type; typedef typename Backend::matrix matrix; typedef typename Backend::vector vector;
    typedef typename Backend::value_type value_type; typedef typename Backend::params backend_params;
    typedef typename amgcl::backend::builtin<value_type>::matrix build_matrix;
    static const int B = amgcl::math::static_rows<value_type>::value;
    struct params {
        int kind = 0;                 // 0: x = M rhs (dense matrix of the op line), 1: point Jacobi of the matrix it is built with
        const DM *M = nullptr;
        std::vector<std::shared_ptr<build_matrix>> *built = nullptr;
    } prm;
    std::shared_ptr<build_matrix> A;
    InnerPrecond(std::shared_ptr<build_matrix> A_, const params &p = params(), const backend_params& = backend_params()) : prm(p), A(A_) { if (prm.built) prm.built->push_back(A); }
    template <class Matrix>
    InnerPrecond(const Matrix &A_, const params &p = params(), const backend_params& = backend_params()) : prm(p), A(std::make_shared<build_matrix>(A_)) { if (prm.built) prm.built->push_back(A); }
    static Q diag_of(const Q &v, int) { return v; }
    template <int BB> static Q diag_of(const amgcl::static_matrix<Q,BB,BB> &v, int r) { return v(r, r); }
    template <class V1, class V2> void apply(const V1 &rhs, V2 &&x) const {
        const long n = (long)A->nrows;
        std::vector<Q> y(n * B);
        if (prm.kind == 1) {
            for (long i = 0; i < n; ++i) for (int r = 0; r < B; ++r) {
                Q d(0); for (auto j = A->ptr[i]; j < A->ptr[i+1]; ++j) if (A->col[j] == i) d += diag_of(A->val[j], r);
                y[i * B + r] = comp(rhs[i], r) / d;
            }
        } else {
            const DM &M = *prm.M;
            for (long i = 0; i < M.r; ++i) for (long j = 0; j < M.c; ++j) y[i] += M(i, j) * comp(rhs[j / B], (int)(j % B));
        }
        for (long i = 0; i < n; ++i) for (int r = 0; r < B; ++r) comp(x[i], r) = y[i * B + r];
    }
    const matrix& system_matrix() const { return *A; }
    std::shared_ptr<matrix> system_matrix_ptr() const { return A; }
};

// ------------------------------------------------------------------------------------------------ Schur
typedef amgcl::preconditioner::schur_pressure_correction<InnerSolver, InnerSolver> SPC;

struct SchurIn { long nt, type, adj; bool approx, simplec; Mat K; std::vector<long> pm; std::string pat; };

static std::vector<Q> unit(long n, long j) { std::vector<Q> e(n); if (j < n) e[j] = Q(1); return e; }

// the matrix-free Schur operator applied to the unit vectors
static DM extract_S(const SPC &S, long np) {
    DM D(np, np);
    for (long j = 0; j < np; ++j) {
        NVec e(unit(np, j)), y(np); poison(y);
        amgcl::backend::spmv(Q(1), S, e, Q(0), y);
        for (long i = 0; i < np; ++i) D(i, j) = y[i];
    }
    return D;
}
static SPC::params schur_params(const SchurIn &in, const DM *Um, const DM *Pm, std::vector<std::pair<int, std::shared_ptr<Crs>>> *built) {
    SPC::params prm;
    prm.type = (int)in.type; prm.adjust_p = (int)in.adj; prm.approx_schur = in.approx; prm.simplec_dia = in.simplec; prm.verbose = 0;
    prm.pmask.assign(in.pm.begin(), in.pm.end());
    prm.usolver.role = 0; prm.usolver.M = Um; prm.usolver.built = built;
    prm.psolver.role = 1; prm.psolver.M = Pm; prm.psolver.built = built;
    return prm;
}
// does the constructor read an uninitialised Kuu_dia entry? (simplec_dia = false, a Kuu row without stored diagonal)
static bool schur_reads_uninit(const SchurIn &in) {
    if (in.simplec || !(in.adj == 1 || in.adj == 2 || in.approx)) return false;
    for (long i = 0; i < in.K.n; ++i) if (!in.pm[i]) {
        bool found = false; for (auto j = in.K.ptr[i]; j < in.K.ptr[i+1]; ++j) if (in.K.col[j] == i) found = true;
        if (!found) return true;
    }
    return false;
}

static Result exec_schur(Cur &c) {
    Result r; SchurIn in;
    in.nt = c.nat(); in.type = c.nat(); in.adj = c.nat(); long ap = c.nat(), sd = c.nat();
    if (ap < 0 || ap > 1 || sd < 0 || sd > 1) throw bad_input("bool");
    in.approx = ap; in.simplec = sd;
    in.K = c.mat(); in.pm = c.natvec(); DM Um = parse_dense(c), Pm = parse_dense(c); auto f = c.vec(); c.expect_end();
    std::string why; auto Kc = in.K.crs();
    long n = in.K.n;
    if (!crs_wf(*Kc, why) || in.K.n != in.K.m || (long)in.pm.size() != n || (long)f.size() != n || in.nt < 1 || !(in.type == 1 || in.type == 2) || in.adj < 0) throw bad_input("shape");
    for (long b : in.pm) if (b < 0 || b > 1) throw bad_input("mask");
    // independent partition straight from the mask
    std::vector<long> ui, pi; for (long i = 0; i < n; ++i) (in.pm[i] ? pi : ui).push_back(i);
    long nu = ui.size(), np = pi.size();
    if (Um.r != nu || Um.c != nu || Pm.r != np || Pm.c != np) throw bad_input("inner");
    if (schur_reads_uninit(in)) { r.out = "uninit"; r.tag("schur_uninit"); return r; }
    DM Kd = ddense(in.K);
    auto block = [&](const std::vector<long> &ri, const std::vector<long> &ci) { DM Bk(ri.size(), ci.size()); for (size_t a = 0; a < ri.size(); ++a) for (size_t b = 0; b < ci.size(); ++b) Bk(a, b) = Kd(ri[a], ci[b]); return Bk; };
    DM Tuu = block(ui, ui), Tup = block(ui, pi), Tpu = block(pi, ui), Tpp = block(pi, pi);

#ifdef _OPENMP
    omp_set_num_threads((int)in.nt);
#endif
    std::vector<std::pair<int, std::shared_ptr<Crs>>> built;
    SPC S(*Kc, schur_params(in, &Um, &Pm, &built));
    // poison the scratch vectors: apply/spmv must overwrite every one of them before reading it
    poison(*S.rhs_u); poison(*S.rhs_p); poison(*S.u); poison(*S.p); poison(*S.tmp);
    DM Sx = extract_S(S, np);
    poison(*S.rhs_u); poison(*S.rhs_p); poison(*S.u); poison(*S.p); poison(*S.tmp);
    NVec F(f), X(n); poison(X);
    S.apply(F, X);
#ifdef _OPENMP
    omp_set_num_threads(1);
#endif
    std::vector<Q> x = vecof(X);

    if (built.size() != 2 || built[0].first != 0 || built[1].first != 1) { r.fail("inner solvers not constructed as (U, P)"); r.out = "crash"; return r; }
    const Crs &Kuu = *built[0].second, &KppP = *built[1].second;
    // ---- canonical line
    Line l;
    std::vector<long> idx(n);   // idx is a local of init: recompute it from the gather/scatter matrices
    for (long i = 0; i < n; ++i) { const Crs &sc = in.pm[i] ? *S.p2x : *S.u2x; idx[i] = (sc.ptr[i+1] - sc.ptr[i] == 1) ? (long)sc.col[sc.ptr[i]] : -1; }
    l << "nu" << (long)S.nu << "np" << (long)S.np << "idx" << idx << "Kuu" << Kuu << "Kup" << *S.Kup << "Kpu" << *S.Kpu << "KppP" << KppP
      << "x2u" << *S.x2u << "x2p" << *S.x2p << "u2x" << *S.u2x << "p2x" << *S.p2x;
    l << "Ld"; if (S.Ld) l << *S.Ld; else l << "-";
    l << "Lm"; if (S.Lm) l << *S.Lm; else l << "-";
    l << "M"; if (S.M) l << *S.M; else l << "-";
    std::vector<Q> sflat; for (long i = 0; i < np; ++i) for (long j = 0; j < np; ++j) sflat.push_back(Sx(i, j));
    bool uex = deq(dmul(ddense(Kuu), Um), dident(nu)), pex = deq(dmul(Sx, Pm), dident(np));
    l << "S" << sflat << "ex" << uex << pex << "x" << x;
    r.out = l.get();

    // ---- oracles (independent of the model)
    if (has_poison(x) || has_poison(sflat)) r.fail("scratch contents leaked into the result (poison)");
    if ((long)S.nu != nu || (long)S.np != np) r.fail("nu/np");
    // true Kuu_dia / M
    std::vector<Q> dia(nu);
    for (long a = 0; a < nu; ++a) {
        if (in.simplec) { Q s(0); for (auto j = in.K.ptr[ui[a]]; j < in.K.ptr[ui[a]+1]; ++j) if (!in.pm[in.K.col[j]]) s += abs(in.K.val[j]); dia[a] = Q(1) / s; }
        else { bool fnd = false; for (auto j = in.K.ptr[ui[a]]; j < in.K.ptr[ui[a]+1] && !fnd; ++j) if (in.K.col[j] == ui[a]) { fnd = true; dia[a] = in.K.val[j] == 0 ? Q(1) : Q(1) / in.K.val[j]; } }
    }
    DM Dd(nu, nu); for (long a = 0; a < nu; ++a) Dd(a, a) = dia[a];
    DM PDU = dmul(dmul(Tpu, Dd), Tup);
    // rows of Kpp without stored diagonal entry: adjust_p = 1 cannot subtract its correction there, so it must not add
    // it back in spmv either (fix ce6260a; before it K x = f failed on such inputs)
    std::vector<bool> ppdiag(np, false); bool missdiag = false;
    for (long b = 0; b < np; ++b) { for (auto j = in.K.ptr[pi[b]]; j < in.K.ptr[pi[b]+1]; ++j) if (in.K.col[j] == pi[b]) ppdiag[b] = true; if (!ppdiag[b]) missdiag = true; }
    const std::string tagmd = (missdiag && in.adj == 1) ? "[adjust1-missing-diag] " : "";
    if (missdiag && in.adj == 1) r.tag("adjust1_missing_diag");
    // (O1) the extracted blocks reassemble to K
    {
        DM Kpp_eff = in.adj == 1 ? ddense(S.P->system_matrix()) : (in.adj == 2 ? ddense(*S.Lm) : ddense(S.P->system_matrix()));
        if (in.adj == 1) for (long b = 0; b < np; ++b) Kpp_eff(b, b) += (*S.Ld)[b];
        DM U2X = ddense(*S.u2x), P2X = ddense(*S.p2x), X2U = ddense(*S.x2u), X2P = ddense(*S.x2p);
        DM R = dadd(dadd(dmul(dmul(U2X, ddense(Kuu)), X2U), dmul(dmul(U2X, ddense(*S.Kup)), X2P)),
                    dadd(dmul(dmul(P2X, ddense(*S.Kpu)), X2U), dmul(dmul(P2X, Kpp_eff), X2P)));
        if (!deq(R, Kd)) r.fail(tagmd + "u/p sub-blocks do not reassemble to K");
        if (!deq(ddense(Kuu), Tuu) || !deq(ddense(*S.Kup), Tup) || !deq(ddense(*S.Kpu), Tpu)) r.fail("extracted block != K restricted to the mask classes");
        if (!deq(dmul(X2U, U2X), dident(nu)) || !deq(dmul(X2P, P2X), dident(np)) || !deq(dadd(dmul(U2X, X2U), dmul(P2X, X2P)), dident(n))) r.fail("gather/scatter matrices are not a partition of unity");
    }
    // (O2) the matrix-free S is the Schur complement built from the inner solve actually used
    {
        DM inner = in.approx ? Dd : Um;
        DM St = dadd(Tpp, dmul(dmul(Tpu, inner), Tup), -1);
        if (!deq(Sx, St)) r.fail(tagmd + "matrix-free S != Kpp - Kpu*U*Kup");
    }
    // (O5) the matrix handed to the pressure solver is the documented adjustment (duplicate-free input; adjust_p = 1
    //      only on the rows that have a stored diagonal entry to adjust)
    if (crs_nodup(*Kc) && in.adj <= 2) {
        DM Ex = Tpp;
        if (in.adj == 1) for (long b = 0; b < np; ++b) if (ppdiag[b]) Ex(b, b) -= PDU(b, b);
        if (in.adj == 2) Ex = dadd(Tpp, PDU, -1);
        if (!deq(ddense(KppP), Ex)) r.fail(tagmd + "matrix given to PSolver != documented adjust_p form");
    }
    // (O3) x equals the block formula evaluated densely with the true blocks
    std::vector<Q> fu(nu), fp(np); for (long a = 0; a < nu; ++a) fu[a] = f[ui[a]]; for (long b = 0; b < np; ++b) fp[b] = f[pi[b]];
    std::vector<Q> u, p;
    auto vsub = [](std::vector<Q> a, const std::vector<Q> &b) { for (size_t i = 0; i < a.size(); ++i) a[i] -= b[i]; return a; };
    if (in.type == 1) { auto u1 = dmv(Um, fu); p = dmv(Pm, vsub(fp, dmv(Tpu, u1))); u = dmv(Um, vsub(fu, dmv(Tup, p))); }
    else { p = dmv(Pm, fp); u = dmv(Um, vsub(fu, dmv(Tup, p))); }
    std::vector<Q> xr(n); for (long a = 0; a < nu; ++a) xr[ui[a]] = u[a]; for (long b = 0; b < np; ++b) xr[pi[b]] = p[b];
    if (!veq(x, xr)) r.fail("apply != block formula of type " + std::to_string(in.type));
    // (O4) exact inner solves (U = Kuu^-1, P = S^-1 for the matrix-free S the code applies)
    bool exact = uex && pex && !in.approx;
    if (exact && in.type == 1 && !veq(dmv(Kd, x), f)) r.fail(tagmd + "type 1 with exact inner solves: K*x != f");
    if (exact && in.type == 2) {
        DM St = dadd(Tpp, dmul(dmul(Tpu, Um), Tup), -1);
        std::vector<Q> pu(np), uu(nu); for (long a = 0; a < nu; ++a) uu[a] = x[ui[a]]; for (long b = 0; b < np; ++b) pu[b] = x[pi[b]];
        auto t1 = dmv(Tuu, uu), t2 = dmv(Tup, pu); for (long a = 0; a < nu; ++a) t1[a] += t2[a];
        if (!veq(dmv(St, pu), fp) || !veq(t1, fu)) r.fail(tagmd + "type 2 with exact inner solves: block upper-triangular system not solved");
    }
    // (O6) inside apply the pressure solver evaluated the true residual of the matrix-free operator at its answer
    //      (backend::residual on the object = spmv with alpha = -1, beta = 1): it must be rhs_p - S*p for the dense S
    {
        DM St = dadd(Tpp, dmul(dmul(Tpu, in.approx ? Dd : Um), Tup), -1);
        if (S.P->opres.size() != 1) r.fail("pressure solver called " + std::to_string(S.P->opres.size()) + " times in apply");
        for (auto &o : S.P->opres) {
            if (has_poison(o.res)) { r.fail("residual(rhs, S, p) inside apply read scratch / uninitialised data (poison)"); continue; }
            if (!veq(o.res, vsub(o.rhs, dmv(St, o.x)))) r.fail(tagmd + "residual(rhs, S, p) evaluated by the pressure solver inside apply != rhs - (Kpp - Kpu*U*Kup)*p");
            bool nzx = false; for (auto &v : o.x) if (v != 0) nzx = true;
            if (nzx) r.tag("op_residual_at_nonzero_iterate");
            if (pex) { bool z = true; for (auto &v : o.res) if (v != 0) z = false; if (!z) r.fail(tagmd + "exact pressure solve (S*Pmat = I) but the operator's own residual rhs - S*p is not zero"); }
        }
    }
    r.nontrivial = nu > 0 && np > 0 && in.K.col.size() > (size_t)n;
    r.tag("schur_t" + std::to_string(in.type)); r.tag("adj" + std::to_string(in.adj)); if (in.approx) r.tag("approx_schur"); if (in.simplec) r.tag("simplec");
    if (exact) r.tag("exact_inner"); if (nu == 0 || np == 0) r.tag("empty_class"); r.tag("nt" + std::to_string(in.nt));
    bool inter = false; for (long i = 0; i + 2 < n; ++i) if (in.pm[i] != in.pm[i+1] && in.pm[i+1] != in.pm[i+2]) inter = true;
    r.tag(inter ? "mask_interleaved" : "mask_contiguous");
    return r;
}

// the object as a linear operator: y = beta*y + alpha*S*x for arbitrary alpha, beta (not only the alpha = 1, beta = 0 of
// extract_S) and backend::residual(f, S, x, r) = f - S*x, checked against the dense S = Kpp - Kpu*U*Kup
struct MvCall { Q alpha, beta; std::vector<Q> x, y; };
static Result exec_schur_mv(Cur &c) {
    Result r; SchurIn in; in.type = 1;
    in.nt = c.nat(); in.adj = c.nat(); long ap = c.nat(), sd = c.nat();
    if (ap < 0 || ap > 1 || sd < 0 || sd > 1) throw bad_input("bool");
    in.approx = ap; in.simplec = sd;
    in.K = c.mat(); in.pm = c.natvec(); DM Um = parse_dense(c);
    long k = c.nat(); if (k < 1 || k > 64) throw bad_input("k");
    std::vector<MvCall> calls(k);
    for (auto &m : calls) { m.alpha = c.rat(); m.beta = c.rat(); m.x = c.vec(); m.y = c.vec(); }
    auto f = c.vec(), xr = c.vec(); c.expect_end();
    std::string why; auto Kc = in.K.crs();
    long n = in.K.n;
    if (!crs_wf(*Kc, why) || in.K.n != in.K.m || (long)in.pm.size() != n || in.nt < 1 || in.adj < 0) throw bad_input("shape");
    for (long b : in.pm) if (b < 0 || b > 1) throw bad_input("mask");
    std::vector<long> ui, pi; for (long i = 0; i < n; ++i) (in.pm[i] ? pi : ui).push_back(i);
    long nu = ui.size(), np = pi.size();
    if (Um.r != nu || Um.c != nu) throw bad_input("inner");
    for (auto &m : calls) { if ((long)m.x.size() != np || (long)m.y.size() != np) throw bad_input("vec"); if (has_poison(m.x) || has_poison(m.y) || m.alpha.poison || m.beta.poison) throw bad_input("poison"); }
    if ((long)f.size() != np || (long)xr.size() != np || has_poison(f) || has_poison(xr)) throw bad_input("vec");
    if (schur_reads_uninit(in)) { r.out = "uninit"; r.tag("schur_uninit"); return r; }
    // dense truth straight from K and the mask
    DM Kd = ddense(in.K);
    auto block = [&](const std::vector<long> &ri, const std::vector<long> &ci) { DM Bk(ri.size(), ci.size()); for (size_t a = 0; a < ri.size(); ++a) for (size_t b = 0; b < ci.size(); ++b) Bk(a, b) = Kd(ri[a], ci[b]); return Bk; };
    DM Tup = block(ui, pi), Tpu = block(pi, ui), Tpp = block(pi, pi);
    DM inner = Um;
    if (in.approx) {
        inner = DM(nu, nu);
        for (long a = 0; a < nu; ++a) {
            if (in.simplec) { Q s(0); for (auto j = in.K.ptr[ui[a]]; j < in.K.ptr[ui[a]+1]; ++j) if (!in.pm[in.K.col[j]]) s += abs(in.K.val[j]); inner(a, a) = Q(1) / s; }
            else { bool fnd = false; for (auto j = in.K.ptr[ui[a]]; j < in.K.ptr[ui[a]+1] && !fnd; ++j) if (in.K.col[j] == ui[a]) { fnd = true; inner(a, a) = in.K.val[j] == 0 ? Q(1) : Q(1) / in.K.val[j]; } }
        }
    }
    DM St = dadd(Tpp, dmul(dmul(Tpu, inner), Tup), -1);

#ifdef _OPENMP
    omp_set_num_threads((int)in.nt);
#endif
    std::vector<std::pair<int, std::shared_ptr<Crs>>> built;
    SPC S(*Kc, schur_params(in, &Um, nullptr, &built));
    Line l; bool ld_nz = false;
    if (S.Ld) for (size_t i = 0; i < S.Ld->size(); ++i) if ((*S.Ld)[i] != 0) ld_nz = true;
    bool any_a = false;      // some call with alpha != 1 on a non-zero vector
    for (auto &m : calls) {
        poison(*S.rhs_u); poison(*S.rhs_p); poison(*S.u); poison(*S.p); poison(*S.tmp);
        NVec X(m.x), Y(m.y); if (m.beta == 0) poison(Y);                 // beta = 0: y is an output only
        amgcl::backend::spmv(m.alpha, S, X, m.beta, Y);
        std::vector<Q> y = vecof(Y); l << "y" << y;
        std::vector<Q> ex = dmv(St, m.x);
        for (long i = 0; i < np; ++i) { ex[i] = m.alpha * ex[i]; if (m.beta != 0) ex[i] += m.beta * m.y[i]; }
        std::string ab = "alpha = " + m.alpha.str() + ", beta = " + m.beta.str();
        if (has_poison(y)) r.fail("spmv(alpha, S, x, beta, y) read scratch / an output-only y (poison), " + ab);
        else if (!veq(y, ex)) r.fail("spmv(alpha, S, x, beta, y) != beta*y + alpha*(Kpp - Kpu*U*Kup)*x for " + ab + ", adjust_p = " + std::to_string(in.adj));
        bool nzx = false; for (auto &v : m.x) if (v != 0) nzx = true;
        if (nzx && m.alpha != 1) any_a = true;
        r.tag(m.alpha == 1 ? "mv_alpha_1" : m.alpha == -1 ? "mv_alpha_m1" : m.alpha == 0 ? "mv_alpha_0" : "mv_alpha_other");
        r.tag(m.beta == 0 ? "mv_beta_0" : m.beta == 1 ? "mv_beta_1" : "mv_beta_other");
    }
    {
        poison(*S.rhs_u); poison(*S.rhs_p); poison(*S.u); poison(*S.p); poison(*S.tmp);
        NVec F(f), X(xr), R(np); poison(R);
        amgcl::backend::residual(F, S, X, R);
        std::vector<Q> res = vecof(R); l << "r" << res;
        std::vector<Q> ex = dmv(St, xr); for (long i = 0; i < np; ++i) ex[i] = f[i] - ex[i];
        if (has_poison(res)) r.fail("residual(f, S, x, r) read scratch / the output-only r (poison)");
        else if (!veq(res, ex)) r.fail("residual(f, S, x, r) != f - (Kpp - Kpu*U*Kup)*x, adjust_p = " + std::to_string(in.adj));
    }
#ifdef _OPENMP
    omp_set_num_threads(1);
#endif
    r.out = l.get();
    r.nontrivial = nu > 0 && np > 0 && any_a && in.K.col.size() > (size_t)n;
    r.tag("schur_mv"); r.tag("mv_adj" + std::to_string(in.adj)); if (in.approx) r.tag("mv_approx_schur"); if (ld_nz) r.tag("mv_Ld_nonzero");
    r.tag("nt" + std::to_string(in.nt));
    return r;
}

// ------------------------------------------------------------------------------------------------ CPR
template <int B> struct BlkT { typedef amgcl::static_matrix<Q,B,B> val; typedef amgcl::static_matrix<Q,B,1> rhs; typedef amgcl::backend::builtin<val> backend; typedef amgcl::backend::crs<val> crs; };

struct BlkMat { long n = 0, m = 0, B = 0; std::vector<ptrdiff_t> ptr, col; std::vector<std::vector<Q>> val; };   // blocks row-major
static BlkMat parse_blk(Cur &c, long B) {
    BlkMat M; M.B = B; M.n = c.nat(); M.m = c.nat(); if (M.n < 0 || M.m < 0) throw bad_input("n"); M.ptr.push_back(0);
    for (long r = 0; r < M.n; ++r) { long k = c.nat(); if (k < 0) throw bad_input("k"); for (long j = 0; j < k; ++j) { M.col.push_back(c.nat()); std::vector<Q> v(B * B); for (auto &x : v) x = c.rat(); M.val.push_back(v); } M.ptr.push_back((ptrdiff_t)M.col.size()); }
    return M;
}
static Line& operator<<(Line &l, const BlkMat &A) {
    l << A.n << A.m;
    for (long i = 0; i < A.n; ++i) { l << (long)(A.ptr[i+1] - A.ptr[i]); for (auto j = A.ptr[i]; j < A.ptr[i+1]; ++j) { l << (long)A.col[j]; for (auto &x : A.val[j]) l << x; } }
    return l;
}
static bool blk_nodup(const BlkMat &A) {   // square, columns in range, no duplicate column in a row
    if (A.n != A.m) return false;
    for (long i = 0; i < A.n; ++i) { std::set<long> seen; for (auto j = A.ptr[i]; j < A.ptr[i+1]; ++j) { if (A.col[j] < 0 || A.col[j] >= A.m) return false; if (!seen.insert(A.col[j]).second) return false; } }
    return true;
}
static BlkMat blk_sorted(const BlkMat &A) {
    BlkMat R; R.B = A.B; R.n = A.n; R.m = A.m; R.ptr.push_back(0);
    for (long i = 0; i < A.n; ++i) { std::vector<std::pair<long,long>> o; for (auto j = A.ptr[i]; j < A.ptr[i+1]; ++j) o.push_back({(long)A.col[j], (long)j}); std::sort(o.begin(), o.end()); for (auto &q : o) { R.col.push_back(q.first); R.val.push_back(A.val[q.second]); } R.ptr.push_back((ptrdiff_t)R.col.size()); }
    return R;
}
static bool blk_ok(const BlkMat &A) {   // square, columns in range, strictly increasing columns
    if (A.n != A.m) return false;
    for (long i = 0; i < A.n; ++i) for (auto j = A.ptr[i]; j < A.ptr[i+1]; ++j) { if (A.col[j] < 0 || A.col[j] >= A.m) return false; if (j > A.ptr[i] && !(A.col[j-1] < A.col[j])) return false; }
    return true;
}
// the block matrix as a scalar matrix (explicit zeros kept)
static Mat expand(const BlkMat &A) {
    long B = A.B; std::vector<std::vector<std::pair<long,Q>>> rows(A.n * B);
    for (long i = 0; i < A.n; ++i) for (long r = 0; r < B; ++r) for (auto j = A.ptr[i]; j < A.ptr[i+1]; ++j) for (long s = 0; s < B; ++s) rows[i * B + r].push_back({(long)A.col[j] * B + s, A.val[j][r * B + s]});
    return from_rows(A.n * B, A.m * B, rows);
}
template <int B> static std::shared_ptr<typename BlkT<B>::crs> to_crs(const BlkMat &A) {
    std::vector<typename BlkT<B>::val> v(A.val.size());
    for (size_t k = 0; k < A.val.size(); ++k) for (int r = 0; r < B; ++r) for (int s = 0; s < B; ++s) v[k](r, s) = A.val[k][r * B + s];
    return std::make_shared<typename BlkT<B>::crs>((size_t)A.n, (size_t)A.m, A.ptr, A.col, v);
}

struct CprIn { long B, act; long skind; DM Sm, Pm; std::vector<Q> f; };
struct CprOut { bool ran = false; std::string outcome; long np = 0; std::shared_ptr<Crs> Fpp, Scatter, App; std::vector<long> appptr; std::vector<Q> x, x0; std::shared_ptr<Crs> Fpp2; };

// pre-checks of the two non-value outcomes of first_scalar_pass / init: a block row without (stored) diagonal block
// (its weights are read uninitialised) and a zero pivot in the LU factorisation WITHOUT pivoting (the assert in invert)
static bool nopivot_lu_ok(DM v) {   // v: the TRANSPOSED diagonal block, as cpr captures it
    long B = v.r;
    for (long k = 0; k < B; ++k) { Q d = v(k, k); if (d == 0) return false; for (long i = k + 1; i < B; ++i) { v(i, k) /= d; for (long j = k + 1; j < B; ++j) v(i, j) -= v(i, k) * v(k, j); } }
    return true;
}
static std::string scalar_outcome(const Mat &K, long B, long N) {
    bool zp = false, un = false; DM Kd = ddense(K);
    for (long ip = 0; ip < N / B; ++ip) {
        bool f = false; for (long i = 0; i < B; ++i) for (auto j = K.ptr[ip*B+i]; j < K.ptr[ip*B+i+1]; ++j) if (K.col[j] < N && K.col[j] / B == ip) f = true;
        if (!f) { un = true; continue; }
        DM v(B, B); for (long i = 0; i < B; ++i) for (long cc = 0; cc < B; ++cc) v(cc, i) = Kd(ip * B + i, ip * B + cc);
        if (!nopivot_lu_ok(v)) zp = true;
    }
    return zp ? "zero_pivot" : (un ? "uninit" : "");
}
static std::vector<long> ptr_of(const Crs &C) { return std::vector<long>(C.ptr, C.ptr + C.nrows + 1); }

// run the real scalar cpr: construct, optional partial_update, apply
static CprOut run_cpr_scalar(const Mat &K, const CprIn &in, bool do_upd = false, bool upd = false, const Mat *K2 = nullptr) {
    typedef InnerPrecond<BE> IP; typedef amgcl::preconditioner::cpr<IP, IP> CPR;
    CprOut o; long n = K.n, N = in.act ? in.act : n;
    std::vector<std::shared_ptr<Crs>> pbuilt, sbuilt;
    CPR::params prm; prm.block_size = (int)in.B; prm.active_rows = (size_t)in.act;
    prm.pprecond.kind = 0; prm.pprecond.M = &in.Pm; prm.pprecond.built = &pbuilt;
    prm.sprecond.kind = (int)in.skind; prm.sprecond.M = &in.Sm; prm.sprecond.built = &sbuilt;
    CPR P(K.crs(), prm);
    o.ran = true; o.np = (long)P.np; o.Fpp = P.Fpp; o.Scatter = P.Scatter; o.App = pbuilt.at(0); o.appptr = ptr_of(*o.App);
    NVec F(in.f);
    { NVec X(n); poison(X); poison(*P.rs); poison(*P.rp); poison(*P.xp); P.apply(F, X); o.x = vecof(X); }
    if (do_upd) {
        o.x0 = o.x;
        P.partial_update(*K2->crs(), upd);
        o.Fpp2 = P.Fpp;
        NVec X(n); poison(X); poison(*P.rs); poison(*P.rp); poison(*P.xp); P.apply(F, X); o.x = vecof(X);
    }
    (void)N;
    return o;
}
template <int B>
static CprOut run_cpr_block(const BlkMat &K, const CprIn &in, bool do_upd = false, bool upd = false, const BlkMat *K2 = nullptr) {
    typedef InnerPrecond<BE> IPP; typedef InnerPrecond<typename BlkT<B>::backend> IPS; typedef amgcl::preconditioner::cpr<IPP, IPS> CPR;
    typedef amgcl::backend::numa_vector<typename BlkT<B>::rhs> BVec;
    CprOut o; long n = K.n;
    std::vector<std::shared_ptr<Crs>> pbuilt; std::vector<std::shared_ptr<typename BlkT<B>::crs>> sbuilt;
    typename CPR::params prm; prm.active_rows = (size_t)in.act;
    prm.pprecond.kind = 0; prm.pprecond.M = &in.Pm; prm.pprecond.built = &pbuilt;
    prm.sprecond.kind = (int)in.skind; prm.sprecond.M = &in.Sm; prm.sprecond.built = &sbuilt;
    CPR P(to_crs<B>(K), prm);
    o.ran = true; o.np = (long)P.np; o.Fpp = P.Fpp; o.Scatter = P.Scatter; o.App = pbuilt.at(0); o.appptr = ptr_of(*o.App);
    BVec F(n), X(n);
    auto fill = [&]() { for (long i = 0; i < n; ++i) for (int r = 0; r < B; ++r) { F[i](r) = in.f[i * B + r]; X[i](r) = Q::poisoned(); } for (size_t i = 0; i < P.rs->size(); ++i) for (int r = 0; r < B; ++r) (*P.rs)[i](r) = Q::poisoned(); poison(*P.rp); poison(*P.xp); };
    auto grab = [&]() { std::vector<Q> x(n * B); for (long i = 0; i < n; ++i) for (int r = 0; r < B; ++r) x[i * B + r] = X[i](r); return x; };
    fill(); P.apply(F, X); o.x = grab();
    if (do_upd) {
        o.x0 = o.x;
        P.partial_update(*to_crs<B>(*K2), upd);
        o.Fpp2 = P.Fpp;
        fill(); P.apply(F, X); o.x = grab();
    }
    return o;
}
static CprOut run_cpr_block_any(const BlkMat &K, const CprIn &in, bool do_upd = false, bool upd = false, const BlkMat *K2 = nullptr) {
    switch (K.B) { case 2: return run_cpr_block<2>(K, in, do_upd, upd, K2); case 3: return run_cpr_block<3>(K, in, do_upd, upd, K2); case 4: return run_cpr_block<4>(K, in, do_upd, upd, K2); }
    throw bad_input("B");
}
static Line& put_state(Line &l, const CprOut &o) { l << "np" << o.np << "Fpp" << *o.Fpp << "Scatter" << *o.Scatter << "App" << o.appptr << *o.App; return l; }

// the inner global preconditioner as a dense operator (for the formula oracle)
static std::vector<Q> apply_S(const DM &Kd, const CprIn &in, const std::vector<Q> &f) {
    if (in.skind == 1) { std::vector<Q> y(f.size()); for (size_t i = 0; i < f.size(); ++i) y[i] = f[i] / Kd(i, i); return y; }
    return dmv(in.Sm, f);
}
// oracles shared by the scalar and the block form; Kd = the (expanded) scalar matrix, N = active scalar rows
static void cpr_oracles(Result &r, const DM &Kd, const CprIn &in, long N, const CprOut &o, const std::string &tag) {
    long B = in.B, n = Kd.r, np = N / B; std::string why;
    if (o.np != np) { r.fail("np"); return; }
    if (has_poison(o.x)) r.fail("scratch contents leaked into the result (poison)");
    if (!crs_wf(*o.Fpp, why) || !crs_wf(*o.Scatter, why)) { r.fail("Fpp/Scatter: " + why); return; }
    if (!crs_wf(*o.App, why)) { r.fail(tag + "App: " + why); return; }
    // weights = first row of the inverse diagonal block (own Gauss-Jordan inverse, with pivot search)
    DM W(np, N);
    for (long ip = 0; ip < np; ++ip) {
        DM D(B, B), Di; for (long i = 0; i < B; ++i) for (long cc = 0; cc < B; ++cc) D(i, cc) = Kd(ip * B + i, ip * B + cc);
        if (!dinverse(D, Di)) { r.fail("diagonal block singular although LU succeeded"); return; }
        for (long i = 0; i < B; ++i) W(ip, ip * B + i) = Di(0, i);
    }
    DM Fd = ddense(*o.Fpp);
    if (Fd.r != np || Fd.c != N || !deq(Fd, W)) r.fail("Fpp != first row of the inverse diagonal blocks");
    // App(ip, jp) = sum_i w_i K(ip*B+i, jp*B)
    DM Ad(np, np); for (long ip = 0; ip < np; ++ip) for (long jp = 0; jp < np; ++jp) for (long i = 0; i < B; ++i) Ad(ip, jp) += W(ip, ip * B + i) * Kd(ip * B + i, jp * B);
    if (!deq(ddense(*o.App), Ad)) r.fail(tag + "App != first-row-of-inverse-diagonal-block weighting of A");
    if (!crs_sorted_nodup(*o.App)) r.fail("App rows not sorted / duplicate columns");
    DM Sc = ddense(*o.Scatter); bool scok = Sc.c == np;
    for (long i = 0; scok && i < Sc.r; ++i) for (long j = 0; j < np; ++j) if (Sc(i, j).v != ((i == j * B) ? 1 : 0)) scok = false;
    if (!scok) r.fail("Scatter is not the injection of the pressure unknowns");
    // x = S f + Scatter P (Fpp (f - A S f))
    std::vector<Q> x = apply_S(Kd, in, in.f), ax = dmv(Kd, x), rs(n);
    for (long i = 0; i < n; ++i) rs[i] = in.f[i] - ax[i];
    std::vector<Q> rp(np); for (long ip = 0; ip < np; ++ip) for (long j = 0; j < N; ++j) rp[ip] += W(ip, j) * rs[j];
    std::vector<Q> xp = dmv(in.Pm, rp);
    for (long ip = 0; ip < np; ++ip) x[ip * B] += xp[ip];
    if (!veq(o.x0.empty() ? o.x : o.x0, x)) r.fail(tag + "apply != S f + Scatter P Fpp (f - A S f)");
}

static void parse_cpr_tail(Cur &c, CprIn &in) { in.skind = c.nat(); in.Sm = parse_dense(c); in.Pm = parse_dense(c); in.f = c.vec(); if (in.skind < 0 || in.skind > 1) throw bad_input("skind"); }

static Result exec_cpr(Cur &c, bool with_upd) {
    Result r; CprIn in; in.B = c.nat(); in.act = c.nat(); Mat K = c.mat(); parse_cpr_tail(c, in);
    bool upd = false; Mat K2;
    if (with_upd) { long u = c.nat(); if (u < 0 || u > 1) throw bad_input("upd"); upd = u; K2 = c.mat(); }
    c.expect_end();
    std::string why; long n = K.n, N = in.act ? in.act : n;
    if (!crs_wf(*K.crs(), why) || K.n != K.m || !crs_sorted_nodup(*K.crs()) || in.B < 1 || in.act < 0 || N > n || N % in.B != 0 || (long)in.f.size() != n ||
        !(in.skind == 1 || (in.Sm.r == n && in.Sm.c == n)) || in.Pm.r != N / in.B || in.Pm.c != N / in.B) throw bad_input("shape");
    if (with_upd && (!crs_wf(*K2.crs(), why) || K2.n != K2.m || !crs_nodup(*K2.crs()) || K2.n != n)) throw bad_input("shape2");   // partial_update sorts its copy
    DM Kd = ddense(K);
    std::string oc = scalar_outcome(K, in.B, N);
    if (!oc.empty()) { r.out = oc; r.tag("cpr_" + oc); return r; }
    if (with_upd && upd) { oc = scalar_outcome(K2, in.B, N); if (!oc.empty()) { r.out = oc; r.tag("cpr_upd_" + oc); return r; } }
    CprOut o = run_cpr_scalar(K, in, with_upd, upd, with_upd ? &K2 : nullptr);
    cpr_oracles(r, Kd, in, N, o, "");
    Line l;
    if (!with_upd) { put_state(l, o) << "x" << o.x; }
    else {
        l << "x0" << o.x0 << "Fpp" << *o.Fpp2 << "x" << o.x;
        bool same = true; { auto ra = to_rows(K), rb = to_rows(K2); for (auto &q : rb) std::sort(q.begin(), q.end(), [](const std::pair<long,Q> &a, const std::pair<long,Q> &b) { return a.first < b.first; });
            for (long i = 0; same && i < n; ++i) { if (ra[i].size() != rb[i].size()) same = false; else for (size_t k = 0; k < ra[i].size(); ++k) if (ra[i][k].first != rb[i][k].first || ra[i][k].second.v != rb[i][k].second.v) same = false; } }
        if (!crs_sorted_nodup(*K2.crs())) r.tag("upd_unsorted_input");
        if (same) { r.tag("upd_same_matrix"); if (!veq(o.x, o.x0)) r.fail("partial_update with an unchanged matrix changed the action"); if ((Line() << *o.Fpp2).get() != (Line() << *o.Fpp).get()) r.fail("partial_update with an unchanged matrix changed Fpp"); }
        else {
            r.tag("upd_new_matrix");
            // the updated object: S and A from K2, Fpp from K2 iff upd, App/P unchanged
            DM K2d = ddense(K2); CprOut o2 = o; o2.x0.clear(); CprIn in2 = in;
            std::vector<Q> x = apply_S(K2d, in2, in.f), ax = dmv(K2d, x), rs(n); for (long i = 0; i < n; ++i) rs[i] = in.f[i] - ax[i];
            DM Fd = ddense(upd ? *o.Fpp2 : *o.Fpp); std::vector<Q> rp = dmv(Fd, std::vector<Q>(rs.begin(), rs.begin() + N)), xp = dmv(in.Pm, rp);
            for (long ip = 0; ip < N / in.B; ++ip) x[ip * in.B] += xp[ip];
            if (!veq(o.x, x)) r.fail("apply after partial_update != formula with the updated S, A, Fpp");
        }
        r.tag(upd ? "upd_transfer" : "upd_keep_transfer");
    }
    r.out = l.get();
    r.nontrivial = N / in.B >= 2 && K.col.size() > (size_t)n;
    r.tag("cpr_scalar"); r.tag("B" + std::to_string(in.B)); if (in.act && in.act < n) r.tag("active_rows"); r.tag(in.skind ? "S_jacobi" : "S_dense");
    return r;
}

static Result exec_cprb(Cur &c, bool with_upd) {
    Result r; CprIn in; in.B = c.nat(); in.act = c.nat(); if (in.B < 1 || in.B > 4) throw bad_input("B");
    BlkMat K = parse_blk(c, in.B); parse_cpr_tail(c, in);
    bool upd = false; BlkMat K2;
    if (with_upd) { long u = c.nat(); if (u < 0 || u > 1) throw bad_input("upd"); upd = u; K2 = parse_blk(c, in.B); }
    c.expect_end();
    long B = in.B, n = K.n, N = in.act ? in.act : n;
    if (B < 2 || !blk_ok(K) || in.act < 0 || N > n || (long)in.f.size() != n * B || !(in.skind == 1 || (in.Sm.r == n * B && in.Sm.c == n * B)) || in.Pm.r != N || in.Pm.c != N) throw bad_input("shape");
    if (with_upd && (!blk_nodup(K2) || K2.n != n)) throw bad_input("shape2");   // partial_update sorts its copy
    Mat Ks = expand(K); DM Kd = ddense(Ks);
    auto outcome_of = [&](const BlkMat &A) {
        bool zp = false, un = false; DM Ad = ddense(expand(A));
        for (long i = 0; i < N; ++i) {
            bool f = false; for (auto j = A.ptr[i]; j < A.ptr[i+1]; ++j) if (A.col[j] == i) f = true;
            if (!f) { un = true; continue; }
            DM v(B, B); for (long a = 0; a < B; ++a) for (long b = 0; b < B; ++b) v(b, a) = Ad(i * B + a, i * B + b);
            if (!nopivot_lu_ok(v)) zp = true;
        }
        return std::string(zp ? "zero_pivot" : (un ? "uninit" : "")); };
    std::string oc = outcome_of(K);
    if (!oc.empty()) { r.out = oc; r.tag("cprb_" + oc); return r; }
    if (with_upd && upd) { oc = outcome_of(K2); if (!oc.empty()) { r.out = oc; r.tag("cprb_upd_" + oc); return r; } }
    CprOut o = run_cpr_block_any(K, in, with_upd, upd, with_upd ? &K2 : nullptr);
    // does an active block row couple to an inactive block column?  (the scalar form drops such columns from App)
    bool couples = false; for (long i = 0; i < N; ++i) for (auto j = K.ptr[i]; j < K.ptr[i+1]; ++j) if (K.col[j] >= N) couples = true;
    const std::string tag = couples ? "[block-active-rows-columns] " : "";
    if (couples) r.tag("block_active_coupling");
    cpr_oracles(r, Kd, in, N * B, o, tag);
    Line l;
    if (!with_upd) {
        // the scalar form on the expanded matrix with run-time block_size B must give the identical object and action
        CprIn ins = in; ins.act = in.act * B;
        CprOut os = run_cpr_scalar(Ks, ins);
        bool eq = os.np == o.np && (Line() << *os.Fpp).get() == (Line() << *o.Fpp).get() && (Line() << *os.App).get() == (Line() << *o.App).get() && os.appptr == o.appptr && veq(os.x, o.x) && os.Scatter->ncols == o.Scatter->ncols;
        for (size_t i = 0; eq && i < std::max(os.Scatter->nrows, o.Scatter->nrows); ++i) {
            auto row = [&](const Crs &S) { std::vector<std::pair<long,std::string>> v; if (i < S.nrows) for (auto j = S.ptr[i]; j < S.ptr[i+1]; ++j) v.push_back({(long)S.col[j], S.val[j].str()}); return v; };
            if (row(*os.Scatter) != row(*o.Scatter)) eq = false;
        }
        if (!eq) r.fail(tag + "block input and scalar input with block_size b differ");
        put_state(l, o) << "x" << o.x << "eq" << eq;
    } else {
        l << "x0" << o.x0 << "Fpp" << *o.Fpp2 << "x" << o.x;
        BlkMat K2s = blk_sorted(K2); if (!blk_ok(K2)) r.tag("upd_unsorted_input");
        bool same = K2s.ptr == K.ptr && K2s.col == K.col; if (same) for (size_t k = 0; k < K.val.size(); ++k) for (size_t q = 0; q < K.val[k].size(); ++q) if (K.val[k][q].v != K2s.val[k][q].v) same = false;
        if (same) { r.tag("upd_same_matrix"); if (!veq(o.x, o.x0)) r.fail("partial_update with an unchanged matrix changed the action"); if ((Line() << *o.Fpp2).get() != (Line() << *o.Fpp).get()) r.fail("partial_update with an unchanged matrix changed Fpp"); }
        else r.tag("upd_new_matrix");
        r.tag(upd ? "upd_transfer" : "upd_keep_transfer");
    }
    r.out = l.get();
    r.nontrivial = N >= 2 && K.col.size() > (size_t)n;
    r.tag("cpr_block"); r.tag("B" + std::to_string(B)); if (in.act && in.act < n) r.tag("active_rows"); r.tag(in.skind ? "S_jacobi" : "S_dense");
    return r;
}

// ------------------------------------------------------------------------------------------------ deflation
template <class Precond>
static void run_defl(Result &r, Line &l, const Mat &A, const std::vector<std::vector<Q>> &Z, typename Precond::params pprm, const DM *Pm, const std::vector<Q> &b, const std::vector<Q> &x0, long nt) {
    typedef amgcl::deflated_solver<Precond, amgcl::solver::preonly<BE>> DS;
    long n = A.n, nv = Z.size();
    std::vector<Q> zflat; for (auto &z : Z) zflat.insert(zflat.end(), z.begin(), z.end());
    typename DS::params prm; prm.nvec = (int)nv; prm.vec = zflat.data(); prm.precond = pprm;
#ifdef _OPENMP
    omp_set_num_threads((int)nt);
#endif
    DS S(A.crs(), prm);
    NVec B(b);
    NVec X1(x0); poison(*S.r); S.project(B, X1);
    NVec X2(n); poison(X2); poison(*S.r); S.apply(B, X2);
    NVec X3(x0); poison(*S.r); S(B, X3);
#ifdef _OPENMP
    omp_set_num_threads(1);
#endif
    std::vector<Q> einv(S.E.begin(), S.E.end()), x1 = vecof(X1), x2 = vecof(X2), x3 = vecof(X3);
    l << "Einv" << einv << "proj" << x1 << "apply" << x2 << "solve" << x3;
    // oracles
    DM Ad = ddense(A), Zd(n, nv); for (long j = 0; j < nv; ++j) for (long i = 0; i < n; ++i) Zd(i, j) = Z[j][i];
    DM Zt(nv, n); for (long j = 0; j < nv; ++j) for (long i = 0; i < n; ++i) Zt(j, i) = Z[j][i];
    DM E = dmul(dmul(Zt, Ad), Zd), Ei(nv, nv); for (long i = 0; i < nv; ++i) for (long j = 0; j < nv; ++j) Ei(i, j) = einv[i * nv + j];
    if (!deq(dmul(E, Ei), dident(nv))) r.fail("E != inverse of Z^T A Z");
    auto orth = [&](const std::vector<Q> &x) { auto ax = dmv(Ad, x); std::vector<Q> res(n); for (long i = 0; i < n; ++i) res[i] = b[i] - ax[i]; auto zr = dmv(Zt, res); for (auto &q : zr) if (q.poison || q.v != 0) return false; return true; };
    if (has_poison(x1) || has_poison(x2) || has_poison(x3)) r.fail("scratch contents leaked into the result (poison)");
    if (!orth(x1)) r.fail("after project: Z^T (b - A x) != 0");
    if (!orth(x2)) r.fail("after apply: Z^T (b - A x) != 0");
    if (!orth(x3)) r.fail("after operator(): Z^T (b - A x) != 0");
    if (!veq(x2, x3)) r.fail("operator() with preonly != apply");
    bool pexact = Pm && deq(dmul(Ad, *Pm), dident(n));
    if (pexact) { r.tag("exact_precond"); if (!veq(dmv(Ad, x3), b)) r.fail("exact preconditioner: deflated solver did not return the solution of A x = b"); }
}

static Result exec_defl(Cur &c) {
    Result r; long nt = c.nat(); Mat A = c.mat(); long nv = c.nat(); if (nv < 0 || nv > 64) throw bad_input("nvec");
    std::vector<std::vector<Q>> Z(nv); for (auto &z : Z) z = c.vec();
    long pk = c.nat(); DM Pm = parse_dense(c); auto b = c.vec(); auto x0 = c.vec(); c.expect_end();
    std::string why; long n = A.n;
    if (!crs_wf(*A.crs(), why) || A.n != A.m || nt < 1 || nv < 1 || (long)b.size() != n || (long)x0.size() != n || pk < 0 || pk > 1 || (pk == 1 && (Pm.r != n || Pm.c != n))) throw bad_input("shape");
    for (auto &z : Z) if ((long)z.size() != n) throw bad_input("Z");
    // singular Z^T A Z: the assert inside detail::inverse
    { DM Ad = ddense(A), Zd(n, nv), Zt(nv, n); for (long j = 0; j < nv; ++j) for (long i = 0; i < n; ++i) { Zd(i, j) = Z[j][i]; Zt(j, i) = Z[j][i]; }
      DM E = dmul(dmul(Zt, Ad), Zd), Ei; if (!dinverse(E, Ei)) { r.out = "zero_pivot"; r.tag("defl_singular_E"); return r; } }
    Line l;
    if (pk == 0) { typedef amgcl::preconditioner::dummy<BE> PD; run_defl<PD>(r, l, A, Z, PD::params(), nullptr, b, x0, nt); r.tag("P_dummy"); }
    else { typedef InnerPrecond<BE> IP; IP::params pp; pp.kind = 0; pp.M = &Pm; run_defl<IP>(r, l, A, Z, pp, &Pm, b, x0, nt); r.tag("P_dense"); }
    r.out = l.get(); r.nontrivial = nv >= 1 && n > nv && A.col.size() > (size_t)n;
    r.tag("defl"); r.tag("nvec" + std::to_string(nv)); r.tag("nt" + std::to_string(nt));
    return r;
}

// pmask_pattern -> pmask through the REAL property-tree constructor of schur_pressure_correction::params
static bool pattern_ok(const std::string &p) {
    auto digits = [](const std::string &s) { if (s.empty()) return false; for (char ch : s) if (ch < '0' || ch > '9') return false; return true; };
    if (p.size() >= 4 && p[0] == '%' && p[1] >= '0' && p[1] <= '9' && p[2] == ':' && digits(p.substr(3))) return atol(p.substr(3).c_str()) > 0;
    if (p.size() >= 2 && (p[0] == '<' || p[0] == '>')) return digits(p.substr(1));
    return false;
}
static Result exec_pmask(Cur &c) {
    Result r; long n = c.nat(); std::string pat = c.tok(); c.expect_end();
    if (n < 0 || !pattern_ok(pat)) throw bad_input("pattern");
    boost::property_tree::ptree pt; pt.put("pmask_size", n); pt.put("pmask_pattern", pat);
    try {
        SPC::params prm(pt);
        std::vector<long> m(prm.pmask.begin(), prm.pmask.end());
        r.out = (Line() << m).get();
        // documented semantics
        std::vector<long> ex(n, 0);
        if (pat[0] == '%') { long st = pat[1] - '0', sd = atol(pat.substr(3).c_str()); for (long i = st; i < n; i += sd) ex[i] = 1; }
        else if (pat[0] == '<') { long k = atol(pat.substr(1).c_str()); for (long i = 0; i < std::min(k, n); ++i) ex[i] = 1; }
        else { long k = atol(pat.substr(1).c_str()); for (long i = k; i < n; ++i) ex[i] = 1; }
        if (m != ex) r.fail("pmask_pattern semantics");
        if (prm.type != 1 || prm.adjust_p != 1 || prm.approx_schur || !prm.simplec_dia) r.fail("defaults changed by the pattern constructor");
    } catch (const std::exception&) { r.out = "precondition"; if (n > 0) r.fail("pattern constructor threw"); }
    r.nontrivial = n > 1; r.tag("pmask_pattern"); r.tag(std::string("pat_") + (pat[0] == '%' ? "interleaved" : "contiguous"));
    return r;
}

static Result execute(const Toks &t) {
    Cur c(t); const std::string &op = t[0];
    if (op == "comp_pmask") return exec_pmask(c);
    if (op == "comp_schur") return exec_schur(c);
    if (op == "comp_schur_mv") return exec_schur_mv(c);
    if (op == "comp_cpr") return exec_cpr(c, false);
    if (op == "comp_cpr_upd") return exec_cpr(c, true);
    if (op == "comp_cprb") return exec_cprb(c, false);
    if (op == "comp_cprb_upd") return exec_cprb(c, true);
    if (op == "comp_defl") return exec_defl(c);
    return Result("bad-op");
}

// ------------------------------------------------------------------------------------------------ generators
static DM rand_dense(Rng &rng, long r, long c) { DM M(r, c); for (long i = 0; i < r; ++i) for (long j = 0; j < c; ++j) M(i, j) = rng.coin(2, 3) ? rng.rat(4) : Q(0); return M; }

// pressure masks: interleaved (`%start:stride`), contiguous (`<m`, `>m`) — the semantics of pmask_pattern — and random
static std::vector<long> gen_mask(Rng &rng, long n, std::string &pat) {
    std::vector<long> pm(n, 0); int kind = (int)rng.range(0, 4); pat = "-";
    if (kind == 0) { long start = rng.range(0, std::min<long>(n - 1, 3)), stride = rng.range(2, 4); for (long i = start; i < n; i += stride) pm[i] = 1; pat = "%" + std::to_string(start) + ":" + std::to_string(stride); }
    else if (kind == 1) { long m = rng.range(1, n - 1); for (long i = 0; i < std::min(m, n); ++i) pm[i] = 1; pat = "<" + std::to_string(m); }
    else if (kind == 2) { long m = rng.range(1, n - 1); for (long i = m; i < n; ++i) pm[i] = 1; pat = ">" + std::to_string(m); }
    else if (kind == 3) { for (long i = 0; i < n; ++i) pm[i] = rng.coin(1, 3); }
    else { for (long i = 0; i < n; ++i) pm[i] = (i % 3 == 2); }
    return pm;
}
// saddle-point style system for a given mask: Kuu strictly diagonally dominant (hence invertible), couplings Kup/Kpu
// sparse, Kpp: `ppmode` 0 = stored diagonal (stabilised), 1 = stored explicit zero diagonal, 2 = no stored diagonal
static Mat gen_saddle(Rng &rng, const std::vector<long> &pm, int ppmode, bool symmetric_coupling) {
    long n = pm.size(); std::vector<std::map<long,Q>> r(n);
    for (long i = 0; i < n; ++i) for (long j = 0; j < n; ++j) {
        if (i == j) continue;
        int dens = (!pm[i] && !pm[j]) ? 35 : ((pm[i] && pm[j]) ? 20 : 45);
        if (symmetric_coupling && pm[i] != pm[j] && i > j) { if (r[j].count(i)) r[i][j] = r[j][i]; continue; }
        if (rng.range(0, 99) < dens) r[i][j] = rng.rat_nz(4);
    }
    for (long i = 0; i < n; ++i) {
        if (!pm[i]) { Q s(0); for (auto &cv : r[i]) if (!pm[cv.first]) s += abs(cv.second); r[i][i] = s + Q::frac(rng.range(1, 6), 2); if (rng.coin(1, 4)) r[i][i] = -r[i][i]; }
        else if (ppmode == 0) r[i][i] = -Q::frac(rng.range(1, 8), 2);
        else if (ppmode == 1) r[i][i] = Q(0);
    }
    std::vector<std::vector<std::pair<long,Q>>> rows(n);
    for (long i = 0; i < n; ++i) for (auto &cv : r[i]) rows[i].push_back({cv.first, cv.second});
    return from_rows(n, n, rows);
}

static void gen_schur(Rng &rng, const Opts &o, std::vector<std::string> &lines) {
    long n = rng.range(2, o.thorough() ? 12 : 8);
    SchurIn in; in.pm = gen_mask(rng, n, in.pat);
    if (rng.coin(1, 40)) std::fill(in.pm.begin(), in.pm.end(), rng.coin() ? 1 : 0);      // one class empty
    in.type = rng.coin(2, 3) ? 1 : 2; in.adj = rng.coin(1, 20) ? 3 : rng.range(0, 2); in.approx = rng.coin(1, 5); in.simplec = rng.coin();
    in.nt = rng.pick(std::vector<long>{1, 1, 2, 3, 4});
    int ppmode = (int)rng.range(0, 9); ppmode = ppmode < 7 ? 0 : (ppmode == 7 ? 1 : 2);
    in.K = gen_saddle(rng, in.pm, ppmode, rng.coin());
    if (rng.coin(1, 4)) in.K = unsort(rng, in.K, rng.coin(1, 3));
    long nu = 0, np = 0; for (long b : in.pm) (b ? np : nu)++;
    DM Um, Pm; bool exact = rng.coin(3, 4) && !schur_reads_uninit(in);
    if (exact) {
        // run the real constructor with the exact U (own Gaussian elimination of the logged Kuu), read off the
        // matrix-free S by applying spmv to the unit vectors, invert it
        SchurIn g = in; g.nt = 1;
        std::vector<std::pair<int, std::shared_ptr<Crs>>> built;
        SPC S(*g.K.crs(), schur_params(g, nullptr, nullptr, &built));
        if (!S.U->own_ok) exact = false;
        else { Um = S.U->own; DM Sx = extract_S(S, np); if (!dinverse(Sx, Pm)) { Pm = rand_dense(rng, np, np); } }
    }
    if (!exact) { Um = rand_dense(rng, nu, nu); Pm = rand_dense(rng, np, np); }
    Line l; l << "comp_schur" << in.nt << in.type << in.adj << in.approx << in.simplec << in.K << in.pm << Um << Pm << gen_vec(rng, n);
    lines.push_back(l.get());
    if (in.pat != "-" && rng.coin(1, 3)) { Line q; q << "comp_pmask" << (rng.coin(1, 10) ? rng.range(0, 3) : n) << in.pat; lines.push_back(q.get()); }
}

// the composite object as the operator a Krylov pressure solver iterates on: alpha in {-1, 2, 1, 0, random}, beta in
// {0, 1, random}, 1..4 calls in sequence on one object, then residual(); adjust_p = 1 (the default, with the Ld
// correction) is over-represented, Kpp mostly with a stored diagonal so that Ld != 0
static void gen_schur_mv(Rng &rng, const Opts &o, std::vector<std::string> &lines) {
    long n = rng.range(2, o.thorough() ? 12 : 8);
    SchurIn in; in.pm = gen_mask(rng, n, in.pat); in.type = 1;
    if (rng.coin(1, 40)) std::fill(in.pm.begin(), in.pm.end(), rng.coin() ? 1 : 0);      // one class empty
    in.adj = rng.coin(1, 2) ? 1 : (rng.coin(1, 10) ? 3 : rng.range(0, 2)); in.approx = rng.coin(1, 5); in.simplec = rng.coin();
    in.nt = rng.pick(std::vector<long>{1, 1, 2, 3, 4});
    int ppmode = (int)rng.range(0, 9); ppmode = ppmode < 7 ? 0 : (ppmode == 7 ? 1 : 2);
    in.K = gen_saddle(rng, in.pm, ppmode, rng.coin());
    if (rng.coin(1, 4)) in.K = unsort(rng, in.K, rng.coin(1, 3));
    long nu = 0, np = 0; for (long b : in.pm) (b ? np : nu)++;
    DM Um = rand_dense(rng, nu, nu);
    if (rng.coin(2, 3) && !schur_reads_uninit(in)) {      // exact U = Kuu^-1 (Gaussian elimination of the logged Kuu)
        SchurIn g = in; g.nt = 1;
        SPC S(*g.K.crs(), schur_params(g, nullptr, nullptr, nullptr));
        if (S.U->own_ok) Um = S.U->own;
    }
    auto coef = [&](bool is_alpha) -> Q {
        int w = (int)rng.range(0, 9);
        if (is_alpha) return w < 3 ? Q(-1) : w < 5 ? Q(2) : w < 6 ? Q(1) : w < 7 ? Q(0) : rng.rat_nz(5);
        return w < 3 ? Q(0) : w < 6 ? Q(1) : rng.rat_nz(5);
    };
    auto pvec = [&]() { std::vector<Q> v = gen_vec(rng, np); if (rng.coin(1, 12)) std::fill(v.begin(), v.end(), Q(0)); else if (rng.coin(1, 8)) { std::fill(v.begin(), v.end(), Q(0)); if (np) v[rng.range(0, np - 1)] = Q(1); } return v; };
    long k = rng.range(1, 4);
    Line l; l << "comp_schur_mv" << in.nt << in.adj << in.approx << in.simplec << in.K << in.pm << Um << k;
    for (long c = 0; c < k; ++c) l << coef(true) << coef(false) << pvec() << pvec();
    l << pvec() << pvec();
    lines.push_back(l.get());
}

// scalar CPR matrix: nb block rows of size B (+ extra inactive rows), sorted rows; diagonal blocks strictly
// diagonally dominant by columns AND rows (no zero pivot without pivoting); off-diagonal blocks structurally incomplete
static Mat gen_cpr_scalar(Rng &rng, long B, long nb, long extra, int defect) {
    long N = nb * B, n = N + extra; std::vector<std::map<long,Q>> r(n);
    for (long ib = 0; ib < nb; ++ib) for (long jb = 0; jb < nb; ++jb) {
        if (ib == jb) { for (long a = 0; a < B; ++a) for (long b = 0; b < B; ++b) if (a != b && rng.coin(2, 3)) r[ib*B+a][jb*B+b] = rng.rat_nz(3); continue; }
        if (!rng.coin(2, 5)) continue;
        for (long a = 0; a < B; ++a) for (long b = 0; b < B; ++b) if (rng.coin(3, 5)) r[ib*B+a][jb*B+b] = rng.rat(4);
    }
    for (long ib = 0; ib < nb; ++ib) for (long a = 0; a < B; ++a) {
        Q s(0); for (long b = 0; b < B; ++b) if (a != b) { if (r[ib*B+a].count(ib*B+b)) s += abs(r[ib*B+a][ib*B+b]); if (r[ib*B+b].count(ib*B+a)) s += abs(r[ib*B+b][ib*B+a]); }
        r[ib*B+a][ib*B+a] = (s + Q::frac(rng.range(1, 5), 2)) * Q(rng.coin(1, 5) ? -1 : 1);
    }
    for (long i = 0; i < n; ++i) for (long j = 0; j < n; ++j) if ((i >= N || j >= N) && rng.coin(1, 4)) r[i][j] = rng.rat_nz(3);
    for (long i = N; i < n; ++i) r[i][i] = Q(rng.range(3, 9));
    if (defect == 1) { long ib = rng.range(0, nb - 1); for (long a = 0; a < B; ++a) for (long b = 0; b < B; ++b) r[ib*B+a].erase(ib*B+b); }    // no diagonal block
    if (defect == 2) { long ib = rng.range(0, nb - 1); r[ib*B][ib*B] = Q(0); }                                                                 // zero leading pivot
    std::vector<std::vector<std::pair<long,Q>>> rows(n);
    for (long i = 0; i < n; ++i) for (auto &cv : r[i]) rows[i].push_back({cv.first, cv.second});
    return from_rows(n, n, rows);
}
static BlkMat gen_cpr_block(Rng &rng, long B, long nb, long extra, bool couple_inactive, int defect) {
    long n = nb + extra; BlkMat M; M.B = B; M.n = M.m = n; M.ptr.push_back(0);
    long bad = defect ? rng.range(0, nb - 1) : -1;
    for (long i = 0; i < n; ++i) {
        for (long j = 0; j < n; ++j) {
            bool inact = i >= nb || j >= nb;
            bool present = (i == j) ? !(defect == 1 && i == bad) : (inact ? ((i >= nb || couple_inactive) && rng.coin(1, 3)) : rng.coin(2, 5));
            if (!present) continue;
            std::vector<Q> v(B * B);
            for (auto &x : v) x = rng.coin(3, 4) ? rng.rat(3) : Q(0);
            if (i == j) { for (long a = 0; a < B; ++a) { Q s(0); for (long b = 0; b < B; ++b) if (a != b) s += abs(v[a*B+b]) + abs(v[b*B+a]); v[a*B+a] = (s + Q::frac(rng.range(1, 5), 2)) * Q(rng.coin(1, 5) ? -1 : 1); } if (defect == 2 && i == bad) v[0] = Q(0); }
            M.col.push_back(j); M.val.push_back(v);
        }
        M.ptr.push_back((ptrdiff_t)M.col.size());
    }
    return M;
}
static Mat perturb(Rng &rng, const Mat &A, long B, long N) {     // change values, keep the pattern and the dominance of the diagonal blocks
    Mat R = A;
    for (long i = 0; i < R.n; ++i) for (auto j = R.ptr[i]; j < R.ptr[i+1]; ++j) { bool indiag = i < N && R.col[j] < N && R.col[j] / B == i / B; if (R.col[j] == i) R.val[j] = R.val[j] * Q(2) + Q(1) * (R.val[j] < 0 ? Q(-1) : Q(1)); else if (!indiag && rng.coin()) R.val[j] = rng.rat(4); }
    return R;
}

static void gen_cpr(Rng &rng, const Opts &o, std::vector<std::string> &lines) {
    long B = rng.range(2, 4), nb = rng.range(1, o.thorough() ? 5 : 3), extra = rng.coin(1, 3) ? rng.range(1, 3) : 0;
    int defect = rng.coin(1, 25) ? (int)rng.range(1, 2) : 0;
    bool block = rng.coin(2, 5), upd = rng.coin(1, 3);
    long skind = rng.coin(1, 3) ? 1 : 0;
    Line l;
    if (!block) {
        Mat K = gen_cpr_scalar(rng, B, nb, extra, defect); long n = K.n, N = nb * B;
        long act = extra ? N : (rng.coin() ? 0 : N);
        DM Sm = skind ? DM(0, 0) : rand_dense(rng, n, n), Pm = rand_dense(rng, nb, nb);
        if (rng.coin(1, 3) && !defect) {   // exact pressure solve: P = App^-1 (App read off a construction run)
            CprIn in; in.B = B; in.act = act; in.skind = 1; in.Pm = Pm; in.f = std::vector<Q>(n);
            CprOut oo = run_cpr_scalar(K, in); DM Ai; if (dinverse(ddense(*oo.App), Ai)) Pm = Ai;
        }
        l << (upd ? "comp_cpr_upd" : "comp_cpr") << B << act << K << skind << Sm << Pm << gen_vec(rng, n);
        if (upd) { l << rng.coin(); Mat K2 = rng.coin() ? K : perturb(rng, K, B, N); if (rng.coin(1, 3)) K2 = unsort(rng, K2, false); l << K2; }
    } else {
        bool couple = rng.coin(1, 4);
        BlkMat K = gen_cpr_block(rng, B, nb, extra, couple, defect); long n = K.n;
        long act = extra ? nb : (rng.coin() ? 0 : nb);
        DM Sm = skind ? DM(0, 0) : rand_dense(rng, n * B, n * B), Pm = rand_dense(rng, nb, nb);
        l << (upd ? "comp_cprb_upd" : "comp_cprb") << B << act << K << skind << Sm << Pm << gen_vec(rng, n * B);
        if (upd) { l << rng.coin(); BlkMat K2 = K; if (rng.coin()) for (size_t k = 0; k < K2.val.size(); ++k) { bool dg = false; for (long i = 0; i < K2.n; ++i) if ((ptrdiff_t)k >= K2.ptr[i] && (ptrdiff_t)k < K2.ptr[i+1] && K2.col[k] == i) dg = true; if (!dg) for (auto &x : K2.val[k]) if (rng.coin()) x = rng.rat(3); }
            if (rng.coin(1, 3)) for (long i = 0; i < K2.n; ++i) for (ptrdiff_t a = K2.ptr[i+1] - 1; a > K2.ptr[i]; --a) { ptrdiff_t b = K2.ptr[i] + (ptrdiff_t)(rng.next() % (uint64_t)(a - K2.ptr[i] + 1)); std::swap(K2.col[a], K2.col[b]); std::swap(K2.val[a], K2.val[b]); }
            l << K2; }
    }
    lines.push_back(l.get());
}

static void gen_defl(Rng &rng, const Opts &o, std::vector<std::string> &lines) {
    long n = rng.range(2, o.thorough() ? 12 : 8);
    Mat A = rng.coin() ? gen_spd(rng, n) : gen_convdiff(rng, n); n = A.n;
    if (rng.coin(1, 4)) A = unsort(rng, A, rng.coin());
    long nv = rng.range(1, std::min<long>(5, n));
    std::vector<std::vector<Q>> Z(nv);
    for (long j = 0; j < nv; ++j) { Z[j].assign(n, Q(0)); int kind = (int)rng.range(0, 2);
        if (kind == 0) for (long i = 0; i < n; ++i) Z[j][i] = Q((i * nv) / n == j ? 1 : 0);            // subdomain indicator
        else if (kind == 1) for (long i = 0; i < n; ++i) Z[j][i] = rng.integer(3);
        else for (long i = 0; i < n; ++i) Z[j][i] = rng.rat(3); }
    if (nv >= 2 && rng.coin(1, 15)) Z[nv - 1] = Z[0];                                                  // dependent vectors: singular E
    long pk = rng.coin(1, 3) ? 0 : 1; DM Pm(0, 0);
    if (pk == 1) { Pm = rand_dense(rng, n, n); if (rng.coin()) { DM Ai; if (dinverse(ddense(A), Ai)) Pm = Ai; } }
    Line l; l << "comp_defl" << rng.pick(std::vector<long>{1, 1, 2, 3, 4}) << A << nv; for (auto &z : Z) l << z; l << pk << Pm << gen_vec(rng, n) << gen_vec(rng, n);
    lines.push_back(l.get());
}

static void generate(Rng &rng, const Opts &o, std::vector<std::string> &lines) {
    long N = o.cases > 0 ? o.cases : (o.thorough() ? 15000 : 1500);
    for (long k = 0; k < N; ++k) {
        int which = (int)rng.range(0, 11);
        if (which < 5) gen_schur(rng, o, lines); else if (which < 8) gen_cpr(rng, o, lines); else if (which < 10) gen_defl(rng, o, lines); else gen_schur_mv(rng, o, lines);
    }
    // malformed stream: both sides must answer bad-input
    lines.push_back("comp_schur 1 1 1 0 1 2 2 1 0 1 1 1 1 2 0 1 0 0 0 0 2 1 1");                 // mask shorter than the matrix
    lines.push_back("comp_schur 1 3 1 0 1 2 2 1 0 1 1 1 1 2 0 1 1 1 1 1 1 1 2 1 1");             // type 3
    lines.push_back("comp_schur_mv 1 1 0 1 2 2 2 0 1 1 1 2 0 1 1 1 2 0 1 1 1 1 1 -1 0 1 1 2 1 1 1 1 1 1");     // y longer than np
    lines.push_back("comp_schur_mv 1 1 0 1 2 2 2 0 1 1 1 2 0 1 1 1 2 0 1 1 1 1 0 1 1 1 1");                     // no spmv call (k = 0)
    lines.push_back("comp_cpr 2 0 3 3 1 0 1 1 1 1 1 2 1 1 0 0 1 1 1 3 1 1 1");                   // n not a multiple of block_size
    lines.push_back("comp_cpr 2 0 2 2 2 1 1 0 2 1 1 1 1 0 0 1 1 1 2 1 1");                       // unsorted row
    lines.push_back("comp_pmask 5 %12:3");                                                       // two-digit start: the code would read stride 0 and never terminate
    lines.push_back("comp_pmask 5 =3");                                                          // unknown pattern
    lines.push_back("comp_defl 1 2 2 1 0 1 1 1 1 0 0 0 0 2 1 1 2 0 0");                          // nvec = 0
    lines.push_back("comp_defl 1 2 2 1 0 1 1 1 1 1 3 1 1 1 0 0 0 2 1 1 2 0 0");                  // deflation vector of wrong size
}

// Entry point.  The harness switches the OpenMP thread count per case (omp_set_num_threads(1..4)) on a machine shared with
// other jobs: libgomp's default ACTIVE wait policy lets the workers spin at the end of every (tiny) parallel region; with
// more runnable threads than cores a region then costs a scheduler time slice instead of microseconds (measured: 300 cases
// in 63 s instead of 3 s).  The policy is read when libgomp is loaded, so the process re-executes itself once with
// OMP_WAIT_POLICY=passive.  Results do not depend on the wait policy.
#include <unistd.h>
int main(int argc, char **argv) {
    if (!getenv("OMP_WAIT_POLICY")) { setenv("OMP_WAIT_POLICY", "passive", 1); setenv("GOMP_SPINCOUNT", "0", 1); execv("/proc/self/exe", argv); }
    return vh::harness_main(argc, argv, generate, execute);
}
