// C13 harness (LABELLED floating-point test, "no_model"): preconditioner::schur_pressure_correction with MIXED sub-solver
// backends under a double-precision outer solver.  The backend of the composite is
// backend::detail::common_scalar_backend<USolver::backend_type, PSolver::backend_type> (mixing.hpp): it must be the DOUBLE
// scalar backend as soon as one of the sub-solvers is double, otherwise the composite keeps the system matrix in single
// precision and the residual reported by the outer solver is not the residual of the double system.
//   t_schur cfg m      cfg 0: U = float 2x2 blocks, P = double scalar; 1: U = double 2x2 blocks, P = float scalar;
//                      2: U = float 2x2 blocks, P = float 2x2 blocks (velocity/pressure pairs; common backend float: only
//                      the reported-vs-true comparison at float level); 3: U = double blocks, P = double scalar (reference)
//                      m x m grid, 3 (cfg 2: 4) unknowns per node, entries NOT representable in float
// Oracle (cfg 0, 1, 3): the outer solver reports < 1e-8 and the TRUE relative residual of the returned doubles in the double
// system (exact rational arithmetic) is <= 1e-8 and agrees with the reported one to 1e-3 relative + 1e-12.
#include "gen.hpp"
#include <amgcl/adapter/crs_tuple.hpp>
#include <amgcl/value_type/static_matrix.hpp>
#include <amgcl/backend/builtin.hpp>
#include <amgcl/make_solver.hpp>
#include <amgcl/make_block_solver.hpp>
#include <amgcl/amg.hpp>
#include <amgcl/coarsening/smoothed_aggregation.hpp>
#include <amgcl/relaxation/spai0.hpp>
#include <amgcl/solver/preonly.hpp>
#include <amgcl/solver/bicgstab.hpp>
#include <amgcl/preconditioner/schur_pressure_correction.hpp>
using namespace vh;
namespace bk = amgcl::backend; namespace C = amgcl::coarsening; namespace R = amgcl::relaxation; namespace S = amgcl::solver;

static std::string sci(double v) { char buf[40]; snprintf(buf, sizeof buf, "%.3e", v); return buf; }
// (weighted 5-point Laplacian / 3 + kappa / 100) (x) Cm with an SPD B x B coupling matrix; no entry representable in float
static long assemble(int B, long m, std::vector<ptrdiff_t> &ptr, std::vector<ptrdiff_t> &col, std::vector<double> &val, std::vector<double> &rhs) {
    std::vector<std::vector<double>> Cm(B, std::vector<double>(B));
    for (int a = 0; a < B; ++a) for (int b = 0; b < B; ++b) Cm[a][b] = a == b ? 1.1 + 0.1 * a : 0.3 / (1 + std::abs(a - b));
    long N = m * m * B; ptr.assign(1, 0); col.clear(); val.clear(); rhs.assign(N, 0.0);
    for (long j = 0; j < m; ++j) for (long i = 0; i < m; ++i) {
        long k = j * m + i; double w = 1.0 / 3.0, kappa = 1.0 + 0.3 * std::sin(0.2 * i) * std::cos(0.15 * j);
        for (int a = 0; a < B; ++a) {
            auto put = [&](long kk, double v) { for (int b = 0; b < B; ++b) { col.push_back(kk * B + b); val.push_back(v * Cm[a][b]); } };
            if (j > 0) put(k - m, -w); if (i > 0) put(k - 1, -w);
            put(k, 4 * w + 0.01 * kappa);
            if (i + 1 < m) put(k + 1, -w); if (j + 1 < m) put(k + m, -w);
            ptr.push_back((ptrdiff_t)col.size()); rhs[k * B + a] = 1.0 + 0.1 * a + 0.01 * (i - j);
        }
    }
    return N;
}
struct Out { size_t it = 0; double res = 0, truth = 0; bool dbl = false; };
template <class USolver, class PSolver> static Out run(long m, int B, int npress) {
    std::vector<ptrdiff_t> ptr, col; std::vector<double> val, rhs; ptrdiff_t N = assemble(B, m, ptr, col, val, rhs);
    typedef amgcl::preconditioner::schur_pressure_correction<USolver, PSolver> PC;
    typedef amgcl::make_solver<PC, S::bicgstab<bk::builtin<double>>> Sv;
    typename Sv::params p; p.precond.pmask.assign(N, 0); for (ptrdiff_t i = 0; i < N; ++i) if (i % B >= B - npress) p.precond.pmask[i] = 1;
    p.precond.usolver.precond.coarse_enough = 50; p.precond.psolver.precond.coarse_enough = 50; p.solver.tol = 1e-9; p.solver.maxiter = 200;
    Out q; q.dbl = std::is_same<typename PC::backend_type, bk::builtin<double>>::value;
    Sv solve(std::tie(N, ptr, col, val), p);
    std::vector<double> x(N, 0.0); std::tie(q.it, q.res) = solve(rhs, x);
    for (double v : x) if (!std::isfinite(v)) { q.truth = std::numeric_limits<double>::infinity(); return q; }
    mpq_class rr2 = 0, ff2 = 0;
    for (long i = 0; i < N; ++i) { mpq_class s = 0; for (auto j = ptr[i]; j < ptr[i+1]; ++j) s += mpq_class(val[j]) * mpq_class(x[col[j]]); mpq_class e = mpq_class(rhs[i]) - s; rr2 += e * e; ff2 += mpq_class(rhs[i]) * mpq_class(rhs[i]); }
    q.truth = std::sqrt(mpq_class(rr2 / ff2).get_d());
    return q;
}
template <class V> struct blk_solver { typedef amgcl::make_block_solver<amgcl::amg<bk::builtin<V>, C::smoothed_aggregation, R::spai0>, S::preonly<bk::builtin<V>>> type; };
template <class V> struct sc_solver { typedef amgcl::make_solver<amgcl::amg<bk::builtin<V>, C::smoothed_aggregation, R::spai0>, S::preonly<bk::builtin<V>>> type; };

static Result execute(const Toks &t) {
    Cur c(t); const std::string &op = t[0]; Result r;
    if (op != "t_schur") return Result("bad-op");
    long cfg = c.nat(), m = c.nat(); c.expect_end(); if (cfg < 0 || cfg > 3 || m < 4 || m > 40) throw bad_input("range");
    typedef amgcl::static_matrix<float, 2, 2> fb; typedef amgcl::static_matrix<double, 2, 2> db;
    Out q = cfg == 0 ? run<blk_solver<fb>::type, sc_solver<double>::type>(m, 3, 1)
          : cfg == 1 ? run<blk_solver<db>::type, sc_solver<float>::type>(m, 3, 1)
          : cfg == 2 ? run<blk_solver<fb>::type, blk_solver<fb>::type>(m, 4, 2)
          :            run<blk_solver<db>::type, sc_solver<double>::type>(m, 3, 1);
    std::string what = "schur_pressure_correction, " + std::string(cfg == 0 ? "float-block U / double P" : cfg == 1 ? "double-block U / float P" : cfg == 2 ? "float-block U / float-block P" : "double U / double P") + ", double outer solver: ";
    if (cfg != 2) {
        if (!q.dbl) r.fail(what + "the backend of the composite is not builtin<double>");
        if (!(q.res < 1e-8)) r.fail(what + "reported residual " + sci(q.res) + " >= 1e-8 after " + std::to_string(q.it) + " iterations");
        else if (!(q.truth <= 1e-8) || std::fabs(q.truth - q.res) > 1e-3 * q.truth + 1e-12) r.fail(what + "reported residual " + sci(q.res) + " but the true residual in the double system is " + sci(q.truth));
    } else if (q.dbl) r.fail(what + "two float backends must give the float backend");
    r.out = (Line() << (q.res < 1e-8 ? "converged" : "not-converged")).get(); r.nontrivial = true; r.tag("cfg" + std::to_string(cfg));
    return r;
}
static void generate(Rng &rng, const Opts &o, std::vector<std::string> &lines) {
    for (long cfg = 0; cfg <= 3; ++cfg) for (long k = 0; k < (o.thorough() ? 4 : 2); ++k) lines.push_back((Line() << "t_schur" << cfg << rng.range(8, o.thorough() ? 30 : 16)).get());
    lines.push_back("t_schur 7 10"); lines.push_back("t_schur 0 2");
}
VH_MAIN(generate, execute)
