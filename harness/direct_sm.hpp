// Shared by h_direct_sm.cpp (T = Q) and h_direct_smc.cpp (T = std::complex<Q>); two translation units only to halve the compile time.
// C16 harness, part 2: amgcl::static_matrix<T,N,M> arithmetic (N, M <= 4) at the exact rational type T = Q and at the
// exact Gaussian rationals T = std::complex<Q> (every operation of std::complex<Q> except std::abs is exact; std::abs is the
// deterministic function s * rsqrt((x/s)^2 + (y/s)^2), s = max(|x|,|y|), that the Lean driver evaluates as well).
// Ops (the same text is fed to the Lean model, lean/Amgcl/Driver/Direct.lean for direct_sm_*, lean/Amgcl/Driver/DirectC.lean for
// direct_sm_adj and the complex ops direct_smc_* / direct_invc_dense; a complex number is written as two rationals `re im`):
//   direct_sm_lin N M c a b | direct_sm_mul N P M a b | direct_sm_assoc N P M L a b c | direct_sm_distrib N P M a b c | direct_sm_inner N M x y | direct_sm_inverse N a
//   direct_sm_adj N M a x y        (a: NxM, x: Mx1, y: Nx1)  adjoint(a), <a x, y>, <x, adjoint(a) y>, adjoint(a) * a
//   direct_smc_lin | direct_smc_mul | direct_smc_assoc | direct_smc_distrib | direct_smc_inner | direct_smc_inverse | direct_smc_adj      the same at std::complex<Q>
//   direct_invc_dense n A t p      amgcl::detail::inverse<std::complex<Q>>(n, A, t, p) on its three buffers (A, t: `count (re im)*`)
// Oracles: entrywise / dense recomputation and the matrix algebra identities, evaluated with the real operators:
// adjoint(a)(j,i) = conj(a(i,j)), <a x, y> = <x, a^H y>, a^H a Hermitian with trace = sum |a_ij|^2 = norm(a)^2, (ab)^H = b^H a^H,
// inner_product linear in the first / conjugate-linear in the second argument, inverse(a) * a = a * inverse(a) = I, zero / identity /
// constant conventions.
#pragma once
#include "cq.hpp"
#include "direct_common.hpp"
#include <amgcl/value_type/complex.hpp>
#include <amgcl/value_type/static_matrix.hpp>
#include <amgcl/detail/inverse.hpp>
using namespace vh;
typedef std::complex<Q> CQ;

// ------------------------------------------------------------------ element types
template <class T> struct El;
template <> struct El<Q> {
    static constexpr bool cx = false;
    static Q rd(Cur &c) { return c.rat(); }
    static void put(Line &l, const Q &v) { l << v; }
    static bool eq(const Q &a, const Q &b) { return qeq(a, b); }
    static Q conj(const Q &a) { return a; }
    static Q abs2(const Q &a) { return a * a; }
    static bool is0(const Q &a) { return !a.poison && a.v == 0; }
    static bool real(const Q &) { return true; }
    static Q re(const Q &a) { return a; }
    static Q of(const Q &re) { return re; }
};
template <> struct El<CQ> {
    static constexpr bool cx = true;
    static CQ rd(Cur &c) { Q r = c.rat(); Q i = c.rat(); return CQ(r, i); }
    static void put(Line &l, const CQ &v) { l << v.real(); l << v.imag(); }
    static bool eq(const CQ &a, const CQ &b) { return qeq(a.real(), b.real()) && qeq(a.imag(), b.imag()); }
    static CQ conj(const CQ &a) { return CQ(a.real(), Q(0) - a.imag()); }                   // independent of std::conj / math::adjoint
    static Q abs2(const CQ &a) { return a.real() * a.real() + a.imag() * a.imag(); }
    static bool is0(const CQ &a) { return El<Q>::is0(a.real()) && El<Q>::is0(a.imag()); }
    static bool real(const CQ &a) { return El<Q>::is0(a.imag()); }
    static Q re(const CQ &a) { return a.real(); }
    static CQ of(const Q &re) { return CQ(re, Q(0)); }
};
template <class T> using DenseT = std::vector<std::vector<T>>;
template <class T> static DenseT<T> dmul_t(const DenseT<T> &A, const DenseT<T> &B) {
    size_t n = A.size(), k = B.size(), m = k ? B[0].size() : 0; DenseT<T> C(n, std::vector<T>(m, El<T>::of(Q(0))));
    for (size_t i = 0; i < n; ++i) for (size_t l = 0; l < k; ++l) for (size_t j = 0; j < m; ++j) C[i][j] += A[i][l] * B[l][j];
    return C;
}
template <class T> static long rank_t(DenseT<T> A) {
    long m = (long)A.size(), n = m ? (long)A[0].size() : 0, r = 0;
    for (long c = 0; c < n && r < m; ++c) {
        long p = -1; for (long i = r; i < m; ++i) if (!El<T>::is0(A[i][c])) { p = i; break; }
        if (p < 0) continue;
        std::swap(A[r], A[p]);
        for (long i = r + 1; i < m; ++i) if (!El<T>::is0(A[i][c])) { T f = A[i][c] / A[r][c]; for (long j = c; j < n; ++j) A[i][j] -= f * A[r][j]; }
        ++r;
    }
    return r;
}
template <class T> static DenseT<T> rm_dense_t(long m, long n, const std::vector<T> &a) { DenseT<T> D(m, std::vector<T>(n)); for (long i = 0; i < m; ++i) for (long j = 0; j < n; ++j) D[i][j] = a[i * n + j]; return D; }
template <class T> static bool is_identity_t(const DenseT<T> &A) { for (size_t i = 0; i < A.size(); ++i) for (size_t j = 0; j < A[i].size(); ++j) if (!El<T>::eq(A[i][j], El<T>::of(Q(i == j ? 1 : 0)))) return false; return true; }

// ------------------------------------------------------------------ static matrices
template <int Lo, int Hi, class F> static void dispatch(long n, F &&f) {
    if constexpr (Lo > Hi) { (void)n; (void)f; throw bad_input("dim"); }
    else { if (n == Lo) f(std::integral_constant<int, Lo>()); else dispatch<Lo + 1, Hi>(n, f); }
}
template <class T, int N, int M> static amgcl::static_matrix<T,N,M> parse_sm(Cur &c) { amgcl::static_matrix<T,N,M> a; for (int i = 0; i < N * M; ++i) a(i) = El<T>::rd(c); return a; }
template <class T, int N, int M> static void print_sm(Line &l, const amgcl::static_matrix<T,N,M> &a) { for (int i = 0; i < N * M; ++i) El<T>::put(l, a(i)); }
template <class T, int N, int M> static bool sm_eq(const amgcl::static_matrix<T,N,M> &a, const amgcl::static_matrix<T,N,M> &b) { for (int i = 0; i < N * M; ++i) if (!El<T>::eq(a(i), b(i))) return false; return true; }
template <class T, int N, int M> static DenseT<T> sm_dense(const amgcl::static_matrix<T,N,M> &a) { DenseT<T> D(N, std::vector<T>(M)); for (int i = 0; i < N; ++i) for (int j = 0; j < M; ++j) D[i][j] = a(i, j); return D; }
template <class T, int N, int M> static bool sm_eq_dense(const amgcl::static_matrix<T,N,M> &a, const DenseT<T> &D) { for (int i = 0; i < N; ++i) for (int j = 0; j < M; ++j) if (!El<T>::eq(a(i,j), D[i][j])) return false; return true; }
template <class T, int N, int M> static bool sm_complex(const amgcl::static_matrix<T,N,M> &a) { for (int i = 0; i < N * M; ++i) if (!El<T>::real(a(i))) return true; return false; }

template <class T> static Result run_sm(const std::string &op, const std::string &kind, Cur &c) {
    typedef El<T> E;
    Result r; r.nontrivial = true; r.tag(op);
    bool cplx = false;                       // some entry with a non-zero imaginary part
    namespace m = amgcl::math;
    if (kind == "lin") {
        long N = c.nat(), M = c.nat();
        dispatch<1,4>(N, [&](auto n_) { dispatch<1,4>(M, [&](auto m_) {
            constexpr int N = decltype(n_)::value, M = decltype(m_)::value; typedef amgcl::static_matrix<T,N,M> SM;
            T s = E::rd(c); SM a = parse_sm<T,N,M>(c), b = parse_sm<T,N,M>(c); c.expect_end(); cplx = sm_complex(a);
            SM sum = a + b, dif = a - b, sc = s * a, ng = -a; auto ad = m::adjoint(a); bool z = m::is_zero(a); Q nrm = m::norm(a);
            bool allz = true;
            for (int i = 0; i < N; ++i) for (int j = 0; j < M; ++j) {
                if (!E::eq(sum(i,j), a(i,j) + b(i,j))) r.fail("a+b entrywise"); if (!E::eq(dif(i,j), a(i,j) - b(i,j))) r.fail("a-b entrywise");
                if (!E::eq(sc(i,j), s * a(i,j))) r.fail("c*a entrywise"); if (!E::eq(ng(i,j), E::of(Q(0)) - a(i,j))) r.fail("-a entrywise");
                if (!E::eq(ad(j,i), E::conj(a(i,j)))) r.fail(E::cx ? "adjoint(a)(j,i) != conj(a(i,j))" : "adjoint entrywise");
                if (!E::is0(a(i,j))) allz = false; }
            if (!sm_eq(sum - b, a)) r.fail("(a+b)-b != a"); if (!sm_eq(m::adjoint(ad), a)) r.fail("adjoint(adjoint(a)) != a");
            if (!sm_eq(s * (a + b), s * a + s * b)) r.fail("c*(a+b) != c*a + c*b"); if (!sm_eq(a + b, b + a)) r.fail("a+b != b+a");
            if (!sm_eq(a + ng, m::zero<SM>())) r.fail("a + (-a) != 0");
            if (z != allz) r.fail("is_zero(a) != (all entries are zero)"); if (!m::is_zero(m::zero<SM>())) r.fail("is_zero(zero()) is false");
            { SM zz = m::zero<SM>(); for (int i = 0; i < N * M; ++i) if (!E::is0(zz(i))) r.fail("zero() has a non-zero entry"); }
            { SM cc = m::constant<SM>(Q(3)); for (int i = 0; i < N * M; ++i) if (!E::eq(cc(i), T(Q(3)))) r.fail("constant(c) has an entry != c"); }
            if constexpr (N == M) { SM I = m::identity<SM>(); for (int i = 0; i < N; ++i) for (int j = 0; j < N; ++j) if (!E::eq(I(i,j), E::of(Q(i == j ? 1 : 0)))) r.fail("identity()(i,j) != (i == j)"); }
            Q fro(0); for (int i = 0; i < N * M; ++i) fro += E::abs2(a(i)); if (!qeq(nrm, vq::sqrt(fro))) r.fail(E::cx ? "norm != sqrt(sum |a_i|^2)" : "norm != sqrt(sum a_i^2)");
            Line l; print_sm(l, sum); print_sm(l, dif); print_sm(l, sc); print_sm(l, ng); print_sm(l, ad); l << z << nrm; r.out = l.get();
        }); });
    } else if (kind == "mul") {
        long N = c.nat(), P = c.nat(), M = c.nat();
        dispatch<1,4>(N, [&](auto n_) { dispatch<1,4>(P, [&](auto p_) { dispatch<1,4>(M, [&](auto m_) {
            constexpr int N = decltype(n_)::value, P = decltype(p_)::value, M = decltype(m_)::value;
            auto a = parse_sm<T,N,P>(c); auto b = parse_sm<T,P,M>(c); c.expect_end(); cplx = sm_complex(a) && sm_complex(b);
            auto ab = a * b; auto abt = m::adjoint(ab);
            if (!sm_eq_dense(ab, dmul_t(sm_dense(a), sm_dense(b)))) r.fail("a*b != dense product");
            if (!sm_eq(abt, m::adjoint(b) * m::adjoint(a))) r.fail(E::cx ? "(ab)^H != b^H a^H" : "(ab)^T != b^T a^T");
            for (int i = 0; i < N; ++i) for (int j = 0; j < M; ++j) if (!E::eq(abt(j,i), E::conj(ab(i,j)))) r.fail("adjoint(a*b)(j,i) != conj((a*b)(i,j))");
            if constexpr (N == P) if (!sm_eq(m::identity<amgcl::static_matrix<T,N,N>>() * b, b)) r.fail("I*b != b");
            if constexpr (P == M) if (!sm_eq(a * m::identity<amgcl::static_matrix<T,M,M>>(), a)) r.fail("a*I != a");
            Line l; print_sm(l, ab); print_sm(l, abt); r.out = l.get();
        }); }); });
    } else if (kind == "assoc") {
        long N = c.nat(), P = c.nat(), M = c.nat(), L = c.nat();
        auto body = [&](auto n_, auto p_, auto m_, auto l_) {
            constexpr int N = decltype(n_)::value, P = decltype(p_)::value, M = decltype(m_)::value, L = decltype(l_)::value;
            auto a = parse_sm<T,N,P>(c); auto b = parse_sm<T,P,M>(c); auto d = parse_sm<T,M,L>(c); c.expect_end(); cplx = sm_complex(a) && sm_complex(b) && sm_complex(d);
            auto lhs = (a * b) * d; auto rhs = a * (b * d);
            if (!sm_eq(lhs, rhs)) r.fail("(ab)c != a(bc)");
            Line l; print_sm(l, lhs); print_sm(l, rhs); r.out = l.get();
        };
        // instantiated shapes: T = Q all dimensions <= 3 and 4x4; T = std::complex<Q> all dimensions <= 2, 3x3 and 4x4
        if (N == 4 && P == 4 && M == 4 && L == 4) { std::integral_constant<int,4> f; body(f, f, f, f); }
        else if (E::cx && N == 3 && P == 3 && M == 3 && L == 3) { std::integral_constant<int,3> f; body(f, f, f, f); }
        else if constexpr (E::cx) dispatch<1,2>(N, [&](auto n_) { dispatch<1,2>(P, [&](auto p_) { dispatch<1,2>(M, [&](auto m_) { dispatch<1,2>(L, [&](auto l_) { body(n_, p_, m_, l_); }); }); }); });
        else dispatch<1,3>(N, [&](auto n_) { dispatch<1,3>(P, [&](auto p_) { dispatch<1,3>(M, [&](auto m_) { dispatch<1,3>(L, [&](auto l_) { body(n_, p_, m_, l_); }); }); }); });
    } else if (kind == "distrib") {
        long N = c.nat(), P = c.nat(), M = c.nat();
        dispatch<1,4>(N, [&](auto n_) { dispatch<1,4>(P, [&](auto p_) { dispatch<1,4>(M, [&](auto m_) {
            constexpr int N = decltype(n_)::value, P = decltype(p_)::value, M = decltype(m_)::value;
            auto a = parse_sm<T,N,P>(c); auto b = parse_sm<T,P,M>(c); auto d = parse_sm<T,P,M>(c); c.expect_end(); cplx = sm_complex(a) && (sm_complex(b) || sm_complex(d));
            auto l1 = a * (b + d); auto r1 = a * b + a * d; auto l2 = a * (b - d);
            if (!sm_eq(l1, r1)) r.fail("a(b+c) != ab+ac"); if (!sm_eq(l2, a * b - a * d)) r.fail("a(b-c) != ab-ac");
            if (!sm_eq(m::adjoint(b + d), m::adjoint(b) + m::adjoint(d))) r.fail(E::cx ? "(b+c)^H != b^H + c^H" : "(b+c)^T != b^T + c^T");
            Line l; print_sm(l, l1); print_sm(l, r1); print_sm(l, l2); r.out = l.get();
        }); }); });
    } else if (kind == "inner") {
        long N = c.nat(), M = c.nat();
        dispatch<1,4>(N, [&](auto n_) { dispatch<1,4>(M, [&](auto m_) {
            constexpr int N = decltype(n_)::value, M = decltype(m_)::value;
            auto x = parse_sm<T,N,M>(c); auto y = parse_sm<T,N,M>(c); c.expect_end(); cplx = sm_complex(x) && sm_complex(y);
            auto xhy = m::adjoint(x) * y;          // (x^H y)(i,j) = sum_k conj(x(k,i)) y(k,j) = conj(inner_product(x, y)(i,j))
            DenseT<T> ref(M, std::vector<T>(M, E::of(Q(0))));      // linear in x, conjugate-linear in y
            for (int i = 0; i < M; ++i) for (int j = 0; j < M; ++j) for (int k = 0; k < N; ++k) ref[i][j] += x(k,i) * E::conj(y(k,j));
            if constexpr (M == 1) { T ip = m::inner_product(x, y);
                if (!E::eq(ip, ref[0][0])) r.fail(E::cx ? "inner_product(x,y) != sum_k x_k conj(y_k)" : "inner_product != x^T y");
                if (!E::eq(ip, E::conj(xhy(0,0)))) r.fail(E::cx ? "inner_product(x,y) != conj(adjoint(x) * y)" : "inner_product != x^T y");
                Line l; E::put(l, ip); r.out = l.get(); }
            else { auto ip = m::inner_product(x, y);
                if (!sm_eq_dense(ip, ref)) r.fail(E::cx ? "inner_product(x,y)(i,j) != sum_k x(k,i) conj(y(k,j))" : "inner_product != x^T y");
                for (int i = 0; i < M; ++i) for (int j = 0; j < M; ++j) if (!E::eq(ip(i,j), E::conj(xhy(i,j)))) r.fail(E::cx ? "inner_product(x,y) != conj(adjoint(x) * y)" : "inner_product != x^T y");
                Line l; print_sm(l, ip); r.out = l.get(); }
        }); });
    } else if (kind == "adj") {
        long N = c.nat(), M = c.nat();
        dispatch<1,4>(N, [&](auto n_) { dispatch<1,4>(M, [&](auto m_) {
            constexpr int N = decltype(n_)::value, M = decltype(m_)::value;
            auto a = parse_sm<T,N,M>(c); auto x = parse_sm<T,M,1>(c); auto y = parse_sm<T,N,1>(c); c.expect_end(); cplx = sm_complex(a);
            auto ah = m::adjoint(a); auto ax = a * x; auto ahy = ah * y;
            T lhs = m::inner_product(ax, y), rhs = m::inner_product(x, ahy);
            T ref = E::of(Q(0)); for (int i = 0; i < N; ++i) { T s = E::of(Q(0)); for (int j = 0; j < M; ++j) s += a(i,j) * x(j); ref += s * E::conj(y(i)); }
            if (!E::eq(lhs, ref)) r.fail("<a x, y> != sum_i (a x)_i conj(y_i)");
            if (!E::eq(lhs, rhs)) r.fail("<a x, y> != <x, adjoint(a) y>");
            auto g = ah * a; T tr = E::of(Q(0)); Q fro(0);
            for (int i = 0; i < M; ++i) { for (int j = 0; j < M; ++j) if (!E::eq(g(i,j), E::conj(g(j,i)))) r.fail(E::cx ? "adjoint(a) * a is not Hermitian" : "adjoint(a) * a is not symmetric");
                T d = g(i,i); tr += d; Q colsq(0); for (int k = 0; k < N; ++k) colsq += E::abs2(a(k,i)); if (!E::eq(d, E::of(colsq))) r.fail("(adjoint(a) * a)(i,i) != squared norm of column i");
                }
            for (int i = 0; i < N * M; ++i) fro += E::abs2(a(i));
            const Q tr_re = E::re(tr);
            if (!E::real(tr)) r.fail("trace(adjoint(a) * a) is not real");
            if (!qeq(tr_re, fro)) r.fail("trace(adjoint(a) * a) != sum |a_ij|^2");
            Q nrm = m::norm(a); if (!qeq(nrm, vq::sqrt(fro))) r.fail("norm(a) != sqrt(trace(adjoint(a) * a))");
            { Q s = vq::sqrt(fro); if (qeq(s * s, fro)) { r.tag("exact_norm"); if (!qeq(nrm * nrm, tr_re)) r.fail("norm(a)^2 != trace(adjoint(a) * a)"); } }
            // inner_product(a, a)(i,j) = sum_k a(k,i) conj(a(k,j)) = (a^H a)(j,i)
            if constexpr (M == 1) { T p = m::inner_product(a, a); if (!E::eq(p, g(0,0))) r.fail("inner_product(a,a) != adjoint(a) * a"); }
            else { auto p = m::inner_product(a, a); for (int i = 0; i < M; ++i) for (int j = 0; j < M; ++j) if (!E::eq(p(i,j), g(j,i))) r.fail("inner_product(a,a)(i,j) != (adjoint(a) * a)(j,i)"); }
            Line l; print_sm(l, ah); E::put(l, lhs); E::put(l, rhs); print_sm(l, g); r.out = l.get();
        }); });
    } else if (kind == "inverse") {
        long N = c.nat();
        dispatch<1,4>(N, [&](auto n_) {
            constexpr int N = decltype(n_)::value; typedef amgcl::static_matrix<T,N,N> SM;
            SM a = parse_sm<T,N,N>(c); c.expect_end(); cplx = sm_complex(a);
            if (rank_t(sm_dense(a)) < N) { r.out = "singular"; r.tag("singular"); return; }
            SM ia = m::inverse(a);
            if (!sm_eq(a * ia, m::identity<SM>())) r.fail("a * inverse(a) != I"); if (!sm_eq(ia * a, m::identity<SM>())) r.fail("inverse(a) * a != I");
            if (E::cx) { SM iah = m::inverse(m::adjoint(a)); if (!sm_eq(iah, m::adjoint(ia))) r.fail("inverse(adjoint(a)) != adjoint(inverse(a))"); }
            Line l; print_sm(l, ia); r.out = l.get();
        });
    } else { r.out = "bad-op"; return r; }
    if (E::cx) { r.nontrivial = cplx; if (!cplx) r.tag("real_valued"); }
    return r;
}

// direct_invc_dense n A t p: detail::inverse at std::complex<Q>; pivot magnitudes are std::abs(std::complex<Q>)
static inline std::vector<CQ> rdcv(Cur &c) { long n = c.nat(); if (n < 0) throw bad_input("n"); std::vector<CQ> v(n); for (auto &x : v) x = El<CQ>::rd(c); return v; }
static inline void putcv(Line &l, const std::vector<CQ> &v) { l << v.size(); for (auto &x : v) El<CQ>::put(l, x); }
static inline Result run_invc(Cur &c) {
    Result r;
    long n = c.nat(); auto A = rdcv(c); auto tw = rdcv(c); auto p = c.natvec(); c.expect_end();
    if (n < 1 || (long)A.size() != n * n || (long)tw.size() != n * n || (long)p.size() != n) throw bad_input("shape");
    for (long v : p) if (v < 0) throw bad_input("p");
    DenseT<CQ> D = rm_dense_t(n, n, A);
    bool cplx = false; for (auto &v : A) if (!El<CQ>::real(v)) cplx = true;
    r.tag("direct_invc_dense"); r.nontrivial = n >= 2 && cplx;
    if (rank_t(D) < n) { r.out = "singular"; r.tag("singular"); return r; }
    std::vector<CQ> A1 = A, t1 = tw; std::vector<int> p1(p.begin(), p.end());
    amgcl::detail::inverse<CQ>((int)n, A1.data(), t1.data(), p1.data());
    DenseT<CQ> I1 = rm_dense_t(n, n, A1);
    if (!is_identity_t(dmul_t(D, I1))) r.fail("A * inverse(A) != I"); if (!is_identity_t(dmul_t(I1, D))) r.fail("inverse(A) * A != I");
    // workspace independence: poisoned t, arbitrary p
    std::vector<CQ> A2 = A, t2(n * n, CQ(Q::poisoned(), Q::poisoned())); std::vector<int> p2(n, 12345);
    amgcl::detail::inverse<CQ>((int)n, A2.data(), t2.data(), p2.data());
    for (long i = 0; i < n * n; ++i) if (!El<CQ>::eq(A2[i], A1[i])) { r.fail("result depends on the old content of the workspaces t / p"); break; }
    bool pivoted = false; for (long i = 0; i < n; ++i) if (p1[i] != i) pivoted = true; if (pivoted) r.tag("row_exchange");
    Line l; putcv(l, A1); putcv(l, t1); l << (size_t)n; for (int v : p1) l << (long)v; r.out = l.get();
    return r;
}

inline const std::vector<std::string>& sm_kinds() { static const std::vector<std::string> k = { "lin", "mul", "assoc", "distrib", "inner", "inverse", "adj" }; return k; }

// ------------------------------------------------------------------ generators
// element writers: fam 0 = real rationals; complex families: 1 = general Gaussian rationals, 2 = purely imaginary, 3 = units {0, +-1, +-i}
// (magnitude ties), 4 = Gaussian integers incl. Pythagorean magnitudes
struct ElGen {
    Rng &rng; bool cx; int fam;
    void put(Line &l, int zero_pct = 15, long pm = 5) {
        bool z = rng.range(0, 99) < zero_pct;
        if (!cx) { l << (z ? Q(0) : rng.rat(pm)); return; }
        Q re(0), im(0);
        if (!z) switch (fam) {
            case 2: im = rng.rat(pm); break;
            case 3: { long u = rng.range(0, 4); re = Q(u == 1 ? 1 : u == 2 ? -1 : 0); im = Q(u == 3 ? 1 : u == 4 ? -1 : 0); break; }
            case 4: { static const long tr[][2] = { {3,4}, {4,3}, {-3,4}, {4,-3}, {5,0}, {0,5}, {0,-5}, {1,1}, {1,-1}, {2,1}, {-1,2} }; auto &t = tr[rng.range(0, 10)]; re = Q(t[0]); im = Q(t[1]); break; }
            default: re = rng.coin(1, 6) ? Q(0) : rng.rat(pm); im = rng.coin(1, 6) ? Q(0) : rng.rat(pm);
        }
        l << re << im;
    }
    void put_n(Line &l, long cnt, int zero_pct = 15, long pm = 5) { for (long i = 0; i < cnt; ++i) put(l, zero_pct, pm); }
};
static inline std::vector<CQ> gen_cq(Rng &rng, long cnt, int fam, int zero_pct) {
    Line l; ElGen g{rng, true, fam}; g.put_n(l, cnt, zero_pct); Toks t = split("x " + l.get()); Cur c(t); std::vector<CQ> v(cnt); for (auto &x : v) x = El<CQ>::rd(c); return v;
}

static inline void gen_family(Rng &rng, std::vector<std::string> &lines, bool cx, long rounds) {
    const std::string pfx = cx ? "direct_smc_" : "direct_sm_";
    for (long k = 0; k < rounds; ++k) {
        long N = rng.range(1, 4), P = rng.range(1, 4), M = rng.range(1, 4), L4 = rng.range(1, 4);
        int fam = cx ? (rng.coin(1, 2) ? 1 : (int)rng.range(1, 4)) : 0; ElGen g{rng, cx, fam};
        { Line l; l << pfx + "lin" << N << M; g.put(l, 15, 4); g.put_n(l, 2 * N * M); lines.push_back(l.get()); }
        { Line l; l << pfx + "mul" << N << P << M; g.put_n(l, N * P + P * M); lines.push_back(l.get()); }
        { long a = N, b = P, cc = M, d = L4; const long hi = cx ? 2 : 3; if (rng.coin(1, 5)) a = b = cc = d = (cx && rng.coin() ? 3 : 4); else { a = rng.range(1, hi); b = rng.range(1, hi); cc = rng.range(1, hi); d = rng.range(1, hi); }
          Line l; l << pfx + "assoc" << a << b << cc << d; g.put_n(l, a * b + b * cc + cc * d); lines.push_back(l.get()); }
        { Line l; l << pfx + "distrib" << N << P << M; g.put_n(l, N * P + 2 * P * M); lines.push_back(l.get()); }
        { Line l; l << pfx + "inner" << N << M; g.put_n(l, 2 * N * M); lines.push_back(l.get()); }
        { Line l; l << pfx + "adj" << N << M; g.put_n(l, N * M + M + N, (int)rng.range(0, 30)); lines.push_back(l.get()); }
        if (!cx) {
            std::vector<Q> A(N * N); for (int tries = 0; tries < 50; ++tries) { for (auto &x : A) x = rng.coin(1, 4) ? Q(0) : rng.rat(5); if (dense_rank(rm_dense(N, N, A)) == N) break; for (long i = 0; i < N; ++i) A[i * N + i] += Q(7); }
            if (dense_rank(rm_dense(N, N, A)) == N) { Line l; l << "direct_sm_inverse" << N; for (auto &v : A) l << v; lines.push_back(l.get()); }
        } else {
            // complex blocks: general; units (magnitude ties: every pivot candidate has |.| = 1); sparse (vanishing leading entries force row
            // exchanges); a small leading entry against a larger one further down (pivoting by magnitude, not by real part)
            int ifam = (int)rng.range(0, 3); std::vector<CQ> A(N * N);
            for (int tries = 0; tries < 50; ++tries) {
                if (ifam == 0) A = gen_cq(rng, N * N, 1, 10); else if (ifam == 1) A = gen_cq(rng, N * N, 3, 25); else if (ifam == 2) A = gen_cq(rng, N * N, (int)rng.range(1, 4), 45);
                else { A = gen_cq(rng, N * N, 4, 10); A[0] = CQ(Q::frac(1, 2), Q(0)); if (N > 1) A[(N - 1) * N] = CQ(Q(0), Q(-6)); }
                if (rank_t(rm_dense_t(N, N, A)) == N) break;
                for (long i = 0; i < N; ++i) A[i * N + i] += CQ(Q(7), Q(1));
            }
            if (rank_t(rm_dense_t(N, N, A)) == N) { Line l; l << "direct_smc_inverse" << N; for (auto &v : A) El<CQ>::put(l, v); lines.push_back(l.get()); }
        }
    }
}

