// Input generators shared by the harnesses (DESIGN.md §2.3).  All randomness comes from vh::Rng.
#pragma once
#include "proto.hpp"
#include <numeric>

namespace vh {

typedef Cur::Mat Mat;

inline Mat from_rows(long n, long m, const std::vector<std::vector<std::pair<long,Q>>> &rows) {
    Mat M; M.n = n; M.m = m; M.ptr.push_back(0);
    for (auto &r : rows) { for (auto &cv : r) { M.col.push_back(cv.first); M.val.push_back(cv.second); } M.ptr.push_back((ptrdiff_t)M.col.size()); }
    return M;
}
inline std::vector<std::vector<std::pair<long,Q>>> to_rows(const Mat &M) {
    std::vector<std::vector<std::pair<long,Q>>> rows(M.n);
    for (long i = 0; i < M.n; ++i) for (auto j = M.ptr[i]; j < M.ptr[i+1]; ++j) rows[i].push_back({(long)M.col[j], M.val[j]});
    return rows;
}
inline void shuffle_rows_inplace(Rng &rng, std::vector<std::vector<std::pair<long,Q>>> &rows) {
    for (auto &r : rows) for (size_t k = r.size(); k > 1; --k) std::swap(r[k-1], r[rng.next() % k]);
}

// general sparse n x m, each entry present with probability dens/100; sorted rows, no duplicates;
// possibly empty rows / columns; values small non-zero rationals (or integers)
inline Mat gen_sparse(Rng &rng, long n, long m, int dens, bool integer = false, bool allow_zero_val = false) {
    std::vector<std::vector<std::pair<long,Q>>> rows(n);
    for (long i = 0; i < n; ++i) for (long j = 0; j < m; ++j) if (rng.range(0, 99) < dens) {
        Q v = integer ? rng.integer(4) : rng.rat(6);
        if (!allow_zero_val && v == 0) v = Q(1);
        rows[i].push_back({j, v});
    }
    return from_rows(n, m, rows);
}
// make the storage order of each row arbitrary, and optionally split entries into duplicates
inline Mat unsort(Rng &rng, const Mat &A, bool dups = false) {
    auto rows = to_rows(A);
    if (dups) for (auto &r : rows) { size_t k = r.size(); for (size_t j = 0; j < k; ++j) if (rng.coin(1, 4)) { Q h = rng.rat(3); r[j].second -= h; r.push_back({r[j].first, h}); } }
    shuffle_rows_inplace(rng, rows);
    return from_rows(A.n, A.m, rows);
}

// weighted graph Laplacian-like SPD M-matrix: symmetric, off-diagonals <= 0, weakly diagonally dominant with
// at least `shift` > 0 on some rows (strictly dominant everywhere when every_row)
struct Edge { long a, b; Q w; };
inline Mat mmatrix_from_edges(long n, const std::vector<Edge> &edges, const std::vector<Q> &shift) {
    std::vector<std::map<long,Q>> r(n);
    for (long i = 0; i < n; ++i) r[i][i] = shift[i];
    for (auto &e : edges) { if (e.a == e.b) continue; r[e.a][e.b] -= e.w; r[e.b][e.a] -= e.w; r[e.a][e.a] += e.w; r[e.b][e.b] += e.w; }
    std::vector<std::vector<std::pair<long,Q>>> rows(n);
    for (long i = 0; i < n; ++i) for (auto &cv : r[i]) if (cv.first == i || cv.second != 0) rows[i].push_back({cv.first, cv.second});
    return from_rows(n, n, rows);
}
inline std::vector<Edge> grid_edges(Rng &rng, long nx, long ny, long contrast, long aniso = 1) {
    std::vector<Edge> e;
    auto w = [&](long a) { return Q::frac(rng.range(1, contrast), rng.range(1, 2)) * Q(a); };
    for (long j = 0; j < ny; ++j) for (long i = 0; i < nx; ++i) {
        long k = j * nx + i;
        if (i + 1 < nx) e.push_back({k, k + 1, w(aniso)});
        if (j + 1 < ny) e.push_back({k, k + nx, w(1)});
    }
    return e;
}
inline std::vector<Edge> random_graph_edges(Rng &rng, long n, int extra, long contrast) {
    std::vector<Edge> e;
    for (long i = 1; i < n; ++i) e.push_back({i, rng.range(0, i - 1), Q::frac(rng.range(1, contrast), rng.range(1, 2))});   // spanning tree: connected
    for (int k = 0; k < extra; ++k) { long a = rng.range(0, n - 1), b = rng.range(0, n - 1); if (a != b) e.push_back({a, b, Q::frac(rng.range(1, contrast), rng.range(1, 2))}); }
    return e;
}
// SPD M-matrix families: kind 0 = 1D chain, 1 = 2D grid, 2 = random connected graph, 3 = anisotropic grid
inline Mat gen_spd(Rng &rng, long n, int kind = -1, long contrast = 4) {
    if (kind < 0) kind = (int)rng.range(0, 3);
    std::vector<Edge> e; long N = n;
    if (kind == 0) e = grid_edges(rng, n, 1, contrast);
    else if (kind == 1 || kind == 3) { long nx = std::max<long>(2, (long)std::floor(std::sqrt((double)n))); long ny = std::max<long>(1, n / nx); N = nx * ny; e = grid_edges(rng, nx, ny, contrast, kind == 3 ? 8 : 1); }
    else e = random_graph_edges(rng, n, (int)n / 2, contrast);
    std::vector<Q> shift(N, Q(0));
    // Dirichlet-like shifts: at least one row strictly dominant (irreducibly diagonally dominant => SPD)
    shift[0] = Q::frac(rng.range(1, 4), 2);
    for (long i = 1; i < N; ++i) if (rng.coin(1, 4)) shift[i] = Q::frac(rng.range(1, 4), 2);
    return mmatrix_from_edges(N, e, shift);
}
// non-symmetric convection-diffusion on a chain/grid: M-matrix + upwind convection (still diagonally dominant)
inline Mat gen_convdiff(Rng &rng, long n) {
    Mat A = gen_spd(rng, n, (int)rng.range(0, 1));
    auto rows = to_rows(A);
    for (long i = 0; i < A.n; ++i) {
        for (auto &cv : rows[i]) if (cv.first == i - 1) { Q c = Q::frac(rng.range(0, 3), 2); cv.second -= c; for (auto &d : rows[i]) if (d.first == i) d.second += c; }
    }
    return from_rows(A.n, A.m, rows);
}
inline std::vector<Q> gen_vec(Rng &rng, long n, bool integer = false) { std::vector<Q> v(n); for (auto &x : v) x = integer ? rng.integer(5) : rng.rat(6); return v; }

inline bool is_symmetric(const Mat &A) { if (A.n != A.m) return false; Dense D = dense(A); for (long i = 0; i < A.n; ++i) for (long j = 0; j < i; ++j) if (D[i][j] != D[j][i]) return false; return true; }

inline Line& operator<<(Line &l, const Mat &A) {
    l << A.n << A.m;
    for (long i = 0; i < A.n; ++i) { l << (long)(A.ptr[i+1] - A.ptr[i]); for (auto j = A.ptr[i]; j < A.ptr[i+1]; ++j) { l << (long)A.col[j]; l << A.val[j]; } }
    return l;
}

} // namespace vh
