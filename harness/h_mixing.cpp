// C13 harness: the COMPILE-TIME table of backend::detail::common_scalar_backend<builtin<V1>, builtin<V2>> (mixing.hpp), the
// backend that preconditioner::schur_pressure_correction picks from the backends of its two sub-solvers.
//   mix_common p1 b1 p2 b2     p: 0 float, 1 double, 2 long double;  b: 1 scalar, 2..4 static_matrix<S,b,b>
//   -> `p 1` (::type is builtin<scalar kind p>) | `none` (no member ::type) | `other` (::type is anything else)
// The table is computed at run time from std::is_same values (no static_assert), for all 12 x 12 pairs.
// Oracle (independent of the Lean model): whenever one of the value types is a block type, ::type exists and is
// builtin<S> with S the WIDER of the two SCALAR types; the table is symmetric; <B,B> of a scalar backend is B; the vector and
// value types of the result are those of the scalar backend (a double rhs is not truncated to float).
#include "gen.hpp"
#include <amgcl/value_type/static_matrix.hpp>
#include <amgcl/backend/builtin.hpp>
#include <amgcl/backend/detail/mixing.hpp>
#include <type_traits>
using namespace vh;
namespace bk = amgcl::backend;

template <class S, int B> struct vt { typedef amgcl::static_matrix<S, B, B> type; };
template <class S> struct vt<S, 1> { typedef S type; };
template <int P> struct sc;
template <> struct sc<0> { typedef float type; }; template <> struct sc<1> { typedef double type; }; template <> struct sc<2> { typedef long double type; };

template <class...> struct voider { typedef void type; };
template <class B1, class B2, class = void> struct has_type : std::false_type {};
template <class B1, class B2> struct has_type<B1, B2, typename voider<typename bk::detail::common_scalar_backend<B1, B2>::type>::type> : std::true_type {};

// -1 none, 0..2 builtin<scalar kind>, 9 other; and whether the result's value_type is its own rhs type (a scalar backend)
template <class B1, class B2, bool = has_type<B1, B2>::value> struct entry { static int get() { return -1; } static bool scalar_vectors() { return false; } };
template <class B1, class B2> struct entry<B1, B2, true> {
    typedef typename bk::detail::common_scalar_backend<B1, B2>::type T;
    static int get() {
        if (std::is_same<T, bk::builtin<float>>::value) return 0;
        if (std::is_same<T, bk::builtin<double>>::value) return 1;
        if (std::is_same<T, bk::builtin<long double>>::value) return 2;
        return 9;
    }
    static bool scalar_vectors() { return std::is_same<typename T::vector, bk::numa_vector<typename amgcl::math::scalar_of<typename T::value_type>::type>>::value && std::is_same<typename T::value_type, typename T::rhs_type>::value; }
};

static int table[3][5][3][5]; static bool svec[3][5][3][5];
template <int P1, int B1, int P2, int B2> static void fill1() {
    typedef bk::builtin<typename vt<typename sc<P1>::type, B1>::type> X; typedef bk::builtin<typename vt<typename sc<P2>::type, B2>::type> Y;
    table[P1][B1][P2][B2] = entry<X, Y>::get(); svec[P1][B1][P2][B2] = entry<X, Y>::scalar_vectors();
}
template <int P1, int B1, int P2> static void fill2() { fill1<P1, B1, P2, 1>(); fill1<P1, B1, P2, 2>(); fill1<P1, B1, P2, 3>(); fill1<P1, B1, P2, 4>(); }
template <int P1, int B1> static void fill3() { fill2<P1, B1, 0>(); fill2<P1, B1, 1>(); fill2<P1, B1, 2>(); }
template <int P1> static void fill4() { fill3<P1, 1>(); fill3<P1, 2>(); fill3<P1, 3>(); fill3<P1, 4>(); }
static void fill() { static bool done = false; if (done) return; done = true; fill4<0>(); fill4<1>(); fill4<2>(); }

static std::string show(int e) { return e < 0 ? "none" : e == 9 ? "other" : std::to_string(e) + " 1"; }
static const char *pname[] = { "float", "double", "long double" };
static std::string tname(long p, long b) { return b == 1 ? std::string(pname[p]) : "static_matrix<" + std::string(pname[p]) + "," + std::to_string(b) + "," + std::to_string(b) + ">"; }

static Result execute(const Toks &t) {
    Cur c(t); const std::string &op = t[0];
    if (op != "mix_common") return Result("bad-op");
    long p1 = c.nat(), b1 = c.nat(), p2 = c.nat(), b2 = c.nat(); c.expect_end();
    if (p1 < 0 || p1 > 2 || p2 < 0 || p2 > 2 || b1 < 1 || b1 > 4 || b2 < 1 || b2 > 4) throw bad_input("range");
    fill();
    Result r; int e = table[p1][b1][p2][b2];
    r.out = show(e);
    std::string what = "common_scalar_backend<builtin<" + tname(p1, b1) + ">, builtin<" + tname(p2, b2) + ">>: ";
    if (e != table[p2][b2][p1][b1]) r.fail(what + "not symmetric in its arguments (" + show(e) + " vs " + show(table[p2][b2][p1][b1]) + ")");
    if (b1 != 1 || b2 != 1) {
        if (e < 0) r.fail(what + "no common backend for a block backend");
        else if (e != std::max(p1, p2)) r.fail(what + "the common backend is " + (e == 9 ? std::string("not a scalar builtin backend") : "builtin<" + std::string(pname[e]) + ">") + ", not builtin<" + pname[std::max(p1, p2)] + "> (the wider of the two SCALAR types)");
        else if (!svec[p1][b1][p2][b2]) r.fail(what + "vectors of the common backend are not scalar vectors");
        r.tag(p1 != p2 ? "mixed_precision" : "same_precision"); r.tag(b1 != 1 && b2 != 1 ? "block_block" : "block_scalar");
    } else if (p1 == p2) { if (e != p1) r.fail(what + "<B, B> of a scalar backend is not B"); r.tag("scalar_same"); }
    else r.tag("scalar_mixed");           // two different scalar backends: the primary template is only declared (as written)
    r.nontrivial = b1 != 1 || b2 != 1;
    return r;
}

static void generate(Rng &, const Opts &, std::vector<std::string> &lines) {
    for (long p1 = 0; p1 < 3; ++p1) for (long b1 = 1; b1 <= 4; ++b1) for (long p2 = 0; p2 < 3; ++p2) for (long b2 = 1; b2 <= 4; ++b2)
        lines.push_back((Line() << "mix_common" << p1 << b1 << p2 << b2).get());
    lines.push_back("mix_common 3 1 0 1"); lines.push_back("mix_common 0 5 0 1"); lines.push_back("mix_common 0 1 0"); lines.push_back("mix_common 0 0 1 1");
}

VH_MAIN(generate, execute)
