// C12 harness (implementation-only, "no_model"): the RUN-TIME interfaces of the distributed solver stack
// (amgcl::runtime::mpi::{relaxation::wrapper, coarsening::wrapper, direct::solver, partition::wrapper, preconditioner,
// solver::wrapper}, as used by examples/mpi/mpi_solver.cpp) against the compile-time classes on the same distributed
// input, and the distributed direct solver on BLOCK value types.  Real MPI, double.
//
//   rrelax r <kv> <part> A f x0        relaxation r (index into RNAME: every relaxation the run-time wrapper offers) with the
//                                      parameters <kv> = nkv key val ...: amgcl::mpi::relaxation::R<builtin<double>>(A, params(ptree))
//                                      and runtime::mpi::relaxation::wrapper<builtin<double>>(A, ptree + type) on ONE distributed
//                                      matrix; apply_pre, apply_pre, apply_post from x0, then apply into a poisoned vector
//   rsolve c r s repart <kv> <part> A f
//                                      make_solver<runtime::mpi::preconditioner, runtime::mpi::solver::wrapper> (class amg with
//                                      coarsening c = aggregation | smoothed_aggregation, or class relaxation for c = 2; relaxation r;
//                                      direct skyline_lu; partition merge; solver s, index into SNAME) against
//                                      make_solver<[mpi::amg<builtin, C, mpi::relaxation::R, mpi::direct::skyline_lu, mpi::partition::merge>
//                                      | mpi::relaxation::as_preconditioner<R>], mpi::solver::S> built from the same parameters
//   mdirectb B how <part> A f          mpi::direct::skyline_lu<V> through solver_base, V = double (B = 1) or static_matrix<double,B,B>
//                                      (B = 2, 3): A is the scalar (n*B) x (n*B) matrix, <part> distributes BLOCK rows;
//                                      how 0: from the local strip (crs<V>, global columns), 1: from distributed_matrix<builtin<V>>,
//                                      2: through runtime::mpi::direct::solver<V>.  Applied twice (a coarse solver is called once per cycle).
// Oracles (the result line only summarises; the verdicts are the oracles):
//   * rrelax: the run-time wrapper returns BITWISE what the compile-time class returns, after every call, on every rank   [property]
//   * rrelax chebyshev: the spectral bound the smoother was built with (read off a degree-1 instance applied to the constant
//     vector: x = 1/d, d = (higher + lower)/2 * bound) is bitwise the same on all ranks and, for power_iters = 0, equals the
//     Gershgorin bound max_i sum_j |a_ij| (scaled: / |a_ii|) of the ASSEMBLED matrix, off-rank couplings included          [property]
//     power_iters > 0: same on all ranks and not above the Gershgorin bound
//   * rrelax damped_jacobi / spai0 / chebyshev (power_iters = 0): every returned vector equals the dense long double
//     recomputation of the documented iteration on the assembled system to 1e-10 (rank-local smoothers gauss_seidel / ilu* /
//     spai1 are block-Jacobi-like by design: only the run-time == compile-time oracle applies)
//   * rsolve: (iters, resid) bitwise identical on all ranks; run-time == compile-time: same iteration count, bitwise the same
//     residual and solution on every rank; true residual of the gathered solution within 1e-8 of the reported one [test];
//     converged within maxiter to tol on an SPD M-matrix [test] (not demanded of CG with the non-symmetric smoothers spai1 / ilut)
//   * mdirectb: on every rank that holds rows the returned strip equals the exact (rational Gaussian elimination) solution of
//     the gathered system to 1e-10, on both passes; the rank and its master/slave role are named
#include "mpi_common.hpp"
#include <boost/property_tree/ptree.hpp>
#include <amgcl/value_type/static_matrix.hpp>
#include <amgcl/mpi/make_solver.hpp>
#include <amgcl/mpi/amg.hpp>
#include <amgcl/mpi/preconditioner.hpp>
#include <amgcl/mpi/coarsening/aggregation.hpp>
#include <amgcl/mpi/coarsening/smoothed_aggregation.hpp>
#include <amgcl/mpi/coarsening/runtime.hpp>
#include <amgcl/mpi/relaxation/spai0.hpp>
#include <amgcl/mpi/relaxation/spai1.hpp>
#include <amgcl/mpi/relaxation/damped_jacobi.hpp>
#include <amgcl/mpi/relaxation/gauss_seidel.hpp>
#include <amgcl/mpi/relaxation/chebyshev.hpp>
#include <amgcl/mpi/relaxation/ilu0.hpp>
#include <amgcl/mpi/relaxation/iluk.hpp>
#include <amgcl/mpi/relaxation/ilup.hpp>
#include <amgcl/mpi/relaxation/ilut.hpp>
#include <amgcl/mpi/relaxation/runtime.hpp>
#include <amgcl/mpi/relaxation/as_preconditioner.hpp>
#include <amgcl/mpi/direct_solver/skyline_lu.hpp>
#include <amgcl/mpi/direct_solver/runtime.hpp>
#include <amgcl/mpi/partition/merge.hpp>
#include <amgcl/mpi/partition/runtime.hpp>
#include <amgcl/mpi/solver/cg.hpp>
#include <amgcl/mpi/solver/bicgstab.hpp>
#include <amgcl/mpi/solver/bicgstabl.hpp>
#include <amgcl/mpi/solver/gmres.hpp>
#include <amgcl/mpi/solver/lgmres.hpp>
#include <amgcl/mpi/solver/fgmres.hpp>
#include <amgcl/mpi/solver/idrs.hpp>
#include <amgcl/mpi/solver/runtime.hpp>

typedef boost::property_tree::ptree PT;
typedef amgcl::backend::numa_vector<double> NV;
typedef std::vector<std::vector<long double>> LD;
namespace mr = amgcl::mpi::relaxation;

static const char *RNAME[] = { "spai0", "chebyshev", "damped_jacobi", "ilu0", "iluk", "ilup", "ilut", "spai1", "gauss_seidel" };
static const int NR = 9;
static const char *SNAME[] = { "cg", "bicgstab", "bicgstabl", "gmres", "lgmres", "fgmres", "idrs" };
static const int NS = 7;
static const char *CNAME[] = { "aggregation", "smoothed_aggregation", "relaxation" };
static const double TOL = 1e-10; static const int MAXIT = 200;
static const double EPS_STRONG = 0.08;

template <class T> struct tag_t { typedef T type; };
template <class F> static void with_relax(int r, F &&f) {
    switch (r) {
        case 0: f(tag_t<mr::spai0<BD>>()); break;          case 1: f(tag_t<mr::chebyshev<BD>>()); break;
        case 2: f(tag_t<mr::damped_jacobi<BD>>()); break;  case 3: f(tag_t<mr::ilu0<BD>>()); break;
        case 4: f(tag_t<mr::iluk<BD>>()); break;           case 5: f(tag_t<mr::ilup<BD>>()); break;
        case 6: f(tag_t<mr::ilut<BD>>()); break;           case 7: f(tag_t<mr::spai1<BD>>()); break;
        default: f(tag_t<mr::gauss_seidel<BD>>()); break;
    }
}

// ---------------------------------------------------------------- relaxation parameters: nkv key val ...
// validated against the parameter set of the relaxation (anything else is bad-input); the SAME property tree feeds the
// compile-time params(ptree) constructor and (plus "type") the run-time wrapper
struct RelaxPrm { PT pt; long degree = 5, power_iters = 0; bool scale = false; std::string label; };
static RelaxPrm relax_prm(Cur &c, int r) {
    RelaxPrm p; long nkv = c.nat(); need(nkv >= 0 && nkv <= 6); std::set<std::string> seen;
    for (long k = 0; k < nkv; ++k) {
        std::string key = c.tok(); need(seen.insert(key).second);
        auto real = [&](double lo, bool lo_open, double hi) { double v = exact(c.rat()); need((lo_open ? v > lo : v >= lo) && v <= hi); p.pt.put(key, v); };
        auto integer = [&](long lo, long hi) -> long { long v = c.nat(); need(v >= lo && v <= hi); p.pt.put(key, v); return v; };
        auto boolean = [&]() -> bool { long v = c.nat(); need(v == 0 || v == 1); p.pt.put(key, v != 0); return v != 0; };
        const bool ilu = (r >= 3 && r <= 6);
        if (r == 1 && key == "degree") p.degree = integer(1, 6);
        else if (r == 1 && key == "lower") real(0, true, 0.5);
        else if (r == 1 && key == "higher") real(1, false, 2);
        else if (r == 1 && key == "power_iters") p.power_iters = integer(0, 5);
        else if (r == 1 && key == "scale") p.scale = boolean();
        else if ((r == 2 || ilu) && key == "damping") real(0, true, 1);
        else if ((r == 4 || r == 5) && key == "k") integer(0, 3);
        else if (r == 6 && key == "p") real(1, false, 4);
        else if (r == 6 && key == "tau") real(0, false, 0.25);
        else if (r == 8 && key == "serial") boolean();
        else throw bad_input("relaxation parameter");
        p.label += (p.label.empty() ? "" : ",") + key;
    }
    return p;
}

// ---------------------------------------------------------------- dense long double recomputation (rank 0)
struct DSys { size_t n; LD A; std::vector<long double> f; };
static DSys dsys(const Mat &A, const std::vector<double> &F) {
    DSys s; s.n = (size_t)A.n; s.A.assign(s.n, std::vector<long double>(s.n, 0.0L)); s.f.assign(F.begin(), F.end());
    for (long i = 0; i < A.n; ++i) for (auto j = A.ptr[i]; j < A.ptr[i+1]; ++j) s.A[i][A.col[j]] += (long double)A.val[j].v.get_d();
    return s;
}
static std::vector<long double> dres(const DSys &s, const std::vector<long double> &x) {
    std::vector<long double> r(s.f); for (size_t i = 0; i < s.n; ++i) for (size_t j = 0; j < s.n; ++j) if (s.A[i][j] != 0) r[i] -= s.A[i][j] * x[j]; return r;
}
// x += M (f - A x) with a diagonal M; apply: x = M f
static void diag_sweep(const DSys &s, const std::vector<long double> &M, std::vector<long double> &x) { auto r = dres(s, x); for (size_t i = 0; i < s.n; ++i) x[i] += M[i] * r[i]; }
// amgcl/relaxation/chebyshev.hpp solve(): `degree` steps of the three-term recurrence on the ellipse (d, c)
static void cheb_solve(const DSys &s, long double d, long double c, long degree, bool scale, std::vector<long double> &x) {
    std::vector<long double> p(s.n, 0.0L); long double alpha = 0, beta = 0;
    for (long k = 0; k < degree; ++k) {
        auto r = dres(s, x); if (scale) for (size_t i = 0; i < s.n; ++i) r[i] *= 1.0L / s.A[i][i];
        if (k == 0) { alpha = 1.0L / d; beta = 0; } else if (k == 1) { alpha = 2 * d / (2 * d * d - c * c); beta = alpha * d - 1; } else { alpha = 1.0L / (d - 0.25L * alpha * c * c); beta = alpha * d - 1; }
        for (size_t i = 0; i < s.n; ++i) { p[i] = alpha * r[i] + beta * p[i]; x[i] += p[i]; }
    }
}
static std::string fmt(long double v) { char b[64]; snprintf(b, sizeof b, "%.17Lg", v); return b; }
static int owner_of(const Part &P, long i) { int q = 0; while (q + 1 < P.np() && i >= P.off[q + 1]) ++q; return q; }

// ---------------------------------------------------------------- rrelax
static const int NSTAGE = 4;
static const char *STAGE[] = { "apply_pre", "apply_pre (2nd)", "apply_post", "apply" };
template <class Rx> static std::vector<std::vector<double>> relax_seq(const Rx &S, const DM &D, const std::vector<double> &f, const std::vector<double> &x0) {
    const size_t n = f.size(); NV rhs(f), x(x0), tmp(n), y(n);
    std::vector<std::vector<double>> out;
    auto rec = [&](const NV &v) { out.push_back(std::vector<double>(v.data(), v.data() + n)); };
    S.apply_pre(D, rhs, x, tmp); rec(x);
    S.apply_pre(D, rhs, x, tmp); rec(x);
    S.apply_post(D, rhs, x, tmp); rec(x);
    for (size_t i = 0; i < n; ++i) y[i] = 777.0;
    S.apply(D, rhs, y); rec(y);
    return out;
}
template <class Rx> static std::vector<double> relax_probe(const Rx &S, const DM &D, size_t n) {
    NV one(n), y(n); for (size_t i = 0; i < n; ++i) { one[i] = 1.0; y[i] = 777.0; }
    S.apply(D, one, y); return std::vector<double>(y.data(), y.data() + n);
}
// first position where two local vectors differ bitwise, gathered: (rank, index, a, b) of the lowest rank that differs
struct Diff { bool any; int rank; long idx; double a, b; };
static Diff first_diff(const Ctx &x, const std::vector<double> &a, const std::vector<double> &b) {
    double loc[3] = { -1, 0, 0 };
    for (size_t i = 0; i < a.size(); ++i) if (std::memcmp(&a[i], &b[i], sizeof(double))) { loc[0] = (double)i; loc[1] = a[i]; loc[2] = b[i]; break; }
    std::vector<double> all(3 * x.np); MPI_Gather(loc, 3, MPI_DOUBLE, all.data(), 3, MPI_DOUBLE, 0, x.comm);
    Diff d = { false, 0, 0, 0, 0 };
    if (x.rank == 0) for (int q = 0; q < x.np; ++q) if (all[3*q] >= 0) { d.any = true; d.rank = q; d.idx = (long)all[3*q]; d.a = all[3*q+1]; d.b = all[3*q+2]; break; }
    return d;
}

static void exec_rrelax(Result &r, Cur &c) {
    long rx = c.nat(); need(rx >= 0 && rx < NR);
    RelaxPrm rp = relax_prm(c, (int)rx);
    Part P = part(c); Mat A = checked(c); auto fq = c.vec(), xq = c.vec(); c.expect_end();
    need_mat(A, P, P); need(A.n > 0 && (long)fq.size() == A.n && (long)xq.size() == A.n);
    for (long i = 0; i < A.n; ++i) { bool d = false; for (auto j = A.ptr[i]; j < A.ptr[i+1]; ++j) if (A.col[j] == i && A.val[j] > 0) d = true; need(d); }
    auto F = dvec(fq), X0 = dvec(xq);
    Ctx x = ctx_for(P.np()); if (!x.active) return;
    const long rb = P.off[x.rank], re = P.off[x.rank + 1]; const size_t nl = (size_t)(re - rb);
    std::vector<double> f(F.begin() + rb, F.begin() + re), x0(X0.begin() + rb, X0.begin() + re);
    auto D = make_dm(x, A, P, P);
    PT rt_pt = rp.pt; rt_pt.put("type", RNAME[rx]);
    std::vector<std::vector<double>> ct, rt; std::vector<double> pct, prt;      // stages; chebyshev probes
    float lower = 0, higher = 0; double damping = 0;
    with_relax((int)rx, [&](auto tg) {
        typedef typename decltype(tg)::type R; typedef amgcl::runtime::mpi::relaxation::wrapper<BD> W;
        typename R::params cp(rp.pt);
        // every smoother is built from the matrix in its setup form, then the matrix moves to the backend (as a level of mpi::amg does)
        R Sct(*D, cp); W Srt(*D, rt_pt);
        std::shared_ptr<R> Pct; std::shared_ptr<W> Prt;
        if constexpr (std::is_same<R, mr::chebyshev<BD>>::value) {
            lower = cp.lower; higher = cp.higher;
            PT pp = rp.pt; pp.put("degree", 1); Pct = std::make_shared<R>(*D, typename R::params(pp));
            pp.put("type", RNAME[rx]); Prt = std::make_shared<W>(*D, pp);
        }
        if constexpr (std::is_same<R, mr::damped_jacobi<BD>>::value) damping = cp.damping;
        D->move_to_backend();
        ct = relax_seq(Sct, *D, f, x0); rt = relax_seq(Srt, *D, f, x0);
        if (Pct) { pct = relax_probe(*Pct, *D, nl); prt = relax_probe(*Prt, *D, nl); }
    });
    // ---- run-time == compile-time, bitwise, stage by stage
    Diff dd[NSTAGE]; std::vector<std::vector<double>> G(NSTAGE);
    for (int s = 0; s < NSTAGE; ++s) { dd[s] = first_diff(x, ct[s], rt[s]); G[s] = gather_vec(x, rt[s], P); }
    // ---- chebyshev: alpha = 1/d of the degree-1 instances, one value per rank (first local row; NaN marks an empty rank)
    std::vector<double> act, art; bool flat = true;
    if (rx == 1) {
        double a = nl ? pct[0] : std::nan(""), b = nl ? prt[0] : std::nan("");
        if (!rp.scale) for (size_t i = 1; i < nl; ++i) if (std::memcmp(&prt[i], &prt[0], sizeof(double)) || std::memcmp(&pct[i], &pct[0], sizeof(double))) flat = false;
        if (rp.scale && nl) { double dia = 0; for (auto j = A.ptr[rb]; j < A.ptr[rb+1]; ++j) if (A.col[j] == rb) dia += A.val[j].v.get_d(); a *= dia; b *= dia; }   // x = (1/d) * 1/a_ii
        act.resize(x.np); art.resize(x.np);
        MPI_Gather(&a, 1, MPI_DOUBLE, act.data(), 1, MPI_DOUBLE, 0, x.comm); MPI_Gather(&b, 1, MPI_DOUBLE, art.data(), 1, MPI_DOUBLE, 0, x.comm);
        flat = all_true(x, flat);
    }
    if (x.rank) return;
    const std::string nm = RNAME[rx];
    DSys sys = dsys(A, F);
    // Gershgorin bound of the assembled matrix and the row that realises it
    long double gersh = 0; long grow = 0;
    for (size_t i = 0; i < sys.n; ++i) { long double s = 0; for (size_t j = 0; j < sys.n; ++j) s += std::fabs(sys.A[i][j]); if (rp.scale) s = (long double)((double)s * std::fabs(1.0 / (double)sys.A[i][i])); if (s > gersh) { gersh = s; grow = (long)i; } }
    if (rx == 1) {
        const long double half = 0.5L * ((long double)higher + (long double)lower);      // d = half * bound
        auto bound = [&](double alpha) { return 1.0L / ((long double)alpha * half); };
        int q0 = -1; for (int q = 0; q < x.np; ++q) if (P.p[q]) { q0 = q; break; }
        bool remote_hot = false; { int o = owner_of(P, grow); for (size_t j = 0; j < sys.n; ++j) if (sys.A[grow][j] != 0 && owner_of(P, (long)j) != o) remote_hot = true; }
        if (remote_hot) r.tag("cheb_hot_row_offrank");
        if (!flat) r.fail("chebyshev (degree 1) applied to the constant vector is not constant on some rank");
        for (int pass = 0; pass < 2 && r.ok; ++pass) {
            const std::vector<double> &al = pass ? art : act; const std::string who = pass ? "run-time chebyshev (runtime::mpi::relaxation::wrapper)" : "amgcl::mpi::relaxation::chebyshev";
            for (int q = 0; q < x.np; ++q) {
                if (!P.p[q]) continue;
                // the same on all ranks (bitwise without scaling; the scaled probe divides by the local diagonal)
                bool same = rp.scale ? std::fabs((long double)al[q] - al[q0]) <= 1e-14L * std::fabs((long double)al[q0]) : !std::memcmp(&al[q], &al[q0], sizeof(double));
                if (!same) { r.fail(who + ": the spectral bound differs between ranks: rank " + std::to_string(q0) + " uses " + fmt(bound(al[q0])) + ", rank " + std::to_string(q) + " uses " + fmt(bound(al[q]))); break; }
                long double b = bound(al[q]);
                if (rp.power_iters == 0 ? std::fabs(b - gersh) > 1e-12L * gersh : b > gersh * (1 + 1e-12L)) {
                    r.fail(who + ": rank " + std::to_string(q) + " uses the spectral bound " + fmt(b) + (rp.power_iters ? ", which exceeds" : ", but") + " the Gershgorin bound of the assembled matrix " + (rp.power_iters ? "" : "is ") + fmt(gersh) +
                           " (row " + std::to_string(grow) + ", owned by rank " + std::to_string(owner_of(P, grow)) + (remote_hot ? ", has off-rank entries" : "") + ")"); break; }
            }
        }
    }
    // ---- run-time == compile-time (after the more specific chebyshev verdict)
    for (int s = 0; s < NSTAGE; ++s) if (dd[s].any) {
        r.fail("run-time relaxation wrapper (type " + nm + ") differs from amgcl::mpi::relaxation::" + nm + " on the same distributed matrix: after " + STAGE[s] + " rank " + std::to_string(dd[s].rank) +
               " has x[" + std::to_string(dd[s].idx) + "] = " + fmt(dd[s].b) + ", the compile-time class gives " + fmt(dd[s].a)); break; }
    // ---- dense recomputation of the documented iteration on the assembled system
    if (rx == 0 || rx == 2 || (rx == 1 && rp.power_iters == 0)) {
        std::vector<long double> M(sys.n), xx(X0.begin(), X0.end()); std::vector<std::vector<long double>> E;
        for (size_t i = 0; i < sys.n; ++i) { long double s2 = 0; for (size_t j = 0; j < sys.n; ++j) s2 += sys.A[i][j] * sys.A[i][j]; M[i] = rx == 0 ? sys.A[i][i] / s2 : (long double)damping / sys.A[i][i]; }
        const long double d = 0.5L * (gersh * higher + gersh * lower), cc = 0.5L * (gersh * higher - gersh * lower);
        for (int s = 0; s < 3; ++s) { if (rx == 1) cheb_solve(sys, d, cc, rp.degree, rp.scale, xx); else diag_sweep(sys, M, xx); E.push_back(xx); }
        // apply(): x = M f; damped_jacobi::apply is written WITHOUT the damping factor (x = D^-1 f), amgcl/relaxation/damped_jacobi.hpp
        { std::vector<long double> y(sys.n, 0.0L); if (rx == 1) cheb_solve(sys, d, cc, rp.degree, rp.scale, y); else for (size_t i = 0; i < sys.n; ++i) y[i] = (rx == 2 ? 1.0L / sys.A[i][i] : M[i]) * sys.f[i]; E.push_back(y); }
        for (int s = 0; s < NSTAGE && r.ok; ++s) {
            long double scale = 1; for (auto v : E[s]) scale = std::max(scale, std::fabs(v));
            for (size_t i = 0; i < sys.n; ++i) if (!(std::fabs((long double)G[s][i] - E[s][i]) <= 1e-10L * scale)) {
                r.fail("run-time " + nm + ": after " + STAGE[s] + " x[" + std::to_string(i) + "] (rank " + std::to_string(owner_of(P, (long)i)) + ") = " + fmt(G[s][i]) + ", the dense recomputation on the assembled system gives " + fmt(E[s][i])); break; }
        }
        r.tag("dense_oracle");
    }
    r.out = (Line() << "relaxed" << nm).get();
    r.nontrivial = x.np > 1 && has_remote(A, P, P); r.tag("rrelax_" + nm); r.tag("np" + std::to_string(x.np)); if (!rp.label.empty()) r.tag("prm:" + rp.label);
    bool e = false; for (long q : P.p) if (!q) e = true; if (e) r.tag("emptyrank");
}

// ---------------------------------------------------------------- rsolve: compile-time side
// a preconditioner chosen at run time among COMPILE-TIME classes (what runtime::mpi::preconditioner does with the
// run-time wrappers), so that each iterative solver is instantiated once
struct PBase { virtual ~PBase() {} virtual void apply(const NV &rhs, NV &x) const = 0; virtual std::shared_ptr<DM> mat() const = 0; };
template <class Pc> struct PImpl : PBase {
    Pc p;
    PImpl(amgcl::mpi::communicator comm, std::shared_ptr<DM> A, const typename Pc::params &prm) : p(comm, A, prm) {}
    void apply(const NV &rhs, NV &x) const { p.apply(rhs, x); }
    std::shared_ptr<DM> mat() const { return p.system_matrix_ptr(); }
};
struct DynP {
    typedef BD backend_type; typedef DM matrix; typedef double value_type;
    struct params { int c, r; PT p; params() : c(0), r(0) {} };
    std::shared_ptr<PBase> h;
    DynP(amgcl::mpi::communicator comm, std::shared_ptr<DM> A, const params &prm, const BD::params & = BD::params()) {
        with_relax(prm.r, [&](auto tg) {
            typedef typename decltype(tg)::type R;
            typedef amgcl::mpi::direct::skyline_lu<double> Dir; typedef amgcl::mpi::partition::merge<BD> Rep;
            if (prm.c == 0)      { typedef amgcl::mpi::amg<BD, amgcl::mpi::coarsening::aggregation<BD>, R, Dir, Rep> Pc;          h = std::make_shared<PImpl<Pc>>(comm, A, typename Pc::params(prm.p)); }
            else if (prm.c == 1) { typedef amgcl::mpi::amg<BD, amgcl::mpi::coarsening::smoothed_aggregation<BD>, R, Dir, Rep> Pc; h = std::make_shared<PImpl<Pc>>(comm, A, typename Pc::params(prm.p)); }
            else                 { typedef mr::as_preconditioner<R> Pc;                                                            h = std::make_shared<PImpl<Pc>>(comm, A, typename Pc::params(prm.p)); }
        });
    }
    void apply(const NV &rhs, NV &x) const { h->apply(rhs, x); }
    std::shared_ptr<DM> system_matrix_ptr() const { return h->mat(); }
    const DM& system_matrix() const { return *h->mat(); }
};
struct SolveOut { size_t iters; double resid; std::vector<double> x; };
template <class S> static SolveOut solve_ct(const Ctx &x, std::shared_ptr<DM> D, const DynP::params &pp, const PT &sp, const std::vector<double> &f) {
    typedef amgcl::mpi::make_solver<DynP, S> MS;
    typename MS::params prm; prm.precond = pp; prm.solver = typename S::params(sp);
    MS solve(x.comm, D, prm);
    NV rhs(f), xx(f.size()); SolveOut o;
    std::tie(o.iters, o.resid) = solve(rhs, xx); o.x.assign(xx.data(), xx.data() + f.size()); return o;
}

static void exec_rsolve(Result &r, Cur &c) {
    long cx = c.nat(), rx = c.nat(), sx = c.nat(), rep = c.nat(); need(cx >= 0 && cx <= 2 && rx >= 0 && rx < NR && sx >= 0 && sx < NS && (rep == 0 || rep == 1));
    RelaxPrm rp = relax_prm(c, (int)rx);
    Part P = part(c); Mat A = checked(c); auto fq = c.vec(); c.expect_end(); need_mat(A, P, P); need((long)fq.size() == A.n && A.n > 0);
    for (long i = 0; i < A.n; ++i) { bool d = false; for (auto j = A.ptr[i]; j < A.ptr[i+1]; ++j) if (A.col[j] == i && A.val[j] > 0) d = true; need(d); }
    auto F = dvec(fq);
    Ctx x = ctx_for(P.np()); if (!x.active) return;
    const long rb = P.off[x.rank], re = P.off[x.rank + 1];
    std::vector<double> f(F.begin() + rb, F.begin() + re);
    // ---- one set of parameters, two property trees: without the run-time selectors for the compile-time classes
    PT sp; sp.put("tol", TOL); sp.put("maxiter", MAXIT);
    PT pc, pr;          // compile-time / run-time preconditioner parameters
    if (cx == 2) { pc = rp.pt; pr = rp.pt; pr.put("class", "relaxation"); pr.put("type", RNAME[rx]); }
    else {
        pc.put("coarse_enough", 3); pc.put("npre", 1); pc.put("npost", 1);
        pc.put("coarsening.aggr.eps_strong", EPS_STRONG);
        pc.put("repart.enable", rep != 0); pc.put("repart.min_per_proc", 4); pc.put("repart.shrink_ratio", 2);
        if (!rp.pt.empty()) pc.put_child("relax", rp.pt);
        pr = pc; pr.put("class", "amg"); pr.put("coarsening.type", CNAME[cx]); pr.put("relax.type", RNAME[rx]); pr.put("direct.type", "skyline_lu"); pr.put("repart.type", "merge");
    }
    // ---- run-time side: exactly the types of examples/mpi/mpi_solver.cpp
    SolveOut ort;
    {
        typedef amgcl::mpi::make_solver<amgcl::runtime::mpi::preconditioner<BD>, amgcl::runtime::mpi::solver::wrapper<BD>> RS;
        PT prm; prm.put_child("precond", pr); PT s2 = sp; s2.put("type", SNAME[sx]); prm.put_child("solver", s2);
        auto D = make_dm(x, A, P, P);
        RS solve(x.comm, D, prm);
        NV rhs(f), xx(f.size());
        std::tie(ort.iters, ort.resid) = solve(rhs, xx); ort.x.assign(xx.data(), xx.data() + f.size());
    }
    // ---- compile-time side
    SolveOut oct;
    {
        DynP::params pp; pp.c = (int)cx; pp.r = (int)rx; pp.p = pc;
        auto D = make_dm(x, A, P, P);
        namespace ms = amgcl::mpi::solver;
        switch (sx) {
            case 0: oct = solve_ct<ms::cg<BD>>(x, D, pp, sp, f); break;        case 1: oct = solve_ct<ms::bicgstab<BD>>(x, D, pp, sp, f); break;
            case 2: oct = solve_ct<ms::bicgstabl<BD>>(x, D, pp, sp, f); break; case 3: oct = solve_ct<ms::gmres<BD>>(x, D, pp, sp, f); break;
            case 4: oct = solve_ct<ms::lgmres<BD>>(x, D, pp, sp, f); break;    case 5: oct = solve_ct<ms::fgmres<BD>>(x, D, pp, sp, f); break;
            default: oct = solve_ct<ms::idrs<BD>>(x, D, pp, sp, f); break;
        }
    }
    std::vector<double> its, res, its2, res2;
    bool same_it = same_on_all(x, (double)ort.iters, its), same_res = same_on_all(x, ort.resid, res);
    same_on_all(x, (double)oct.iters, its2); same_on_all(x, oct.resid, res2);
    Diff dx = first_diff(x, oct.x, ort.x);
    auto X = gather_vec(x, ort.x, P);
    // ---- CG that does not converge: is the distributed preconditioner B symmetric at all?  (collective decision)
    // (u, B v) against (B u, v) on two fixed vectors, and the same configuration with the whole system on ONE rank
    const bool cg_nonsym = sx == 0 && (rx == 6 || rx == 7);
    const bool diagnose = !all_true(x, !(sx == 0 && !cg_nonsym && (!(oct.resid <= TOL) || oct.iters >= (size_t)MAXIT)));
    double uBv = 0, Buv = 0; SolveOut one; one.iters = 0; one.resid = 0;
    if (diagnose) {
        DynP::params pp; pp.c = (int)cx; pp.r = (int)rx; pp.p = pc;
        { DynP B(x.comm, make_dm(x, A, P, P), pp); const size_t nl = f.size(); NV u(nl), v(nl), Bu(nl), Bv(nl);
          for (size_t i = 0; i < nl; ++i) { long g = rb + (long)i; u[i] = 1.0 + (double)(g % 3); v[i] = (double)((g * 7) % 5) - 2.0; }
          B.apply(u, Bu); B.apply(v, Bv); amgcl::mpi::inner_product ip(x.comm); uBv = ip(u, Bv); Buv = ip(Bu, v); }
        if (x.rank == 0) {
            Ctx x1; x1.np = 1; x1.rank = 0; x1.active = true; x1.comm = amgcl::mpi::communicator(MPI_COMM_SELF);
            Part P1; P1.p.push_back(A.n); P1.off.push_back(0); P1.off.push_back(A.n); P1.sum = A.n;
            one = solve_ct<amgcl::mpi::solver::cg<BD>>(x1, make_dm(x1, A, P1, P1), pp, sp, F);
        }
    }
    if (x.rank) return;
    const std::string combo = std::string(CNAME[cx]) + " + " + RNAME[rx] + " + " + SNAME[sx];
    if (!same_it || !same_res) { std::string s = "run-time " + combo + ": (iters, resid) differ between ranks:"; for (int q = 0; q < x.np; ++q) s += " (" + std::to_string((long)its[q]) + "," + qd(res[q]).str() + ")"; r.fail(s); }
    for (int q = 0; q < x.np && r.ok; ++q) if (its[q] != its2[q] || std::memcmp(&res[q], &res2[q], sizeof(double)))
        r.fail("run-time interface (" + combo + ") differs from the compile-time classes on the same distributed input: rank " + std::to_string(q) + " run-time iters=" + std::to_string((long)its[q]) + " resid=" + fmt(res[q]) +
               ", compile-time iters=" + std::to_string((long)its2[q]) + " resid=" + fmt(res2[q]));
    if (dx.any) r.fail("run-time interface (" + combo + ") returns a different solution than the compile-time classes: rank " + std::to_string(dx.rank) + " x[" + std::to_string(dx.idx) + "] = " + fmt(dx.b) + " vs " + fmt(dx.a));
    long double rr = 0, ff = 0;
    for (long i = 0; i < A.n; ++i) { long double s = F[i]; for (auto j = A.ptr[i]; j < A.ptr[i+1]; ++j) s -= (long double)A.val[j].v.get_d() * (long double)X[A.col[j]]; rr += s * s; ff += (long double)F[i] * F[i]; }
    long double rel = ff > 0 ? std::sqrt(rr / ff) : std::sqrt(rr);
    if (!(std::fabs(rel - (long double)ort.resid) <= 1e-8L)) r.fail("test: run-time " + combo + ": reported residual " + fmt(ort.resid) + " is not the true residual " + fmt(rel) + " of the gathered solution");
    // CG needs a symmetric preconditioner: SPAI-1 and ILUT (rank-local, non-symmetric approximate inverses / factors) are
    // not; with them only the run-time == compile-time and the residual oracles apply
    if (cg_nonsym) r.tag("cg_nonsymmetric_smoother");
    else if (!(ort.resid <= TOL) || ort.iters >= (size_t)MAXIT) {
        std::string m = "test: run-time " + combo + ": not converged on an SPD M-matrix: iters=" + std::to_string(ort.iters) + " resid=" + fmt(ort.resid) + " (compile-time classes: iters=" + std::to_string(oct.iters) + " resid=" + fmt(oct.resid) + ")";
        if (diagnose) {
            const bool asym = std::fabs(uBv - Buv) > 1e-9 * (std::fabs(uBv) + std::fabs(Buv)), one_ok = one.resid <= TOL && one.iters < (size_t)MAXIT;
            m += std::string("; the distributed preconditioner B is ") + (asym ? "NOT symmetric" : "symmetric") + " on the test vectors: (u, B v) = " + fmt(uBv) + ", (B u, v) = " + fmt(Buv) +
                 "; the same configuration with the whole system on one rank " + (one_ok ? "converges in " + std::to_string(one.iters) + " iterations" : "does not converge either (iters=" + std::to_string(one.iters) + " resid=" + fmt(one.resid) + ")");
            if (rx == 8 && cx < 2 && asym && one_ok) m += " [amgcl::mpi::relaxation::gauss_seidel sweeps over the rank-local block with the off-rank couplings of x dropped, so post-smoothing is not the adjoint of pre-smoothing]";
        }
        r.fail(m);
    }
    r.out = "solved";
    r.nontrivial = ort.iters >= 1 && x.np > 1; r.tag(std::string("rsolve_") + CNAME[cx]); r.tag(std::string("rsolve_") + RNAME[rx]); r.tag(std::string("rsolve_") + SNAME[sx]);
    r.tag("np" + std::to_string(x.np)); if (rep && cx < 2) r.tag("repart"); if (!rp.label.empty()) r.tag("prm:" + rp.label);
    bool e = false; for (long q : P.p) if (!q) e = true; if (e) r.tag("emptyrank");
}

// ---------------------------------------------------------------- mdirectb
// exact solution of A x = f by rational Gaussian elimination (A SPD: no pivoting needed, but zero pivots are searched for anyway)
static bool qsolve(Dense M, std::vector<Q> b, std::vector<Q> &xs) {
    const size_t n = M.size();
    for (size_t k = 0; k < n; ++k) {
        size_t p = k; while (p < n && M[p][k] == 0) ++p; if (p == n) return false;
        if (p != k) { std::swap(M[p], M[k]); std::swap(b[p], b[k]); }
        for (size_t i = k + 1; i < n; ++i) { if (M[i][k] == 0) continue; Q l = M[i][k] / M[k][k]; for (size_t j = k; j < n; ++j) if (M[k][j] != 0) M[i][j] -= l * M[k][j]; b[i] -= l * b[k]; }
    }
    xs.assign(n, Q(0));
    for (size_t k = n; k-- > 0;) { Q s = b[k]; for (size_t j = k + 1; j < n; ++j) if (M[k][j] != 0) s -= M[k][j] * xs[j]; xs[k] = s / M[k][k]; }
    return true;
}
template <class V> struct Blk { static const int B = amgcl::math::static_rows<V>::value; static double& at(V &v, int i, int j) { return v(i, j); } };
template <> struct Blk<double> { static const int B = 1; static double& at(double &v, int, int) { return v; } };
template <class R> struct RhsAt { static double& at(R &v, int i) { return v(i); } };
template <> struct RhsAt<double> { static double& at(double &v, int) { return v; } };

// the rank's strip of BLOCK rows as crs<V> with global block columns (a block is stored iff one of its entries is)
template <class V> static std::shared_ptr<amgcl::backend::crs<V>> block_strip(const Mat &A, long rb, long re) {
    const int B = Blk<V>::B; auto S = std::make_shared<amgcl::backend::crs<V>>();
    std::vector<std::map<long, V>> rows(re - rb);
    for (long I = rb; I < re; ++I) for (int a = 0; a < B; ++a) { long i = I * B + a; for (auto j = A.ptr[i]; j < A.ptr[i+1]; ++j) {
        long J = A.col[j] / B; int b = (int)(A.col[j] % B); auto it = rows[I - rb].find(J); if (it == rows[I - rb].end()) it = rows[I - rb].insert({J, amgcl::math::zero<V>()}).first;
        Blk<V>::at(it->second, a, b) += exact(A.val[j]); } }
    S->set_size(re - rb, A.m / B, false); S->ptr[0] = 0; for (long I = 0; I < re - rb; ++I) S->ptr[I + 1] = S->ptr[I] + (ptrdiff_t)rows[I].size();
    S->set_nonzeros(S->ptr[re - rb]);
    for (long I = 0; I < re - rb; ++I) { ptrdiff_t h = S->ptr[I]; for (auto &cv : rows[I]) { S->col[h] = cv.first; S->val[h] = cv.second; ++h; } }
    return S;
}
template <class V> static std::vector<std::vector<double>> direct_block(const Ctx &x, const Mat &A, const Part &P, const std::vector<double> &F, int how) {
    typedef typename amgcl::math::rhs_of<V>::type R; const int B = Blk<V>::B;
    const long rb = P.off[x.rank], re = P.off[x.rank + 1], n = re - rb;
    auto S = block_strip<V>(A, rb, re);
    std::vector<R> f(n), xl(n);
    for (long i = 0; i < n; ++i) for (int a = 0; a < B; ++a) RhsAt<R>::at(f[i], a) = F[(rb + i) * B + a];
    std::vector<std::vector<double>> out;
    auto passes = [&](auto &solve) {
        for (int pass = 0; pass < 2; ++pass) {
            for (long i = 0; i < n; ++i) for (int a = 0; a < B; ++a) RhsAt<R>::at(xl[i], a) = 777.0 + pass;
            solve(f, xl);
            std::vector<double> flat(n * B); for (long i = 0; i < n; ++i) for (int a = 0; a < B; ++a) flat[i * B + a] = RhsAt<R>::at(xl[i], a);
            out.push_back(flat);
        }
    };
    if (how == 0) { amgcl::mpi::direct::skyline_lu<V> solve(x.comm, *S); passes(solve); }
    else if (how == 1) {
        typedef amgcl::backend::builtin<V> BB; amgcl::mpi::distributed_matrix<BB> D(x.comm, *S, (ptrdiff_t)n);
        amgcl::mpi::direct::skyline_lu<V> solve(x.comm, D); passes(solve);
    } else { PT p; p.put("type", "skyline_lu"); amgcl::runtime::mpi::direct::solver<V> solve(x.comm, *S, p); passes(solve); }
    return out;
}
static void exec_mdirectb(Result &r, Cur &c) {
    long B = c.nat(), how = c.nat(); need(B >= 1 && B <= 3 && how >= 0 && how <= 2);
    Part P = part(c); Mat A = checked(c); auto fq = c.vec(); c.expect_end();
    need(A.n == A.m && A.n > 0 && A.n == P.sum * B && (long)fq.size() == A.n && A.n <= 90);
    auto F = dvec(fq);
    Ctx x = ctx_for(P.np()); if (!x.active) return;
    std::vector<std::vector<double>> out;
    if (B == 1) out = direct_block<double>(x, A, P, F, (int)how);
    else if (B == 2) out = direct_block<amgcl::static_matrix<double, 2, 2>>(x, A, P, F, (int)how);
    else out = direct_block<amgcl::static_matrix<double, 3, 3>>(x, A, P, F, (int)how);
    Part PS; for (long q : P.p) PS.p.push_back(q * B); PS.off.push_back(0); for (long q : PS.p) PS.off.push_back(PS.off.back() + q); PS.sum = PS.off.back();
    std::vector<double> X[2] = { gather_vec(x, out[0], PS), gather_vec(x, out[1], PS) };
    if (x.rank) return;
    std::vector<Q> xs; bool reg = qsolve(dense(A), fq, xs);
    int holders = 0, master = -1; for (int q = 0; q < x.np; ++q) if (P.p[q]) { if (master < 0) master = q; ++holders; }
    if (!reg) r.tag("singular");
    else for (int pass = 0; pass < 2 && r.ok; ++pass) {
        long double scale = 1; for (auto &v : xs) scale = std::max<long double>(scale, std::fabs(v.v.get_d()));
        for (int q = 0; q < x.np && r.ok; ++q) {
            long double worst = 0; long wi = -1;
            for (long i = PS.off[q]; i < PS.off[q + 1]; ++i) { long double d = std::fabs((long double)X[pass][i] - (long double)xs[i].v.get_d()); if (!(d <= worst)) { worst = d; wi = i; } }
            if (wi >= 0 && !(worst <= 1e-10L * scale))
                r.fail("distributed direct solver (skyline_lu, " + std::string(B == 1 ? "scalar" : B == 2 ? "static_matrix 2x2" : "static_matrix 3x3") + " values" + (how == 2 ? ", run-time wrapper" : how == 1 ? ", from distributed_matrix" : "") + "), pass " + std::to_string(pass) +
                       ": rank " + std::to_string(q) + (q == master ? " (master" : " (slave of rank " + std::to_string(master)) + ", block rows " + std::to_string(P.off[q]) + ".." + std::to_string(P.off[q + 1] - 1) +
                       ") returns x[" + std::to_string(wi) + "] = " + fmt(X[pass][wi]) + ", the exact solution of the gathered system has " + xs[wi].str() + " = " + fmt(xs[wi].v.get_d()));
        }
    }
    r.out = "solved"; r.nontrivial = holders >= 2; r.tag("mdirectb"); r.tag("block" + std::to_string(B)); r.tag("how" + std::to_string(how)); r.tag("np" + std::to_string(x.np)); r.tag("holders" + std::to_string(holders));
    bool e = false; for (long q : P.p) if (!q) e = true; if (e) r.tag("emptyrank");
}

static Result execute(const Toks &t) {
    Cur c(t); const std::string &op = t[0]; Result r;
    if (op == "rrelax") exec_rrelax(r, c);
    else if (op == "rsolve") exec_rsolve(r, c);
    else if (op == "mdirectb") exec_mdirectb(r, c);
    else r.out = "bad-op";
    return r;
}

// ---------------------------------------------------------------- generators
// parameter variants of relaxation r (0 = all defaults)
static void put_kv(Rng &rng, Line &l, int r, bool defaults_only = false) {
    std::vector<std::pair<std::string, std::string>> kv;
    static const char *DAMP[] = { "1/2", "3/4", "1" };
    if (!defaults_only) switch (r) {
        case 1: {
            static const char *LOW[] = { "1/4", "1/8", "1/32" }; static const char *HIGH[] = { "1", "5/4", "9/8" };
            if (rng.coin(2, 3)) kv.push_back({"degree", std::to_string(rng.range(1, 4))});
            if (rng.coin()) kv.push_back({"lower", LOW[rng.range(0, 2)]});
            if (rng.coin(1, 3)) kv.push_back({"higher", HIGH[rng.range(0, 2)]});
            if (rng.coin(1, 4)) kv.push_back({"scale", "1"});
            if (rng.coin(1, 5)) kv.push_back({"power_iters", std::to_string(rng.range(1, 4))});
        } break;
        case 2: case 3: if (rng.coin()) kv.push_back({"damping", DAMP[rng.range(0, 2)]}); break;
        case 4: case 5: if (rng.coin()) kv.push_back({"k", std::to_string(rng.range(0, 2))}); if (rng.coin(1, 3)) kv.push_back({"damping", DAMP[rng.range(0, 2)]}); break;
        case 6: if (rng.coin()) kv.push_back({"p", rng.coin() ? "2" : "3/2"}); if (rng.coin()) kv.push_back({"tau", rng.coin() ? "1/64" : "1/8"}); break;
        case 8: if (rng.coin()) kv.push_back({"serial", rng.coin() ? "1" : "0"}); break;
        default: break;
    }
    l << kv.size(); for (auto &e : kv) { l << e.first; l << e.second; }
}
// thin strips: an nx x ny grid (row-major), every rank owns 1..2 whole grid lines (ranks beyond the grid are empty), so that
// (almost) every row - the rows that realise the Gershgorin bound included - has off-rank entries
static Mat thin_strips(Rng &rng, int np, long nxmax, std::vector<long> &p, bool uniform) {
    long nx = rng.range(2, nxmax); p.clear(); long ny = 0; int holders = np > 2 && rng.coin(1, 6) ? np - 1 : np; int skip = holders < np ? (int)rng.range(0, np - 1) : -1;
    for (int q = 0; q < np; ++q) { long nl = q == skip ? 0 : rng.range(1, 2); p.push_back(nl * nx); ny += nl; }
    std::vector<Edge> e;
    if (uniform) { for (long j = 0; j < ny; ++j) for (long i = 0; i < nx; ++i) { long k = j * nx + i; if (i + 1 < nx) e.push_back({k, k + 1, Q(1)}); if (j + 1 < ny) e.push_back({k, k + nx, Q(1)}); } }
    else e = grid_edges(rng, nx, ny, 4, rng.coin(1, 4) ? 4 : 1);
    long N = nx * ny; std::vector<Q> shift(N, Q(0));
    if (uniform) { for (long j = 0; j < ny; ++j) for (long i = 0; i < nx; ++i) { long cnt = (i > 0) + (i + 1 < nx) + (j > 0) + (j + 1 < ny); shift[j * nx + i] = Q(4 - cnt); } }   // the 5-point stencil with Dirichlet boundary
    else { shift[rng.range(0, N - 1)] = Q::frac(rng.range(1, 4), 2); for (long i = 0; i < N; ++i) if (rng.coin(1, 6)) shift[i] = Q::frac(rng.range(1, 4), 2); }
    return mmatrix_from_edges(N, e, shift);
}
static Mat any_spd(Rng &rng, int np, long nmax, std::vector<long> &p, long k) {
    if (np >= 2 && k % 3 != 2) return thin_strips(rng, np, np <= 4 ? 5 : 3, p, k % 3 == 0 && rng.coin());
    Mat A = gen_spd(rng, rng.range(6, nmax), (int)rng.range(0, 3), 4); p = rand_part(rng, A.n, np); return A;
}

static void generate(Rng &rng, const Opts &o, std::vector<std::string> &lines) {
    const int W = std::min(g_wsize, MAXNP); const bool th = o.thorough();
    // ---- rrelax: every relaxation of the run-time wrapper, default and varied parameters
    long NRX = o.cases > 0 ? o.cases : (th ? 900 : 180);
    for (long k = 0; k < NRX; ++k) {
        int r = (int)(k % NR); if (k % 4 == 3) r = 1;           // chebyshev is the one distributed smoother with a global setup quantity
        int np = (k / NR) % 5 == 4 ? (int)rng.range(1, W) : (int)rng.range(2, W); if (np > W) np = W;
        std::vector<long> p; Mat A = any_spd(rng, np, th ? 48 : 30, p, k / NR);
        Line l; l << "rrelax" << r; put_kv(rng, l, r, k < NR); lp(l, p); l << A << gen_vec(rng, A.n, true) << gen_vec(rng, A.n, true);
        lines.push_back(l.get());
    }
    // ---- rsolve: coarsening x relaxation cycled systematically, solver rotating
    long NSV = o.cases > 0 ? o.cases : (th ? 700 : 108);
    for (long k = 0; k < NSV; ++k) {
        int r = (int)(k % NR), cx = (int)((k / NR) % 3), s = (int)((k % NR + 2 * (k / NR)) % NS);      // round t: cx = t % 3, s = (r + 2t) % 7
        if (s == 0 && (r == 6 || r == 7) && k % 5) s = 1;       // CG with a non-symmetric smoother: rarely (no convergence demanded)
        if (cx == 2 && k % 2) cx = (int)rng.range(0, 1);        // single-level relaxation as preconditioner: every other time
        int np = (int)rng.range(2, W); if (k % 11 == 10) np = 1; if (np > W) np = W;
        std::vector<long> p; Mat A = any_spd(rng, np, th ? 60 : 36, p, k);
        Line l; l << "rsolve" << cx << r << s << rng.coin(); put_kv(rng, l, r, rng.coin()); lp(l, p); l << A << gen_vec(rng, A.n, true);
        lines.push_back(l.get());
    }
    // ---- mdirectb: block values 1x1, 2x2, 3x3; several ranks holding rows, empty ranks
    long NDB = o.cases > 0 ? o.cases : (th ? 400 : 72);
    for (long k = 0; k < NDB; ++k) {
        long B = 1 + (k % 3); int how = (int)((k / 3) % 3);
        int np = (int)rng.range(k % 7 == 6 ? 1 : 2, W); if (np > W) np = W;
        long nb = rng.range(std::max<long>(2, np / 2), th ? 24 : 14); if (nb * B > 60) nb = 60 / B;
        Mat A; for (;;) { A = gen_spd(rng, nb * B, (int)rng.range(0, 3), 4); if (A.n % B == 0) break; }
        Line l; l << "mdirectb" << B << how; lp(l, rand_part(rng, A.n / B, np)); l << A << gen_vec(rng, A.n, true);
        lines.push_back(l.get());
    }
    // ---- malformed
    lines.push_back("rrelax 9 0 1 2 2 2 1 0 2 1 1 2 2 1 1 2 0 0");                       // no such relaxation
    lines.push_back("rrelax 1 1 omega 1 1 2 2 2 1 0 2 1 1 2 2 1 1 2 0 0");               // unknown chebyshev parameter
    lines.push_back("rrelax 1 1 lower 1/3 1 2 2 2 1 0 2 1 1 2 2 1 1 2 0 0");             // not exact in binary64
    lines.push_back("rrelax 2 0 1 2 2 2 1 1 -1 2 0 -1 1 1 2 1 1 2 0 0");                 // row 0 has no diagonal entry
    lines.push_back("rsolve 3 0 0 0 0 1 2 2 2 1 0 2 1 1 2 2 1 1");                       // no such coarsening
    lines.push_back("rsolve 0 0 7 0 0 1 2 2 2 1 0 2 1 1 2 2 1 1");                       // no such solver
    lines.push_back("mdirectb 2 0 1 2 2 2 1 0 2 1 1 2 2 1 1");                           // 2 block rows of size 2 need a 4 x 4 matrix
    lines.push_back("mdirectb 4 0 1 1 4 4 1 0 1 1 1 1 1 2 1 1 3 1 4 1 1 1 1");           // block size out of range
}

VH_MPI_MAIN(generate, execute)
