// C02 harness, block-valued part: the multigrid cycle of amg<builtin<static_matrix<Q,b,b>>, C, R> as an operator
// (implementation-only oracles; the Lean models are scalar, this harness is configured with "no_model": true).
// Ops (A is a SCALAR matrix of size nb*b with sorted rows, viewed as b x b blocks through adapter::block_matrix):
//   bamg_apply b kind s ce dc ml A rk <relax params> npre npost ncycle pre_cycles 4 f g f h a b     with h = a f + b g
//   bamg_bmat  b kind s ce dc ml A rk <relax params> npre npost ncycle pre_cycles                   (B extracted column by column)
// kind: 0 aggregation (s = float(1/over_interp), s in {1, 11184811/16777216, 1/2}; 1/2 = over_interp 2 is the default for
//       block value types), 1 smoothed_aggregation, 3 smoothed_aggr_emin (s = 1); 2 = ruge_stuben is scalar-only: bad-input
// rk:   0 damped_jacobi(damping) | 1 gauss_seidel | 2 spai0 | 3 ilu0(damping) | 4 chebyshev(degree higher lower scale)
//       | 5 ilup(k damping) | 6 iluk(k damping)
// Oracles (exact rationals, on the real code): x fully overwritten, history independence, linearity; for symmetric A and
// npre = npost: <g,Bf> = <f,Bg>; bamg_bmat: B symmetric, B positive definite, A - E^T A E positive definite (E = I - B A)
// by exact LDL^T.  The blocks of the generated matrices do NOT commute, so the order of block products matters.
#include "gen.hpp"
#include <amgcl/value_type/static_matrix.hpp>
#include <amgcl/backend/builtin.hpp>
#include <amgcl/adapter/block_matrix.hpp>
#include <amgcl/amg.hpp>
#include <amgcl/coarsening/aggregation.hpp>
#include <amgcl/coarsening/smoothed_aggregation.hpp>
#include <amgcl/coarsening/smoothed_aggr_emin.hpp>
#include <amgcl/relaxation/damped_jacobi.hpp>
#include <amgcl/relaxation/gauss_seidel.hpp>
#include <amgcl/relaxation/spai0.hpp>
#include <amgcl/relaxation/ilu0.hpp>
#include <amgcl/relaxation/iluk.hpp>
#include <amgcl/relaxation/ilup.hpp>
#include <amgcl/relaxation/chebyshev.hpp>
#ifdef _OPENMP
#include <omp.h>
#endif
#include <unistd.h>
#include <fcntl.h>
#include <sys/wait.h>
using namespace vh;

namespace amgcl_verif { struct access {
    template <class AMG> static auto& levels(AMG &a) { return a.levels; }
}; }

struct BHdr { long b, kind; Q s; long ce, dc, ml; Mat A; };
struct RelaxPrm { long rk; Q damping; long degree; Q higher, lower; long scale; long k; };
struct Tail { long npre, npost, ncycle, pre_cycles; };

static float over_of(const BHdr &h) {
    if (h.kind != 0) { if (!(h.s.v == Q(1).v)) throw bad_input("s"); return 1.f; }
    if (h.s.v == Q(1).v) return 1.f; if (h.s.v == Q(1 / 1.5f).v) return 1.5f; if (h.s.v == Q::frac(1, 2).v) return 2.f;
    throw bad_input("s");
}

// exact LDL^T test of positive definiteness of a symmetric rational matrix
static bool is_spd(Dense M) {
    size_t n = M.size();
    for (size_t k = 0; k < n; ++k) {
        if (!(M[k][k] > 0)) return false;
        for (size_t i = k + 1; i < n; ++i) { if (M[i][k] == 0) continue; Q f = M[i][k] / M[k][k]; for (size_t j = k; j < n; ++j) M[i][j] -= f * M[k][j]; }
    }
    return true;
}
static bool is_sym(const Dense &M) { for (size_t i = 0; i < M.size(); ++i) for (size_t j = 0; j < i; ++j) if (M[i][j].v != M[j][i].v) return false; return true; }
static Dense dtrans(const Dense &d, size_t m) { Dense t(m, std::vector<Q>(d.size())); for (size_t i = 0; i < d.size(); ++i) for (size_t j = 0; j < m; ++j) t[j][i] = d[i][j]; return t; }
static std::vector<Q> vcomb(const Q &a, const std::vector<Q> &f, const Q &b, const std::vector<Q> &g) { std::vector<Q> h(f.size()); for (size_t i = 0; i < f.size(); ++i) h[i] = a * f[i] + b * g[i]; return h; }
static bool veq(const std::vector<Q> &x, const std::vector<Q> &y) { if (x.size() != y.size()) return false; for (size_t i = 0; i < x.size(); ++i) if (x[i].poison || y[i].poison || x[i].v != y[i].v) return false; return true; }
// contraction certificate in the energy norm: A - E^T A E positive definite, E = I - B A
static bool contracts(const Dense &B, const Dense &Ad, long n) {
    Dense E = dmul(B, Ad, n); for (long i = 0; i < n; ++i) for (long j = 0; j < n; ++j) E[i][j] = (i == j ? Q(1) : Q(0)) - E[i][j];
    Dense AE = dmul(Ad, E, n), Et = dtrans(E, n), EAE = dmul(Et, AE, n), D(n, std::vector<Q>(n));
    for (long i = 0; i < n; ++i) for (long j = 0; j < n; ++j) D[i][j] = Ad[i][j] - EAE[i][j];
    return is_spd(D);
}

static bool g_build_only = false;      // generator screening: construct the hierarchy only

// scalar dense form of a block-valued CRS matrix
template <int B, class M> static Dense bdense(const M &A) {
    Dense D(A.nrows * B, std::vector<Q>(A.ncols * B));
    for (size_t i = 0; i < A.nrows; ++i) for (auto j = A.ptr[i]; j < A.ptr[i+1]; ++j) for (int p = 0; p < B; ++p) for (int q = 0; q < B; ++q) D[i * B + p][A.col[j] * B + q] += A.val[j](p, q);
    return D;
}
static bool dense_eq(const Dense &a, const Dense &b) {
    if (a.size() != b.size()) return false;
    for (size_t i = 0; i < a.size(); ++i) { if (a[i].size() != b[i].size()) return false; for (size_t j = 0; j < a[i].size(); ++j) if (a[i][j].v != b[i][j].v) return false; }
    return true;
}

template <class P> auto set_over(P &p, float v, int) -> decltype(p.over_interp, void()) { p.over_interp = v; }
template <class P> void set_over(P&, float, long) {}

template <int B> struct Blk {
    typedef amgcl::static_matrix<Q, B, B> val; typedef amgcl::static_matrix<Q, B, 1> rhs;
    typedef amgcl::backend::builtin<val> Backend; typedef amgcl::backend::numa_vector<rhs> Vector;
    typedef amgcl::backend::crs<val> BMatrix;

    static void set_relax(typename amgcl::relaxation::damped_jacobi<Backend>::params &p, const RelaxPrm &r) { p.damping = r.damping; }
    static void set_relax(typename amgcl::relaxation::gauss_seidel<Backend>::params &p, const RelaxPrm &) { p.serial = true; }
    static void set_relax(typename amgcl::relaxation::spai0<Backend>::params &, const RelaxPrm &) {}
    static void set_relax(typename amgcl::relaxation::ilu0<Backend>::params &p, const RelaxPrm &r) { p.damping = r.damping; p.solve.serial = true; }
    static void set_relax(typename amgcl::relaxation::ilup<Backend>::params &p, const RelaxPrm &r) { p.damping = r.damping; p.k = (int)r.k; p.solve.serial = true; }
    static void set_relax(typename amgcl::relaxation::iluk<Backend>::params &p, const RelaxPrm &r) { p.damping = r.damping; p.k = (int)r.k; p.solve.serial = true; }
    static void set_relax(typename amgcl::relaxation::chebyshev<Backend>::params &p, const RelaxPrm &r) { p.degree = (unsigned)r.degree; p.higher = (float)double(r.higher); p.lower = (float)double(r.lower); p.power_iters = 0; p.scale = r.scale != 0; }

    template <template <class> class C, template <class> class R>
    struct Cyc {
        typedef amgcl::amg<Backend, C, R> AMG;
        static typename AMG::params params(const BHdr &h, const RelaxPrm &rp, const Tail &t) {
            typename AMG::params p;
            p.coarse_enough = (unsigned)h.ce; p.direct_coarse = h.dc != 0; p.max_levels = (unsigned)h.ml;
            set_relax(p.relax, rp); set_over(p.coarsening, over_of(h), 0);
            p.npre = (unsigned)t.npre; p.npost = (unsigned)t.npost; p.ncycle = (unsigned)t.ncycle; p.pre_cycles = (unsigned)t.pre_cycles;
            return p;
        }
        static std::vector<Q> apply(AMG &amg, const std::vector<Q> &f) {
            size_t nb = f.size() / B; Vector F(nb), X(nb);
            for (size_t i = 0; i < nb; ++i) for (int k = 0; k < B; ++k) { F[i](k) = f[i * B + k]; X[i](k) = Q::poisoned(); }     // apply must overwrite x
            amg.apply(F, X);
            std::vector<Q> x(f.size()); for (size_t i = 0; i < nb; ++i) for (int k = 0; k < B; ++k) x[i * B + k] = X[i](k); return x;
        }
        static Dense bmat(AMG &amg, long n, Line *l) {
            Dense Bm(n, std::vector<Q>(n));
            for (long j = 0; j < n; ++j) { std::vector<Q> e(n, Q(0)); e[j] = Q(1); std::vector<Q> c = apply(amg, e); for (long i = 0; i < n; ++i) Bm[i][j] = c[i]; if (l) *l << c; }
            return Bm;
        }
        static Result run(const std::string &op, const BHdr &h, const RelaxPrm &rp, const Tail &t,
                          const std::vector<Q> &f, const std::vector<Q> &g, const Q &a, const Q &b) {
            Result r; Line l;
            auto prm = params(h, rp, t);
            try {
                auto As = h.A.crs();
                AMG amg(amgcl::adapter::block_matrix<val>(*As), prm);
                if (g_build_only) return r;
                size_t nl = amgcl_verif::access::levels(amg).size();
                l << (long)nl;
                long n = h.A.n;
                bool symA = is_symmetric(h.A);
                bool symcfg = symA && t.npre == t.npost;
                std::string what = "block size " + std::to_string(B) + ": ";
                // is the restriction the transpose of the prolongation (as scalar matrices) on every level?
                long rpt = -1, lev = 0;
                for (auto &v : amgcl_verif::access::levels(amg)) { if (v.P && v.R && rpt < 0 && !dense_eq(bdense<B>(*v.R), dtrans(bdense<B>(*v.P), v.P->ncols * B))) rpt = lev; ++lev; }
                if (rpt >= 0) r.tag("R_not_Pt");
                if (rpt >= 0 && h.kind != 3) r.fail(what + "restriction is not the transpose of the prolongation (R != P^T) on level " + std::to_string(rpt));
                // smoothed_aggr_emin computes R = R_tent - Omega R_tent Af D^-1 separately from P = P_tent - D^-1 Af P_tent Omega with
                // BLOCK valued Omega and D: R = P^T needs symmetric Omega_i, D_i (they are not, in general): reported as the cause
                std::string notsym = h.kind == 3 && rpt >= 0
                    ? what + "smoothed_aggr_emin with a block value type: B is not symmetric (R != P^T on level " + std::to_string(rpt) + ") for a symmetric matrix and a symmetric smoother"
                    : what + "B is not symmetric";
                if (op == "bamg_apply") {
                    std::vector<Q> hh = vcomb(a, f, b, g);
                    std::vector<Q> x1 = apply(amg, f), x2 = apply(amg, g), x3 = apply(amg, f), x4 = apply(amg, hh);
                    l << x1 << x2 << x3 << x4;
                    for (auto *x : { &x1, &x2, &x3, &x4 }) for (auto &v : *x) if (v.poison) { r.fail(what + "apply left an entry of x unwritten"); break; }
                    if (!veq(x1, x3)) r.fail(what + "B f differs between the first and a later application on the same object (state leaks between applications)");
                    if (!veq(x4, vcomb(a, x1, b, x2))) r.fail(what + "B(a f + b g) != a B f + b B g");
                    if (symcfg) { Q s1(0), s2(0); for (long i = 0; i < n; ++i) { s1 += g[i] * x1[i]; s2 += f[i] * x2[i]; } if (s1.v != s2.v) r.fail(notsym + ": <g, B f> != <f, B g>"); }
                } else {
                    Dense Bm = bmat(amg, n, &l);
                    for (auto &row : Bm) for (auto &v : row) if (v.poison) { r.fail(what + "apply left an entry of x unwritten"); break; }
                    // scaling oracle (C02 "B(2^k A) = 2^-k B(A)", C02e): same parameters on 4 A: B(4 A) = B(A) / 4 exactly, PROVIDED the two
                    // hierarchies have the same transfer operators (the hypothesis of C02b.apply_scale).  At block value types math::norm is the
                    // Frobenius norm and passes through the stand-in square root of Q (floor(sqrt(q 4^32))/2^32, NOT homogeneous:
                    // rsqrt(16 q) != 4 rsqrt(q)), which binary64 does not share for powers of two; therefore SPAI-0 (M_i = num / sum norm(a_ij)^2)
                    // and Chebyshev (Gershgorin bound from block norms) are excluded here (the scalar harness h_cycle covers them); run for ILU(0), ILUP, ILU(k) (rk 3, 5, 6) and a strength-of-connection decision that flips is a skipped case, not a failure.
                    if (r.ok && (rp.rk == 3 || rp.rk == 5 || rp.rk == 6)) {
                        auto A4 = h.A; for (auto &v : A4.val) v = v * Q(4);
                        const char *bad = nullptr; bool same = true;
                        try {
                            auto As4 = A4.crs();
                            AMG amg4(amgcl::adapter::block_matrix<val>(*As4), prm);
                            auto &L1 = amgcl_verif::access::levels(amg); auto &L4 = amgcl_verif::access::levels(amg4);
                            same = L1.size() == L4.size();
                            if (same) { auto i1 = L1.begin(); auto i4 = L4.begin(); for (; same && i1 != L1.end(); ++i1, ++i4) {
                                if (bool(i1->P) != bool(i4->P) || bool(i1->R) != bool(i4->R)) same = false;
                                else if (i1->P && i1->R) same = i1->P->ncols == i4->P->ncols && dense_eq(bdense<B>(*i1->P), bdense<B>(*i4->P)) && dense_eq(bdense<B>(*i1->R), bdense<B>(*i4->R)); } }
                            if (same) { Dense B4 = bmat(amg4, n, nullptr); for (long i = 0; !bad && i < n; ++i) for (long j = 0; j < n; ++j) if (B4[i][j].poison || (B4[i][j] * Q(4)).v != Bm[i][j].v) { bad = "scaling: B(4 A) != B(A) / 4 although the hierarchy of 4 A has the transfer operators of the hierarchy of A"; break; } }
                        } catch (const std::exception &) { bad = "scaling: the hierarchy of A is built but the construction for 4 A throws"; }
                        if (bad) r.fail(what + bad); else r.tag(same ? "scale4" : "scale4-skipped-transfer-operators-differ");
                    }
                    if (r.ok && symcfg && t.pre_cycles >= 1) {
                        Dense Ad = dense(h.A);
                        auto bmat_of = [&](const BHdr &hh, const Tail &tt, size_t &nlv) { auto prm1 = params(hh, rp, tt); AMG amg1(amgcl::adapter::block_matrix<val>(*As), prm1); nlv = amgcl_verif::access::levels(amg1).size(); return bmat(amg1, n, nullptr); };
                        // plain aggregation with over_interp > 1 (default 2 for block value types): known finding K02.  Is the over-interpolation
                        // the cause of a failing certificate?  The same input with over_interp = 1 (same aggregates) must be SPD and contract.
                        auto over1_ok = [&]() {
                            if (!(h.kind == 0 && !(h.s.v == Q(1).v) && nl >= 3)) return false;
                            BHdr h1 = h; h1.s = Q(1); size_t nl1 = 0; Dense B1 = bmat_of(h1, t, nl1);
                            return nl1 == nl && is_sym(B1) && is_spd(B1) && contracts(B1, Ad, n);
                        };
                        if (!is_sym(Bm)) r.fail(notsym);
                        else if (!is_spd(Bm)) {
                            // pre_cycles >= 2: B = 2 B1 - B1 A B1 is indefinite as soon as the SINGLE cycle B1 (SPD) does not contract
                            bool overint = false;
                            if (t.pre_cycles >= 2 && over1_ok()) { Tail t1 = t; t1.pre_cycles = 1; size_t nl1 = 0; Dense Bs = bmat_of(h, t1, nl1); overint = nl1 == nl && is_sym(Bs) && is_spd(Bs) && !contracts(Bs, Ad, n); }
                            if (overint) { r.fail("over-interpolation: B (" + std::to_string(t.pre_cycles) + " cycles) is symmetric but not positive definite for plain aggregation with over_interp > 1 on " + std::to_string(nl) + " levels: the single cycle is symmetric positive definite but not a contraction in the energy norm; the same input with over_interp = 1 is symmetric positive definite and contracts"); r.tag("over_interp_not_contracting"); }
                            else r.fail(what + "B is not positive definite");
                        }
                        else {
                            if (!contracts(Bm, Ad, n)) {
                                if (over1_ok()) { r.fail("over-interpolation: B is symmetric positive definite but the stationary iteration is not a contraction in the energy norm (A - E^T A E is not positive definite) for plain aggregation with over_interp > 1 on " + std::to_string(nl) + " levels; the same input with over_interp = 1 contracts"); r.tag("over_interp_not_contracting"); }
                                else r.fail(what + "stationary iteration is not a contraction in the energy norm: A - E^T A E is not positive definite");
                            }
                            r.tag("spd-certified");
                        }
                    }
                }
                r.nontrivial = nl >= 2 && n > B; if (symcfg) r.tag("symcfg");
                r.tag("levels" + std::to_string(nl));
            } catch (const amgcl::error::empty_level&) { l << "empty_level"; }
            catch (const std::exception &e) { if (getenv("VH_DEBUG")) std::cerr << "exception: " << e.what() << "\n"; l << "precondition"; }
            r.out = l.get();
            return r;
        }
    };

    template <template <class> class C>
    static Result by_relax(const std::string &op, const BHdr &h, const RelaxPrm &rp, const Tail &t, const std::vector<Q> &f, const std::vector<Q> &g, const Q &a, const Q &b) {
        namespace rx = amgcl::relaxation;
        switch (rp.rk) {
            case 0: return Cyc<C, rx::damped_jacobi>::run(op, h, rp, t, f, g, a, b);
            case 1: return Cyc<C, rx::gauss_seidel>::run(op, h, rp, t, f, g, a, b);
            case 2: return Cyc<C, rx::spai0>::run(op, h, rp, t, f, g, a, b);
            case 3: return Cyc<C, rx::ilu0>::run(op, h, rp, t, f, g, a, b);
            case 4: return Cyc<C, rx::chebyshev>::run(op, h, rp, t, f, g, a, b);
            case 5: return Cyc<C, rx::ilup>::run(op, h, rp, t, f, g, a, b);
            case 6: return Cyc<C, rx::iluk>::run(op, h, rp, t, f, g, a, b);
        }
        throw bad_input("rk");
    }
    static Result by_kind(const std::string &op, const BHdr &h, const RelaxPrm &rp, const Tail &t, const std::vector<Q> &f, const std::vector<Q> &g, const Q &a, const Q &b) {
        switch (h.kind) {
            case 0: return by_relax<amgcl::coarsening::aggregation>(op, h, rp, t, f, g, a, b);
            case 1: return by_relax<amgcl::coarsening::smoothed_aggregation>(op, h, rp, t, f, g, a, b);
            case 3: return by_relax<amgcl::coarsening::smoothed_aggr_emin>(op, h, rp, t, f, g, a, b);
        }
        throw bad_input("kind");
    }
};

static RelaxPrm parse_relax(Cur &c) {
    RelaxPrm r; r.rk = c.nat(); r.damping = Q(1); r.degree = 5; r.scale = 0; r.k = 1;
    if (r.rk == 0 || r.rk == 3) r.damping = c.rat();
    else if (r.rk == 4) { r.degree = c.nat(); r.higher = c.rat(); r.lower = c.rat(); r.scale = c.nat(); }
    else if (r.rk == 5 || r.rk == 6) { r.k = c.nat(); r.damping = c.rat(); if (r.k > 4) throw bad_input("k"); }
    else if (r.rk != 1 && r.rk != 2) throw bad_input("rk");
    return r;
}
static Tail parse_tail(Cur &c) { Tail t; t.npre = c.nat(); t.npost = c.nat(); t.ncycle = c.nat(); t.pre_cycles = c.nat(); return t; }

static Result execute(const Toks &t) {
    Cur c(t); const std::string &op = t[0];
    if (op != "bamg_apply" && op != "bamg_bmat") return Result("bad-op");
    BHdr h; h.b = c.nat(); h.kind = c.nat(); h.s = c.rat(); h.ce = c.nat(); h.dc = c.nat(); h.ml = c.nat(); h.A = c.mat();
    std::string why;
    if (!crs_wf(*h.A.crs(), why) || h.A.n != h.A.m || h.b < 2 || h.b > 3 || h.A.n % h.b || !crs_sorted_nodup(*h.A.crs())) throw bad_input("shape");
    if ((h.kind != 0 && h.kind != 1 && h.kind != 3) || h.ml < 1 || h.dc > 1) throw bad_input("hdr");
    (void)over_of(h);
    RelaxPrm rp = parse_relax(c); Tail tl = parse_tail(c);
    std::vector<Q> f, g; Q a(0), b(0);
    if (op == "bamg_apply") {
        long K = c.nat(); if (K != 4) throw bad_input("K");
        f = c.vec(); g = c.vec(); auto f2 = c.vec(); auto hh = c.vec(); a = c.rat(); b = c.rat();
        if ((long)f.size() != h.A.n || (long)g.size() != h.A.n || !veq(f, f2) || !veq(hh, vcomb(a, f, b, g))) throw bad_input("vectors");
    }
    c.expect_end();
#ifdef _OPENMP
    omp_set_num_threads(1);
#endif
    Result r = h.b == 2 ? Blk<2>::by_kind(op, h, rp, tl, f, g, a, b) : Blk<3>::by_kind(op, h, rp, tl, f, g, a, b);
    r.tag("b" + std::to_string(h.b)); r.tag("kind" + std::to_string(h.kind)); r.tag("rk" + std::to_string(rp.rk));
    return r;
}

// ---------------------------------------------------------------- generators
// multi-component problem on a graph of nb nodes with b unknowns per node: component k of node p is coupled to component
// k of node q along every edge (p,q) with its OWN weight (diagonal coupling blocks diag(w_1..w_b), all different), and
// the b components of a node are coupled among each other (dense symmetric diagonal blocks).  As a scalar matrix this is
// a symmetric, irreducibly diagonally dominant M-matrix; as a block matrix its blocks do not commute (a dense symmetric
// block and a diagonal block with distinct entries).
static Mat gen_coupled(Rng &rng, long nb, long b, int fam, long contrast) {
    std::vector<Edge> ne;
    if (fam == 0) ne = grid_edges(rng, nb, 1, 1);
    else if (fam == 1 || fam == 3) { long nx = std::max<long>(2, (long)std::floor(std::sqrt((double)nb))); long ny = std::max<long>(1, nb / nx); nb = nx * ny; ne = grid_edges(rng, nx, ny, 1); }
    else ne = random_graph_edges(rng, nb, (int)nb / 2, 1);
    std::vector<Edge> e;
    for (auto &d : ne) for (long k = 0; k < b; ++k) {
        Q w = Q::frac(rng.range(1, contrast), rng.range(1, 2)); if (fam == 3 && d.b == d.a + 1) w = w * Q(8);
        e.push_back({d.a * b + k, d.b * b + k, w});
    }
    for (long p = 0; p < nb; ++p) for (long k = 0; k < b; ++k) for (long q = k + 1; q < b; ++q)
        if ((p == 0 && q == k + 1) || rng.coin(3, 4)) e.push_back({p * b + k, p * b + q, Q::frac(rng.range(1, contrast), rng.range(1, 2))});     // node 0 couples all its components: the scalar graph is connected
    std::vector<Q> shift(nb * b, Q(0));
    shift[0] = Q::frac(rng.range(1, 4), 2);
    for (long i = 1; i < nb * b; ++i) if (rng.coin(1, 4)) shift[i] = Q::frac(rng.range(1, 4), 2);
    return mmatrix_from_edges(nb * b, e, shift);
}
// a scalar SPD M-matrix of the shared generators with nb*b unknowns, simply VIEWED as a block matrix: the blocks are general
// (non-symmetric, often singular off-diagonal blocks)
static Mat gen_viewed(Rng &rng, long nb, long b, int fam) {
    Mat A = gen_spd(rng, nb * b, fam);
    if (A.n % b) { long n = A.n - A.n % b; auto rows = to_rows(A); rows.resize(n); for (auto &r : rows) { std::vector<std::pair<long,Q>> k; for (auto &cv : r) if (cv.first < n) k.push_back(cv); r = k; } A = from_rows(n, n, rows); }
    return A;      // a principal submatrix of an SPD M-matrix is an SPD M-matrix
}

// Precondition screening (as in h_direct.cpp): math::inverse of a singular NON-ZERO block trips assert(!is_zero(d)) in
// detail/inverse.hpp at the type Q (total division: 1/0 = 0; in IEEE arithmetic 1/0 = inf and the assert never fires).
// The smoothed coarsenings lump the weak off-diagonal blocks of a block row into its diagonal block and invert it even for
// block rows that are not interpolated (all connections weak); with zero row sums that lumped block is the row-sum block,
// exactly singular, and its inverse is never used.  The hierarchy of a candidate case is constructed once in a forked
// child; a candidate on which the child dies is replaced (at most 6 times: a library that dies on every input still yields
// cases, which then crash in `execute` and are reported with a replayable input).
static bool builds(const std::string &line) {
    fflush(stdout); fflush(stderr);
    pid_t pid = fork();
    if (pid < 0) return true;
    if (pid == 0) {
        int fd = open("/dev/null", O_WRONLY); if (fd >= 0) dup2(fd, 2);
        g_build_only = true;
        try { Toks t = split(line); execute(t); } catch (...) {}
        _exit(0);
    }
    int st = 0; if (waitpid(pid, &st, 0) < 0) return true;
    return WIFEXITED(st) && WEXITSTATUS(st) == 0;
}

static std::string make_line1(Rng &rng, const Opts &o, bool bmat) {
    BHdr h; h.b = rng.range(2, 3);
    static const std::vector<long> kinds = { 0, 0, 0, 1, 1, 1, 3 };
    h.kind = rng.pick(kinds);
    long nbmax = bmat ? (o.thorough() ? 8 : 5) : (o.thorough() ? 12 : 7);
    long nb = rng.range(rng.coin(1, 4) ? 2 : 3, h.b == 2 ? nbmax : std::max<long>(3, nbmax * 2 / 3));
    int fam = (int)rng.range(0, 3);
    h.A = rng.coin(2, 3) ? gen_coupled(rng, nb, h.b, fam, 4) : gen_viewed(rng, nb, h.b, fam);
    static const std::vector<long> ces = { 0, 1, 1, 2, 3 }; static const std::vector<long> mls = { 2, 3, 10, 10 };
    h.ce = rng.pick(ces); h.dc = rng.coin(3, 4); h.ml = rng.pick(mls);
    // over_interp: mostly the default of block value types (2), sometimes 1 or the scalar default
    h.s = Q(1); if (h.kind == 0) { long k = rng.range(0, 5); h.s = k <= 2 ? Q::frac(1, 2) : k <= 4 ? Q(1) : Q(1 / 1.5f); }
    RelaxPrm rp; rp.rk = rng.range(0, 6); rp.damping = Q::frac(rng.range(2, 7), 8); rp.degree = rng.range(1, o.thorough() ? 3 : 2); rp.higher = Q(1); rp.lower = Q::frac(1, 32); rp.scale = rng.coin(); rp.k = rng.range(0, 1);
    if (rp.rk >= 5 && rng.coin()) rp.rk = 3;          // ilu0 more often than its variants
    if (rp.rk == 3 || rp.rk >= 5) rp.damping = rng.coin() ? Q(1) : Q::frac(rng.range(5, 7), 8);
    long smax = o.thorough() ? 3 : 2;
    Tail t; t.npre = rng.coin(1, 5) ? 0 : rng.range(1, smax); t.npost = rng.coin(2, 3) ? t.npre : (rng.coin(1, 5) ? 0 : rng.range(1, smax)); /* zero smoothing steps are valid */ t.ncycle = rng.range(1, 2); t.pre_cycles = rng.coin(1, 6) ? 0 : rng.range(1, 2);
    if (t.ncycle == 2 && t.pre_cycles == 2) t.pre_cycles = 1;     // keep the rational growth bounded
    if (bmat) { if (t.npre == 0) t.npre = 1; t.npost = t.npre; t.pre_cycles = 1; }
    if (bmat && rng.coin(1, 5)) {
        // deeper hierarchies: 2D node grid, plain aggregation down to one block unknown (3+ levels), V-cycle with one sweep
        long m = rng.range(3, o.thorough() ? 5 : 4); h.b = 2; h.kind = 0; h.A = gen_coupled(rng, m * m, 2, 1, 4); h.ce = 1; h.dc = 1; h.ml = 10;
        long k = rng.range(0, 2); h.s = k == 0 ? Q(1) : Q::frac(1, 2);
        rp.rk = rng.range(0, 2); t.npre = t.npost = 1; t.ncycle = rng.coin(3, 4) ? 1 : 2; t.pre_cycles = 1;
        if (rp.rk == 2 && m > 3) { rp.rk = rng.range(0, 1); }      // SPAI-0 on blocks takes Frobenius norms (rsqrt: 2^-32 denominators): keep those small
    }
    if (rp.rk == 2 && h.kind == 3 && h.A.n > 4 * h.b) rp.rk = rng.range(0, 1);
    // keep the rational growth bounded: the 2^-32 denominators of rsqrt (SPAI-0, Chebyshev) through a smoothed three-level
    // hierarchy, and the block valued Omega = inverse(denum) * num of smoothed_aggr_emin on larger inputs
    if (h.kind != 0 && (rp.rk == 2 || rp.rk == 4) && h.ml > 2) h.ml = 2;
    if (h.kind == 3 && h.A.n > 12 && h.ml > 2) h.ml = 2;
    Line l; l << (bmat ? "bamg_bmat" : "bamg_apply") << h.b << h.kind << h.s << h.ce << h.dc << h.ml << h.A;
    l << rp.rk; if (rp.rk == 0 || rp.rk == 3) l << rp.damping; else if (rp.rk == 4) { l << rp.degree << rp.higher << rp.lower << rp.scale; } else if (rp.rk >= 5) l << rp.k << rp.damping;
    l << t.npre << t.npost << t.ncycle << t.pre_cycles;
    if (!bmat) { auto f = gen_vec(rng, h.A.n), g = gen_vec(rng, h.A.n); Q a = rng.rat(4), b = rng.rat(4); l << 4L << f << g << f << vcomb(a, f, b, g) << a << b; }
    return l.get();
}

static std::string make_line(Rng &rng, const Opts &o, bool bmat) {
    std::string l;
    for (int k = 0; k < 7; ++k) { l = make_line1(rng, o, bmat); if (builds(l)) break; }
    return l;
}

static void generate(Rng &rng, const Opts &o, std::vector<std::string> &lines) {
    long N = o.cases > 0 ? o.cases : (o.thorough() ? 500 : 100);
    for (long k = 0; k < N; ++k) lines.push_back(make_line(rng, o, k % 2 == 1));
    lines.push_back("bamg_apply 2 0 1/2 1 1 10 3 3 1 0 1 1 1 1 1 2 1 1 1 1 1 1 4 3 1 1 1 3 1 1 1 3 1 1 1 3 2 2 2 1 1");     // size not divisible by the block size
    lines.push_back("bamg_bmat 2 2 1 1 1 10 2 2 1 0 1 1 1 1 1 1 1 1 1");                                                // ruge_stuben: scalar only
}

VH_MAIN(generate, execute)
