// C13 / C03 harness (implementation-only oracles, "no_model"): the HIERARCHY built for a block-structured system through
// every block wrapper, read level by level through the AMGCL_VERIF accessor and judged in the SCALAR expansion.
//   blv b wrap kind s ce dc ml A nrb A2_1 .. A2_nrb
//     A        scalar matrix of size nb*b (sorted rows); A2_k: matrices of the same size handed to amg::rebuild in turn
//     wrap 0   amg<builtin<static_matrix<Q,b,b>>, C, damped_jacobi> on adapter::block_matrix(A)           (block coarsening)
//          1   amg<builtin<static_matrix<Q,b,b>>, coarsening::as_scalar<C>::type, damped_jacobi>            (scalar coarsening of
//              the unblocked matrix, pointwise aggregates of size b; transfer operators converted back to block format)
//          2   amg<builtin<Q>, C, relaxation::as_block<builtin<block>, ilu0>::type>, aggr.block_size = b  (scalar levels)
//          3   amg<builtin_hybrid<block>, C, damped_jacobi>, aggr.block_size = b          (scalar build, block level matrices)
//     kind 0   aggregation with over_interp given by s = float(1 / over_interp) in {1, 11184811/16777216, 1/2}
//          1   smoothed_aggregation, 3 smoothed_aggr_emin (s = 1)
// Oracles (exact rationals): on every level A_{l+1} == s * R_l * A_l * P_l entrywise in the scalar expansion, R_l == P_l^T
// (kinds 0, 1), shapes consistent and sizes strictly decreasing; the coarsest level's direct solver solves the coarse
// operator (when it is non-singular); after each rebuild the transfer operators are unchanged and the chain holds for the
// new matrix.  Output: level sizes per build.
#include "gen.hpp"
#include <amgcl/value_type/static_matrix.hpp>
#include <amgcl/backend/builtin.hpp>
#include <amgcl/backend/builtin_hybrid.hpp>
#include <amgcl/adapter/block_matrix.hpp>
#include <amgcl/adapter/crs_tuple.hpp>
#include <amgcl/amg.hpp>
#include <amgcl/coarsening/aggregation.hpp>
#include <amgcl/coarsening/smoothed_aggregation.hpp>
#include <amgcl/coarsening/smoothed_aggr_emin.hpp>
#include <amgcl/coarsening/as_scalar.hpp>
#include <amgcl/relaxation/damped_jacobi.hpp>
#include <amgcl/relaxation/ilu0.hpp>
#include <amgcl/relaxation/as_block.hpp>
#ifdef _OPENMP
#include <omp.h>
#endif
#include <unistd.h>
#include <fcntl.h>
#include <sys/wait.h>
using namespace vh;
namespace C = amgcl::coarsening; namespace R = amgcl::relaxation;

namespace amgcl_verif { struct access {
    template <class AMG> static auto& levels(AMG &a) { return a.levels; }
}; }

struct Hdr { long b, wrap, kind; Q s; long ce, dc, ml; Mat A; std::vector<Mat> rb; };

static float over_of(const Hdr &h) {
    if (h.kind != 0) { if (!(h.s.v == Q(1).v)) throw bad_input("s"); return 1.f; }
    if (h.s.v == Q(1).v) return 1.f; if (h.s.v == Q(1 / 1.5f).v) return 1.5f; if (h.s.v == Q::frac(1, 2).v) return 2.f;
    throw bad_input("s");
}
static bool g_build_only = false;

// ---------------------------------------------------------------- scalar expansion of level data
static Q el(const Q &v, int, int) { return v; }
template <int N, int M> static Q el(const amgcl::static_matrix<Q, N, M> &v, int p, int q) { return v(p, q); }
template <class V> struct bs { static const int value = amgcl::math::static_rows<V>::value; };
template <class M> static Dense sdense(const M &A) {
    typedef typename amgcl::backend::value_type<M>::type V; const int B = bs<V>::value;
    Dense D(A.nrows * B, std::vector<Q>(A.ncols * B));
    for (size_t i = 0; i < A.nrows; ++i) for (auto j = A.ptr[i]; j < A.ptr[i+1]; ++j) for (int p = 0; p < B; ++p) for (int q = 0; q < B; ++q) D[i * B + p][A.col[j] * B + q] += el(A.val[j], p, q);
    return D;
}
static void put(Q &d, int, const Q &v) { d = v; }
template <int N> static void put(amgcl::static_matrix<Q, N, 1> &d, int k, const Q &v) { d(k) = v; }
static Q get(const Q &d, int) { return d; }
template <int N> static Q get(const amgcl::static_matrix<Q, N, 1> &d, int k) { return d(k); }

static bool dense_eq(const Dense &a, const Dense &b) {
    if (a.size() != b.size()) return false;
    for (size_t i = 0; i < a.size(); ++i) { if (a[i].size() != b[i].size()) return false; for (size_t j = 0; j < a[i].size(); ++j) if (a[i][j].v != b[i][j].v) return false; }
    return true;
}
static Dense dscale(Dense d, const Q &s) { for (auto &r : d) for (auto &x : r) x = x * s; return d; }
static Dense dtrans(const Dense &d, size_t m) { Dense t(m, std::vector<Q>(d.size())); for (size_t i = 0; i < d.size(); ++i) for (size_t j = 0; j < m; ++j) t[j][i] = d[i][j]; return t; }
static bool nonsingular(Dense M) {
    size_t n = M.size();
    for (size_t k = 0; k < n; ++k) {
        size_t p = k; while (p < n && M[p][k] == 0) ++p; if (p == n) return false; std::swap(M[p], M[k]);
        for (size_t i = k + 1; i < n; ++i) { if (M[i][k] == 0) continue; Q f = M[i][k] / M[k][k]; for (size_t j = k; j < n; ++j) M[i][j] -= f * M[k][j]; }
    }
    return true;
}

struct Transfers { std::vector<Dense> P, R; };

// the property oracle on a built (or rebuilt) hierarchy; `prev` (if given) holds the transfer operators before a rebuild
template <class AMG> static void oracle_levels(Result &r, AMG &amg, const Hdr &h, const Mat &A0, Line &l, Transfers *rec, const Transfers *prev, const std::string &when) {
    typedef typename AMG::backend_type Backend; typedef typename Backend::vector Vector;
    typedef typename amgcl::math::rhs_of<typename Backend::value_type>::type rhs_t; const int VB = bs<typename Backend::value_type>::value;
    auto &lv = amgcl_verif::access::levels(amg);
    std::vector<typename std::remove_reference<decltype(lv)>::type::value_type*> L; for (auto &v : lv) L.push_back(&v);
    if (L.empty()) { r.fail(when + "no levels"); return; }
    l << (long)L.size();
    Q s = h.kind == 0 ? h.s : Q(1);
    Dense cur = dense(A0);
    for (size_t k = 0; k < L.size(); ++k) {
        auto &v = *L[k]; bool last = k + 1 == L.size();
        std::string at = when + "level " + std::to_string(k) + ": ";
        l << (long)cur.size();
        if (v.A) { std::string why; if (!crs_wf(*v.A, why)) r.fail(at + "A: " + why); else if (!dense_eq(sdense(*v.A), cur)) r.fail(at + "system matrix is not (1/over_interp) * R * A * P of the previous level (scalar expansion)"); }
        if (v.m_rows * VB != cur.size()) r.fail(at + "wrong number of rows");
        if (!last) {
            if (!v.A || !v.P || !v.R || !v.relax) { r.fail(at + "inner level lacks A/P/R/relax"); return; }
            Dense P = sdense(*v.P), Rr = sdense(*v.R); size_t nc = v.P->ncols * bs<typename amgcl::backend::value_type<typename std::decay<decltype(*v.P)>::type>::type>::value;
            if (P.size() != cur.size() || (Rr.size() ? Rr[0].size() : 0) != cur.size() || nc != Rr.size()) { r.fail(at + "transfer operator shapes"); return; }
            if (h.kind != 3 && !dense_eq(Rr, dtrans(P, nc))) r.fail(at + "R is not the adjoint of P");
            if (!(nc < cur.size())) r.fail(at + "level sizes do not strictly decrease");
            if (nc % h.b) r.fail(at + "coarse size not divisible by the block size");
            if (rec) { rec->P.push_back(P); rec->R.push_back(Rr); }
            if (prev && (k >= prev->P.size() || !dense_eq(prev->P[k], P) || !dense_eq(prev->R[k], Rr))) r.fail(at + "rebuild changed a transfer operator");
            cur = dscale(dmul(Rr, dmul(cur, P, nc), nc), s);
        } else {
            bool small = cur.size() <= (size_t)h.ce * VB;
            if (v.solve) { if (!(small && h.dc)) r.fail(at + "direct solver on a level that should be smoothed"); }
            else { if (!v.relax) r.fail(at + "last level has neither solver nor smoother"); if (small && h.dc) r.fail(at + "small last level not handed to the direct solver"); }
            if (v.solve && !g_build_only && nonsingular(cur)) {
                Rng vr(mix(4242, cur.size())); std::vector<Q> f = gen_vec(vr, (long)cur.size());
                size_t m = cur.size() / VB; Vector F(m), U(m);
                for (size_t i = 0; i < m; ++i) for (int q = 0; q < VB; ++q) { put(F[i], q, f[i * VB + q]); put(U[i], q, Q(0)); }
                (*v.solve)(F, U);
                std::vector<Q> u(cur.size()); for (size_t i = 0; i < m; ++i) for (int q = 0; q < VB; ++q) u[i * VB + q] = get(U[i], q);
                std::vector<Q> Au = dmv(cur, u);
                for (size_t i = 0; i < Au.size(); ++i) if (Au[i].v != f[i].v) { r.fail(at + "the coarse direct solver does not solve (1/over_interp) * R * A * P of the previous level"); break; }
                r.tag("coarse_solve");
            }
            (void)sizeof(rhs_t);
        }
    }
}

template <class P> auto set_over(P &p, float v, int) -> decltype(p.over_interp, void()) { p.over_interp = v; }
template <class P> void set_over(P&, float, long) {}

template <int B> struct Blk {
    typedef amgcl::static_matrix<Q, B, B> val;
    typedef amgcl::backend::builtin<val> BB; typedef amgcl::backend::builtin<Q> SB; typedef amgcl::backend::builtin_hybrid<val> HB;
    template <class T> using as_block_ilu0 = typename R::as_block<BB, R::ilu0>::template type<T>;

    template <class AMG, bool BlockInput>
    static Result build(const Hdr &h) {
        Result r; Line l;
        typename AMG::params p;
        p.coarse_enough = (unsigned)h.ce; p.direct_coarse = h.dc != 0; p.max_levels = (unsigned)h.ml; p.allow_rebuild = true;
        set_over(p.coarsening, over_of(h), 0);
        if (h.wrap != 0) p.coarsening.aggr.block_size = B;
        auto make = [&](const Mat &M) { auto As = M.crs(); return As; };
        try {
            auto As = make(h.A);
            std::unique_ptr<AMG> amg;
            if constexpr (BlockInput) amg.reset(new AMG(amgcl::adapter::block_matrix<val>(*As), p)); else amg.reset(new AMG(*As, p));
            Transfers rec;
            oracle_levels(r, *amg, h, h.A, l, &rec, nullptr, "");
            size_t nl = amgcl_verif::access::levels(*amg).size();
            r.nontrivial = nl >= 2 && h.A.n > B; r.tag("levels" + std::to_string(nl));
            if (!g_build_only) for (size_t k = 0; k < h.rb.size(); ++k) {
                l << "|";
                auto A2 = make(h.rb[k]);
                if constexpr (BlockInput) amg->rebuild(amgcl::adapter::block_matrix<val>(*A2)); else amg->rebuild(*A2);
                oracle_levels(r, *amg, h, h.rb[k], l, nullptr, &rec, "after rebuild " + std::to_string(k + 1) + ": ");
                r.tag("rebuild");
            }
        } catch (const amgcl::error::empty_level&) { l << "empty_level"; }
        catch (const std::exception &e) { if (getenv("VH_DEBUG")) std::cerr << "exception: " << e.what() << "\n"; l << "precondition"; }
        r.out = l.get();
        return r;
    }
    template <template <class> class Co> static Result by_wrap(const Hdr &h) {
        switch (h.wrap) {
            case 0: return build<amgcl::amg<BB, Co, R::damped_jacobi>, true>(h);
            case 1: return build<amgcl::amg<BB, C::as_scalar<Co>::template type, R::damped_jacobi>, true>(h);
            case 2: return build<amgcl::amg<SB, Co, as_block_ilu0>, false>(h);
            case 3: return build<amgcl::amg<HB, Co, R::damped_jacobi>, false>(h);
        }
        throw bad_input("wrap");
    }
    static Result by_kind(const Hdr &h) {
        switch (h.kind) {
            case 0: return by_wrap<C::aggregation>(h);
            case 1: return by_wrap<C::smoothed_aggregation>(h);
            case 3: return by_wrap<C::smoothed_aggr_emin>(h);
        }
        throw bad_input("kind");
    }
};

static Result execute(const Toks &t) {
    Cur c(t); const std::string &op = t[0];
    if (op != "blv") return Result("bad-op");
    Hdr h; h.b = c.nat(); h.wrap = c.nat(); h.kind = c.nat(); h.s = c.rat(); h.ce = c.nat(); h.dc = c.nat(); h.ml = c.nat(); h.A = c.mat();
    std::string why;
    if (!crs_wf(*h.A.crs(), why) || h.A.n != h.A.m || h.b < 2 || h.b > 3 || h.A.n % h.b || !crs_sorted_nodup(*h.A.crs())) throw bad_input("shape");
    if ((h.kind != 0 && h.kind != 1 && h.kind != 3) || h.wrap < 0 || h.wrap > 3 || h.ml < 1 || h.dc > 1) throw bad_input("hdr");
    (void)over_of(h);
    long nrb = c.nat(); if (nrb < 0 || nrb > 3) throw bad_input("nrb");
    for (long k = 0; k < nrb; ++k) { Mat M = c.mat(); if (!crs_wf(*M.crs(), why) || M.n != h.A.n || M.m != h.A.n || !crs_sorted_nodup(*M.crs())) throw bad_input("rebuild shape"); h.rb.push_back(M); }
    c.expect_end();
#ifdef _OPENMP
    omp_set_num_threads(1);
#endif
    Result r = h.b == 2 ? Blk<2>::by_kind(h) : Blk<3>::by_kind(h);
    r.tag("b" + std::to_string(h.b)); r.tag("wrap" + std::to_string(h.wrap)); r.tag("kind" + std::to_string(h.kind));
    if (h.kind == 0) r.tag(h.s.v == Q(1).v ? "over1" : h.s.v == Q::frac(1, 2).v ? "over2" : "over1.5");
    return r;
}

// ---------------------------------------------------------------- generators (as in h_bcycle.cpp)
static Mat gen_coupled(Rng &rng, long nb, long b, int fam, long contrast) {
    std::vector<Edge> ne;
    if (fam == 0) ne = grid_edges(rng, nb, 1, 1);
    else if (fam == 1 || fam == 3) { long nx = std::max<long>(2, (long)std::floor(std::sqrt((double)nb))); long ny = std::max<long>(1, nb / nx); nb = nx * ny; ne = grid_edges(rng, nx, ny, 1); }
    else ne = random_graph_edges(rng, nb, (int)nb / 2, 1);
    std::vector<Edge> e;
    for (auto &d : ne) for (long k = 0; k < b; ++k) {
        Q w = Q::frac(rng.range(1, contrast), rng.range(1, 2)); if (fam == 3 && d.b == d.a + 1) w = w * Q(8);
        e.push_back({d.a * b + k, d.b * b + k, w});
    }
    for (long p = 0; p < nb; ++p) for (long k = 0; k < b; ++k) for (long q = k + 1; q < b; ++q)
        if ((p == 0 && q == k + 1) || rng.coin(3, 4)) e.push_back({p * b + k, p * b + q, Q::frac(rng.range(1, contrast), rng.range(1, 2))});
    std::vector<Q> shift(nb * b, Q(0));
    for (long i = 0; i < nb * b; ++i) shift[i] = Q::frac(rng.range(1, 4), 2);      // strictly dominant: every lumped diagonal block is non-singular
    return mmatrix_from_edges(nb * b, e, shift);
}
static Mat gen_viewed(Rng &rng, long nb, long b, int fam) {
    Mat A = gen_spd(rng, nb * b, fam);
    if (A.n % b) { long n = A.n - A.n % b; auto rows = to_rows(A); rows.resize(n); for (auto &r : rows) { std::vector<std::pair<long,Q>> k; for (auto &cv : r) if (cv.first < n) k.push_back(cv); r = k; } A = from_rows(n, n, rows); }
    for (long i = 0; i < A.n; ++i) for (auto j = A.ptr[i]; j < A.ptr[i+1]; ++j) if (A.col[j] == i) A.val[j] += Q::frac(1, 2);
    return A;
}
// a matrix for rebuild: the same pattern with scaled / congruence-scaled / diagonally shifted coefficients
static Mat variant(Rng &rng, const Mat &A) {
    Mat M = A; long k = rng.range(0, 2);
    if (k == 0) { Q c = Q::frac(rng.range(1, 5), rng.range(1, 3)); for (auto &v : M.val) v = v * c; }
    else if (k == 1) { std::vector<Q> d(A.n); for (auto &x : d) x = Q::frac(rng.range(1, 3), rng.range(1, 2)); for (long i = 0; i < A.n; ++i) for (auto j = M.ptr[i]; j < M.ptr[i+1]; ++j) M.val[j] = d[i] * M.val[j] * d[M.col[j]]; }
    else { for (long i = 0; i < A.n; ++i) for (auto j = M.ptr[i]; j < M.ptr[i+1]; ++j) if (M.col[j] == i) M.val[j] += Q::frac(rng.range(0, 3), 2); }
    return M;
}

static bool builds(const std::string &line) {
    fflush(stdout); fflush(stderr);
    pid_t pid = fork();
    if (pid < 0) return true;
    if (pid == 0) {
        int fd = open("/dev/null", O_WRONLY); if (fd >= 0) dup2(fd, 2);
        g_build_only = true;
        try { Toks t = split(line); execute(t); } catch (...) {}
        _exit(0);
    }
    int st = 0; if (waitpid(pid, &st, 0) < 0) return true;
    return WIFEXITED(st) && WEXITSTATUS(st) == 0;
}

static std::string make_line1(Rng &rng, const Opts &o, long k) {
    Hdr h; h.b = rng.range(2, 3); h.wrap = k % 4;
    static const std::vector<long> kinds = { 0, 0, 0, 1, 1, 3 };
    h.kind = rng.pick(kinds);
    long nbmax = o.thorough() ? 12 : 8;
    long nb = rng.range(3, h.b == 2 ? nbmax : std::max<long>(3, nbmax * 2 / 3));
    int fam = (int)rng.range(0, 3);
    h.A = rng.coin(2, 3) ? gen_coupled(rng, nb, h.b, fam, 4) : gen_viewed(rng, nb, h.b, fam);
    static const std::vector<long> ces = { 0, 1, 1, 2, 3 }; static const std::vector<long> mls = { 2, 3, 10, 10 };
    h.ce = rng.pick(ces); h.dc = rng.coin(3, 4); h.ml = rng.pick(mls);
    h.s = Q(1); if (h.kind == 0) { long q = rng.range(0, 5); h.s = q <= 1 ? Q::frac(1, 2) : q <= 3 ? Q(1 / 1.5f) : Q(1); }
    if (h.kind == 3 && h.A.n > 12 && h.ml > 2) h.ml = 2;
    long nrb = rng.coin(1, 2) ? 0 : rng.range(1, 2);
    Line l; l << "blv" << h.b << h.wrap << h.kind << h.s << h.ce << h.dc << h.ml << h.A << nrb;
    for (long q = 0; q < nrb; ++q) l << (q + 1 == nrb && nrb == 2 ? h.A : variant(rng, h.A));
    return l.get();
}
static std::string make_line(Rng &rng, const Opts &o, long k) {
    std::string l;
    for (int q = 0; q < 7; ++q) { l = make_line1(rng, o, k); if (builds(l)) break; }
    return l;
}
static void generate(Rng &rng, const Opts &o, std::vector<std::string> &lines) {
    long N = o.cases > 0 ? o.cases : (o.thorough() ? 400 : 100);
    for (long k = 0; k < N; ++k) lines.push_back(make_line(rng, o, k));
    lines.push_back("blv 2 1 0 1/2 1 1 10 3 3 1 0 1 1 1 1 1 2 1 1 0");        // size not divisible by the block size
    lines.push_back("blv 2 1 2 1 1 1 10 2 2 1 0 1 1 1 1 0");                  // ruge_stuben: scalar only
    lines.push_back("blv 2 4 0 1 1 1 10 2 2 1 0 1 1 1 1 0");                  // unknown wrapper
}

VH_MAIN(generate, execute)
