// C12 harness (with model): amgcl::mpi::amg — hierarchy constructor + cycle()/apply() — under real MPI against the
// Lean model Model/DistAmg.lean (dinit / dcycle / dapply), in double on data for which EVERY intermediate value of
// the computation is exactly representable (checked at generation time, see `Trk`), so that the exact-rational model
// compares equal.
//
//   distamg_cycle kind w npre npost ncycle pre_cycles direct mode L (part)^L A (P R)^(L-1) rhs x
//
// mpi::amg<builtin<double>, given, damped_jacobi | spai0, mpi::direct::skyline_lu, mpi::partition::merge (disabled)>
// is constructed on the distribution of A by part_0; `given` is a coarsening policy that hands out the transfer
// operators of the op line (P_l: rows by part_l, columns by part_{l+1}; R_l the other way round) and builds the coarse
// operator with coarsening::detail::galerkin (mpi::product); coarse_enough = sum(part_{L-1}).  kind 0 = damped_jacobi
// (damping w), 1 = spai0; direct = direct_coarse; mode 0: apply(rhs, x), 1: cycle(rhs, x) from the given x.
// Result line: number of levels, gathered x.
// Implementation-side oracle (independent of the Lean model): the gathered x equals a dense exact-rational
// recomputation of the textbook multigrid cycle (dense Galerkin products, dense Jacobi / SPAI-0 sweeps, Gaussian
// elimination on the coarsest level) — i.e. "the distributed cycle is the serial cycle of the gathered hierarchy",
// C12.dist_amg_cycle_eq_gathered, checked on the implementation; and the level count is the expected one.
#include "mpi_common.hpp"
#include <amgcl/mpi/amg.hpp>
#include <amgcl/coarsening/detail/galerkin.hpp>
#include <amgcl/mpi/relaxation/spai0.hpp>
#include <amgcl/mpi/relaxation/damped_jacobi.hpp>
#include <amgcl/mpi/direct_solver/skyline_lu.hpp>
#include <amgcl/mpi/partition/merge.hpp>

// ---------------------------------------------------------------- the coarsening policy under test's control
static std::vector<std::pair<std::shared_ptr<DM>, std::shared_ptr<DM>>> g_tr;
static size_t g_lvl = 0;
struct given {
    typedef amgcl::detail::empty_params params;
    given(const params& = params()) {}
    std::tuple<std::shared_ptr<DM>, std::shared_ptr<DM>> transfer_operators(const DM&) {
        if (g_lvl >= g_tr.size()) throw std::logic_error("harness: more levels than transfer operators");
        auto t = g_tr[g_lvl++]; return std::make_tuple(t.first, t.second);
    }
    std::shared_ptr<DM> coarse_operator(const DM &A, const DM &P, const DM &R) const { return amgcl::coarsening::detail::galerkin(A, P, R); }
};
static unsigned block_size(const given&) { return 1; }

struct Case {
    long kind, npre, npost, ncycle, pc, direct, mode, L; Q w;
    std::vector<Part> parts; Mat A; std::vector<Mat> P, R; std::vector<Q> rhs, x;
};
static Case parse(Cur &c) {
    Case k; k.kind = c.nat(); k.w = c.rat(); exact(k.w); k.npre = c.nat(); k.npost = c.nat(); k.ncycle = c.nat(); k.pc = c.nat();
    k.direct = c.nat(); need(k.direct == 0 || k.direct == 1); k.mode = c.nat(); k.L = c.nat(); need(k.L >= 1 && k.L <= 4);
    need(k.npre >= 0 && k.npost >= 0 && k.ncycle >= 0 && k.pc >= 0);
    for (long l = 0; l < k.L; ++l) k.parts.push_back(part(c));
    k.A = checked(c);
    for (long l = 0; l + 1 < k.L; ++l) { k.P.push_back(checked(c)); k.R.push_back(checked(c)); }
    k.rhs = c.vec(); k.x = c.vec(); c.expect_end(); for (auto &v : k.rhs) exact(v); for (auto &v : k.x) exact(v);
    need(k.kind == 0 || k.kind == 1); need(k.mode == 0 || k.mode == 1);
    for (auto &p : k.parts) need(p.np() == k.parts[0].np());
    need_mat(k.A, k.parts[0], k.parts[0]); need((long)k.rhs.size() == k.A.n && (long)k.x.size() == k.A.n);
    long ce = k.parts.back().sum;
    for (long l = 0; l + 1 < k.L; ++l) { need_mat(k.P[l], k.parts[l], k.parts[l+1]); need_mat(k.R[l], k.parts[l+1], k.parts[l]); need(k.parts[l].sum > ce); }
    return k;
}

// ---------------------------------------------------------------- exactness tracker + dense exact oracle
// Every value the computation can produce — in ANY order of summation — is a multiple of 2^-E bounded by M, where E is
// the largest binary denominator exponent of any term and M the largest absolute row sum (sum of |terms|) seen; it is
// exactly representable in binary64 when M * 2^E < 2^53.
struct Trk {
    long E = 0; mpq_class M = 0; bool dy = true;
    void see(const Q &v) {
        mpz_class den = v.v.get_den(); if (mpz_popcount(den.get_mpz_t()) != 1) { dy = false; return; }
        long e = (long)mpz_sizeinbase(den.get_mpz_t(), 2) - 1; if (e > E) E = e;
        mpq_class a = abs(v.v); if (a > M) M = a;
    }
    void bound(const mpq_class &a) { if (a > M) M = a; }
    bool safe() const { if (!dy || E > 40) return false; mpq_class lim(mpz_class(1) << 52); mpq_class sc(mpz_class(1) << E); return M * sc < lim; }
};
static Q qabs(const Q &a) { return a < 0 ? -a : a; }
// y = alpha * (A x) + beta * y0 with term tracking
static std::vector<Q> mv(const Dense &A, const std::vector<Q> &x, Trk &t, const Q &alpha = Q(1), const std::vector<Q> *y0 = 0) {
    std::vector<Q> y(A.size());
    for (size_t i = 0; i < A.size(); ++i) {
        Q s, as; for (size_t j = 0; j < x.size(); ++j) if (A[i][j] != 0) { Q p = A[i][j] * x[j]; t.see(p); s += p; as += qabs(p); }
        if (y0) { as += qabs((*y0)[i]); y[i] = alpha * s + (*y0)[i]; } else y[i] = alpha * s;
        t.bound(as.v); t.see(y[i]);
    }
    return y;
}
static Dense mm(const Dense &A, const Dense &B, size_t m, Trk &t) {
    Dense C(A.size(), std::vector<Q>(m));
    for (size_t i = 0; i < A.size(); ++i) for (size_t j = 0; j < m; ++j) {
        Q s, as; for (size_t k = 0; k < B.size(); ++k) if (A[i][k] != 0 && B[k][j] != 0) { Q p = A[i][k] * B[k][j]; t.see(p); s += p; as += qabs(p); }
        C[i][j] = s; t.bound(as.v); t.see(s);
    }
    return C;
}
static bool pow2(const Q &d) { if (d == 0) return false; mpz_class n = abs(d.v.get_num()), e = d.v.get_den(); return mpz_popcount(n.get_mpz_t()) == 1 && mpz_popcount(e.get_mpz_t()) == 1; }
static bool gauss(Dense A, std::vector<Q> f, std::vector<Q> &x) {
    size_t n = A.size();
    for (size_t k = 0; k < n; ++k) {
        size_t p = k; while (p < n && A[p][k] == 0) ++p; if (p == n) return false;
        std::swap(A[p], A[k]); std::swap(f[p], f[k]);
        for (size_t i = 0; i < n; ++i) if (i != k && A[i][k] != 0) { Q m = A[i][k] / A[k][k]; for (size_t j = k; j < n; ++j) A[i][j] -= m * A[k][j]; f[i] -= m * f[k]; }
    }
    x.resize(n); for (size_t i = 0; i < n; ++i) x[i] = f[i] / A[i][i];
    return true;
}
struct Oracle {
    const Case &c; Trk t; bool ok = true; std::string why; long nlev = 0;
    std::vector<Dense> A, P, R; std::vector<std::vector<Q>> M; bool last_direct = false, has_coarse = true;
    explicit Oracle(const Case &c) : c(c) {}
    void fail(const std::string &w) { if (ok) { ok = false; why = w; } }
    std::vector<Q> diag(const Dense &D) {
        std::vector<Q> m(D.size());
        for (size_t i = 0; i < D.size(); ++i) {
            if (c.kind == 0) { if (D[i][i] == 0) { fail("zero diagonal"); continue; } m[i] = Q(1) / D[i][i]; t.see(m[i]); }
            else { Q den, num = D[i][i]; for (size_t j = 0; j < D[i].size(); ++j) { Q p = D[i][j] * D[i][j]; t.see(p); den += p; } t.see(den); if (den == 0) { fail("zero row"); continue; } Q inv = Q(1) / den; t.see(inv); m[i] = inv * num; t.see(m[i]); }
        }
        return m;
    }
    void build() {
        A.push_back(dense(c.A)); for (auto &r : A[0]) for (auto &v : r) t.see(v);
        for (long l = 0; l + 1 < c.L; ++l) {
            P.push_back(dense(c.P[l])); R.push_back(dense(c.R[l]));
            for (auto &r : P[l]) for (auto &v : r) t.see(v); for (auto &r : R[l]) for (auto &v : r) t.see(v);
            Dense AP = mm(A[l], P[l], (size_t)c.parts[l+1].sum, t); A.push_back(mm(R[l], AP, (size_t)c.parts[l+1].sum, t));
        }
        last_direct = c.direct != 0; nlev = c.L;
        for (long l = 0; l < c.L; ++l) if (l + 1 < c.L || !last_direct) M.push_back(diag(A[l])); else M.push_back(std::vector<Q>());
        if (last_direct) {      // double-exactness of skyline LU: only asserted for diagonal systems with +-2^k pivots
            const Dense &D = A.back(); for (size_t i = 0; i < D.size(); ++i) for (size_t j = 0; j < D.size(); ++j) if (i != j ? D[i][j] != 0 : !pow2(D[i][j])) t.dy = false;
        }
    }
    void sweep(long l, const std::vector<Q> &f, std::vector<Q> &x) {
        Q w = c.kind == 0 ? c.w : Q(1);
        std::vector<Q> r = mv(A[l], x, t, Q(-1), &f);
        for (size_t i = 0; i < x.size(); ++i) { Q a = w * M[l][i]; t.see(a); Q b = a * r[i]; t.see(b); t.bound((qabs(b) + qabs(x[i])).v); x[i] += b; t.see(x[i]); }
    }
    void cycle(long l, const std::vector<Q> &f, std::vector<Q> &x) {
        if (l + 1 == c.L) {
            if (last_direct) { std::vector<Q> y; if (!gauss(A[l], f, y)) { fail("singular coarse matrix"); return; } x = y; for (auto &v : x) t.see(v); }
            else { for (long i = 0; i < c.npre; ++i) sweep(l, f, x); for (long i = 0; i < c.npost; ++i) sweep(l, f, x); }
            return;
        }
        for (long j = 0; j < c.ncycle; ++j) {
            for (long i = 0; i < c.npre; ++i) sweep(l, f, x);
            std::vector<Q> r = mv(A[l], x, t, Q(-1), &f);
            std::vector<Q> fc = mv(R[l], r, t), uc(fc.size());
            cycle(l + 1, fc, uc);
            x = mv(P[l], uc, t, Q(1), &x);
            for (long i = 0; i < c.npost; ++i) sweep(l, f, x);
        }
    }
    std::vector<Q> run() {
        build(); std::vector<Q> x;
        if (!ok) return x;
        if (c.mode == 1) { x = c.x; cycle(0, c.rhs, x); }
        else if (c.pc == 0) x = c.rhs;
        else { x.assign(c.rhs.size(), Q(0)); for (long i = 0; i < c.pc; ++i) cycle(0, c.rhs, x); }
        return x;
    }
};

// ---------------------------------------------------------------- the real code
template <class AMG> static void relax_prm(typename AMG::params &, double) {}
typedef amgcl::mpi::amg<BD, given, amgcl::mpi::relaxation::damped_jacobi<BD>, amgcl::mpi::direct::skyline_lu<double>, amgcl::mpi::partition::merge<BD>> AMGJ;
typedef amgcl::mpi::amg<BD, given, amgcl::mpi::relaxation::spai0<BD>,         amgcl::mpi::direct::skyline_lu<double>, amgcl::mpi::partition::merge<BD>> AMGS;
template <> void relax_prm<AMGJ>(AMGJ::params &p, double w) { p.relax.damping = w; }

template <class AMG> static std::vector<double> run_real(const Ctx &x, const Case &c, long &nlev) {
    typename AMG::params prm;
    prm.coarse_enough = (unsigned)c.parts.back().sum; prm.direct_coarse = c.direct != 0; prm.max_levels = (unsigned)(c.L + 5);
    prm.npre = (unsigned)c.npre; prm.npost = (unsigned)c.npost; prm.ncycle = (unsigned)c.ncycle; prm.pre_cycles = (unsigned)c.pc;
    prm.repart.enable = false; relax_prm<AMG>(prm, exact(c.w));
    g_tr.clear(); g_lvl = 0;
    for (long l = 0; l + 1 < c.L; ++l) g_tr.push_back({ make_dm(x, c.P[l], c.parts[l], c.parts[l+1]), make_dm(x, c.R[l], c.parts[l+1], c.parts[l]) });
    const Part &p0 = c.parts[0];
    AMG amg(x.comm, make_dm(x, c.A, p0, p0), prm);
    { std::ostringstream os; os << amg; std::string s = os.str(); size_t k = s.find(':'); nlev = k == std::string::npos ? -1 : atol(s.c_str() + k + 1); }
    auto F = dvec(c.rhs), X = dvec(c.x);
    std::vector<double> f(F.begin() + p0.off[x.rank], F.begin() + p0.off[x.rank + 1]), xl(X.begin() + p0.off[x.rank], X.begin() + p0.off[x.rank + 1]);
    if (c.mode == 0) amg.apply(f, xl); else amg.cycle(f, xl);
    g_tr.clear();
    return gather_vec(x, xl, p0);
}

static Result execute(const Toks &t) {
    Cur cu(t); const std::string &op = t[0]; Result r;
    if (op != "distamg_cycle") { r.out = "bad-op"; return r; }
    Case c = parse(cu);
    Ctx x = ctx_for(c.parts[0].np()); if (!x.active) return r;
    long nlev = 0;
    std::vector<double> g = c.kind == 0 ? run_real<AMGJ>(x, c, nlev) : run_real<AMGS>(x, c, nlev);
    if (x.rank) return r;
    Oracle o(c); std::vector<Q> ref = o.run();
    if (!o.ok) r.fail("oracle: " + o.why);
    else {
        if (!o.t.safe()) r.fail("inexact data: some intermediate value is not representable in binary64");
        bool eq = ref.size() == g.size(); for (size_t i = 0; eq && i < g.size(); ++i) if (qd(g[i]).v != ref[i].v) eq = false;
        if (!eq) r.fail("gathered result of mpi::amg != dense exact multigrid cycle of the gathered hierarchy");
        if (nlev != o.nlev) r.fail("number of levels " + std::to_string(nlev) + " != " + std::to_string(o.nlev));
    }
    Line l; l << nlev << g.size(); for (double v : g) l << qd(v); r.out = l.get();
    const Part &p0 = c.parts[0];
    r.nontrivial = p0.np() > 1 && has_remote(c.A, p0, p0) && (c.mode == 1 || c.pc > 0) && (c.npre + c.npost > 0 || (c.L == 1 && c.direct));
    tags(r, c.kind == 0 ? "jacobi" : "spai0", p0, c.parts.back(), false);
    r.tag("L" + std::to_string(c.L)); r.tag(c.direct ? "direct" : "relax"); r.tag(c.mode ? "cycle" : "apply"); if (c.ncycle > 1) r.tag("wcycle");
    return r;
}

// ---------------------------------------------------------------- generation (rank 0)
typedef std::vector<std::vector<std::pair<long,Q>>> Rows;
static Mat from_dense(const Dense &D, long m) { Rows rows(D.size()); for (size_t i = 0; i < D.size(); ++i) for (long j = 0; j < m; ++j) if (D[i][j] != 0) rows[i].push_back({j, D[i][j]}); return from_rows((long)D.size(), m, rows); }
static Q p2(Rng &rng, int lo, int hi) { long e = rng.range(lo, hi); return e >= 0 ? Q(1L << e) : Q::frac(1, 1L << (-e)); }
// aggregates: agg[i] in [0, nc), every aggregate non-empty; contiguous or scattered
static std::vector<long> aggregates(Rng &rng, long n, long nc, bool contiguous) {
    std::vector<long> agg(n);
    if (contiguous) { std::vector<long> cuts; for (long k = 1; k < n; ++k) cuts.push_back(k); for (size_t i = cuts.size(); i > 1; --i) std::swap(cuts[i-1], cuts[rng.range(0, (long)i - 1)]); cuts.resize(nc - 1); std::sort(cuts.begin(), cuts.end()); long a = 0, ci = 0; for (long i = 0; i < n; ++i) { if (ci < (long)cuts.size() && i == cuts[ci]) { ++a; ++ci; } agg[i] = a; } }
    else { std::vector<long> perm(n); for (long i = 0; i < n; ++i) perm[i] = i; for (long i = n; i > 1; --i) std::swap(perm[i-1], perm[rng.range(0, i - 1)]); for (long i = 0; i < n; ++i) agg[perm[i]] = i < nc ? i : rng.range(0, nc - 1); }
    return agg;
}
// P = P_tent * D_c (column scaling by powers of two), R = D_r * P_tent^T
static void transfer(Rng &rng, const std::vector<long> &agg, long nc, bool scale, Mat &P, Mat &R) {
    long n = (long)agg.size(); std::vector<Q> dc(nc, Q(1)), dr(nc, Q(1));
    if (scale) for (long a = 0; a < nc; ++a) { dc[a] = p2(rng, -1, 1); dr[a] = p2(rng, -1, 1); }
    Rows pr(n), rr(nc);
    for (long i = 0; i < n; ++i) { pr[i].push_back({agg[i], dc[agg[i]]}); rr[agg[i]].push_back({i, dr[agg[i]]}); }
    P = from_rows(n, nc, pr); R = from_rows(nc, n, rr);
}
static std::string emit(const Case &c) {
    Line l; l << "distamg_cycle" << c.kind << c.w << c.npre << c.npost << c.ncycle << c.pc << c.direct << c.mode << c.L;
    for (auto &p : c.parts) lp(l, p.p);
    l << c.A; for (long k = 0; k + 1 < c.L; ++k) l << c.P[k] << c.R[k];
    l << c.rhs << c.x; return l.get();
}
static Part mkpart(const std::vector<long> &p) { Part P; P.p = p; P.off.push_back(0); for (long s : p) P.off.push_back(P.off.back() + s); P.sum = P.off.back(); return P; }

static bool gen_one(Rng &rng, const Opts &o, int family, int np, Case &c) {
    static const std::vector<Q> ws = { Q(1), Q::frac(1, 2), Q::frac(3, 4), Q::frac(1, 4) };
    c = Case(); c.kind = 0; c.w = rng.pick(ws); c.npre = rng.range(0, 2); c.npost = rng.range(c.npre ? 0 : 1, 1); c.ncycle = rng.coin(1, 4) ? 2 : 1;
    c.mode = rng.coin() ? 1 : 0; c.pc = c.mode ? 1 : rng.range(0, 2); c.direct = 0;
    long hi = o.thorough() ? 14 : 9;
    std::vector<long> sizes;
    if (family == 0) {           // 1-D chain s*tridiag(-1,2,-1), contiguous aggregates on every level, 2..3 levels
        long n = rng.range(3, hi); c.L = n >= 5 && rng.coin(2, 3) ? 3 : 2; Q s = p2(rng, -1, 2);
        Rows rows(n); for (long i = 0; i < n; ++i) { if (i) rows[i].push_back({i-1, -s}); rows[i].push_back({i, 2 * s}); if (i + 1 < n) rows[i].push_back({i+1, -s}); }
        c.A = from_rows(n, n, rows); sizes.push_back(n);
        for (long l = 0; l + 1 < c.L; ++l) { long m = sizes.back(); long nc = l + 2 == c.L && rng.coin(1, 3) ? 1 : rng.range(std::max(1L, (m + 2) / 3), std::max(1L, m - 1)); if (nc >= m) nc = m - 1; if (nc < 1) return false;
            Mat P, R; transfer(rng, aggregates(rng, m, nc, true), nc, rng.coin(1, 3), P, R); c.P.push_back(P); c.R.push_back(R); sizes.push_back(nc); }
        c.direct = sizes.back() == 1 ? rng.coin() : 0;
    } else if (family == 1) {    // general sparse matrix, scattered aggregates, coarse diagonal repaired to a power of two; coarse relaxation
        long n = rng.range(4, hi), nc = rng.range(1, std::max(1L, n / 2)); c.L = 2;
        std::vector<long> agg = aggregates(rng, n, nc, rng.coin(1, 3));
        Dense D(n, std::vector<Q>(n)); int dens = (int)rng.range(20, 60);
        for (long i = 0; i < n; ++i) for (long j = 0; j < i; ++j) if (rng.range(0, 99) < dens) { Q v = rng.integer(3); D[i][j] = v; D[j][i] = rng.coin(3, 4) ? v : rng.integer(2); }
        for (long i = 0; i < n; ++i) D[i][i] = (rng.coin(1, 6) ? Q(-1) : Q(1)) * p2(rng, 0, 3);
        for (long a = 0; a < nc; ++a) {          // repair: coarse diagonal = sum of the aggregate's block -> nearest power of two
            std::vector<long> mem; for (long i = 0; i < n; ++i) if (agg[i] == a) mem.push_back(i);
            Q s; for (long i : mem) for (long j : mem) s += D[i][j];
            if (pow2(s)) continue; if (mem.size() < 2) return false;
            Q target = p2(rng, 0, 3), d = (target - s) / 2; D[mem[0]][mem[1]] += d; D[mem[1]][mem[0]] += d;
        }
        c.A = from_dense(D, n); Mat P, R; transfer(rng, agg, nc, false, P, R); c.P.push_back(P); c.R.push_back(R); sizes = { n, nc };
    } else if (family == 2) {    // block-diagonal w.r.t. scattered aggregates: diagonal coarse matrix with power-of-two entries, direct coarse solve
        long n = rng.range(3, hi), nc = rng.range(1, std::max(1L, n / 2)); c.L = 2; c.direct = 1;
        std::vector<long> agg = aggregates(rng, n, nc, rng.coin(1, 3));
        Dense D(n, std::vector<Q>(n));
        for (long i = 0; i < n; ++i) for (long j = 0; j < i; ++j) if (agg[i] == agg[j] && rng.coin(2, 3)) { Q v = rng.integer(2); D[i][j] = v; D[j][i] = v; }
        for (long i = 0; i < n; ++i) D[i][i] = p2(rng, 1, 3);
        for (long a = 0; a < nc; ++a) {
            std::vector<long> mem; for (long i = 0; i < n; ++i) if (agg[i] == a) mem.push_back(i);
            Q s; for (long i : mem) for (long j : mem) s += D[i][j];
            if (pow2(s)) continue; if (mem.size() < 2) return false;
            Q target = p2(rng, 0, 3), d = (target - s) / 2; D[mem[0]][mem[1]] += d; D[mem[1]][mem[0]] += d;
        }
        c.A = from_dense(D, n); Mat P, R; transfer(rng, agg, nc, rng.coin(1, 3), P, R); c.P.push_back(P); c.R.push_back(R); sizes = { n, nc };
    } else if (family == 3) {    // SPAI-0, single level (relaxation only): circulant rows (2, -1, -1, +-1, +-1): sum of squares 8
        long n = rng.range(5, hi); c.L = 1; c.kind = 1; c.w = Q(1); Dense D(n, std::vector<Q>(n));
        for (long i = 0; i < n; ++i) { D[i][i] = Q(2); D[i][(i+1) % n] = Q(-1); D[i][(i+n-1) % n] = Q(-1); D[i][(i+2) % n] = rng.coin() ? Q(1) : Q(-1); D[i][(i+n-2) % n] = rng.coin() ? Q(1) : Q(-1); }
        c.A = from_dense(D, n); sizes = { n };
    } else {                     // single level, direct: diagonal system with power-of-two entries on the top level
        long n = rng.range(1, hi); c.L = 1; c.direct = 1; Rows rows(n); for (long i = 0; i < n; ++i) rows[i].push_back({i, (rng.coin(1, 4) ? Q(-1) : Q(1)) * p2(rng, -1, 3)});
        c.A = from_rows(n, n, rows); sizes = { n };
    }
    if (family != 3 && rng.coin(1, 5)) { c.kind = 1; c.w = Q(1); }      // SPAI-0 elsewhere: survives only if the filter finds it exact
    for (long s : sizes) c.parts.push_back(mkpart(rand_part(rng, s, np)));
    long n = sizes[0]; c.rhs = gen_vec(rng, n, true); c.x = c.mode ? gen_vec(rng, n, true) : std::vector<Q>(n);
    Oracle orc(c); orc.run(); return orc.ok && orc.t.safe();
}

static void generate(Rng &rng, const Opts &o, std::vector<std::string> &lines) {
    const int W = std::min(g_wsize, MAXNP);
    long N = o.cases > 0 ? o.cases : (o.thorough() ? 1500 : 80), made = 0, tries = 0;
    while (made < N && tries < 40 * N) {
        ++tries; int np = (int)rng.range(1, W); int fam = (int)(made % 5);
        Case c; if (!gen_one(rng, o, fam, np, c)) continue;
        lines.push_back(emit(c)); ++made;
    }
    // malformed stream: both sides must answer bad-input (variants of one valid two-level case on 2 ranks)
    Case b; b.kind = 0; b.w = Q(1); b.npre = b.npost = b.ncycle = b.pc = 1; b.direct = 0; b.mode = 0; b.L = 2;
    { Rows rows(3); for (long i = 0; i < 3; ++i) { if (i) rows[i].push_back({i-1, Q(-1)}); rows[i].push_back({i, Q(2)}); if (i < 2) rows[i].push_back({i+1, Q(-1)}); } b.A = from_rows(3, 3, rows); }
    { Mat P, R; Rng r2(7); transfer(r2, std::vector<long>{0, 0, 1}, 2, false, P, R); b.P.push_back(P); b.R.push_back(R); }
    b.parts = { mkpart({2, 1}), mkpart({1, 1}) }; b.rhs = { Q(1), Q(2), Q(3) }; b.x = { Q(0), Q(0), Q(0) };
    lines.push_back(emit(b));                                                         // (valid)
    lines.push_back(emit(b) + " 7");                                                  // trailing token
    { Case m = b; m.kind = 2; lines.push_back(emit(m)); }                             // unknown relaxation
    { Case m = b; m.w = Q::frac(1, 3); lines.push_back(emit(m)); }                    // damping not exact in binary64
    { Case m = b; m.rhs.push_back(Q(1)); lines.push_back(emit(m)); }                  // rhs too long
    { Case m = b; m.parts[0] = mkpart({2, 2}); lines.push_back(emit(m)); }            // partition sums to 4, matrix has 3 rows
    { Case m = b; m.parts[1] = mkpart({2}); lines.push_back(emit(m)); }               // rank counts of the levels differ
    { Case m = b; m.direct = 2; lines.push_back(emit(m)); }                           // flag not 0/1
    { Case m = b; Mat P, R; Rng r2(7); transfer(r2, std::vector<long>{0, 1, 2}, 3, false, P, R); m.P[0] = P; m.R[0] = R; m.parts[1] = mkpart({2, 1});
      lines.push_back(emit(m)); }                                                     // coarse level not smaller than the fine one
    lines.push_back("distamg_cycle 0 1 1 1 1 1 0 0 0");                               // no level
}

VH_MPI_MAIN(generate, execute)
