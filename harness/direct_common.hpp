// Helpers shared by h_direct.cpp and h_direct_sm.cpp (C16): exact dense linear algebra for the oracles.
#pragma once
#include "gen.hpp"
namespace vh {
inline bool qeq(const Q &a, const Q &b) { return a.poison == b.poison && (a.poison || a.v == b.v); }
// ------------------------------------------------------------------ exact dense helpers (oracles only)
// Gaussian elimination with row exchanges: rank of a dense matrix
inline long dense_rank(Dense A) {
    long m = (long)A.size(), n = m ? (long)A[0].size() : 0, r = 0;
    for (long c = 0; c < n && r < m; ++c) {
        long p = -1; for (long i = r; i < m; ++i) if (A[i][c] != 0) { p = i; break; }
        if (p < 0) continue;
        std::swap(A[r], A[p]);
        for (long i = r + 1; i < m; ++i) if (A[i][c] != 0) { Q f = A[i][c] / A[r][c]; for (long j = c; j < n; ++j) A[i][j] -= f * A[r][j]; }
        ++r;
    }
    return r;
}
// solve the square nonsingular system M z = f exactly (Gauss-Jordan with row exchanges)
inline bool dense_solve(Dense M, std::vector<Q> f, std::vector<Q> &z) {
    long n = (long)M.size();
    for (long c = 0; c < n; ++c) {
        long p = -1; for (long i = c; i < n; ++i) if (M[i][c] != 0) { p = i; break; }
        if (p < 0) return false;
        std::swap(M[c], M[p]); std::swap(f[c], f[p]);
        for (long i = 0; i < n; ++i) if (i != c && M[i][c] != 0) { Q g = M[i][c] / M[c][c]; for (long j = c; j < n; ++j) M[i][j] -= g * M[c][j]; f[i] -= g * f[c]; }
    }
    z.resize(n); for (long i = 0; i < n; ++i) z[i] = f[i] / M[i][i];
    return true;
}
inline Dense dtrans(const Dense &A) { size_t m = A.size(), n = m ? A[0].size() : 0; Dense T(n, std::vector<Q>(m)); for (size_t i = 0; i < m; ++i) for (size_t j = 0; j < n; ++j) T[j][i] = A[i][j]; return T; }
inline bool dense_is_identity(const Dense &A) { for (size_t i = 0; i < A.size(); ++i) for (size_t j = 0; j < A[i].size(); ++j) if (A[i][j] != Q(i == j ? 1 : 0)) return false; return true; }
inline bool is_perm(const std::vector<long> &p, long n) {
    if ((long)p.size() != n) return false; std::vector<char> seen(n, 0);
    for (long v : p) { if (v < 0 || v >= n || seen[v]) return false; seen[v] = 1; } return true;
}

inline Dense rm_dense(long m, long n, const std::vector<Q> &a) { Dense D(m, std::vector<Q>(n)); for (long i = 0; i < m; ++i) for (long j = 0; j < n; ++j) D[i][j] = a[i * n + j]; return D; }
} // namespace vh
