// C16 harness, part 4 (implementation-side oracles only, "no_model"): amgcl::detail::QR<std::complex<Q>> (Householder QR ported
// from ZGEQR2 / ZUNG2R / ZLARFG / ZLARF) at the Gaussian rationals (harness/cq.hpp).  Every operation is exact EXCEPT the square roots
// (rsqrt inside std::abs(std::complex<Q>) and in gen_reflector, accurate to 2^-32), so the factorisation is judged in exact
// arithmetic against a tolerance (labelled test, like the double instantiation of h_direct.cpp); on REAL-valued data the complex
// instantiation must reproduce QR<Q> exactly (every conjugation is the identity there, |x| is exact).
// The same ops run at std::complex<double> on dyadic data (arith 1; input exact in binary64, output converted exactly to Q, judged in
// exact arithmetic against 2^-28 like the real double instantiation): there the square root has RELATIVE accuracy, so rank-deficient
// matrices (duplicate / zero columns: the trailing columns are rounding residue) are judged too, whereas rsqrt has ABSOLUTE accuracy
// 2^-32 and normalising residue of that size is meaningless (arith 0 judges matrices whose leading min(m,n) columns are independent; tags rank_deficient / leading_columns_dependent).
//   direct_qrc_factor arith order m n A    QR<CQ>::factorize:  |A - Q R| <= TOL * scale, |Q^H Q - I| <= TOL, Q(:, k..n) = 0
//   direct_qrc_solve  arith order m n A b  QR<CQ>::solve:      tall: A^H (A x - b) ~ 0, wide / square: A x ~ b, and for full rank
//                                          |x - exact least-squares / minimum-norm solution| <= TOLX * (1 + |x|)
//   direct_cx_transpose B A x y            backend::transpose of a builtin CRS matrix whose values are B x B blocks
//                                          static_matrix<std::complex<Q>,B,B> (B = 1: std::complex<Q> itself), the library's user of
//                                          math::adjoint on blocks: T = A^H blockwise (T(j,i) = conj-transpose of A(i,j)), and
//                                          <A x, y> = <x, T y> with the real block operators / math::inner_product
//                                          (A: `n m` then per row `k (col block)*`, block = B*B entries row-major; x: m blocks Bx1, y: n blocks)
// (A: m x n row-major, `re im` per entry; order 0 = row_major, 1 = col_major storage handed to the real code)
#include "cq.hpp"
#include "direct_common.hpp"
#include <amgcl/value_type/complex.hpp>
#include <amgcl/value_type/static_matrix.hpp>
#include <amgcl/detail/qr.hpp>
using namespace vh;
typedef std::complex<Q> CQ;
typedef std::vector<std::vector<CQ>> CDense;

static CQ rdc(Cur &c) { Q r = c.rat(); Q i = c.rat(); return CQ(r, i); }
static void putc(Line &l, const CQ &v) { l << v.real(); l << v.imag(); }
static CQ cj(const CQ &a) { return CQ(a.real(), Q(0) - a.imag()); }
static bool c0(const CQ &a) { return a.real().v == 0 && a.imag().v == 0; }
static Q qabs(const Q &a) { return a.v < 0 ? -a : a; }
static Q cmax(const CQ &a) { Q x = qabs(a.real()), y = qabs(a.imag()); return x < y ? y : x; }         // max(|re|, |im|)
static CDense cdense(long m, long n, const std::vector<CQ> &a) { CDense D(m, std::vector<CQ>(n)); for (long i = 0; i < m; ++i) for (long j = 0; j < n; ++j) D[i][j] = a[i * n + j]; return D; }
static CDense cmul(const CDense &A, const CDense &B) { size_t n = A.size(), k = B.size(), m = k ? B[0].size() : 0; CDense C(n, std::vector<CQ>(m, CQ(Q(0), Q(0)))); for (size_t i = 0; i < n; ++i) for (size_t l = 0; l < k; ++l) for (size_t j = 0; j < m; ++j) C[i][j] += A[i][l] * B[l][j]; return C; }
static CDense cherm(const CDense &A) { size_t m = A.size(), n = m ? A[0].size() : 0; CDense T(n, std::vector<CQ>(m)); for (size_t i = 0; i < m; ++i) for (size_t j = 0; j < n; ++j) T[j][i] = cj(A[i][j]); return T; }
static std::vector<CQ> cmv(const CDense &A, const std::vector<CQ> &x) { std::vector<CQ> y(A.size(), CQ(Q(0), Q(0))); for (size_t i = 0; i < A.size(); ++i) for (size_t j = 0; j < x.size(); ++j) y[i] += A[i][j] * x[j]; return y; }
static Q cdiff(const CDense &A, const CDense &B) { Q d(0); for (size_t i = 0; i < A.size(); ++i) for (size_t j = 0; j < A[i].size(); ++j) { Q e = cmax(A[i][j] - B[i][j]); if (e > d) d = e; } return d; }
static Q cmaxabs(const std::vector<CQ> &v) { Q d(0); for (auto &x : v) if (cmax(x) > d) d = cmax(x); return d; }
static long crank(CDense A) {
    long m = (long)A.size(), n = m ? (long)A[0].size() : 0, r = 0;
    for (long c = 0; c < n && r < m; ++c) {
        long p = -1; for (long i = r; i < m; ++i) if (!c0(A[i][c])) { p = i; break; }
        if (p < 0) continue;
        std::swap(A[r], A[p]);
        for (long i = r + 1; i < m; ++i) if (!c0(A[i][c])) { CQ f = A[i][c] / A[r][c]; for (long j = c; j < n; ++j) A[i][j] -= f * A[r][j]; }
        ++r;
    }
    return r;
}
static bool csolve(CDense M, std::vector<CQ> f, std::vector<CQ> &z) {
    long n = (long)M.size();
    for (long c = 0; c < n; ++c) {
        long p = -1; for (long i = c; i < n; ++i) if (!c0(M[i][c])) { p = i; break; }
        if (p < 0) return false;
        std::swap(M[c], M[p]); std::swap(f[c], f[p]);
        for (long i = 0; i < n; ++i) if (i != c && !c0(M[i][c])) { CQ g = M[i][c] / M[c][c]; for (long j = c; j < n; ++j) M[i][j] -= g * M[c][j]; f[i] -= g * f[c]; }
    }
    z.resize(n); for (long i = 0; i < n; ++i) z[i] = f[i] / M[i][i];
    return true;
}

template <class T> struct QRout { std::vector<T> Qk, R, Qtail; };
template <class T> static QRout<T> qr_factorize(long order, long m, long n, const std::vector<T> &Arm) {
    std::vector<T> buf(m * n);
    for (long i = 0; i < m; ++i) for (long j = 0; j < n; ++j) buf[order == 0 ? i * n + j : j * m + i] = Arm[i * n + j];
    amgcl::detail::QR<T> qr;
    qr.factorize((int)m, (int)n, buf.data(), order == 0 ? amgcl::detail::row_major : amgcl::detail::col_major);
    long k = std::min(m, n); QRout<T> o;
    for (long i = 0; i < m; ++i) for (long j = 0; j < k; ++j) o.Qk.push_back(qr.Q((int)i, (int)j));
    for (long i = 0; i < k; ++i) for (long j = 0; j < n; ++j) o.R.push_back(qr.R((int)i, (int)j));
    for (long i = 0; i < m; ++i) for (long j = k; j < n; ++j) o.Qtail.push_back(qr.Q((int)i, (int)j));
    return o;
}
template <class T> static std::vector<T> qr_solve(long order, long m, long n, const std::vector<T> &Arm, const std::vector<T> &b) {
    std::vector<T> buf(m * n), x(n);
    for (long i = 0; i < m; ++i) for (long j = 0; j < n; ++j) buf[order == 0 ? i * n + j : j * m + i] = Arm[i * n + j];
    amgcl::detail::QR<T> qr;
    qr.solve((int)m, (int)n, buf.data(), b.data(), x.data(), order == 0 ? amgcl::detail::row_major : amgcl::detail::col_major);
    return x;
}
static const Q TOLQ = Q::frac(1, 1L << 20), TOLD = Q::frac(1, 1L << 28), TOLX = Q::frac(1, 1L << 14);
typedef std::complex<double> CD;
static std::vector<CD> to_cd(const std::vector<CQ> &v) { std::vector<CD> d; for (auto &x : v) d.push_back(CD(x.real().v.get_d(), x.imag().v.get_d())); return d; }
static std::vector<CQ> from_cd(const std::vector<CD> &v) { std::vector<CQ> d; for (auto &x : v) d.push_back(CQ(Q(x.real()), Q(x.imag()))); return d; }
static bool dyadic_exact(const std::vector<CQ> &v) { for (auto &x : v) if (Q(x.real().v.get_d()).v != x.real().v || Q(x.imag().v.get_d()).v != x.imag().v) return false; return true; }
static bool finite_cd(const std::vector<CD> &v) { for (auto &x : v) if (!std::isfinite(x.real()) || !std::isfinite(x.imag())) return false; return true; }
static bool all_real(const std::vector<CQ> &v) { for (auto &x : v) if (x.imag().v != 0) return false; return true; }
static std::vector<Q> re_of(const std::vector<CQ> &v) { std::vector<Q> r; for (auto &x : v) r.push_back(x.real()); return r; }
static bool same_as_real(const std::vector<CQ> &c, const std::vector<Q> &r) { if (c.size() != r.size()) return false; for (size_t i = 0; i < r.size(); ++i) if (c[i].imag().v != 0 || c[i].real().v != r[i].v) return false; return true; }

template <class V> struct Blk;
template <> struct Blk<CQ> { typedef CQ rhs; static CQ rd(Cur &c) { return rdc(c); } static rhs rdv(Cur &c) { return rdc(c); } static CQ at(const CQ &v, int, int) { return v; } static bool real(const CQ &v) { return v.imag().v == 0; } };
template <int B> struct Blk<amgcl::static_matrix<CQ,B,B>> { typedef amgcl::static_matrix<CQ,B,B> V; typedef amgcl::static_matrix<CQ,B,1> rhs;
    static V rd(Cur &c) { V v; for (int i = 0; i < B * B; ++i) v(i) = rdc(c); return v; } static rhs rdv(Cur &c) { rhs v; for (int i = 0; i < B; ++i) v(i) = rdc(c); return v; }
    static CQ at(const V &v, int i, int j) { return v(i, j); } static bool real(const V &v) { for (int i = 0; i < B * B; ++i) if (v(i).imag().v != 0) return false; return true; } };
template <class V, int B> static Result run_transpose(Cur &c) {
    typedef Blk<V> K; typedef typename K::rhs R; Result r; namespace m = amgcl::math;
    long n = c.nat(), mm = c.nat(); if (n < 0 || mm < 0 || n > 64 || mm > 64) throw bad_input("shape");
    std::vector<ptrdiff_t> ptr(1, 0), col; std::vector<V> val; bool cplx = false;
    for (long i = 0; i < n; ++i) { long k = c.nat(); if (k < 0) throw bad_input("k"); for (long j = 0; j < k; ++j) { long cc = c.nat(); if (cc < 0 || cc >= mm) throw bad_input("col"); col.push_back(cc); val.push_back(K::rd(c)); if (!K::real(val.back())) cplx = true; } ptr.push_back((ptrdiff_t)col.size()); }
    std::vector<R> x(mm), y(n); for (auto &v : x) v = K::rdv(c); for (auto &v : y) v = K::rdv(c); c.expect_end();
    amgcl::backend::crs<V> A(n, mm, ptr, col, val);
    auto T = amgcl::backend::transpose(A);
    if ((long)T->nrows != mm || (long)T->ncols != n || T->nnz != A.nnz) { r.fail("transpose: wrong shape / number of non-zeros"); r.out = "shape"; return r; }
    // dense scalar images (duplicate columns add up)
    CDense DA(n * B, std::vector<CQ>(mm * B, CQ(Q(0), Q(0)))), DT(mm * B, std::vector<CQ>(n * B, CQ(Q(0), Q(0))));
    for (long i = 0; i < n; ++i) for (auto j = A.ptr[i]; j < A.ptr[i+1]; ++j) for (int a = 0; a < B; ++a) for (int b = 0; b < B; ++b) DA[i * B + a][A.col[j] * B + b] += K::at(A.val[j], a, b);
    for (long i = 0; i < mm; ++i) for (auto j = T->ptr[i]; j < T->ptr[i+1]; ++j) { if (T->col[j] < 0 || T->col[j] >= n) { r.fail("transpose: column out of range"); r.out = "col"; return r; }
        for (int a = 0; a < B; ++a) for (int b = 0; b < B; ++b) DT[i * B + a][T->col[j] * B + b] += K::at(T->val[j], a, b); }
    if (!c0(CQ(cdiff(DT, cherm(DA)), Q(0)))) r.fail("transpose(A) != A^H (conjugate transpose, blockwise)");
    // <A x, y> = <x, T y> with the real block operators
    CQ lhs(Q(0), Q(0)), rhs(Q(0), Q(0));
    for (long i = 0; i < n; ++i) { R s = m::zero<R>(); for (auto j = A.ptr[i]; j < A.ptr[i+1]; ++j) s += A.val[j] * x[A.col[j]]; lhs += m::inner_product(s, y[i]); }
    for (long i = 0; i < mm; ++i) { R s = m::zero<R>(); for (auto j = T->ptr[i]; j < T->ptr[i+1]; ++j) s += T->val[j] * y[T->col[j]]; rhs += m::inner_product(x[i], s); }
    if (!c0(lhs - rhs)) r.fail("<A x, y> != <x, transpose(A) y>");
    Line l; l << (long)T->nnz; putc(l, lhs); r.out = l.get();
    r.nontrivial = cplx && A.nnz > 0; r.tag("direct_cx_transpose"); r.tag("block" + std::to_string(B)); if (!cplx) r.tag("real_valued");
    return r;
}

static Result execute(const Toks &t) {
    Cur c(t); const std::string &op = t[0]; Result r;
    if (op == "direct_cx_transpose") { long B = c.nat();
        if (B == 1) return run_transpose<CQ, 1>(c); if (B == 2) return run_transpose<amgcl::static_matrix<CQ,2,2>, 2>(c); if (B == 3) return run_transpose<amgcl::static_matrix<CQ,3,3>, 3>(c);
        throw bad_input("block size"); }
    if (op != "direct_qrc_factor" && op != "direct_qrc_solve") { r.out = "bad-op"; return r; }
    const bool slv = op == "direct_qrc_solve";
    long arith = c.nat(), order = c.nat(), m = c.nat(), n = c.nat();
    if (arith < 0 || arith > 1 || order < 0 || order > 1 || m < 1 || n < 1 || m > 16 || n > 16) throw bad_input("shape");
    std::vector<CQ> A(m * n), b; for (auto &x : A) x = rdc(c); if (slv) { b.resize(m); for (auto &x : b) x = rdc(c); } c.expect_end();
    if (arith == 1 && (!dyadic_exact(A) || !dyadic_exact(b))) throw bad_input("not dyadic");
    const Q TOL = arith == 0 ? TOLQ : TOLD; const std::string tn = arith == 0 ? "2^-20" : "2^-28", an = arith == 0 ? "complex<Q>" : "complex<double>";
    const long k = std::min(m, n); CDense dA = cdense(m, n, A); const bool real_data = all_real(A) && all_real(b);
    Q scale = Q(1) + cmaxabs(A);
    r.nontrivial = m * n >= 2 && !all_real(A); r.tag(op); r.tag(arith == 0 ? "qrc_rational" : "qrc_double");
    { bool tri = m * n >= 2; for (long i = 0; i < m; ++i) for (long j = 0; j < n; ++j) if ((m >= n ? j < i : j > i) && !c0(dA[i][j])) tri = false; if (tri) r.tag("triangular_input"); }
    r.tag(order == 0 ? "row_major" : "col_major"); r.tag(m > n ? "tall" : m == n ? "square" : "wide");
    if (real_data) r.tag("real_valued");
    const long rk = crank(dA); if (rk < k) r.tag("rank_deficient");
    // see the header: rsqrt has absolute accuracy only, so every column the factorisation normalises must be independent of the
    // columns before it (the leading min(m,n) columns have full rank)
    CDense lead(m, std::vector<CQ>(k)); for (long i = 0; i < m; ++i) for (long j = 0; j < k; ++j) lead[i][j] = dA[i][j];
    const bool lead_full = crank(lead) == k; if (!lead_full && rk == k) r.tag("leading_columns_dependent");
    const bool judged = arith == 1 || lead_full;
    if (!slv) {
        QRout<CQ> o;
        if (arith == 0) o = qr_factorize<CQ>(order, m, n, A);
        else { auto od = qr_factorize<CD>(order, m, n, to_cd(A)); if (!finite_cd(od.Qk) || !finite_cd(od.R) || !finite_cd(od.Qtail)) { r.fail("complex<double> QR: non-finite output"); r.out = "nonfinite"; return r; } o.Qk = from_cd(od.Qk); o.R = from_cd(od.R); o.Qtail = from_cd(od.Qtail); }
        CDense Qk = cdense(m, k, o.Qk), R = cdense(k, n, o.R);
        for (long i = 0; i < k; ++i) for (long j = 0; j < i; ++j) if (!c0(R[i][j])) r.fail("R(i,j) != 0 below the diagonal");
        for (auto &v : o.Qtail) if (!c0(v)) r.fail("Q(i,j) != 0 for j >= min(m,n)");
        Q d1 = cdiff(cmul(Qk, R), dA); CDense I(k, std::vector<CQ>(k, CQ(Q(0), Q(0)))); for (long i = 0; i < k; ++i) I[i][i] = CQ(Q(1), Q(0));
        Q d2 = cdiff(cmul(cherm(Qk), Qk), I);
        if (judged && d1 > TOL * scale) r.fail(an + " QR: |A - Q R| > " + tn + " * (1 + |A|)");
        if (judged && d2 > TOL) r.fail(an + " QR: |Q^H Q - I| > " + tn + " (Q is not unitary)");
        if (real_data && arith == 0) { auto oq = qr_factorize<Q>(order, m, n, re_of(A)); if (!same_as_real(o.Qk, oq.Qk) || !same_as_real(o.R, oq.R)) r.fail("real-valued data: QR<complex> differs from QR<real>"); }
        r.out = (Line() << (!judged || d1 <= TOL * scale) << (!judged || d2 <= TOL)).get();
    } else {
        std::vector<CQ> x;
        if (arith == 0) x = qr_solve<CQ>(order, m, n, A, b);
        else { auto xd = qr_solve<CD>(order, m, n, to_cd(A), to_cd(b)); if (!finite_cd(xd)) { if (rk == k) r.fail("complex<double> QR::solve: non-finite output for a full-rank system"); r.out = "nonfinite"; return r; } x = from_cd(xd); }
        std::vector<CQ> res = cmv(dA, x); for (long i = 0; i < m; ++i) res[i] -= b[i];
        Q bs = scale * (Q(1) + cmaxabs(b)) * (Q(1) + cmaxabs(x));
        Q d = m > n ? cmaxabs(cmv(cherm(dA), res)) : cmaxabs(res);
        const bool fullrank = rk == k;
        if (fullrank && d > TOL * bs * scale) r.fail(an + (m > n ? " QR::solve: normal equations A^H (A x - b) = 0 violated beyond " : " QR::solve: A x != b beyond ") + tn + " * scale");
        std::vector<CQ> ref; bool have = false;
        if (fullrank) {
            if (m >= n) have = csolve(cmul(cherm(dA), dA), cmv(cherm(dA), b), ref);
            else { std::vector<CQ> w; have = csolve(cmul(dA, cherm(dA)), b, w); if (have) ref = cmv(cherm(dA), w); }
        }
        Q dev(0); if (have) for (long i = 0; i < n; ++i) { Q e = cmax(x[i] - ref[i]); if (e > dev) dev = e; }
        if (have && r.ok && dev > TOLX * (Q(1) + cmaxabs(ref))) r.fail(an + (m >= n ? " QR::solve deviates from the exact least-squares solution by more than 2^-14 (relative)" : " QR::solve deviates from the exact minimum-norm solution by more than 2^-14 (relative)"));
        if (real_data && arith == 0) { auto xq = qr_solve<Q>(order, m, n, re_of(A), re_of(b)); if (!same_as_real(x, xq)) r.fail("real-valued data: QR<complex>::solve differs from QR<real>::solve"); }
        r.tag(m >= n ? "lsq" : "minnorm"); if (have) r.tag("full_rank");
        r.out = (Line() << (fullrank ? 1L : 0L) << (!have || dev <= TOLX * (Q(1) + cmaxabs(ref)))).get();
    }
    return r;
}

// dyadic Gaussian rationals (denominators 1, 2, 4 keep the exact numbers short)
static CQ dy(Rng &rng, long pm, int fam) {
    auto d = [&]() { return Q::frac(rng.range(-pm, pm), 1L << rng.range(0, 2)); };
    switch (fam) { case 1: return CQ(d(), Q(0)); case 2: return CQ(Q(0), d()); default: return CQ(rng.coin(1, 6) ? Q(0) : d(), rng.coin(1, 6) ? Q(0) : d()); }
}
static void generate(Rng &rng, const Opts &o, std::vector<std::string> &lines) {
    const bool T = o.thorough();
    long scale = o.cases > 0 ? o.cases : (T ? 8 : 1);
    const long mx = T ? 6 : 5;
    for (long kk = 0; kk < 40 * scale; ++kk) {
        long m = rng.range(1, mx), n = rng.range(1, mx), order = rng.range(0, 1);
        int fam = (int)rng.range(0, 9);       // 0-5 general, 6 real-valued, 7 purely imaginary, 8 duplicate / zero columns, 9 zero matrix or a single non-zero
        std::vector<CQ> A(m * n);
        for (auto &x : A) x = dy(rng, 6, fam == 6 ? 1 : fam == 7 ? 2 : 0);
        if (fam == 8) { for (long j = 1; j < n; ++j) if (rng.coin(1, 2)) { long s = rng.range(0, j - 1); bool z = rng.coin(1, 3); CQ f = dy(rng, 2, 0); for (long i = 0; i < m; ++i) A[i * n + j] = z ? CQ(Q(0), Q(0)) : f * A[i * n + s]; } }
        if (fam == 9) { for (auto &x : A) x = CQ(Q(0), Q(0)); if (rng.coin()) A[rng.range(0, m * n - 1)] = dy(rng, 4, 0); }
        for (long ar = 0; ar <= 1; ++ar) { Line l; l << "direct_qrc_factor" << ar << order << m << n; for (auto &v : A) putc(l, v); lines.push_back(l.get()); }
        // solve: well-conditioned systems (dominant "diagonal" of modulus 6..8 with arbitrary phase among 1, i, -1, -i, 3+4i ...)
        std::vector<CQ> B(m * n); static const long ph[][2] = { {1,0}, {0,1}, {-1,0}, {0,-1}, {1,1}, {1,-1} };
        for (auto &x : B) x = dy(rng, 2, fam == 6 ? 1 : 0);
        for (long i = 0; i < std::min(m, n); ++i) { auto &p = ph[fam == 6 ? 2 * rng.range(0, 1) : rng.range(0, 5)]; Q s(rng.range(6, 8)); B[i * n + i] += CQ(s * Q(p[0]), s * Q(p[1])); }
        std::vector<CQ> b(m); for (auto &x : b) x = dy(rng, 8, fam == 6 ? 1 : 0);
        // already triangular systems ([U; 0] tall, [L 0] wide, complex diagonal): every reflector is the identity (tau = 0), R keeps a
        // COMPLEX diagonal, which the substitution loops must conjugate / invert as complex numbers
        if (kk % 4 == 0) for (long i = 0; i < m; ++i) for (long j = 0; j < n; ++j) if (m >= n ? j < i : j > i) B[i * n + j] = CQ(Q(0), Q(0));
        for (long ar = 0; ar <= 1; ++ar) { Line l; l << "direct_qrc_solve" << ar << order << m << n; for (auto &v : B) putc(l, v); for (auto &v : b) putc(l, v); lines.push_back(l.get()); }
        if (fam >= 8) for (long ar = 0; ar <= 1; ++ar) { Line l; l << "direct_qrc_solve" << ar << order << m << n; for (auto &v : A) putc(l, v); for (auto &v : b) putc(l, v); lines.push_back(l.get()); }   // rank deficient: no promise beyond termination
    }
    for (long kk = 0; kk < 30 * scale; ++kk) {
        long B = rng.range(1, 3), n = rng.coin(1, 10) ? 0 : rng.range(1, 6), mm = rng.coin(1, 3) ? n : rng.range(rng.coin(1, 10) ? 0 : 1, 6); int dens = (int)rng.range(10, 70), fam = rng.coin(1, 8) ? 1 : 0;
        Line l; l << "direct_cx_transpose" << B << n << mm;
        for (long i = 0; i < n; ++i) { std::vector<long> cs; for (long j = 0; j < mm; ++j) if (rng.range(0, 99) < dens) cs.push_back(j);
            for (size_t q = cs.size(); q > 1; --q) std::swap(cs[q-1], cs[rng.next() % q]);            // unsorted rows
            l << (long)cs.size(); for (long cc : cs) { l << cc; for (long e = 0; e < B * B; ++e) putc(l, dy(rng, 5, fam)); } }
        for (long e = 0; e < (mm + n) * B; ++e) putc(l, dy(rng, 5, fam));
        lines.push_back(l.get());
    }
    lines.push_back("direct_cx_transpose 4 1 1 0 0 0 0 0");           // block size outside the instantiated set
    lines.push_back("direct_cx_transpose 1 1 1 1 1 2 0 1 0 1 0");     // column out of range
    lines.push_back("direct_qrc_factor 0 0 2 2 1 0 0 1 1 0 0");        // too few entries
    lines.push_back("direct_qrc_solve 0 2 1 1 1 0 1 0");               // storage order out of range
    lines.push_back("direct_qrc_factor 1 0 0 1");                      // empty shape
    lines.push_back("direct_qrc_factor 1 0 1 1 1/3 0");                // not exact in binary64
}

VH_MAIN(generate, execute)
