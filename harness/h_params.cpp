// C14 harness (serial components): run-time configuration == compile-time configuration.
//
// Drives the REAL Boost.PropertyTree and the REAL amgcl params structs instantiated at backend::builtin<double>.
// Ops (the same text is answered by lean/Amgcl/Driver/Params.lean from the table regenerated from /repo):
//   params_nested Root c1=T1 … field value |
//   params_compiles S | params_fields S | params_roundtrip S field value | params_export_keys S | params_unknown S key
//   params_enum_print E ident | params_enum_parse E text | params_runtime E ident-or-text
//   params_runtime_a2 E ident variant      the same comparison, but both compositions are set up for the model matrix A and then
//                                          asked to solve with a REPLACEMENT system matrix: solve(A2, rhs, x)  (make_solver's
//                                          documented "non-stationary problem" use).  variant = same | shift:k | scale:k | skew:k |
//                                          coef:k | diag9:k  (k = 1..16), see `replacement`
// Oracles (independent of the Lean model; judged against the hand-written registry below):
//   * a documented value member set through the tree is exported unchanged by params::get
//   * a documented key is never reported through AMGCL_PARAM_UNKNOWN, any other key always is
//   * an enumeration name that operator<< does not print makes operator>> (and the params constructor) throw
//   * run-time wrapper vs compile-time class on the same system: x, iteration count and residual bitwise identical
//   * the same with solve(A2, rhs, x), A2 != setup matrix; in addition (independent of the compile-time class) a run-time solve
//     that reports convergence must satisfy A2 x = rhs (true residual recomputed with plain loops), a run-time solve with A2
//     must not be bitwise the solve with the setup matrix when the compile-time one is not, and solve(copy of A, rhs, x) must
//     be bitwise solve(rhs, x)
//   * a params struct that does not even compile is reported with the compiler's message (deflated_solver probe)
// The translation unit is compiled three times by vcheck.py (tools/checks/C14.json, "flags"), in parallel:
//   -DVP_PART_STRUCTS  struct-level ops, nested chains, enum text ops, compile probes          (harness h_params)
//   -DVP_PART_RT       run-time wrapper comparisons: solver / relaxation / coarsening / pside  (harness h_params_rt)
//   -DVP_PART_RTP      run-time preconditioner (class amg / relaxation / dummy / nested)       (harness h_params_rtp)
// without any of these macros all parts are compiled into one executable.
#if !defined(VP_PART_STRUCTS) && !defined(VP_PART_RT) && !defined(VP_PART_RTP)
#  define VP_PART_STRUCTS
#  define VP_PART_RT
#  define VP_PART_RTP
#endif
#include "params_common.hpp"

#include <amgcl/backend/builtin.hpp>
#include <amgcl/backend/block_crs.hpp>
#include <amgcl/adapter/crs_tuple.hpp>
#include <amgcl/make_solver.hpp>
#include <amgcl/amg.hpp>
#include <amgcl/coarsening/runtime.hpp>
#include <amgcl/coarsening/plain_aggregates.hpp>
#include <amgcl/coarsening/pointwise_aggregates.hpp>
#include <amgcl/relaxation/runtime.hpp>
#include <amgcl/relaxation/as_preconditioner.hpp>
#include <amgcl/solver/runtime.hpp>
#include <amgcl/preconditioner/runtime.hpp>
#include <amgcl/preconditioner/cpr.hpp>
#include <amgcl/preconditioner/cpr_drs.hpp>
#include <amgcl/preconditioner/schur_pressure_correction.hpp>
#include <sys/stat.h>
#include <sys/wait.h>
#include <unistd.h>
#ifdef _OPENMP
#include <omp.h>
#endif

using namespace vh;
using vp::ptree;
namespace ac = amgcl;
typedef ac::backend::builtin<double> B;
typedef ac::amg<B, ac::coarsening::smoothed_aggregation, ac::relaxation::spai0> AMG;

// ------------------------------------------------------------------------------------------------ registry
static void build_registry() {
    static bool done = false; if (done) return; done = true;
#ifdef VP_PART_STRUCTS
    using vp::reg;
    { typedef AMG::params P; auto &S = reg<P>("amg");
      VP_F(S, P, coarsening); VP_F(S, P, relax); VP_F(S, P, coarse_enough); VP_F(S, P, direct_coarse); VP_F(S, P, max_levels);
      VP_F(S, P, npre); VP_F(S, P, npost); VP_F(S, P, ncycle); VP_F(S, P, pre_cycles); VP_F(S, P, allow_rebuild); }
    { typedef ac::backend::block_crs<double>::params P; auto &S = reg<P>("backend::block_crs"); VP_F(S, P, block_size); }
    { typedef ac::coarsening::aggregation<B>::params P; auto &S = reg<P>("coarsening::aggregation");
      VP_F(S, P, aggr); VP_F(S, P, nullspace); VP_F(S, P, over_interp); }
    { typedef ac::coarsening::plain_aggregates::params P; auto &S = reg<P>("coarsening::plain_aggregates"); VP_F(S, P, eps_strong);
      // accepted because pointwise_aggregates::params derives from this struct and hands it the same tree
      S.tolerated = {"block_size"}; }
    { typedef ac::coarsening::pointwise_aggregates::params P; auto &S = reg<P>("coarsening::pointwise_aggregates");
      VP_F(S, P, eps_strong); VP_F(S, P, block_size); }
    { typedef ac::coarsening::ruge_stuben<B>::params P; auto &S = reg<P>("coarsening::ruge_stuben");
      VP_F(S, P, eps_strong); VP_F(S, P, do_trunc); VP_F(S, P, eps_trunc); }
    { typedef ac::coarsening::smoothed_aggr_emin<B>::params P; auto &S = reg<P>("coarsening::smoothed_aggr_emin");
      VP_F(S, P, aggr); VP_F(S, P, nullspace); }
    { typedef ac::coarsening::smoothed_aggregation<B>::params P; auto &S = reg<P>("coarsening::smoothed_aggregation");
      VP_F(S, P, aggr); VP_F(S, P, nullspace); VP_F(S, P, relax); VP_F(S, P, estimate_spectral_radius); VP_F(S, P, power_iters); }
    { typedef ac::coarsening::nullspace_params P; auto &S = reg<P>("coarsening::nullspace_params");
      // `cols` may only be non-zero together with the raw pointer B; get() exports nothing (documented)
      VP_F(S, P, cols); S.fields.back().cand.clear(); S.fields.back().export_exempt = true;
      VP_F(S, P, B); S.companions = {"rows"}; }
    { typedef ac::make_solver<AMG, ac::solver::cg<B>>::params P; auto &S = reg<P>("make_solver"); VP_F(S, P, precond); VP_F(S, P, solver); }
    { typedef ac::preconditioner::cpr<AMG, ac::relaxation::as_preconditioner<B, ac::relaxation::spai0>>::params P; auto &S = reg<P>("preconditioner::cpr");
      VP_F(S, P, pprecond); VP_F(S, P, sprecond); VP_F(S, P, block_size); VP_F(S, P, active_rows); }
    { typedef ac::preconditioner::cpr_drs<AMG, ac::relaxation::as_preconditioner<B, ac::relaxation::spai0>>::params P; auto &S = reg<P>("preconditioner::cpr_drs");
      VP_F(S, P, pprecond); VP_F(S, P, sprecond); VP_F(S, P, block_size); VP_F(S, P, active_rows); VP_F(S, P, eps_dd); VP_F(S, P, eps_ps);
      VP_F(S, P, weights); S.companions = {"weights_size"}; }
    { typedef ac::make_solver<AMG, ac::solver::cg<B>> Sub;
      typedef ac::preconditioner::schur_pressure_correction<Sub, Sub>::params P; auto &S = reg<P>("preconditioner::schur_pressure_correction");
      VP_F(S, P, usolver); VP_F(S, P, psolver); VP_F(S, P, pmask); VP_F(S, P, type); VP_F(S, P, approx_schur); VP_F(S, P, adjust_p);
      VP_F(S, P, simplec_dia); VP_F(S, P, verbose);
      S.required = {{"pmask_size", "4"}, {"pmask_pattern", ">2"}}; S.companions = {"pmask_size", "pmask_pattern"}; }
    { typedef ac::relaxation::chebyshev<B>::params P; auto &S = reg<P>("relaxation::chebyshev");
      VP_F(S, P, degree); VP_F(S, P, higher); VP_F(S, P, lower); VP_F(S, P, power_iters); VP_F(S, P, scale); }
    { typedef ac::relaxation::damped_jacobi<B>::params P; auto &S = reg<P>("relaxation::damped_jacobi"); VP_F(S, P, damping); }
    { typedef ac::relaxation::detail::ilu_solve<ac::backend::block_crs<double>>::params P; auto &S = reg<P>("relaxation::detail::ilu_solve");
      VP_F(S, P, iters); VP_F(S, P, damping); }
    { typedef ac::relaxation::detail::ilu_solve<B>::params P; auto &S = reg<P>("relaxation::detail::ilu_solve<builtin>"); VP_F(S, P, serial); }
    { typedef ac::relaxation::gauss_seidel<B>::params P; auto &S = reg<P>("relaxation::gauss_seidel"); VP_F(S, P, serial); }
    { typedef ac::relaxation::ilu0<B>::params P; auto &S = reg<P>("relaxation::ilu0"); VP_F(S, P, damping); VP_F(S, P, solve);
      // accepted because ilup::params derives from this struct and hands it the same tree
      S.tolerated = {"k"}; }
    { typedef ac::relaxation::iluk<B>::params P; auto &S = reg<P>("relaxation::iluk"); VP_F(S, P, k); VP_F(S, P, damping); VP_F(S, P, solve); }
    { typedef ac::relaxation::ilup<B>::params P; auto &S = reg<P>("relaxation::ilup"); VP_F(S, P, damping); VP_F(S, P, solve); VP_F(S, P, k); }
    {   // ilut::params::get may not compile (member `p` shadowed by get's parameter): executed by probe_params.cpp
        auto &S = vp::reg_external("relaxation::ilut"); S.probe_id = "ILUT";
        for (const char *n : {"p", "tau", "damping"}) { vp::FieldReg f; f.name = n; f.kind = "value"; f.cand = vp::candidates_of<double>(); S.fields.push_back(f); }
        vp::FieldReg f; f.name = "solve"; f.kind = "child"; S.fields.push_back(f); }
    const char *side = "preconditioner::side";
    { typedef ac::solver::bicgstab<B>::params P; auto &S = reg<P>("solver::bicgstab");
      VP_FE(S, P, pside, side); VP_F(S, P, maxiter); VP_F(S, P, tol); VP_F(S, P, abstol); VP_F(S, P, check_after); VP_F(S, P, ns_search); VP_F(S, P, verbose); }
    { typedef ac::solver::bicgstabl<B>::params P; auto &S = reg<P>("solver::bicgstabl");
      VP_F(S, P, L); VP_F(S, P, delta); VP_F(S, P, convex); VP_FE(S, P, pside, side); VP_F(S, P, maxiter); VP_F(S, P, tol); VP_F(S, P, abstol); VP_F(S, P, ns_search); VP_F(S, P, verbose); }
    { typedef ac::solver::cg<B>::params P; auto &S = reg<P>("solver::cg");
      VP_F(S, P, maxiter); VP_F(S, P, tol); VP_F(S, P, abstol); VP_F(S, P, ns_search); VP_F(S, P, verbose); }
    { typedef ac::solver::fgmres<B>::params P; auto &S = reg<P>("solver::fgmres");
      VP_F(S, P, M); VP_F(S, P, maxiter); VP_F(S, P, tol); VP_F(S, P, abstol); VP_F(S, P, ns_search); VP_F(S, P, verbose); }
    { typedef ac::solver::gmres<B>::params P; auto &S = reg<P>("solver::gmres");
      VP_F(S, P, M); VP_FE(S, P, pside, side); VP_F(S, P, maxiter); VP_F(S, P, tol); VP_F(S, P, abstol); VP_F(S, P, ns_search); VP_F(S, P, verbose); }
    { typedef ac::solver::idrs<B>::params P; auto &S = reg<P>("solver::idrs");
      VP_F(S, P, s); VP_F(S, P, omega); VP_F(S, P, smoothing); VP_F(S, P, replacement); VP_F(S, P, maxiter); VP_F(S, P, tol); VP_F(S, P, abstol); VP_F(S, P, ns_search); VP_F(S, P, verbose); }
    { typedef ac::solver::lgmres<B>::params P; auto &S = reg<P>("solver::lgmres");
      VP_F(S, P, M); VP_F(S, P, K); VP_F(S, P, always_reset); VP_FE(S, P, pside, side); VP_F(S, P, maxiter); VP_F(S, P, tol); VP_F(S, P, abstol); VP_F(S, P, ns_search); VP_F(S, P, verbose); }
    { typedef ac::solver::richardson<B>::params P; auto &S = reg<P>("solver::richardson");
      VP_F(S, P, damping); VP_F(S, P, maxiter); VP_F(S, P, tol); VP_F(S, P, abstol); VP_F(S, P, ns_search); VP_F(S, P, verbose); }
    { typedef ac::detail::empty_params P; reg<P>("detail::empty_params"); }
    {   // deflated_solver::params::get may not compile (DESIGN.md §4 #5): executed by probe_params.cpp
        auto &S = vp::reg_external("deflated_solver"); S.probe_id = "DEFLATED";
        vp::FieldReg f; f.name = "nvec"; f.kind = "value"; f.cand = vp::candidates_of<int>(); S.fields.push_back(f);
        f = vp::FieldReg(); f.name = "vec"; f.kind = "pointer"; f.cand = vp::candidates_of<double*>(); S.fields.push_back(f);
        f = vp::FieldReg(); f.name = "precond"; f.kind = "child"; S.fields.push_back(f);
        f = vp::FieldReg(); f.name = "solver"; f.kind = "child"; S.fields.push_back(f); }
#endif
    namespace rt = ac::runtime;
    vp::reg_enum<rt::solver::type>("runtime::solver", {VP_E(rt::solver, cg), VP_E(rt::solver, bicgstab), VP_E(rt::solver, bicgstabl),
        VP_E(rt::solver, gmres), VP_E(rt::solver, lgmres), VP_E(rt::solver, fgmres), VP_E(rt::solver, idrs), VP_E(rt::solver, richardson), VP_E(rt::solver, preonly)});
    vp::reg_enum<rt::relaxation::type>("runtime::relaxation", {VP_E(rt::relaxation, gauss_seidel), VP_E(rt::relaxation, ilu0), VP_E(rt::relaxation, iluk),
        VP_E(rt::relaxation, ilup), VP_E(rt::relaxation, ilut), VP_E(rt::relaxation, damped_jacobi), VP_E(rt::relaxation, spai0), VP_E(rt::relaxation, spai1), VP_E(rt::relaxation, chebyshev)});
    vp::reg_enum<rt::coarsening::type>("runtime::coarsening", {VP_E(rt::coarsening, ruge_stuben), VP_E(rt::coarsening, aggregation),
        VP_E(rt::coarsening, smoothed_aggregation), VP_E(rt::coarsening, smoothed_aggr_emin)});
    vp::reg_enum<rt::precond_class::type>("runtime::precond_class", {VP_E(rt::precond_class, amg), VP_E(rt::precond_class, relaxation),
        VP_E(rt::precond_class, dummy), VP_E(rt::precond_class, nested)});
    vp::reg_enum<ac::preconditioner::side::type>("preconditioner::side", {VP_E(ac::preconditioner::side, left), VP_E(ac::preconditioner::side, right)});
}

// ------------------------------------------------------------------------------------------------ compile probes
// A probe translation unit (probe_params.cpp, one -DVP_PROBE_<id> per struct) is compiled here, at run time, from the same source tree; if it does not compile the
// outcome of every op on that struct is `ill-typed` and the oracle fails with the compiler's first error line.
struct Probe { bool tried = false, ok = false; std::string exe, err; };
static std::map<std::string, Probe>& probes() { static std::map<std::string, Probe> m; return m; }
static std::string sh_quote(const std::string &s) { std::string r = "'"; for (char c : s) { if (c == '\'') r += "'\\''"; else r += c; } return r + "'"; }
static std::string slurp_cmd(const std::string &cmd, int &rc) {
    std::string out; FILE *f = popen(cmd.c_str(), "r"); if (!f) { rc = -1; return out; }
    char buf[4096]; size_t k; while ((k = fread(buf, 1, sizeof buf, f)) > 0) out.append(buf, k);
    int st = pclose(f); rc = WIFEXITED(st) ? WEXITSTATUS(st) : -1; return out;
}
static Probe& ensure_probe(const std::string &id) {
    Probe &p = probes()[id]; if (p.tried) return p; p.tried = true;
    std::string src = __FILE__; size_t sl = src.rfind('/'); std::string hdir = sl == std::string::npos ? "." : src.substr(0, sl);
    const char *e = getenv("AMGCL_REPO"); std::string repo = e ? e : "/repo";
    std::string cdir = hdir + "/../.cache/probe"; (void)!system(("mkdir -p " + sh_quote(cdir)).c_str());
    p.exe = cdir + "/probe_params_" + id + "." + std::to_string((long)getpid());
    int rc; std::string log = slurp_cmd("g++ -std=c++17 -O0 -fopenmp -DAMGCL_VERIF -DVP_PROBE_" + id + " -I" + sh_quote(repo) + " -I" + sh_quote(hdir) + " " +
        sh_quote(hdir + "/probe_params.cpp") + " -o " + sh_quote(p.exe) + " -lgmpxx -lgmp 2>&1", rc);
    p.ok = rc == 0;
    if (!p.ok) {
        // first `error:` line, made path-independent
        std::istringstream is(log); std::string l, first, from;
        while (std::getline(is, l)) {
            if (from.empty() && l.find("required from") != std::string::npos && l.find("amgcl/") != std::string::npos) from = l.substr(0, l.find("required from"));
            if (l.find("error:") != std::string::npos) { first = l; break; }
        }
        if (first.empty()) first = log.substr(0, 200);
        auto rel = [](std::string s) { size_t a = s.find("amgcl/"); if (a != std::string::npos) s = s.substr(a); while (!s.empty() && (s.back() == ' ' || s.back() == ':')) s.pop_back(); return s; };
        first = rel(first); if (!from.empty()) first += " [instantiated from " + rel(from) + "]";
        for (auto &ch : first) if (ch == '\n' || ch == '\r') ch = ' ';
        p.err = first.substr(0, 400);
    }
    return p;
}
static void cleanup_probe() { for (auto &kv : probes()) if (kv.second.tried && kv.second.ok) unlink(kv.second.exe.c_str()); }
static Result probe_exec(const Toks &t, const std::string &id) {
    Result r; Probe &p = ensure_probe(id);
    std::string line; for (size_t i = 0; i < t.size(); ++i) line += (i ? " " : "") + t[i];
    if (t[0] == "params_compiles") {
        if (t.size() != 2) throw bad_input("args");
        r.out = p.ok ? "yes" : "no"; r.nontrivial = true; r.tag(p.ok ? "compiles" : "does_not_compile");
        if (!p.ok) r.fail("struct " + t[1] + ": params (constructor + get) does not compile when instantiated: " + p.err);
        return r;
    }
    if (!p.ok) {
        // the finding is reported once, by `params_compiles`; every other op on the struct is `ill-typed`
        // (ops that are malformed stay malformed)
        const vp::StructReg *S = vp::find_struct(t.size() > 1 ? t[1] : ""); if (!S) throw bad_input("struct");
        if (t[0] == "params_fields") { if (t.size() != 2) throw bad_input("args"); std::vector<std::string> v; for (auto &f : S->fields) v.push_back(f.name + ":" + f.kind); std::sort(v.begin(), v.end()); r.out = vp::keys_line(v); r.nontrivial = true; r.tag("fields"); return r; }
        if (t[0] == "params_roundtrip") { if (t.size() != 4) throw bad_input("args"); const vp::FieldReg *F = S->field(t[2]); if (!F || F->kind == "child") throw bad_input("field"); }
        else if (t[0] == "params_unknown") { if (t.size() != 3) throw bad_input("args"); }
        else if (t.size() != 2) throw bad_input("args");
        r.out = "ill-typed"; r.tag("ill_typed");
        return r;
    }
    int rc; std::string out = slurp_cmd(sh_quote(p.exe) + " " + sh_quote(line) + " 2>&1", rc);
    std::istringstream is(out); std::string l1, l2, l3; std::getline(is, l1); std::getline(is, l2); std::getline(is, l3);
    if (rc != 0 || l2.empty()) { r.out = "probe-crash"; r.fail("params probe " + id + " failed rc=" + std::to_string(rc) + ": " + out.substr(0, 200)); return r; }
    if (l1 == "bad-input") throw bad_input("probe");
    r.out = l1; if (l2 != "ok") r.fail(l2.substr(0, 5) == "FAIL " ? l2.substr(5) : l2);
    std::istringstream ms(l3); int nt = 0; ms >> nt; r.nontrivial = nt != 0; std::string tg; while (ms >> tg) r.tag(tg);
    return r;
}

// ------------------------------------------------------------------------------------------------ runtime vs compile time
struct Sys { size_t n; std::vector<ptrdiff_t> ptr, col; std::vector<double> val, rhs; };
static Sys poisson2d(int m, bool nonsym) {
    Sys s; s.n = (size_t)m * m; s.ptr.push_back(0);
    for (int j = 0; j < m; ++j) for (int i = 0; i < m; ++i) {
        auto add = [&](int ii, int jj, double v) { if (ii >= 0 && ii < m && jj >= 0 && jj < m) { s.col.push_back(jj * m + ii); s.val.push_back(v); } };
        add(i, j - 1, -1.0); add(i - 1, j, nonsym ? -1.25 : -1.0); add(i, j, 4.0); add(i + 1, j, nonsym ? -0.75 : -1.0); add(i, j + 1, -1.0);
        s.ptr.push_back((ptrdiff_t)s.col.size());
        s.rhs.push_back(1.0 + 0.125 * ((i * 7 + j * 3) % 5));
    }
    return s;
}
struct Out { std::vector<double> x; size_t iters = 0; double resid = 0; int levels = -1; };
static bool bitwise_equal(const Out &a, const Out &b) {
    return a.iters == b.iters && memcmp(&a.resid, &b.resid, sizeof(double)) == 0 && a.x.size() == b.x.size() &&
           (a.x.empty() || memcmp(a.x.data(), b.x.data(), a.x.size() * sizeof(double)) == 0);
}
// a2 == nullptr: solve(rhs, x);  otherwise the solver is set up for `s` and asked to solve with the replacement matrix: solve(A2, rhs, x)
template <class Solver, class Prm> static Out run(const Sys &s, const Prm &prm, const Sys *a2 = nullptr) {
    Solver S(std::tie(s.n, s.ptr, s.col, s.val), prm);
    Out o; o.x.assign(s.n, 0.0);
    if (a2) {
        ac::backend::crs<double> A2(std::tie(a2->n, a2->ptr, a2->col, a2->val));
        std::tie(o.iters, o.resid) = S(A2, s.rhs, o.x);
    } else
    std::tie(o.iters, o.resid) = S(s.rhs, o.x);
    { std::ostringstream os; os << S; std::string d = os.str(); size_t a = d.find("Number of levels:"); if (a != std::string::npos) o.levels = atoi(d.c_str() + a + 17); }
    return o;
}
template <class P> static auto set_maxiter(P &p, int) -> decltype(p.maxiter, void()) { p.maxiter = 7; }
template <class P> static void set_maxiter(P &, long) {}
template <class P> static auto has_maxiter(const P &p, int) -> decltype(p.maxiter, true) { return true; }
template <class P> static bool has_maxiter(const P &, long) { return false; }

static const int MAXIT = 7;
static const unsigned CE = 8;   // coarse_enough: forces a hierarchy with >= 2 levels on the 81-unknown model problem, so that
                                // relaxation and coarsening objects are really constructed (a one-level hierarchy never
                                // reads relax.type / coarsening.type)

// each `ct_*` runs the compile-time composition named by the enumerator; returns false for an unknown enumerator
#ifdef VP_PART_RT
static bool ct_solver(const std::string &id, const Sys &s, const Sys *a2, Out &o, bool &maxiter) {
#define X(T) if (id == #T) { typedef ac::make_solver<AMG, ac::solver::T<B>> S; S::params p; p.precond.coarse_enough = CE; set_maxiter(p.solver, 0); maxiter = has_maxiter(p.solver, 0); o = run<S>(s, p, a2); return true; }
    X(cg) X(bicgstab) X(bicgstabl) X(gmres) X(lgmres) X(fgmres) X(idrs) X(richardson) X(preonly)
#undef X
    return false;
}
static bool ct_relax(const std::string &id, const Sys &s, const Sys *a2, Out &o) {
#define X(T) if (id == #T) { typedef ac::make_solver<ac::amg<B, ac::coarsening::smoothed_aggregation, ac::relaxation::T>, ac::solver::bicgstab<B>> S; S::params p; p.solver.maxiter = MAXIT; p.precond.npre = 2; p.precond.coarse_enough = CE; o = run<S>(s, p, a2); return true; }
    X(gauss_seidel) X(ilu0) X(iluk) X(ilup) X(ilut) X(damped_jacobi) X(spai0) X(spai1) X(chebyshev)
#undef X
    return false;
}
static bool ct_coarsening(const std::string &id, const Sys &s, const Sys *a2, Out &o) {
#define X(T) if (id == #T) { typedef ac::make_solver<ac::amg<B, ac::coarsening::T, ac::relaxation::spai0>, ac::solver::bicgstab<B>> S; S::params p; p.solver.maxiter = MAXIT; p.precond.coarse_enough = CE; o = run<S>(s, p, a2); return true; }
    X(ruge_stuben) X(aggregation) X(smoothed_aggregation) X(smoothed_aggr_emin)
#undef X
    return false;
}
#endif
#ifdef VP_PART_RTP
static bool ct_class(const std::string &id, const Sys &s, const Sys *a2, Out &o) {
    typedef ac::solver::fgmres<B> Outer;
    if (id == "amg") { typedef ac::make_solver<AMG, Outer> S; S::params p; p.solver.maxiter = MAXIT; p.precond.coarse_enough = CE; o = run<S>(s, p, a2); return true; }
    if (id == "relaxation") { typedef ac::make_solver<ac::relaxation::as_preconditioner<B, ac::relaxation::spai0>, Outer> S; S::params p; p.solver.maxiter = MAXIT; o = run<S>(s, p, a2); return true; }
    if (id == "dummy") { typedef ac::make_solver<ac::preconditioner::dummy<B>, Outer> S; S::params p; p.solver.maxiter = MAXIT; o = run<S>(s, p, a2); return true; }
    if (id == "nested") { typedef ac::make_solver<ac::make_solver<AMG, ac::solver::bicgstab<B>>, Outer> S; S::params p; p.solver.maxiter = MAXIT; p.precond.solver.maxiter = 2; p.precond.precond.coarse_enough = CE; o = run<S>(s, p, a2); return true; }
    return false;
}

#endif

// ---- replacement system matrices for `params_runtime_a2`: all entries stay dyadic, the sparsity pattern of `diag9` differs from the setup matrix
struct Variant { std::string kind; int k = 0; bool same() const { return kind == "same"; } };
static const char *const VARIANT_KINDS[] = {"shift", "scale", "skew", "coef", "diag9"};
static Variant parse_variant(const std::string &v) {
    Variant r; if (v == "same") { r.kind = v; return r; }
    size_t c = v.find(':'); if (c == std::string::npos) throw bad_input("variant");
    r.kind = v.substr(0, c); const std::string num = v.substr(c + 1);
    if (std::find_if(std::begin(VARIANT_KINDS), std::end(VARIANT_KINDS), [&](const char *k) { return r.kind == k; }) == std::end(VARIANT_KINDS)) throw bad_input("variant kind");
    if (num.empty() || num.size() > 2 || num[0] == '0') throw bad_input("variant number");
    for (char ch : num) if (ch < '0' || ch > '9') throw bad_input("variant number");
    r.k = atoi(num.c_str()); if (r.k < 1 || r.k > 16) throw bad_input("variant range");
    return r;
}
//   same     a separately assembled copy of the setup matrix
//   shift:k  diagonal + k/8                                  (reaction term; stays symmetric)
//   scale:k  (1 + k/8) * A                                   (stays symmetric)
//   skew:k   west coefficient - k/16, east coefficient + k/16 (convection; non-symmetric)
//   coef:k   diagonal of row r + ((5 r + 3) mod (k+1)) / 8     (slowly varying coefficient; stays symmetric)
//   diag9:k  the four corner neighbours coupled with -k/16, diagonal + (number of corners) k/16   (different pattern; stays symmetric)
static Sys replacement(const Sys &s, int m, const Variant &v) {
    Sys a; a.n = s.n; a.rhs = s.rhs; a.ptr.push_back(0);
    for (ptrdiff_t r = 0; r < (ptrdiff_t)s.n; ++r) {
        const int i = (int)(r % m), j = (int)(r / m);
        std::map<ptrdiff_t, double> row;
        for (ptrdiff_t q = s.ptr[r]; q < s.ptr[r + 1]; ++q) row[s.col[q]] += s.val[q];
        if (v.kind == "shift") row[r] += v.k / 8.0;
        else if (v.kind == "scale") { for (auto &cv : row) cv.second *= 1.0 + v.k / 8.0; }
        else if (v.kind == "skew") { if (i > 0) row[r - 1] -= v.k / 16.0; if (i + 1 < m) row[r + 1] += v.k / 16.0; }
        else if (v.kind == "coef") row[r] += (double)((5 * r + 3) % (v.k + 1)) / 8.0;
        else if (v.kind == "diag9") {
            for (int dj = -1; dj <= 1; dj += 2) for (int di = -1; di <= 1; di += 2) {
                int ii = i + di, jj = j + dj; if (ii < 0 || ii >= m || jj < 0 || jj >= m) continue;
                row[(ptrdiff_t)jj * m + ii] -= v.k / 16.0; row[r] += v.k / 16.0;
            }
        }
        for (auto &cv : row) { a.col.push_back(cv.first); a.val.push_back(cv.second); }
        a.ptr.push_back((ptrdiff_t)a.col.size());
    }
    return a;
}
static bool same_matrix(const Sys &a, const Sys &b) { return a.ptr == b.ptr && a.col == b.col && a.val == b.val; }
// ||rhs - A x|| / ||rhs|| with plain loops (no amgcl code)
static double true_residual(const Sys &a, const std::vector<double> &rhs, const std::vector<double> &x) {
    double rr = 0, ff = 0;
    for (size_t r = 0; r < a.n; ++r) { double t = rhs[r]; for (ptrdiff_t q = a.ptr[r]; q < a.ptr[r + 1]; ++q) t -= a.val[q] * x[a.col[q]]; rr += t * t; ff += rhs[r] * rhs[r]; }
    return std::sqrt(rr / ff);
}

// one run-time composition (configured through a property tree with the text `text` of enumerator `x`) and the compile-time composition of
// the same components; both set up for `s`; a2 == nullptr: solve(rhs, x), otherwise solve(*a2, rhs, x)
static void solve_pair(const std::string &e, const std::string &x, const std::string &text, const Sys &s, const Sys *a2, Out &rt, Out &ct, bool &known) {
    ptree p;
    if (false) {
#ifdef VP_PART_RT
    } else if (e == "runtime::solver") {
        bool mi = false; known = ct_solver(x, s, a2, ct, mi);
        p.put("solver.type", text); if (mi) p.put("solver.maxiter", MAXIT); p.put("precond.coarse_enough", CE);
        rt = run<ac::make_solver<AMG, ac::runtime::solver::wrapper<B>>>(s, p, a2);
    } else if (e == "runtime::relaxation") {
        known = ct_relax(x, s, a2, ct);
        p.put("precond.relax.type", text); p.put("precond.npre", 2); p.put("solver.maxiter", MAXIT); p.put("precond.coarse_enough", CE);
        rt = run<ac::make_solver<ac::amg<B, ac::coarsening::smoothed_aggregation, ac::runtime::relaxation::wrapper>, ac::solver::bicgstab<B>>>(s, p, a2);
    } else if (e == "runtime::coarsening") {
        known = ct_coarsening(x, s, a2, ct);
        p.put("precond.coarsening.type", text); p.put("precond.coarse_enough", CE); p.put("solver.maxiter", MAXIT);
        rt = run<ac::make_solver<ac::amg<B, ac::runtime::coarsening::wrapper, ac::relaxation::spai0>, ac::solver::bicgstab<B>>>(s, p, a2);
#endif
#ifdef VP_PART_RTP
    } else if (e == "runtime::precond_class") {
        known = ct_class(x, s, a2, ct);
        p.put("precond.class", text); p.put("solver.maxiter", MAXIT);
        if (x == "nested") { p.put("precond.solver.maxiter", 2); p.put("precond.precond.coarse_enough", CE); }
        if (x == "amg") p.put("precond.coarse_enough", CE);
        rt = run<ac::make_solver<ac::runtime::preconditioner<B>, ac::solver::fgmres<B>>>(s, p, a2);
#endif
#ifdef VP_PART_RT
    } else if (e == "preconditioner::side") {
        typedef ac::make_solver<AMG, ac::solver::gmres<B>> S; S::params q; q.solver.maxiter = MAXIT; q.precond.coarse_enough = CE;
        if (x == "left") q.solver.pside = ac::preconditioner::side::left; else if (x == "right") q.solver.pside = ac::preconditioner::side::right; else throw bad_input("side");
        ct = run<S>(s, q, a2); known = true;
        p.put("solver.pside", text); p.put("solver.maxiter", MAXIT); p.put("precond.coarse_enough", CE);
        rt = run<S>(s, S::params(p), a2);
#endif
    } else throw bad_input("enum without run-time comparison in this part of the harness");
}

static const int MODEL_M = 9;   // 9 x 9 grid, 81 unknowns
static bool symmetric_only(const std::string &e, const std::string &x) { return e == "runtime::solver" && (x == "cg" || x == "richardson"); }

static Result runtime_op(const Toks &t, bool a2op) {
    Cur c(t); const std::string e = c.tok(), x = c.tok(); const std::string vtxt = a2op ? c.tok() : std::string(); c.expect_end();
    const vp::EnumReg *E = vp::find_enum(e); if (!E) throw bad_input("enum");
    Result r; r.nontrivial = true; r.tag((a2op ? "runtime_a2_" : "runtime_") + e.substr(e.rfind(':') + 1));
#ifdef _OPENMP
    omp_set_num_threads(1);     // bitwise comparison of two solves: keep the reductions deterministic
#endif
    // the text put into the tree is what the real operator<< prints for the enumerator
    bool is_ident = std::find(E->idents.begin(), E->idents.end(), x) != E->idents.end();
    if (!is_ident) throw bad_input("ident");
    Variant var; if (a2op) var = parse_variant(vtxt);
    const std::string text = E->print(x);
    const bool nonsym = e != "runtime::solver" || (x != "cg");
    Sys s = poisson2d(MODEL_M, nonsym && x != "richardson");
    const std::string who = "enum " + e + " value " + x;
    Out rt, ct; bool known = false;
    try {
        if (!a2op) {
            solve_pair(e, x, text, s, nullptr, rt, ct, known);
            if (!known) { r.out = "no-compile-time-class"; r.fail(who + ": the harness has no compile-time composition for this enumerator (new value?)"); return r; }
            if (bitwise_equal(rt, ct)) r.out = "same";
            else { r.out = "differ"; r.fail(who + ": run-time wrapper and compile-time class differ (iters " + std::to_string(rt.iters) + " vs " + std::to_string(ct.iters) + ")"); }
        } else {
            // both compositions are set up for `s`; rt/ct solve with the replacement matrix, rt1/ct1 with the setup matrix (two-argument form)
            const Sys a2 = replacement(s, MODEL_M, var);
            if (same_matrix(a2, s) != var.same()) r.fail("harness: replacement matrix " + vtxt + " is not what its name says");
            Out rt1, ct1; bool known1 = false;
            solve_pair(e, x, text, s, &a2, rt, ct, known);
            if (!known) { r.out = "no-compile-time-class"; r.fail(who + ": the harness has no compile-time composition for this enumerator (new value?)"); return r; }
            solve_pair(e, x, text, s, nullptr, rt1, ct1, known1);
            r.tag("a2_" + var.kind);
            const bool rt_moved = !bitwise_equal(rt, rt1), ct_moved = !bitwise_equal(ct, ct1);
            std::ostringstream d; d.precision(17);
            d << who << ", setup for A, solve(A2, rhs, x) with A2 = " << vtxt << ": ";
            if (bitwise_equal(rt, ct)) r.out = "same";
            else {
                r.out = "differ";
                std::ostringstream w; w.precision(17);
                w << d.str() << "run-time wrapper and compile-time class differ (iters " << rt.iters << " vs " << ct.iters << ", reported residual " << rt.resid << " vs " << ct.resid
                  << ", true residual |rhs - A2 x|/|rhs| " << true_residual(a2, s.rhs, rt.x) << " vs " << true_residual(a2, s.rhs, ct.x) << ")";
                if (!var.same() && !rt_moved && ct_moved) w << "; the run-time result is bitwise the result of solve(rhs, x): the supplied matrix A2 is ignored";
                if (!var.same() && rt_moved && !ct_moved) w << "; the compile-time result is bitwise the result of solve(rhs, x): the supplied matrix A2 is ignored";
                r.fail(w.str());
            }
            if (var.same()) {
                // a separately assembled copy of the setup matrix: the three-argument form must be the two-argument form
                if (rt_moved) r.fail(d.str() + "run-time solve(copy of A, rhs, x) is not bitwise solve(rhs, x)");
                if (ct_moved) r.fail(d.str() + "compile-time solve(copy of A, rhs, x) is not bitwise solve(rhs, x)");
            } else {
                if (ct_moved) r.tag("a2_changes_result");
                if (rt_moved != ct_moved) r.fail(d.str() + (rt_moved ? "only the run-time" : "only the compile-time") + " composition reacts to the replacement matrix");
                r.nontrivial = rt_moved || ct_moved;     // false for preonly, which never reads the system matrix
            }
            // independent of the other composition: a solve that reports convergence has solved A2 x = rhs
            auto converged = [&](const Out &o, const char *name) {
                if (!(o.iters >= 1 && o.iters < (size_t)MAXIT && o.resid <= 1e-8)) return;
                r.tag("a2_converged");
                double tr = true_residual(a2, s.rhs, o.x);
                if (!(tr < 1e-4)) { std::ostringstream w; w.precision(17); w << d.str() << name << " composition reports convergence (iters " << o.iters << ", residual " << o.resid
                    << ") but A2 x != rhs: true relative residual " << tr; r.fail(w.str()); }
            };
            converged(rt, "run-time"); converged(ct, "compile-time");
        }
        // BiCGStab(L) counts whole sweeps of L (default 2) steps and tests `iter < maxiter` between sweeps: the last sweep may end at maxiter + L - 1
        const size_t iter_bound = (size_t)MAXIT + (e == "runtime::solver" && x == "bicgstabl" ? 1 : 0);
        if (rt.iters > iter_bound) r.fail(who + ": maxiter set through the tree did not take effect");
        if (rt.iters >= 2) r.tag("iters_ge2");
        if (rt.levels >= 2) r.tag("levels_ge2");
        if (rt.levels != ct.levels) r.fail(who + ": run-time and compile-time hierarchies have different depth");
        if (rt.levels >= 0 && rt.levels < 2) r.fail("harness: model problem too small, the hierarchy has a single level (components never constructed)");
    } catch (const std::invalid_argument &ex) {
        std::string w = ex.what();
        if (w.find("Unsupported") != std::string::npos) { r.out = "unsupported"; r.fail(who + ": no case in a wrapper switch (" + w.substr(0, 60) + ")"); }
        else { r.out = "invalid"; r.fail(who + ": the name '" + text + "' printed by operator<< is rejected by operator>> (" + w.substr(0, 60) + ")"); }
    }
    return r;
}

// ------------------------------------------------------------------------------------------------ protocol
static Result execute(const Toks &t) {
    build_registry();
    Result r;
    const std::string &op = t[0];
    if ((op == "params_fields" || op == "params_roundtrip" || op == "params_export_keys" || op == "params_unknown" || op == "params_compiles") && t.size() > 1) {
        const vp::StructReg *S = vp::find_struct(t[1]);
        if (S && S->external) return probe_exec(t, S->probe_id);
    }
    if (op == "params_compiles") {     // a struct registered with its real type is part of this translation unit
        Cur c(t); const std::string s = c.tok(); c.expect_end();
        if (!vp::find_struct(s)) throw bad_input("struct");
        r.out = "yes"; r.nontrivial = true; r.tag("compiles"); return r;
    }
    if (vp::struct_op(t, r)) return r;
    if (vp::enum_text_op(t, r)) return r;
    if (op == "params_runtime") return runtime_op(t, false);
    if (op == "params_runtime_a2") return runtime_op(t, true);
    throw bad_input("op");
}

static void generate(Rng &rng, const Opts &o, std::vector<std::string> &lines) {
    build_registry();
#ifdef VP_PART_STRUCTS
    vp::gen_struct_ops(rng, o.thorough(), lines);
    vp::gen_nested_ops(rng, o.thorough(), {
        "make_solver precond=amg npre",
        "make_solver precond=amg coarsening=coarsening::smoothed_aggregation relax",
        "make_solver precond=amg coarsening=coarsening::smoothed_aggregation aggr=coarsening::plain_aggregates eps_strong",
        "make_solver solver=solver::cg maxiter",
        "preconditioner::schur_pressure_correction usolver=make_solver precond=amg ncycle",
        "preconditioner::schur_pressure_correction psolver=make_solver solver=solver::cg tol",
        "preconditioner::cpr pprecond=amg coarsening=coarsening::smoothed_aggregation power_iters",
        "preconditioner::cpr_drs pprecond=amg allow_rebuild",
        "coarsening::aggregation aggr=coarsening::plain_aggregates eps_strong",
        "relaxation::iluk solve=relaxation::detail::ilu_solve<builtin> serial",
        "relaxation::ilup solve=relaxation::detail::ilu_solve<builtin> serial",
        "relaxation::ilu0 solve=relaxation::detail::ilu_solve<builtin> serial",
        "solver::gmres pside"}, lines);
    vp::gen_enum_text_ops(rng, o.thorough(), lines);
    vp::gen_malformed(lines);
#endif
    for (auto &E : vp::enums()) for (auto &id : E.idents) {
        bool rtp = E.name == "runtime::precond_class";
#ifndef VP_PART_RT
        if (!rtp) continue;
#endif
#ifndef VP_PART_RTP
        if (rtp) continue;
#endif
        lines.push_back("params_runtime " + E.name + " " + id);
        // replacement-matrix solves: the copy, plus {2 random (quick) | every kind x 3 random sizes (thorough)} variants with A2 != A
        lines.push_back("params_runtime_a2 " + E.name + " " + id + " same");
        std::vector<std::string> kinds;
        for (const char *k : VARIANT_KINDS) if (!(std::string(k) == "skew" && symmetric_only(E.name, id))) kinds.push_back(k);
        if (o.thorough()) { for (auto &k : kinds) for (int q = 0; q < 3; ++q) lines.push_back("params_runtime_a2 " + E.name + " " + id + " " + k + ":" + std::to_string(rng.range(1, 16))); }
        else {
            long k1 = rng.range(0, (long)kinds.size() - 1), k2 = (k1 + rng.range(1, (long)kinds.size() - 1)) % (long)kinds.size();     // two different kinds
            for (long k : {k1, k2}) lines.push_back("params_runtime_a2 " + E.name + " " + id + " " + kinds[k] + ":" + std::to_string(rng.range(1, 16)));
        }
    }
    lines.push_back("params_runtime runtime::solver no_such_solver");
    lines.push_back("params_runtime");
    lines.push_back("params_runtime_a2 runtime::solver cg");
    lines.push_back("params_runtime_a2 runtime::solver no_such_solver same");
    lines.push_back("params_runtime_a2 no_such_enum cg same");
    lines.push_back("params_runtime_a2 runtime::solver cg shift:0");
    lines.push_back("params_runtime_a2 runtime::solver cg shift:17");
    lines.push_back("params_runtime_a2 runtime::solver cg shift:03");
    lines.push_back("params_runtime_a2 runtime::solver cg shift:");
    lines.push_back("params_runtime_a2 runtime::solver cg warp:3");
    lines.push_back("params_runtime_a2 runtime::solver cg same extra");
}

int main(int argc, char **argv) {
    int rc = vh::harness_main(argc, argv, generate, execute);
    cleanup_probe();
    return rc;
}
