// C20 harness: the C interface lib/amgcl.cpp (0- and 1-based) against the C++ run-time interface.
//
// The REAL lib/amgcl.cpp is compiled into this translation unit (#include below; /repo is on the include path,
// so a mutated AMGCL_REPO is picked up).  Every array handed to the C API lives in a heap block of EXACTLY the
// size the interface documents (n+1 / nnz / n elements): ASan red zones start right behind (and right before) it,
// so a read outside the caller's arrays aborts the case (reported by vcheck.py as asan:heap-buffer-overflow).
// Matrix arrays and parameter handles are released immediately after the create call (the C API keeps no reference:
// a retained pointer shows up as heap-use-after-free).
//
// Ops answered by the Lean model as well (harness entry h_capi):
//   capi_view β n <ptr> <col> <val>      raw caller arrays (k v1..vk each), index base β: the system matrix the
//                                         C API builds from them (rows through the iterator-range view, copied by the
//                                         crs constructor, row-sorted by amg) -- read back from the handle
//   capi_script n <call>*                handle life cycle (see lean/Amgcl/Driver/CApi.lean); a script that the
//                                         harness' own shadow bookkeeping finds valid is executed for real
//                                         (ASan + LeakSanitizer) and every apply/solve/report is compared with a C++
//                                         reference object; an invalid one is executed up to the offending call
//   capi_params <call>*                  CONTENT of parameter handles after a history of amgcl_params_create / seti / setf /
//                                         sets / read_json / destroy calls (same path written repeatedly, file values
//                                         overridden by setters, a file replacing earlier content, several handles): the tree
//                                         read back from the real handle; oracle after every call: every written path reads
//                                         back the LAST value written to it, no duplicate sibling keys, tree == boost ptree
//                                         filled with the same put() sequence
// Implementation-vs-implementation ops (harness entry h_capi_x, -DCAPI_IMPL_ONLY, "no_model"):
//   capi_solve nt β K (key i|f|s value)^K  A  hasA2 [A2]  rhs  x0
//       C handle API (params through typed setters AND through amgcl_params_read_json AND, when K = 0, NULL),
//       amgcl_solver_create[_f] / solve / solve_f / solve_mtx[_f], amgcl_precond_create[_f] / apply, reports, against
//       make_solver<amg<runtime coarsening, runtime relaxation>, runtime solver>  and
//       make_solver<runtime::preconditioner<Backend>, runtime::solver::wrapper<Backend>>  with the same ptree:
//       x, iteration count, residual, report text, stored system matrix, exported parameters, list of parameters
//       reported as unknown -- all compared BITWISE / textually.
//       Data: dyadic rationals (exact in binary64; checked, else bad-input).  Result line: iteration counts, residual
//       bit patterns, FNV hashes of the solution bit patterns (no floats, no addresses).
//   capi_hist nt A rhs x0 <event>*        parameter-handle HISTORIES executed for real (see do_hist): new / set / json / pdel on
//       parameter handles interleaved with mk (all four create entry points, or NULL parameters), use, odel of solver and
//       preconditioner objects; the handle tree is checked after every write as in capi_params, every object is compared with
//       the C++ classes configured from a ptree filled with the same put() sequence, every _f entry point with its twin.
#include <vector>
#include <string>
// unknown-parameter warnings of amgcl are recorded instead of printed (compared between the two sides)
inline std::vector<std::string>& capi_unknown() { static std::vector<std::string> v; return v; }
#define AMGCL_PARAM_UNKNOWN(name) (capi_unknown().push_back(name))
#include "gen.hpp"
#include "lib/amgcl.cpp"
#ifdef CAPI_IMPL_ONLY
#include <amgcl/preconditioner/runtime.hpp>
#endif
#include <sanitizer/lsan_interface.h>
extern "C" size_t __sanitizer_get_current_allocated_bytes(void);      // libasan (sanitizer/allocator_interface.h is not shipped with gcc)
#include <sstream>
#include <cstring>
#include <unistd.h>
#ifdef _OPENMP
#include <omp.h>
#endif
using namespace vh;

namespace amgcl_verif { struct access {
    template <class A> static size_t nlevels(const A &a) { return a.levels.size(); }
}; }

static std::string g_outdir = ".";
typedef boost::property_tree::ptree PT;

// ---------------------------------------------------------------- exact-size heap arrays
template <class T> struct Exact {
    T *p; size_t n;
    explicit Exact(const std::vector<T> &v) : p(new T[v.size()]), n(v.size()) { std::copy(v.begin(), v.end(), p); }
    ~Exact() { release(); }
    void release() { delete[] p; p = nullptr; }       // from here on any access by the library is a use-after-free
    std::vector<T> vec() const { return std::vector<T>(p, p + n); }
    Exact(const Exact&) = delete; Exact& operator=(const Exact&) = delete;
};

struct Sys { int n = 0; std::vector<int> ptr, col; std::vector<double> val; };   // 0-based

static double exact_double(const Q &q) {
    if (q.poison) throw bad_input("poison");
    double d = (double)q;
    if (!(Q(d) == q)) throw bad_input("not exact in binary64");
    return d;
}
static Sys to_sys(const Mat &A) {
    if (A.n != A.m || A.n < 1) throw bad_input("square");
    Sys S; S.n = (int)A.n;
    for (auto p : A.ptr) S.ptr.push_back((int)p);
    for (auto c : A.col) { if (c < 0 || c >= A.n) throw bad_input("col"); S.col.push_back((int)c); }
    for (auto &v : A.val) S.val.push_back(exact_double(v));
    return S;
}
static std::vector<int> shifted(const std::vector<int> &v, int b) { std::vector<int> r(v); for (auto &x : r) x += b; return r; }
static std::vector<double> to_doubles(const std::vector<Q> &v) { std::vector<double> r; for (auto &x : v) r.push_back(exact_double(x)); return r; }

static uint64_t bits(double d) { uint64_t u; std::memcpy(&u, &d, 8); return u; }
static bool same_bits(const std::vector<double> &a, const std::vector<double> &b) {
    return a.size() == b.size() && (a.empty() || std::memcmp(a.data(), b.data(), 8 * a.size()) == 0);
}
static std::string hex(uint64_t u) { char b[32]; snprintf(b, sizeof b, "%016llx", (unsigned long long)u); return b; }
static std::string vhash(const std::vector<double> &v) {
    uint64_t h = 1469598103934665603ULL;
    for (double d : v) { uint64_t u = bits(d); for (int k = 0; k < 8; ++k) { h ^= (u >> (8 * k)) & 0xff; h *= 1099511628211ULL; } }
    return hex(h);
}
template <class M> static std::string crs_sig(const M &A) {           // bitwise signature of a stored crs<double>
    std::ostringstream s; s << A.nrows << 'x' << A.ncols << ':';
    for (size_t i = 0; i <= A.nrows; ++i) s << A.ptr[i] << ',';
    for (ptrdiff_t j = 0; j < (ptrdiff_t)A.ptr[A.nrows]; ++j) s << A.col[j] << '=' << hex(bits(A.val[j])) << ',';
    return s.str();
}
struct CoutCapture {
    std::ostringstream ss; std::streambuf *old;
    CoutCapture() : old(std::cout.rdbuf(ss.rdbuf())) {}
    ~CoutCapture() { std::cout.rdbuf(old); }
    std::string str() { return ss.str(); }
};
static std::string pt_json(const PT &p) { std::ostringstream s; boost::property_tree::write_json(s, p, false); return s.str(); }

// ---------------------------------------------------------------- the C calls on exact-size arrays
struct CArrays {
    Exact<int> ptr, col; Exact<double> val;
    CArrays(const Sys &S, int base) : ptr(shifted(S.ptr, base)), col(shifted(S.col, base)), val(S.val) {}
    void release() { ptr.release(); col.release(); val.release(); }
};
static amgclHandle c_precond_create(const Sys &S, int base, amgclHandle prm) {
    CArrays a(S, base);
    amgclHandle h = base ? amgcl_precond_create_f(S.n, a.ptr.p, a.col.p, a.val.p, prm)
                         : amgcl_precond_create  (S.n, a.ptr.p, a.col.p, a.val.p, prm);
    return h;      // arrays are freed here: the handle must not refer to them
}
static amgclHandle c_solver_create(const Sys &S, int base, amgclHandle prm) {
    CArrays a(S, base);
    amgclHandle h = base ? amgcl_solver_create_f(S.n, a.ptr.p, a.col.p, a.val.p, prm)
                         : amgcl_solver_create  (S.n, a.ptr.p, a.col.p, a.val.p, prm);
    return h;
}
static std::vector<double> c_apply(amgclHandle h, const std::vector<double> &rhs) {
    Exact<double> f(rhs), x(std::vector<double>(rhs.size(), -777.0));      // apply must overwrite x
    amgcl_precond_apply(h, f.p, x.p);
    return x.vec();
}
struct SolveOut { int it = -1; double res = 0; std::vector<double> x; };
static SolveOut c_solve(amgclHandle h, const std::vector<double> &rhs, const std::vector<double> &x0, bool fortran_style) {
    Exact<double> f(rhs), x(x0); conv_info c; c.iterations = -1; c.residual = 0;
    if (fortran_style) amgcl_solver_solve_f(h, f.p, x.p, &c); else c = amgcl_solver_solve(h, f.p, x.p);
    SolveOut o; o.it = c.iterations; o.res = c.residual; o.x = x.vec(); return o;
}
static SolveOut c_solve_mtx(amgclHandle h, const Sys &S2, int base, const std::vector<double> &rhs, const std::vector<double> &x0) {
    CArrays a(S2, base); Exact<double> f(rhs), x(x0); conv_info c; c.iterations = -1; c.residual = 0;
    if (base) amgcl_solver_solve_mtx_f(h, a.ptr.p, a.col.p, a.val.p, f.p, x.p, &c);
    else c = amgcl_solver_solve_mtx(h, a.ptr.p, a.col.p, a.val.p, f.p, x.p);
    SolveOut o; o.it = c.iterations; o.res = c.residual; o.x = x.vec(); return o;
}
template <class S, class Tup> static SolveOut ref_solve(const S &s, const Tup *A2, const std::vector<double> &rhs, const std::vector<double> &x0) {
    SolveOut o; o.x = x0; size_t it; double res;
    if (A2) std::tie(it, res) = s(*A2, rhs, o.x); else std::tie(it, res) = s(rhs, o.x);
    o.it = (int)it; o.res = res; return o;
}
static bool same(const SolveOut &a, const SolveOut &b) { return a.it == b.it && bits(a.res) == bits(b.res) && same_bits(a.x, b.x); }

// ---------------------------------------------------------------- parameter lists, JSON text (shared by all parameter ops)
struct PEnt { std::string key; char type; int i = 0; float f = 0; std::string s; };

static void ref_put(PT &pt, const PEnt &e, const std::string &key) {
    if (e.type == 'i') pt.put(key, e.i); else if (e.type == 'f') pt.put(key, e.f); else pt.put(key, e.s);
}
static std::string value_text(const PEnt &e) { PT t; ref_put(t, e, "v"); return t.get<std::string>("v"); }
// JSON text of a parameter list (nested objects from dotted keys; numbers unquoted, strings quoted)
struct JNode { bool leaf = false; std::string text; std::vector<std::pair<std::string, JNode>> kids;
    JNode& kid(const std::string &k) { for (auto &p : kids) if (p.first == k) return p.second; kids.push_back({k, JNode()}); return kids.back().second; } };
static void jemit(std::ostream &os, const JNode &nd) {
    if (nd.leaf) { os << nd.text; return; }
    os << "{"; bool first = true;
    for (auto &p : nd.kids) { if (!first) os << ", "; first = false; os << '"' << p.first << "\": "; jemit(os, p.second); }
    os << "}";
}
static std::string json_of(const std::vector<PEnt> &ps, const std::string &strip) {
    JNode root;
    for (auto &e : ps) {
        if (e.key.compare(0, strip.size(), strip) != 0) continue;
        std::string key = e.key.substr(strip.size()); JNode *nd = &root; size_t pos = 0;
        for (;;) { size_t d = key.find('.', pos); nd = &nd->kid(key.substr(pos, d == std::string::npos ? d : d - pos)); if (d == std::string::npos) break; pos = d + 1; }
        nd->leaf = true; nd->text = e.type == 's' ? "\"" + e.s + "\"" : value_text(e);
    }
    std::ostringstream os; jemit(os, root); os << "\n"; return os.str();
}
static std::string json_file(const std::string &text) {
    std::string f = g_outdir + "/capi_params_" + std::to_string((long)getpid()) + ".json";
    std::ofstream o(f); o << text; o.close(); return f;
}

// ---------------------------------------------------------------- parameter-handle histories (shared)
// What the caller of lib/amgcl.h may expect of a parameter handle after a sequence of amgcl_params_seti / setf /
// sets / read_json calls, computed without the handle:
//   last    for every path written since the last read_json (which REPLACES the content), the text of the LAST value
//           written to it -- what prm.get(path, default) of every reader in amgcl must see
//   shadow  a boost::property_tree filled with the same put() sequence (read_json: cleared, then put() of the entries of
//           the file in file order)
// and, of the handle alone: no node has two children with the same key (every setter overwrites; readers return the
// FIRST match, so a second sibling would be a value that was set and is never seen).
static bool valid_path(const std::string &k) {
    if (k.empty() || k.front() == '.' || k.back() == '.') return false;
    for (size_t i = 0; i < k.size(); ++i) {
        char ch = k[i];
        if (ch == '.') { if (k[i-1] == '.') return false; } else if (!(isalnum((unsigned char)ch) || ch == '_')) return false;
    }
    return true;
}
static bool dot_prefix(const std::string &a, const std::string &b) {         // a is b or an ancestor of b
    return b.compare(0, a.size(), a) == 0 && (b.size() == a.size() || b[a.size()] == '.');
}
// one (key type value) triple of an op line
static PEnt read_pent(Cur &c) {
    PEnt e; e.key = c.tok(); const std::string &ty = c.tok(); if (ty.size() != 1) throw bad_input("type"); e.type = ty[0];
    if (e.type == 'i') { long v = c.nat(); if (v < -1000000 || v > 1000000) throw bad_input("int"); e.i = (int)v; }
    else if (e.type == 'f') { Q q = c.rat(); double d = exact_double(q); e.f = (float)d; if ((double)e.f != d) throw bad_input("not a float"); }
    else if (e.type == 's') { e.s = c.tok(); for (char ch : e.s) if (!(isalnum((unsigned char)ch) || ch == '_')) throw bad_input("string"); }
    else throw bad_input("type");
    return e;
}
// the entries of one JSON file: valid paths, no path twice, no path that is an ancestor of another one
static void check_file_entries(const std::vector<PEnt> &es) {
    for (size_t a = 0; a < es.size(); ++a) {
        if (!valid_path(es[a].key)) throw bad_input("path");
        for (size_t b = 0; b < es.size(); ++b) if (a != b && dot_prefix(es[a].key, es[b].key)) throw bad_input("file keys");
    }
}
static void c_set(amgclHandle h, const PEnt &e) {
    if (e.type == 'i') amgcl_params_seti(h, e.key.c_str(), e.i); else if (e.type == 'f') amgcl_params_setf(h, e.key.c_str(), e.f); else amgcl_params_sets(h, e.key.c_str(), e.s.c_str());
}
static void c_read_json(amgclHandle h, const std::vector<PEnt> &es) {
    std::string f = json_file(json_of(es, "")); amgcl_params_read_json(h, f.c_str()); unlink(f.c_str());
}
struct PShadow {
    PT shadow;
    std::vector<std::pair<std::string, std::string>> last;      // path -> text, in order of first write
    std::vector<std::string> file_keys;                         // paths that came from the last read_json and were not written since
    long overwrites = 0, file_overrides = 0, files = 0, writes = 0;
    void note(const std::string &key, const std::string &text, bool from_file) {
        ++writes;
        if (!from_file) { auto f = std::find(file_keys.begin(), file_keys.end(), key); if (f != file_keys.end()) { ++file_overrides; file_keys.erase(f); } }
        for (auto &kv : last) if (kv.first == key) { if (!from_file && kv.second != text) ++overwrites; kv.second = text; return; }
        last.push_back({key, text});
    }
    void set(const PEnt &e) { ref_put(shadow, e, e.key); note(e.key, value_text(e), false); }
    void file(const std::vector<PEnt> &es) {
        shadow = PT(); last.clear(); file_keys.clear(); ++files;
        for (auto &e : es) { shadow.put(e.key, value_text(e)); note(e.key, value_text(e), true); file_keys.push_back(e.key); }
    }
};
static std::string find_dup(const PT &p, const std::string &at) {
    std::vector<std::string> seen;
    for (auto &kv : p) {
        std::string here = at.empty() ? kv.first : at + "." + kv.first;
        if (std::find(seen.begin(), seen.end(), kv.first) != seen.end()) return here;
        seen.push_back(kv.first);
        std::string d = find_dup(kv.second, here); if (!d.empty()) return d;
    }
    return "";
}
static std::string tree_diff(const PT &got, const PT &want, const std::string &at) {
    std::string nm = at.empty() ? "<root>" : at;
    if (got.data() != want.data()) return "value of " + nm + " is '" + got.data() + "', expected '" + want.data() + "'";
    auto g = got.begin(), w = want.begin(); size_t i = 0;
    for (; g != got.end() && w != want.end(); ++g, ++w, ++i) {
        if (g->first != w->first) return "child #" + std::to_string(i) + " of " + nm + " is '" + g->first + "', expected '" + w->first + "'";
        std::string d = tree_diff(g->second, w->second, at.empty() ? g->first : at + "." + g->first); if (!d.empty()) return d;
    }
    if (g != got.end()) return nm + " has an extra child '" + g->first + "'";
    if (w != want.end()) return nm + " lacks the child '" + w->first + "'";
    return "";
}
// the three expectations above, on the tree behind a live parameter handle; returns "" or the first violation
static std::string check_handle(amgclHandle h, const PShadow &sh) {
    const PT &got = *static_cast<Params*>(h);
    for (auto &kv : sh.last) {
        auto v = got.get_optional<std::string>(kv.first);
        if (!v) return "parameter '" + kv.first + "' was written but is not present in the handle";
        if (*v != kv.second) return "parameter '" + kv.first + "' reads back '" + *v + "' but the last value written to it is '" + kv.second + "'";
    }
    std::string d = find_dup(got, "");
    if (!d.empty()) return "the handle holds two sibling nodes '" + d + "'";
    if (!(got == sh.shadow)) return "the handle differs from a ptree filled with the same put() sequence: " + tree_diff(got, sh.shadow, "");
    return "";
}
static std::string pent_str(const PEnt &e) { return std::string(e.type == 'i' ? "seti" : e.type == 'f' ? "setf" : "sets") + " " + e.key + " " + value_text(e); }

#ifndef CAPI_IMPL_ONLY
// ================================================================= capi_view
static Result do_view(Cur &c) {
    Result r;
    long base = c.nat(), n = c.nat();
    auto ptr = c.natvec(); auto col = c.natvec(); auto valq = c.vec(); c.expect_end();
    if (base != 0 && base != 1) throw bad_input("base");
    if (n < 0) throw bad_input("n");
    // independent validation of what the interface requires of the caller (NOT the Lean model): n+1 pointers,
    // non-decreasing, every row inside both arrays, columns inside the matrix
    if ((long)ptr.size() < n + 1) throw bad_input("ptr short");
    if (n == 0) throw bad_input("n = 0");         // amg on an empty matrix is outside C20 (the driver answers bad-input as well)
    long avail = (long)std::min(col.size(), valq.size()), nnz_expected = 0;
    for (long i = 0; i < n; ++i) {
        long b = ptr[i] - base, e = ptr[i+1] - base;
        if (e < b) throw bad_input("row range");
        if (b == e) continue;                      // an empty row dereferences nothing, wherever its two pointers point
        if (b < 0 || e > avail) throw bad_input("row range");
        for (long j = b; j < e; ++j) if (col[j] - base < 0 || col[j] - base >= n) throw bad_input("col range");
        nnz_expected += e - b;
    }
    std::vector<double> val = to_doubles(valq);
    std::vector<int> iptr(ptr.begin(), ptr.end()), icol(col.begin(), col.end());
    // expected dense matrix straight from the arrays
    Dense D(n, std::vector<Q>(n));
    for (long i = 0; i < n; ++i) for (long j = ptr[i] - base; j < ptr[i+1] - base; ++j) D[i][col[j] - base] += valq[j];
    long nnz_total = nnz_expected;

    capi_unknown().clear();
    auto make_prm = [&](const char *prefix) {
        amgclHandle p = amgcl_params_create();
        std::string px(prefix);
        amgcl_params_seti(p, (px + "coarse_enough").c_str(), 1000000);
        amgcl_params_seti(p, (px + "direct_coarse").c_str(), 0);
        amgcl_params_sets(p, (px + "relax.type").c_str(), "spai0");
        return p;
    };
    auto create = [&](bool solver, long b, const std::vector<int> &P, const std::vector<int> &C) -> amgclHandle {
        amgclHandle prm = make_prm(solver ? "precond." : "");
        amgclHandle h = nullptr;
        {
            Exact<int> ep(P), ec(C); Exact<double> ev(val);
            try {
                if (solver) h = b ? amgcl_solver_create_f((int)n, ep.p, ec.p, ev.p, prm) : amgcl_solver_create((int)n, ep.p, ec.p, ev.p, prm);
                else        h = b ? amgcl_precond_create_f((int)n, ep.p, ec.p, ev.p, prm) : amgcl_precond_create((int)n, ep.p, ec.p, ev.p, prm);
            } catch (...) { amgcl_params_destroy(prm); throw; }
        }
        amgcl_params_destroy(prm);
        return h;
    };
    try {
        amgclHandle h = create(false, base, iptr, icol);
        const auto &A = static_cast<AMG*>(h)->system_matrix();
        // canonical result: the stored system matrix, exact values
        Line l; l << (long)A.nrows << (long)A.ncols;
        for (size_t i = 0; i < A.nrows; ++i) { l << (long)(A.ptr[i+1] - A.ptr[i]); for (auto j = A.ptr[i]; j < A.ptr[i+1]; ++j) { l << (long)A.col[j]; l << Q(A.val[j]); } }
        r.out = l.get();
        // oracle 1: denotes the matrix the caller described; rows sorted
        Dense G(n, std::vector<Q>(n));
        bool sorted = true;
        if ((long)A.nrows != n || (long)A.ncols != n) r.fail("system matrix has the wrong shape");
        else {
            for (long i = 0; i < n; ++i) for (auto j = A.ptr[i]; j < A.ptr[i+1]; ++j) {
                if (A.col[j] < 0 || A.col[j] >= n) { r.fail("stored column out of range"); continue; }
                G[i][A.col[j]] += Q(A.val[j]);
                if (j > A.ptr[i] && A.col[j-1] > A.col[j]) sorted = false;
            }
            if (r.ok && G != D) r.fail("system matrix built by the C API != the matrix described by the caller's arrays");
            if ((long)A.ptr[n] != nnz_expected) r.fail("number of stored entries differs");
            if (!sorted) r.fail("rows of the system matrix not sorted");
        }
        std::string sig = crs_sig(A);
        amgcl_precond_destroy(h);
        // oracle 2: the other index base on the shifted arrays, and the solver entry points, store the same matrix
        long ob = 1 - base;
        std::vector<int> optr = shifted(iptr, (int)(ob - base)), ocol = shifted(icol, (int)(ob - base));
        amgclHandle h2 = create(false, ob, optr, ocol);
        if (crs_sig(static_cast<AMG*>(h2)->system_matrix()) != sig) r.fail("0-based and 1-based entry points build different matrices");
        amgcl_precond_destroy(h2);
        for (long b : { 0L, 1L }) {
            amgclHandle s = create(true, b, b == base ? iptr : optr, b == base ? icol : ocol);
            if (crs_sig(static_cast<Solver*>(s)->system_matrix()) != sig) r.fail("amgcl_solver_create" + std::string(b ? "_f" : "") + " builds a different matrix");
            amgcl_solver_destroy(s);
        }
        if (!capi_unknown().empty()) r.fail("parameter reported unknown: " + capi_unknown()[0]);
    } catch (const bad_input&) { throw;
    } catch (const std::exception &e) { r.out = "exception"; r.fail(std::string("exception: ") + e.what()); }
    bool tight = (long)ptr.size() == n + 1 && (long)col.size() == nnz_total && valq.size() == col.size();
    bool empty_row = false, unsorted = false;
    for (long i = 0; i < n; ++i) { if (ptr[i] == ptr[i+1]) empty_row = true; for (long j = ptr[i] - base; j + 1 < ptr[i+1] - base; ++j) if (col[j] > col[j+1]) unsorted = true; }
    r.nontrivial = n >= 2 && nnz_total >= 2;
    r.tag(base ? "view_base1" : "view_base0"); if (tight) r.tag("tight_arrays"); else r.tag("slack_arrays");
    if (empty_row) r.tag("emptyrow"); if (unsorted) r.tag("unsorted_rows"); if (ptr[0] != base) r.tag("ptr0_offset");
    return r;
}

// ================================================================= capi_script
static Sys chain(long n, double shift) {
    Sys S; S.n = (int)n; S.ptr.push_back(0);
    for (long i = 0; i < n; ++i) {
        if (i) { S.col.push_back((int)i - 1); S.val.push_back(-1); }
        S.col.push_back((int)i); S.val.push_back(2.5 + shift);
        if (i + 1 < n) { S.col.push_back((int)i + 1); S.val.push_back(-1); }
        S.ptr.push_back((int)S.col.size());
    }
    return S;
}
struct Slot {
    char kind; bool alive; amgclHandle h; PT shadow; int nset = 0;
    std::shared_ptr<AMG> ramg; std::shared_ptr<Solver> rslv;
};
static Result do_script(Cur &c) {
    Result r;
    long n = c.nat(); if (n < 1 || n > 2000) throw bad_input("n");
    struct Call { std::string op; long base = 0; long h = -1; bool null = false; };
    std::vector<Call> calls;
    while (!c.end()) {
        Call k; k.op = c.tok();
        auto is = [&](const char *s) { return k.op == s; };
        if (is("pcreate")) {}
        else if (is("pset") || is("pdestroy") || is("aapply") || is("areport") || is("adestroy") || is("ssolve") || is("sreport") || is("sdestroy")) { k.h = c.nat(); if (k.h < 0) throw bad_input("h"); }
        else if (is("acreate") || is("screate")) { k.base = c.nat(); if (k.base != 0 && k.base != 1) throw bad_input("base"); const std::string &p = c.tok(); if (p == "null") k.null = true; else { char *e; k.h = strtol(p.c_str(), &e, 10); if (*e || p.empty() || k.h < 0) throw bad_input("prm"); } }
        else if (is("smtx")) { k.base = c.nat(); if (k.base != 0 && k.base != 1) throw bad_input("base"); k.h = c.nat(); if (k.h < 0) throw bad_input("h"); }
        else throw bad_input("call");
        calls.push_back(k);
    }
    Sys S = chain(n, 0), S2 = chain(n, 0.5);
    auto tup = [](const Sys &s) { return std::tie(s.n, s.ptr, s.col, s.val); };
    std::vector<double> rhs(n), x0(n);
    for (long i = 0; i < n; ++i) { rhs[i] = 1 + (i % 3) * 0.5; x0[i] = (i % 2) * 0.25; }
    std::vector<Slot> slots;
    std::string verdict; verdict.reserve(64); long uses = 0, reports = 0;
    capi_unknown().clear(); capi_unknown().shrink_to_fit();
    // leak detection: LeakSanitizer's stop-the-world check is authoritative but costs ~0.3 s; it is run when the number
    // of live heap bytes after the script (everything destroyed / cleaned up) differs from the number before it, and
    // unconditionally on every 64th script
    static long script_no = 0; ++script_no;
    const size_t heap_before = __sanitizer_get_current_allocated_bytes();
    // shadow bookkeeping (independent of the Lean model): a handle may be passed to a call iff it was returned by a
    // create call of the right family and has not been destroyed since
    auto check = [&](long h, char kind) -> const char* {
        if (h >= (long)slots.size()) return "unknown";
        if (!slots[h].alive) return "dead";
        if (slots[h].kind != kind) return "kind";
        return nullptr;
    };
    try {
        for (size_t i = 0; i < calls.size() && verdict.empty(); ++i) {
            const Call &k = calls[i];
            auto bad = [&](const char *w) { verdict.assign("error " + std::to_string(i) + " " + w); };   // assign: keeps the pre-reserved buffer (heap accounting below)
            if (k.op == "pcreate") { Slot s; s.kind = 'p'; s.alive = true; s.h = amgcl_params_create(); slots.push_back(s); }
            else if (k.op == "pset") {
                if (auto w = check(k.h, 'p')) { bad(w); break; }
                Slot &s = slots[k.h]; int v = 2 + s.nset % 3; float tol = std::ldexp(1.0f, -(10 + s.nset)); const char *ty = s.nset % 2 ? "bicgstab" : "cg";
                amgcl_params_seti(s.h, "coarse_enough", v);          s.shadow.put("coarse_enough", v);
                amgcl_params_seti(s.h, "precond.coarse_enough", v);  s.shadow.put("precond.coarse_enough", v);
                amgcl_params_setf(s.h, "solver.tol", tol);           s.shadow.put("solver.tol", tol);
                amgcl_params_sets(s.h, "solver.type", ty);           s.shadow.put("solver.type", std::string(ty));
                if (!(*static_cast<Params*>(s.h) == s.shadow)) r.fail("call " + std::to_string(i) + ": parameter handle differs from a ptree filled with the same put() sequence: " + tree_diff(*static_cast<Params*>(s.h), s.shadow, ""));
                ++s.nset; ++uses;
            }
            else if (k.op == "pdestroy") { if (auto w = check(k.h, 'p')) { bad(w); break; } amgcl_params_destroy(slots[k.h].h); slots[k.h].alive = false; }
            else if (k.op == "acreate" || k.op == "screate") {
                if (!k.null) if (auto w = check(k.h, 'p')) { bad(w); break; }
                bool slv = k.op == "screate";
                Slot s; s.kind = slv ? 's' : 'a'; s.alive = true;
                PT pt; if (!k.null) pt = slots[k.h].shadow;
                amgclHandle prm = k.null ? nullptr : slots[k.h].h;
                if (slv) { s.h = c_solver_create(S, (int)k.base, prm);  s.rslv = k.null ? std::make_shared<Solver>(tup(S)) : std::make_shared<Solver>(tup(S), pt); }
                else     { s.h = c_precond_create(S, (int)k.base, prm); s.ramg = k.null ? std::make_shared<AMG>(tup(S))    : std::make_shared<AMG>(tup(S), pt); }
                slots.push_back(s);
            }
            else if (k.op == "aapply") {
                if (auto w = check(k.h, 'a')) { bad(w); break; }
                std::vector<double> xr(n, -1.0); slots[k.h].ramg->apply(rhs, xr);
                if (!same_bits(c_apply(slots[k.h].h, rhs), xr)) r.fail("call " + std::to_string(i) + ": amgcl_precond_apply differs from the C++ object with the same parameters");
                ++uses;
            }
            else if (k.op == "areport" || k.op == "sreport") {
                bool slv = k.op == "sreport";
                if (auto w = check(k.h, slv ? 's' : 'a')) { bad(w); break; }
                std::string got; { CoutCapture cap; if (slv) amgcl_solver_report(slots[k.h].h); else amgcl_precond_report(slots[k.h].h); got = cap.str(); }
                std::ostringstream ref; if (slv) ref << slots[k.h].rslv->precond() << std::endl; else ref << *slots[k.h].ramg << std::endl;
                if (got != ref.str()) r.fail("call " + std::to_string(i) + ": report text differs from the C++ object's");
                ++reports;
            }
            else if (k.op == "adestroy") { if (auto w = check(k.h, 'a')) { bad(w); break; } amgcl_precond_destroy(slots[k.h].h); slots[k.h].alive = false; slots[k.h].ramg.reset(); }
            else if (k.op == "ssolve") {
                if (auto w = check(k.h, 's')) { bad(w); break; }
                auto ref = ref_solve(*slots[k.h].rslv, (decltype(tup(S))*)nullptr, rhs, x0);
                if (!same(c_solve(slots[k.h].h, rhs, x0, i % 2 == 1), ref)) r.fail("call " + std::to_string(i) + ": amgcl_solver_solve differs from the C++ object with the same parameters");
                ++uses;
            }
            else if (k.op == "smtx") {
                if (auto w = check(k.h, 's')) { bad(w); break; }
                auto t2 = tup(S2);
                auto ref = ref_solve(*slots[k.h].rslv, &t2, rhs, x0);
                if (!same(c_solve_mtx(slots[k.h].h, S2, (int)k.base, rhs, x0), ref)) r.fail("call " + std::to_string(i) + ": amgcl_solver_solve_mtx differs from the C++ object with the same parameters");
                ++uses;
            }
            else if (k.op == "sdestroy") { if (auto w = check(k.h, 's')) { bad(w); break; } amgcl_solver_destroy(slots[k.h].h); slots[k.h].alive = false; slots[k.h].rslv.reset(); }
        }
    } catch (const std::exception &e) { r.fail(std::string("exception: ") + e.what()); verdict.assign("exception"); }
    long live = -1;
    if (verdict.empty()) {
        Line l; live = 0; for (auto &s : slots) if (s.alive) ++live;
        l << "ok" << live;
        for (auto &s : slots) if (s.alive) l << (s.kind == 'p' ? "params" : s.kind == 'a' ? "precond" : "solver");
        verdict.assign(l.get());
    }
    // clean up whatever the script left alive, then the C API must not have leaked anything
    for (auto &s : slots) if (s.alive) { if (s.kind == 'p') amgcl_params_destroy(s.h); else if (s.kind == 'a') amgcl_precond_destroy(s.h); else amgcl_solver_destroy(s.h); s.alive = false; }
    slots.clear(); slots.shrink_to_fit();
    capi_unknown().clear(); capi_unknown().shrink_to_fit();
    const size_t heap_after = __sanitizer_get_current_allocated_bytes();
    if (r.ok && (heap_after != heap_before || script_no % 64 == 1)) {
        if (__lsan_do_recoverable_leak_check()) r.fail("memory leaked by the create/destroy pairs of the script");
        r.tag(heap_after != heap_before ? "lsan_triggered" : "lsan_periodic");
    }
    if (live >= 0) r.tag(live ? "script_ok_live" : "script_ok_balanced"); else r.tag("script_" + verdict.substr(verdict.rfind(' ') + 1));
    r.out = verdict;
    r.nontrivial = calls.size() >= 3 && (uses + reports) >= 1;
    return r;
}
// ================================================================= capi_params
// capi_params <event>*      the CONTENT of parameter handles after a history of calls (answered by the Lean model with the
//                           property-tree semantics of Model/PTree.lean: put = overwrite the first match or append):
//   new | seti p path int | setf p path dyadic | sets p path text | json p K (path i|f|s value)^K | del p
// Result: `ok` and, per handle in creation order, `dead` or the tree behind the handle in preorder:
//   node = `=<data> <#children> (<key> node)*`.
// Floats are restricted to m / 2^k with k <= 6, |m| < 2^15: their text (9 significant digits, the precision Boost's
// stream translator uses for float) is then the exact, plain decimal expansion, which the model prints as well.
static bool simple_dyadic(double d) {
    for (int k = 0; k <= 6; ++k) { double m = std::ldexp(d, k); if (m == std::floor(m)) return std::fabs(m) < 32768.0; }
    return false;
}
static void dump_tree(Line &l, const PT &p) {
    l << ("=" + p.data()) << (long)p.size();
    for (auto &kv : p) { l << kv.first; dump_tree(l, kv.second); }
}
static Result do_params(Cur &c) {
    Result r;
    struct Ev { std::string op; long h = -1; PEnt e; std::vector<PEnt> es; };
    std::vector<Ev> evs; std::vector<int> alive;
    auto check_ent = [&](const PEnt &e) {
        if (!valid_path(e.key)) throw bad_input("path");
        if (e.type == 'f' && !simple_dyadic((double)e.f)) throw bad_input("float text");
        if (e.type == 's' && e.s.empty()) throw bad_input("empty");
    };
    while (!c.end()) {
        Ev k; k.op = c.tok();
        auto ph = [&]() { long h = c.nat(); if (h < 0 || h >= (long)alive.size() || !alive[h]) throw bad_input("handle"); return h; };
        if (k.op == "new") alive.push_back(1);
        else if (k.op == "seti" || k.op == "setf" || k.op == "sets") {
            k.h = ph(); Toks t{"", c.tok(), std::string(1, k.op[3])}; t.push_back(c.tok()); Cur c2(t); k.e = read_pent(c2); check_ent(k.e);
        }
        else if (k.op == "json") { k.h = ph(); long K = c.nat(); if (K < 0 || K > 64) throw bad_input("K"); for (long q = 0; q < K; ++q) { k.es.push_back(read_pent(c)); check_ent(k.es.back()); } check_file_entries(k.es); }
        else if (k.op == "del") { k.h = ph(); alive[k.h] = 0; }
        else throw bad_input("event");
        evs.push_back(k);
    }
    if (evs.size() > 400) throw bad_input("too long");
    struct PSlot { amgclHandle h = nullptr; bool alive = false; PShadow sh; };
    std::vector<PSlot> ps; long overw = 0, fileov = 0, writes = 0, files = 0, dels = 0, renew = 0;
    try {
        for (size_t i = 0; i < evs.size(); ++i) {
            const Ev &k = evs[i];
            std::string ctx = "event " + std::to_string(i) + " (" + k.op;
            if (k.op == "new") { PSlot s; s.h = amgcl_params_create(); s.alive = true; ps.push_back(std::move(s)); if (dels) ++renew; }
            else if (k.op == "del") { amgcl_params_destroy(ps[k.h].h); ps[k.h].alive = false; ps[k.h].h = nullptr; ++dels; }
            else if (k.op == "json") {
                PSlot &s = ps[k.h]; overw += s.sh.overwrites; fileov += s.sh.file_overrides; s.sh.overwrites = s.sh.file_overrides = 0;
                c_read_json(s.h, k.es); s.sh.file(k.es); ++files;
                std::string d = check_handle(s.h, s.sh); if (!d.empty()) r.fail(ctx + " " + std::to_string(k.h) + ", amgcl_params_read_json): " + d);
            } else {
                PSlot &s = ps[k.h]; c_set(s.h, k.e); s.sh.set(k.e); ++writes;
                std::string d = check_handle(s.h, s.sh); if (!d.empty()) r.fail(ctx + " " + std::to_string(k.h) + " " + k.e.key + " " + value_text(k.e) + "): " + d);
            }
        }
        Line l; l << "ok";
        for (auto &s : ps) { if (!s.alive) { l << "dead"; continue; } dump_tree(l, *static_cast<Params*>(s.h)); }
        r.out = l.get();
    } catch (const std::exception &e) { r.out = "exception"; r.fail(std::string("exception: ") + e.what()); }
    for (auto &s : ps) { overw += s.sh.overwrites; fileov += s.sh.file_overrides; if (s.alive) amgcl_params_destroy(s.h); }
    r.nontrivial = writes >= 2 && (overw + fileov) >= 1;
    if (overw) r.tag("params_overwritten_path"); if (fileov) r.tag("params_setter_overrides_file"); if (files) r.tag("params_read_json");
    if (renew) r.tag("params_destroy_create"); if (ps.size() >= 2) r.tag("params_several_handles");
    return r;
}
#endif // !CAPI_IMPL_ONLY

#ifdef CAPI_IMPL_ONLY
// ================================================================= capi_solve
// route 0: typed setters, 1: amgcl_params_read_json, 2: NULL handle
static amgclHandle c_params(const std::vector<PEnt> &ps, const std::string &strip, int route) {
    if (route == 2) return nullptr;
    amgclHandle p = amgcl_params_create();
    if (route == 1) { std::string f = json_file(json_of(ps, strip)); amgcl_params_read_json(p, f.c_str()); unlink(f.c_str()); return p; }
    for (auto &e : ps) {
        if (e.key.compare(0, strip.size(), strip) != 0) continue;
        std::string key = e.key.substr(strip.size());
        if (e.type == 'i') amgcl_params_seti(p, key.c_str(), e.i); else if (e.type == 'f') amgcl_params_setf(p, key.c_str(), e.f); else amgcl_params_sets(p, key.c_str(), e.s.c_str());
    }
    return p;
}
static PT ref_params(const std::vector<PEnt> &ps, const std::string &strip, int route) {
    PT pt;
    if (route == 2) return pt;
    if (route == 1) { std::string f = json_file(json_of(ps, strip)); boost::property_tree::read_json(f, pt); unlink(f.c_str()); return pt; }
    for (auto &e : ps) { if (e.key.compare(0, strip.size(), strip) != 0) continue; ref_put(pt, e, e.key.substr(strip.size())); }
    return pt;
}

struct Out {
    bool threw = false; std::string what;
    SolveOut s1, s2, s1f; std::vector<double> xa;
    std::string report_s, report_a, params_s, params_a, sys_s, sys_a;
    std::vector<std::string> unknown; size_t levels = 0;
};
static std::string diff(const Out &a, const Out &b, bool have2, bool cmp_params) {
    if (a.threw != b.threw) return "one side threw (" + a.what + b.what + ")";
    if (a.threw) return a.what == b.what ? "" : "different exceptions";
    if (a.sys_s != b.sys_s || a.sys_a != b.sys_a) return "stored system matrix";
    if (a.s1.it != b.s1.it) return "iteration count of solve";
    if (bits(a.s1.res) != bits(b.s1.res)) return "residual of solve";
    if (!same_bits(a.s1.x, b.s1.x)) return "x of solve";
    if (have2) {
        if (a.s2.it != b.s2.it) return "iteration count of solve_mtx";
        if (bits(a.s2.res) != bits(b.s2.res)) return "residual of solve_mtx";
        if (!same_bits(a.s2.x, b.s2.x)) return "x of solve_mtx";
    }
    if (!same_bits(a.xa, b.xa)) return "x of precond_apply";
    if (a.report_s != b.report_s || a.report_a != b.report_a) return "report text";
    if (cmp_params && (a.params_s != b.params_s || a.params_a != b.params_a)) return "exported parameters";
    if (a.unknown != b.unknown) return "set of parameters reported unknown";
    return "";
}

static Out run_c(const Sys &S, const Sys *S2, int base, const std::vector<PEnt> &ps, int route,
                 const std::vector<double> &rhs, const std::vector<double> &x0, std::string &self_check) {
    Out o; capi_unknown().clear();
    amgclHandle hs = nullptr, ha = nullptr;
    try {
        amgclHandle prm = c_params(ps, "", route);
        try { hs = c_solver_create(S, base, prm); } catch (...) { if (prm) amgcl_params_destroy(prm); throw; }
        if (prm) amgcl_params_destroy(prm);                 // the solver must not depend on the parameter handle any more
        Solver *slv = static_cast<Solver*>(hs);
        o.sys_s = crs_sig(slv->system_matrix()); o.levels = amgcl_verif::access::nlevels(slv->precond());
        o.s1 = c_solve(hs, rhs, x0, false);
        o.s1f = c_solve(hs, rhs, x0, true);
        if (!same(o.s1, o.s1f)) self_check = "amgcl_solver_solve_f differs from amgcl_solver_solve";
        if (S2) o.s2 = c_solve_mtx(hs, *S2, base, rhs, x0);
        { SolveOut again = c_solve(hs, rhs, x0, false); if (!same(again, o.s1)) self_check = "second amgcl_solver_solve on the same handle differs from the first"; }
        { CoutCapture cap; amgcl_solver_report(hs); o.report_s = cap.str(); }
        { PT pt; slv->get_params(pt); o.params_s = pt_json(pt); }
        amgcl_solver_destroy(hs); hs = nullptr;

        prm = c_params(ps, "precond.", route);
        try { ha = c_precond_create(S, base, prm); } catch (...) { if (prm) amgcl_params_destroy(prm); throw; }
        if (prm) amgcl_params_destroy(prm);
        AMG *amg = static_cast<AMG*>(ha);
        o.sys_a = crs_sig(amg->system_matrix());
        o.xa = c_apply(ha, rhs);
        { CoutCapture cap; amgcl_precond_report(ha); o.report_a = cap.str(); }
        { PT pt; amg->prm.get(pt, ""); o.params_a = pt_json(pt); }
        amgcl_precond_destroy(ha); ha = nullptr;
    } catch (const std::exception &e) {
        o.threw = true; o.what = e.what();
        if (hs) amgcl_solver_destroy(hs); if (ha) amgcl_precond_destroy(ha);
    }
    o.unknown = capi_unknown();
    return o;
}

template <class RefSolver, bool SamePrecond>
static Out run_ref(const Sys &S, const Sys *S2, const std::vector<PEnt> &ps, int route,
                   const std::vector<double> &rhs, const std::vector<double> &x0) {
    Out o; capi_unknown().clear();
    try {
        auto A = std::tie(S.n, S.ptr, S.col, S.val);
        PT pt = ref_params(ps, "", route);
        std::unique_ptr<RefSolver> slv(route == 2 ? new RefSolver(A) : new RefSolver(A, pt));
        o.sys_s = crs_sig(slv->system_matrix());
        o.s1 = ref_solve(*slv, (decltype(A)*)nullptr, rhs, x0);
        if (S2) { auto A2 = std::tie(S2->n, S2->ptr, S2->col, S2->val); o.s2 = ref_solve(*slv, &A2, rhs, x0); }
        { std::ostringstream os; os << slv->precond() << std::endl; o.report_s = os.str(); }
        if (SamePrecond) { PT q; slv->get_params(q); o.params_s = pt_json(q); }
        slv.reset();
        PT pa = ref_params(ps, "precond.", route);
        std::unique_ptr<AMG> amg(route == 2 ? new AMG(A) : new AMG(A, pa));
        o.sys_a = crs_sig(amg->system_matrix());
        o.xa.assign(rhs.size(), -555.0); amg->apply(rhs, o.xa);
        { std::ostringstream os; os << *amg << std::endl; o.report_a = os.str(); }
        { PT q; amg->prm.get(q, ""); o.params_a = pt_json(q); }
    } catch (const std::exception &e) { o.threw = true; o.what = e.what(); }
    o.unknown = capi_unknown();
    return o;
}

typedef amgcl::make_solver<amgcl::runtime::preconditioner<Backend>, amgcl::runtime::solver::wrapper<Backend>> RtSolver;

static Result do_solve(Cur &c) {
    Result r;
    long nt = c.nat(), base = c.nat(), K = c.nat();
    if (nt < 1 || nt > 64 || (base != 0 && base != 1) || K < 0 || K > 64) throw bad_input("header");
    std::vector<PEnt> ps;
    for (long k = 0; k < K; ++k) {
        PEnt e = read_pent(c);
        for (auto &o : ps) if (o.key == e.key) throw bad_input("duplicate key");
        ps.push_back(e);
    }
    Mat A = c.mat(); long has2 = c.nat(); Mat A2; if (has2 == 1) A2 = c.mat(); else if (has2 != 0) throw bad_input("has2");
    auto rhsq = c.vec(); auto x0q = c.vec(); c.expect_end();
    { std::string why; auto Ac = A.crs(); if (!crs_wf(*Ac, why)) throw bad_input(why); if (has2) { auto Bc = A2.crs(); if (!crs_wf(*Bc, why)) throw bad_input(why); } }
    Sys S = to_sys(A), S2; if (has2) { S2 = to_sys(A2); if (S2.n != S.n) throw bad_input("A2 size"); }
    if ((long)rhsq.size() != S.n || (long)x0q.size() != S.n) throw bad_input("vector size");
    std::vector<double> rhs = to_doubles(rhsq), x0 = to_doubles(x0q);
#ifdef _OPENMP
    omp_set_num_threads((int)nt);
#endif
    const Sys *pS2 = has2 ? &S2 : nullptr;
    std::string self;
    Out first; bool have_first = false;
    std::vector<int> routes = { 0, 1 }; if (K == 0) routes.push_back(2);
    static const char *rname[] = { "typed setters", "read_json", "NULL parameters" };
    for (int route : routes) {
        Out co = run_c(S, pS2, (int)base, ps, route, rhs, x0, self);
        Out r1 = run_ref<Solver, true>(S, pS2, ps, route, rhs, x0);
        Out r2 = run_ref<RtSolver, false>(S, pS2, ps, route, rhs, x0);
        std::string d;
        if (!(d = diff(co, r1, has2, true)).empty()) r.fail(std::string("C API (") + rname[route] + ") vs make_solver<amg<runtime>, runtime solver>: " + d + " differs");
        if (!(d = diff(co, r2, has2, false)).empty()) r.fail(std::string("C API (") + rname[route] + ") vs make_solver<runtime::preconditioner, runtime solver>: " + d + " differs");
        if (!self.empty()) r.fail(self);
        if (have_first) { if (!(d = diff(co, first, has2, true)).empty()) r.fail(std::string("C API with ") + rname[route] + " vs C API with typed setters: " + d + " differs"); }
        else { first = co; have_first = true; }
    }
#ifdef _OPENMP
    omp_set_num_threads(1);
#endif
    // the parameters reached the solver unchanged (read back from the object behind the handle, route 0)
    if (!first.threw) {
        PT got; std::istringstream is(first.params_s); boost::property_tree::read_json(is, got);
        for (auto &e : ps) {
            auto v = got.get_optional<std::string>(e.key);
            if (!v) { r.fail("parameter " + e.key + " not present in the solver's parameters"); continue; }
            if (e.type == 'i') {
                bool okv;
                if (*v == "true" || *v == "false") okv = (*v == "true") == (e.i != 0);      // bool members are exported as true/false
                else okv = got.get<int>(e.key) == e.i;
                if (!okv) r.fail("integer parameter " + e.key + " changed on the way");
            }
            if (e.type == 'f') { float f = got.get<float>(e.key); if (std::memcmp(&f, &e.f, 4)) r.fail("float parameter " + e.key + " changed on the way"); }
            if (e.type == 's' && *v != e.s) r.fail("string parameter " + e.key + " changed on the way");
        }
        // behavioural witnesses
        for (auto &e : ps) if (e.key == "solver.maxiter" && first.s1.it > e.i) {
            bool gm = false; for (auto &t : ps) if (t.key == "solver.type" && (t.s == "bicgstabl" || t.s == "idrs")) gm = true;   // these count inner steps past maxiter
            if (!gm) r.fail("more iterations than solver.maxiter");
        }
    }
    Line l;
    if (first.threw) l << "exception";
    else {
        l << "ok" << (long)first.s1.it << hex(bits(first.s1.res)) << vhash(first.s1.x);
        if (has2) l << (long)first.s2.it << hex(bits(first.s2.res)) << vhash(first.s2.x); else l << "-";
        l << vhash(first.xa) << (long)first.levels;
    }
    r.out = l.get();
    r.nontrivial = !first.threw && first.levels >= 2 && first.s1.it >= 2;
    r.tag(base ? "base1" : "base0"); r.tag("nt" + std::to_string(nt)); r.tag(has2 ? "solve_mtx" : "solve_only");
    if (K == 0) r.tag("default_params");
    if (first.threw) r.tag("exception"); else r.tag("levels" + std::to_string(std::min<size_t>(first.levels, 4)));
    for (auto &e : ps) if (e.key == "solver.type" || e.key == "precond.relax.type" || e.key == "precond.coarsening.type") r.tag(e.s);
    if (!first.unknown.empty()) r.tag("unknown_param");
    return r;
}
// ================================================================= capi_hist
// capi_hist nt <A> <rhs> <x0> <event>*     parameter-handle HISTORIES, executed for real:
//   new                         amgcl_params_create                                   -> parameter handle #p (creation order)
//   set p key i|f|s value       amgcl_params_seti / setf / sets                       (the same path may be written again and again)
//   json p K (key t value)^K    amgcl_params_read_json of a file with these entries   (replaces the content of the handle)
//   pdel p                      amgcl_params_destroy
//   mk s|a base p|null          amgcl_solver_create[_f] / amgcl_precond_create[_f] with handle p -> object #o, used at once
//   use o                       solver: solve, solve_f, solve_mtx, solve_mtx_f;  precond: apply;  + report, parameters
//   odel o                      amgcl_solver_destroy / amgcl_precond_destroy
// After EVERY set / json the tree behind the handle is checked (check_handle above).  Every mk builds, next to the C
// object, the C++ classes from a ptree filled with the same put() sequence; every use compares them bitwise (and every
// _f entry point with its 0-based twin).  Objects alive at the end are used once more (after all later changes to and
// the destruction of their parameter handle: the C API copies the parameters at creation) and destroyed.
typedef amgcl::make_solver<amgcl::runtime::preconditioner<Backend>, amgcl::runtime::solver::wrapper<Backend>> RtSolverH;
struct HEv { std::string op; long h = -1; bool null = false; long base = 0; char kind = 0; PEnt e; std::vector<PEnt> es; };
struct HObj {
    char kind = 's'; bool alive = false; long base = 0; amgclHandle h = nullptr; long uses = 0; size_t levels = 0; int last_it = -1;
    std::unique_ptr<Solver> r1; std::unique_ptr<RtSolverH> r2; std::unique_ptr<AMG> ra;
};
static std::string cmp_solve(const SolveOut &a, const SolveOut &b) {
    if (a.it != b.it) return "iterations " + std::to_string(a.it) + " vs " + std::to_string(b.it);
    if (bits(a.res) != bits(b.res)) return "residual " + hex(bits(a.res)) + " vs " + hex(bits(b.res));
    if (!same_bits(a.x, b.x)) return "solution vectors differ";
    return "";
}
static Result do_hist(Cur &c) {
    Result r;
    long nt = c.nat(); if (nt < 1 || nt > 64) throw bad_input("nt");
    Mat A = c.mat(); auto rhsq = c.vec(); auto x0q = c.vec();
    { std::string why; auto Ac = A.crs(); if (!crs_wf(*Ac, why)) throw bad_input(why); }
    Sys S = to_sys(A);
    if ((long)rhsq.size() != S.n || (long)x0q.size() != S.n) throw bad_input("vector size");
    std::vector<double> rhs = to_doubles(rhsq), x0 = to_doubles(x0q);
    // the replacement matrix of solve_mtx[_f]: the same pattern with a heavier diagonal
    Sys S2 = S; for (int i = 0; i < S2.n; ++i) for (int j = S2.ptr[i]; j < S2.ptr[i+1]; ++j) if (S2.col[j] == i) S2.val[j] *= 1.25;
    // ---- parse and validate the whole history first (nothing is executed for a malformed line)
    std::vector<HEv> evs;
    { std::vector<int> pal; std::vector<std::pair<char,bool>> oal;
      while (!c.end()) {
        HEv k; k.op = c.tok();
        auto ph = [&]() { long h = c.nat(); if (h < 0 || h >= (long)pal.size() || !pal[h]) throw bad_input("params handle"); return h; };
        auto oh = [&]() { long h = c.nat(); if (h < 0 || h >= (long)oal.size() || !oal[h].second) throw bad_input("object handle"); return h; };
        if (k.op == "new") pal.push_back(1);
        else if (k.op == "set") { k.h = ph(); k.e = read_pent(c); if (!valid_path(k.e.key)) throw bad_input("path"); }
        else if (k.op == "json") { k.h = ph(); long K = c.nat(); if (K < 0 || K > 64) throw bad_input("K"); for (long q = 0; q < K; ++q) k.es.push_back(read_pent(c)); check_file_entries(k.es); }
        else if (k.op == "pdel") { k.h = ph(); pal[k.h] = 0; }
        else if (k.op == "mk") {
            const std::string &kd = c.tok(); if (kd != "s" && kd != "a") throw bad_input("kind"); k.kind = kd[0];
            k.base = c.nat(); if (k.base != 0 && k.base != 1) throw bad_input("base");
            if (!c.end() && c.t[c.i] == "null") { c.tok(); k.null = true; } else k.h = ph();
            oal.push_back({k.kind, true});
        }
        else if (k.op == "use") k.h = oh();
        else if (k.op == "odel") { k.h = oh(); oal[k.h].second = false; }
        else throw bad_input("event");
        evs.push_back(k);
      }
      if (evs.size() > 400) throw bad_input("too long");
    }
#ifdef _OPENMP
    omp_set_num_threads((int)nt);
#endif
    struct PSlot { amgclHandle h = nullptr; bool alive = false; PShadow sh; long creations = 0; };
    std::vector<PSlot> ps; std::vector<HObj> os;
    std::vector<std::string> fails, tfails;          // behavioural differences / first difference of a handle's tree
    auto fail = [&](const std::string &w) { if (fails.size() < 2) fails.push_back(w); };
    auto tfail = [&](const std::string &w) { if (tfails.empty()) tfails.push_back(w); };
    auto tupS = std::tie(S.n, S.ptr, S.col, S.val); auto tupS2 = std::tie(S2.n, S2.ptr, S2.col, S2.val);
    long n_mk = 0, n_mk_rewritten = 0, n_mk_file_override = 0, n_mk_reused = 0, n_threw = 0, n_recreate = 0, n_pdel = 0; bool good_solve = false;
    Line out; out << "ok";

    auto use = [&](HObj &o, const std::string &ctx) {
        ++o.uses;
        if (o.kind == 's') {
            Solver *slv = static_cast<Solver*>(o.h);
            SolveOut ref = ref_solve(*o.r1, (decltype(tupS)*)nullptr, rhs, x0), ref2 = ref_solve(*o.r2, (decltype(tupS)*)nullptr, rhs, x0);
            SolveOut c0 = c_solve(o.h, rhs, x0, false), c1 = c_solve(o.h, rhs, x0, true);
            std::string d;
            if (!(d = cmp_solve(c0, ref)).empty()) fail(ctx + ": amgcl_solver_solve vs make_solver<amg<runtime>, runtime solver> configured by the same put() sequence: " + d);
            if (!(d = cmp_solve(c0, ref2)).empty()) fail(ctx + ": amgcl_solver_solve vs make_solver<runtime::preconditioner, runtime solver> configured by the same put() sequence: " + d);
            if (!(d = cmp_solve(c1, c0)).empty()) fail(ctx + ": amgcl_solver_solve_f vs amgcl_solver_solve: " + d);
            SolveOut refm = ref_solve(*o.r1, &tupS2, rhs, x0);
            SolveOut m0 = c_solve_mtx(o.h, S2, 0, rhs, x0), m1 = c_solve_mtx(o.h, S2, 1, rhs, x0);
            if (!(d = cmp_solve(m0, refm)).empty()) fail(ctx + ": amgcl_solver_solve_mtx vs the C++ solver called with the replacement matrix: " + d);
            if (!(d = cmp_solve(m1, m0)).empty()) fail(ctx + ": amgcl_solver_solve_mtx_f (1-based arrays) vs amgcl_solver_solve_mtx (0-based arrays): " + d);
            if (!(d = cmp_solve(m1, refm)).empty()) fail(ctx + ": amgcl_solver_solve_mtx_f vs the C++ solver called with the replacement matrix: " + d);
            std::string got; { CoutCapture cap; amgcl_solver_report(o.h); got = cap.str(); }
            std::ostringstream rs; rs << o.r1->precond() << std::endl;
            if (got != rs.str()) fail(ctx + ": amgcl_solver_report text differs from the C++ object's");
            PT pc, pr; slv->get_params(pc); o.r1->get_params(pr);
            if (!(pc == pr)) fail(ctx + ": parameters exported by the solver behind the handle differ from the C++ object's: " + tree_diff(pc, pr, ""));
            if (crs_sig(slv->system_matrix()) != crs_sig(o.r1->system_matrix())) fail(ctx + ": stored system matrix differs");
            o.last_it = c0.it;
            if (o.levels >= 2 && c0.it >= 2) good_solve = true;
            out << (long)c0.it << hex(bits(c0.res)) << vhash(c0.x) << (long)m0.it << vhash(m0.x);
        } else {
            AMG *amg = static_cast<AMG*>(o.h);
            std::vector<double> xr(rhs.size(), -555.0); o.ra->apply(rhs, xr);
            std::vector<double> xc = c_apply(o.h, rhs);
            if (!same_bits(xc, xr)) fail(ctx + ": amgcl_precond_apply vs amg<runtime> configured by the same put() sequence: result vectors differ");
            std::string got; { CoutCapture cap; amgcl_precond_report(o.h); got = cap.str(); }
            std::ostringstream rs; rs << *o.ra << std::endl;
            if (got != rs.str()) fail(ctx + ": amgcl_precond_report text differs from the C++ object's");
            PT pc, pr; amg->prm.get(pc, ""); o.ra->prm.get(pr, "");
            if (!(pc == pr)) fail(ctx + ": parameters exported by the preconditioner behind the handle differ from the C++ object's: " + tree_diff(pc, pr, ""));
            if (crs_sig(amg->system_matrix()) != crs_sig(o.ra->system_matrix())) fail(ctx + ": stored system matrix differs");
            if (o.levels >= 2) good_solve = true;
            out << vhash(xc);
        }
    };

    bool aborted = false;
    try {
    for (size_t i = 0; i < evs.size(); ++i) {
        const HEv &k = evs[i];
        std::string ctx = "event " + std::to_string(i) + " (" + k.op;
        if (k.op == "new") { PSlot s; s.h = amgcl_params_create(); s.alive = true; if (n_pdel) ++n_recreate; ps.push_back(std::move(s)); }
        else if (k.op == "set") {
            PSlot &s = ps[k.h]; c_set(s.h, k.e); s.sh.set(k.e);
            std::string d = check_handle(s.h, s.sh); if (!d.empty()) tfail(ctx + " " + std::to_string(k.h) + " " + k.e.key + " " + value_text(k.e) + ", amgcl_params_" + pent_str(k.e).substr(0, 4) + "): " + d);
        }
        else if (k.op == "json") {
            PSlot &s = ps[k.h]; c_read_json(s.h, k.es); s.sh.file(k.es);
            std::string d = check_handle(s.h, s.sh); if (!d.empty()) tfail(ctx + " " + std::to_string(k.h) + ", amgcl_params_read_json): " + d);
            // the same file through boost::property_tree::read_json
            PT viaboost; { std::string f = json_file(json_of(k.es, "")); boost::property_tree::read_json(f, viaboost); unlink(f.c_str()); }
            if (!(viaboost == s.sh.shadow)) fail(ctx + "): harness self-check: read_json of the file differs from put() of its entries: " + tree_diff(viaboost, s.sh.shadow, ""));
        }
        else if (k.op == "pdel") { amgcl_params_destroy(ps[k.h].h); ps[k.h].alive = false; ps[k.h].h = nullptr; ++n_pdel; }
        else if (k.op == "mk") {
            ctx += std::string(" ") + k.kind + " base " + std::to_string(k.base) + (k.null ? " null" : " params " + std::to_string(k.h)) + ")";
            HObj o; o.kind = k.kind; o.base = k.base;
            amgclHandle prm = k.null ? nullptr : ps[k.h].h;
            PT pt; if (!k.null) pt = ps[k.h].sh.shadow;
            bool cthrew = false, rthrew = false; std::string cwhat, rwhat;
            capi_unknown().clear();
            try { o.h = k.kind == 's' ? c_solver_create(S, (int)k.base, prm) : c_precond_create(S, (int)k.base, prm); }
            catch (const std::exception &e) { cthrew = true; cwhat = e.what(); }
            std::vector<std::string> unk_c = capi_unknown(); capi_unknown().clear();
            try {
                if (k.kind == 's') { o.r1.reset(k.null ? new Solver(tupS) : new Solver(tupS, pt)); }
                else               { o.ra.reset(k.null ? new AMG(tupS)    : new AMG(tupS, pt)); }
            } catch (const std::exception &e) { rthrew = true; rwhat = e.what(); }
            std::vector<std::string> unk_r = capi_unknown(); capi_unknown().clear();
            if (k.kind == 's' && !rthrew) { try { o.r2.reset(k.null ? new RtSolverH(tupS) : new RtSolverH(tupS, pt)); } catch (const std::exception &e) { rthrew = true; rwhat = e.what(); } }
            capi_unknown().clear();
            ++n_mk;
            if (!k.null) {
                PSlot &s = ps[k.h];
                if (s.sh.overwrites) ++n_mk_rewritten;
                if (s.sh.file_overrides) ++n_mk_file_override;
                if (s.creations++) ++n_mk_reused;
            }
            if (cthrew != rthrew || (cthrew && cwhat != rwhat)) {
                fail(ctx + ": " + (cthrew ? "the C API threw (" + cwhat + ")" : std::string("the C API did not throw")) + ", the C++ class configured by the same put() sequence " + (rthrew ? "threw (" + rwhat + ")" : std::string("did not")));
                if (o.h) { if (k.kind == 's') amgcl_solver_destroy(o.h); else amgcl_precond_destroy(o.h); o.h = nullptr; }
            }
            if (cthrew || rthrew) { ++n_threw; o.alive = false; o.r1.reset(); o.r2.reset(); o.ra.reset(); os.push_back(std::move(o)); out << "threw"; continue; }
            if (unk_c != unk_r) {
                std::string a, b; for (auto &u : unk_c) a += " " + u; for (auto &u : unk_r) b += " " + u;
                fail(ctx + ": parameters reported unknown by the C API [" + a + " ] vs by the C++ class [" + b + " ]");
            }
            o.alive = true;
            o.levels = k.kind == 's' ? amgcl_verif::access::nlevels(static_cast<Solver*>(o.h)->precond()) : amgcl_verif::access::nlevels(*static_cast<AMG*>(o.h));
            out << "mk" << (long)o.levels;
            use(o, ctx);
            os.push_back(std::move(o));
        }
        else if (k.op == "use") { if (os[k.h].alive) use(os[k.h], ctx + " " + std::to_string(k.h) + ")"); }
        else if (k.op == "odel") {
            HObj &o = os[k.h];
            if (o.alive) { if (o.kind == 's') amgcl_solver_destroy(o.h); else amgcl_precond_destroy(o.h); o.alive = false; o.r1.reset(); o.r2.reset(); o.ra.reset(); }
        }
    }
    } catch (const std::exception &e) { aborted = true; fail(std::string("exception outside a create call: ") + e.what()); }
    // objects still alive: used once more, now that their parameter handles have been changed / destroyed
    for (auto &s : ps) if (s.alive) { amgcl_params_destroy(s.h); s.alive = false; }
    for (size_t j = 0; j < os.size(); ++j) if (os[j].alive) {
        if (!aborted) try { use(os[j], "final use of object " + std::to_string(j) + " (after all parameter handles are gone)"); }
                      catch (const std::exception &e) { aborted = true; fail(std::string("exception in the final use: ") + e.what()); }
        if (os[j].kind == 's') amgcl_solver_destroy(os[j].h); else amgcl_precond_destroy(os[j].h);
        os[j].alive = false;
    }
    os.clear(); ps.clear();
#ifdef _OPENMP
    omp_set_num_threads(1);
#endif
    fails.insert(fails.begin(), tfails.begin(), tfails.end());
    if (!fails.empty()) { std::string w = fails[0]; for (size_t q = 1; q < fails.size(); ++q) w += "  |  " + fails[q]; r.fail(w); }
    static long hist_no = 0;
    if (r.ok && ++hist_no % 32 == 1) { if (__lsan_do_recoverable_leak_check()) r.fail("memory leaked by the create/destroy pairs of the history"); r.tag("lsan_periodic"); }
    r.out = out.get();
    r.nontrivial = n_mk >= 1 && good_solve && (n_mk_rewritten + n_mk_file_override + n_mk_reused) >= 1;
    r.tag("hist_nt" + std::to_string(nt));
    if (n_mk_rewritten) r.tag("hist_overwritten_path");
    if (n_mk_file_override) r.tag("hist_setter_overrides_file");
    if (n_mk_reused) r.tag("hist_handle_reused");
    if (n_recreate) r.tag("hist_destroy_create");
    if (n_threw) r.tag("hist_ctor_threw");
    { std::set<std::string> tg; for (auto &k : evs) if (k.op == "mk") { tg.insert(std::string("hist_mk_") + k.kind + (k.base ? "_f" : "_c")); if (k.null) tg.insert("hist_mk_null"); } for (auto &t : tg) r.tag(t); }
    return r;
}
#endif // CAPI_IMPL_ONLY

static Result execute(const Toks &t) {
    Cur c(t);
    const std::string &op = t[0];
#ifndef CAPI_IMPL_ONLY
    if (op == "capi_view") return do_view(c);
    if (op == "capi_script") return do_script(c);
    if (op == "capi_params") return do_params(c);
#else
    if (op == "capi_solve") return do_solve(c);
    if (op == "capi_hist") return do_hist(c);
#endif
    return Result("bad-op");
}

// ---------------------------------------------------------------- generators
static Q dyadic(Rng &rng, long pm = 8) { static const long dens[] = { 1, 1, 2, 4 }; return Q::frac(rng.range(-pm, pm), dens[rng.range(0, 3)]); }

#ifndef CAPI_IMPL_ONLY
static void gen_view(Rng &rng, const Opts &o, std::vector<std::string> &lines, long N) {
    for (long k = 0; k < N; ++k) {
        long n = rng.range(1, o.thorough() ? 40 : 16), base = rng.range(0, 1);
        // arbitrary square sparse pattern: empty rows, unsorted rows, sometimes duplicates, no diagonal required
        std::vector<std::vector<std::pair<long,Q>>> rows(n);
        int dens = (int)rng.range(0, 60);
        for (long i = 0; i < n; ++i) for (long j = 0; j < n; ++j) if (rng.range(0, 99) < dens || (i == j && rng.coin(2, 3))) { Q v = dyadic(rng); if (v == 0) v = Q(1); rows[i].push_back({j, v}); }
        if (rng.coin(1, 2)) shuffle_rows_inplace(rng, rows);
        if (rng.coin(1, 6)) for (auto &rw : rows) if (!rw.empty() && rng.coin(1, 3)) rw.push_back({rw[rng.next() % rw.size()].first, dyadic(rng)});   // duplicates
        std::vector<long> ptr{base}, col; std::vector<Q> val;
        for (auto &rw : rows) { for (auto &cv : rw) { col.push_back(cv.first + base); val.push_back(cv.second); } ptr.push_back((long)col.size() + base); }
        int mal = (int)rng.range(0, 39);
        if (mal == 0 && !col.empty()) { col.pop_back(); }                                   // col one short: the last row reads past it
        else if (mal == 1 && !val.empty()) { val.pop_back(); }                              // val one short
        else if (mal == 2) { ptr.pop_back(); }                                              // ptr one short
        else if (mal == 3 && n >= 2 && ptr[1] != ptr[n]) { std::swap(ptr[1], ptr[n]); }     // decreasing / overshooting ptr
        else if (mal == 4 && !col.empty()) { col[rng.next() % col.size()] = n + base; }     // column n (one past)
        else if (mal == 5 && !col.empty()) { col[rng.next() % col.size()] = base - 1 < 0 ? n + 3 : base - 1; }   // column -1 seen through the view
        else if (mal == 6) { ptr.back() += 1; }                                             // ptr[n] one too large
        else if (mal == 7) { col.push_back(base); val.push_back(Q(7)); ptr.push_back(ptr.back()); }               // slack behind all three arrays: fine
        else if (mal == 8 && base == 1) { for (auto &p : ptr) p -= 1; }                     // 0-based ptr handed to the 1-based entry: reads ptr-1 => index -1
        else if (mal == 9) { long s = rng.range(1, 3); std::vector<long> c2(s, base); std::vector<Q> v2(s, Q(9)); c2.insert(c2.end(), col.begin(), col.end()); v2.insert(v2.end(), val.begin(), val.end()); col = c2; val = v2; for (auto &p : ptr) p += s; }   // rows start at an offset: ptr[0] != base, fine
        Line l; l << "capi_view" << base << n << ptr; l << (long)col.size(); for (auto cc : col) l << cc; l << val;
        lines.push_back(l.get());
    }
    lines.push_back("capi_view 2 1 2 2 3 1 2 1 1");            // base 2
    lines.push_back("capi_view 0 1 2 0 1 1 0");                // val missing
    lines.push_back("capi_view 1 2 3 1 2 3 2 1 x 2 1 1");      // junk token
}

static void gen_script(Rng &rng, const Opts &o, std::vector<std::string> &lines, long N) {
    for (long k = 0; k < N; ++k) {
        long n = rng.range(3, o.thorough() ? 60 : 24);
        Line l; l << "capi_script" << n;
        struct H { char kind; bool alive; int nset = 0; };
        std::vector<H> hs;
        long len = rng.range(1, 16);
        bool sabotage = rng.coin(1, 3); long sab_at = rng.range(len / 2, len - 1);
        auto pick = [&](char kind, bool alive) -> long { std::vector<long> c; for (size_t i = 0; i < hs.size(); ++i) if (hs[i].kind == kind && hs[i].alive == alive) c.push_back((long)i); return c.empty() ? -1 : c[rng.next() % c.size()]; };
        for (long s = 0; s < len; ++s) {
            if (sabotage && s == sab_at) {
                // one call on a handle that must not be used (any later call is never reached)
                std::vector<std::string> cand; long h;
                if ((h = pick('s', false)) >= 0) { cand.push_back("ssolve " + std::to_string(h)); cand.push_back("smtx 1 " + std::to_string(h)); cand.push_back("sdestroy " + std::to_string(h)); cand.push_back("sreport " + std::to_string(h)); }
                if ((h = pick('p', false)) >= 0) { cand.push_back("screate 0 " + std::to_string(h)); cand.push_back("acreate 1 " + std::to_string(h)); cand.push_back("pset " + std::to_string(h)); cand.push_back("pdestroy " + std::to_string(h)); }
                if ((h = pick('a', false)) >= 0) { cand.push_back("adestroy " + std::to_string(h)); cand.push_back("aapply " + std::to_string(h)); }
                if ((h = pick('a', true)) >= 0) { cand.push_back("ssolve " + std::to_string(h)); cand.push_back("pdestroy " + std::to_string(h)); cand.push_back("screate 0 " + std::to_string(h)); }
                if ((h = pick('s', true)) >= 0) { cand.push_back("pset " + std::to_string(h)); cand.push_back("aapply " + std::to_string(h)); cand.push_back("adestroy " + std::to_string(h)); }
                if ((h = pick('p', true)) >= 0) { cand.push_back("ssolve " + std::to_string(h)); cand.push_back("areport " + std::to_string(h)); }
                cand.push_back("aapply " + std::to_string((long)hs.size() + rng.range(0, 2)));
                l << cand[rng.next() % cand.size()]; continue;
            }
            int w = (int)rng.range(0, 15); long h;
            // 12..15: a parameter handle that is written again (pset overwrites the paths of the previous pset with other
            // values), used for a creation after that, and the created object used
            auto pick_set = [&](int least) -> long { std::vector<long> c; for (size_t i = 0; i < hs.size(); ++i) if (hs[i].kind == 'p' && hs[i].alive && hs[i].nset >= least) c.push_back((long)i); return c.empty() ? -1 : c[rng.next() % c.size()]; };
            if (w == 0 || hs.empty()) { l << "pcreate"; hs.push_back({'p', true}); }
            else if (w == 12 && (h = pick_set(1)) >= 0) { l << "pset" << h; ++hs[h].nset; }
            else if (w == 13 && (h = pick_set(2)) >= 0) { bool slv = rng.coin(); l << (slv ? "screate" : "acreate") << rng.range(0, 1) << h; hs.push_back({slv ? 's' : 'a', true}); }
            else if ((w == 14 || w == 15) && !hs.empty() && hs.back().alive && hs.back().kind != 'p') { h = (long)hs.size() - 1; if (hs[h].kind == 'a') l << "aapply" << h; else if (rng.coin()) l << "ssolve" << h; else l << "smtx" << rng.range(0, 1) << h; }
            else if ((w == 1 || w >= 12) && (h = pick('p', true)) >= 0) { l << "pset" << h; ++hs[h].nset; }
            else if (w == 2 && (h = pick('p', true)) >= 0) { l << "pdestroy" << h; hs[h].alive = false; }
            else if (w == 3) { h = rng.coin(1, 3) ? -1 : pick('p', true); l << "acreate" << rng.range(0, 1); if (h < 0) l << "null"; else l << h; hs.push_back({'a', true}); }
            else if (w == 4) { h = rng.coin(1, 3) ? -1 : pick('p', true); l << "screate" << rng.range(0, 1); if (h < 0) l << "null"; else l << h; hs.push_back({'s', true}); }
            else if (w == 5 && (h = pick('a', true)) >= 0) { l << "aapply" << h; }
            else if (w == 6 && (h = pick('a', true)) >= 0) { bool rep = rng.coin(); l << (rep ? "areport" : "adestroy") << h; if (!rep) hs[h].alive = false; }
            else if (w == 7 && (h = pick('s', true)) >= 0) { l << "ssolve" << h; }
            else if (w == 8 && (h = pick('s', true)) >= 0) { l << "smtx" << rng.range(0, 1) << h; }
            else if (w == 9 && (h = pick('s', true)) >= 0) { l << "sreport" << h; }
            else if (w == 10 && (h = pick('s', true)) >= 0) { l << "sdestroy" << h; hs[h].alive = false; }
            else if ((h = pick('a', true)) >= 0) { l << "aapply" << h; }
            else { l << "pcreate"; hs.push_back({'p', true}); }
        }
        if (rng.coin(2, 3)) for (size_t i = 0; i < hs.size(); ++i) if (hs[i].alive) { l << (hs[i].kind == 'p' ? "pdestroy" : hs[i].kind == 'a' ? "adestroy" : "sdestroy") << (long)i; }   // balanced ending
        lines.push_back(l.get());
    }
    lines.push_back("capi_script 0 pcreate");                  // n = 0
    lines.push_back("capi_script 4 pcreate pset");             // missing handle
    lines.push_back("capi_script 4 acreate 2 null");           // base 2
    lines.push_back("capi_script 4 frobnicate 0");
}
static void gen_params(Rng &rng, const Opts &o, std::vector<std::string> &lines, long N) {
    // few paths, related as ancestor / sibling / equal, so that overwrites, parents with a value and children are frequent
    static const std::vector<std::string> paths = { "a", "b", "a.b", "a.c", "a.b.c", "a.b.d", "b.a", "c", "solver.tol", "solver.type", "solver.maxiter",
        "precond.relax.type", "precond.coarsening.aggr.eps_strong", "precond.coarse_enough", "x1.y_2.z3", "solver" };
    static const std::vector<std::string> texts = { "cg", "x", "true", "false", "spai0", "0", "12", "bicgstab", "A_b" };
    for (long k = 0; k < N; ++k) {
        std::vector<int> alive; Line l; l << "capi_params";
        long len = rng.range(2, o.thorough() ? 60 : 30);
        auto value = [&](Line &q, bool with_type, const char *&setter) {
            int t = (int)rng.range(0, 2);
            if (t == 0) { setter = "seti"; if (with_type) q << "i"; q << rng.range(-5, 40); }
            else if (t == 1) { setter = "setf"; if (with_type) q << "f"; long kk = rng.range(0, 6); long m = rng.range(-2000, 2000); q << Q::frac(m, 1L << kk); }
            else { setter = "sets"; if (with_type) q << "s"; q << rng.pick(texts); }
        };
        for (long s = 0; s < len; ++s) {
            std::vector<long> lp; for (size_t q = 0; q < alive.size(); ++q) if (alive[q]) lp.push_back((long)q);
            int w = (int)rng.range(0, 19);
            if (lp.empty() || w == 0) { l << "new"; alive.push_back(1); continue; }
            long h = lp[rng.next() % lp.size()];
            if (w == 1) { l << "del" << h; alive[h] = 0; }
            else if (w <= 3) {
                std::vector<std::string> ks; long K = rng.range(0, 6);
                for (long q = 0; q < K; ++q) { const std::string &p = rng.pick(paths); bool clash = false; for (auto &e : ks) if (dot_prefix(e, p) || dot_prefix(p, e)) clash = true; if (!clash) ks.push_back(p); }
                l << "json" << h << (long)ks.size();
                for (auto &p : ks) { const char *st; l << p; value(l, true, st); }
            } else { Line v; const char *st = ""; value(v, false, st); l << st << h << rng.pick(paths) << v.get(); }
        }
        lines.push_back(l.get());
    }
    lines.push_back("capi_params new seti 0 a 1 seti 0 a 2 seti 0 a.b 3 sets 0 a x");     // the demo of the rule: last write wins, children kept
    lines.push_back("capi_params seti 0 a 1");                   // handle never created
    lines.push_back("capi_params new del 0 sets 0 a x");         // destroyed handle
    lines.push_back("capi_params new seti 0 a..b 1");            // empty path segment
    lines.push_back("capi_params new setf 0 a 1/3");             // not a float
    lines.push_back("capi_params new setf 0 a 1/128");           // outside the plain-decimal range of the model
    lines.push_back("capi_params new json 0 2 a i 1 a.b i 2");   // value and object at one key
    lines.push_back("capi_params new sets 0 a x-y");             // text outside [A-Za-z0-9_]
    lines.push_back("capi_params new seti 0 a");                 // value missing
}
#endif

#ifdef CAPI_IMPL_ONLY
static Q float_q(float f) { return Q((double)f); }
static void gen_solve(Rng &rng, const Opts &o, std::vector<std::string> &lines, long N) {
    static const std::vector<std::string> solvers = { "cg", "bicgstab", "bicgstabl", "gmres", "lgmres", "fgmres", "idrs", "richardson", "preonly" };
    static const std::vector<std::string> coars = { "ruge_stuben", "aggregation", "smoothed_aggregation", "smoothed_aggr_emin" };
    static const std::vector<std::string> relax = { "gauss_seidel", "ilu0", "iluk", "ilup", "ilut", "damped_jacobi", "spai0", "spai1", "chebyshev" };
    static const std::vector<float> tols = { 1e-6f, 1e-8f, 1e-3f, 9.5367431640625e-07f /*2^-20*/, 1e-10f, 0.5f };
    static const std::vector<float> fracs = { 0.72f, 0.5f, 0.08f, 1.0f, 0.25f, 0.9f, 1.5f, 2.0f / 3.0f };
    for (long k = 0; k < N; ++k) {
        long n = rng.range(4, o.thorough() ? 220 : 90);
        bool sym = rng.coin(2, 3);
        Mat A = sym ? gen_spd(rng, n, -1, 4) : gen_convdiff(rng, n);
        n = A.n;
        if (rng.coin(1, 4)) A = unsort(rng, A, false);
        struct P { std::string key; char t; long i; float f; std::string s; };
        std::vector<P> ps;
        auto addi = [&](const std::string &key, long v) { ps.push_back({key, 'i', v, 0, ""}); };
        auto addf = [&](const std::string &key, float v) { ps.push_back({key, 'f', 0, v, ""}); };
        auto adds = [&](const std::string &key, const std::string &v) { ps.push_back({key, 's', 0, 0, v}); };
        bool defaults = rng.coin(1, 8);
        if (!defaults) {
            std::string st = rng.pick(solvers), ct = rng.pick(coars), rt = rng.pick(relax);
            if (!sym && st == "cg") st = "bicgstab";
            if (rng.coin(5, 6)) adds("solver.type", st); else st = "";
            if (rng.coin(3, 4)) addf("solver.tol", rng.pick(tols));
            if (rng.coin(3, 4)) addi("solver.maxiter", rng.range(1, 40));
            if (st == "gmres" || st == "fgmres" || st == "lgmres") { if (rng.coin()) addi("solver.M", rng.range(2, 12)); }
            if (st == "lgmres" && rng.coin()) addi("solver.K", rng.range(1, 3));
            if (st == "bicgstabl" && rng.coin()) addi("solver.L", rng.range(1, 4));
            if (st == "idrs" && rng.coin()) addi("solver.s", rng.range(1, 5));
            if (st == "richardson" && rng.coin()) addf("solver.damping", rng.pick(fracs));
            if (rng.coin(5, 6)) adds("precond.coarsening.type", ct); else ct = "";
            if (rng.coin(5, 6)) adds("precond.relax.type", rt); else rt = "";
            addi("precond.coarse_enough", rng.range(2, std::max<long>(3, n / 2)));
            if (rng.coin(1, 3)) addi("precond.npre", rng.range(0, 3));
            if (rng.coin(1, 3)) addi("precond.npost", rng.range(1, 3));
            if (rng.coin(1, 4)) addi("precond.ncycle", rng.range(1, 2));
            if (rng.coin(1, 4)) addi("precond.pre_cycles", rng.range(0, 2));
            if (rng.coin(1, 4)) addi("precond.max_levels", rng.range(1, 4));
            if (rng.coin(1, 4)) addi("precond.direct_coarse", rng.range(0, 1));
            if ((ct == "aggregation" || ct == "smoothed_aggregation" || ct == "smoothed_aggr_emin") && rng.coin()) addf("precond.coarsening.aggr.eps_strong", rng.pick(fracs) * 0.1f);
            if (ct == "smoothed_aggregation" && rng.coin()) addf("precond.coarsening.relax", rng.pick(fracs));
            if (ct == "aggregation" && rng.coin()) addf("precond.coarsening.over_interp", rng.pick(fracs) + 1.0f);
            if (ct == "ruge_stuben" && rng.coin()) addf("precond.coarsening.eps_strong", rng.pick(fracs) * 0.5f);
            if (ct == "ruge_stuben" && rng.coin(1, 3)) addi("precond.coarsening.do_trunc", rng.range(0, 1));
            if ((rt == "damped_jacobi" || rt == "ilu0" || rt == "iluk" || rt == "ilut" || rt == "ilup") && rng.coin()) addf("precond.relax.damping", rng.pick(fracs));
            if ((rt == "iluk" || rt == "ilup") && rng.coin()) addi("precond.relax.k", rng.range(1, 2));
            if (rt == "ilut" && rng.coin()) addf("precond.relax.tau", rng.pick(fracs) * 0.01f);
            if (rt == "chebyshev" && rng.coin()) addi("precond.relax.degree", rng.range(1, 6));
            if (rng.coin(1, 12)) addi("solver.no_such_parameter", 3);
            if (rng.coin(1, 12)) addf("precond.relax.no_such_parameter", 0.3f);
            // setter order is part of the input
            for (size_t q = ps.size(); q > 1; --q) std::swap(ps[q-1], ps[rng.next() % q]);
        }
        // smoothed_aggr_emin accumulates omega/denum under `#pragma omp critical` (smoothed_aggr_emin.hpp:247-259): in
        // binary64 its setup depends on the thread interleaving, so two runs of the SAME code differ with >= 2 threads
        // (a C09 matter, reported there); bitwise impl-vs-impl comparison is only meaningful for it with one thread
        long nt = rng.pick(std::vector<long>{1, 1, 2, 3});
        for (auto &p : ps) if (p.key == "precond.coarsening.type" && p.s == "smoothed_aggr_emin") nt = 1;
        Line l; l << "capi_solve" << nt << rng.range(0, 1) << (long)ps.size();
        for (auto &p : ps) { l << p.key; if (p.t == 'i') { l << "i" << p.i; } else if (p.t == 'f') { l << "f"; l << float_q(p.f); } else { l << "s" << p.s; } }
        l << A;
        if (rng.coin(2, 3)) {
            Mat A2 = A;
            int how = (int)rng.range(0, 2);
            if (how == 0) { for (long i = 0; i < A2.n; ++i) for (auto j = A2.ptr[i]; j < A2.ptr[i+1]; ++j) if (A2.col[j] == i) A2.val[j] += Q::frac(rng.range(0, 3), 4); }     // same pattern, drifted diagonal
            else if (how == 1) { A2 = gen_spd(rng, n, 2, 4); if (A2.n != n) A2 = A; }                                                                                      // different pattern, same size
            else { auto rows = to_rows(A2); shuffle_rows_inplace(rng, rows); for (auto &rw : rows) for (auto &cv : rw) cv.second *= Q(2); A2 = from_rows(A2.n, A2.m, rows); }   // scaled, unsorted
            l << 1 << A2;
        } else l << 0;
        std::vector<Q> rhs(n), x0(n);
        for (auto &v : rhs) v = dyadic(rng); if (rng.coin(1, 20)) for (auto &v : rhs) v = Q(0);
        bool zero_x0 = rng.coin(1, 2); for (auto &v : x0) v = zero_x0 ? Q(0) : dyadic(rng, 4);
        l << rhs << x0;
        lines.push_back(l.get());
    }
    lines.push_back("capi_solve 1 0 0 2 2 1 0 2 1 1 1 0 2 1 1 2 0 0");                 // A with 1 entry in a 1-entry row list: malformed counts
    lines.push_back("capi_solve 1 2 0 1 1 1 0 1 0 1 1 1 0");                             // base 2
    lines.push_back("capi_solve 1 0 1 solver.tol f 1/3 1 1 1 0 1 0 1 1 1 0");            // 1/3 is not a float
    lines.push_back("capi_solve 1 0 0 2 2 1 0 1/3 1 1 1 0 2 1 1 2 0 0");                 // 1/3 not exact in binary64
}
// ---- parameter-handle histories
static PEnt hist_value(Rng &rng, const std::string &key, bool sym, long n) {
    static const std::vector<std::string> solvers = { "cg", "bicgstab", "bicgstabl", "gmres", "lgmres", "fgmres", "idrs", "richardson", "preonly" };
    static const std::vector<std::string> coars = { "ruge_stuben", "aggregation", "smoothed_aggregation", "smoothed_aggr_emin" };
    static const std::vector<std::string> relax = { "gauss_seidel", "ilu0", "iluk", "ilup", "ilut", "damped_jacobi", "spai0", "spai1", "chebyshev" };
    static const std::vector<float> tols = { 1e-6f, 1e-8f, 1e-3f, 9.5367431640625e-07f /*2^-20*/, 1e-10f, 0.5f, 1e-2f, 1e-4f };
    static const std::vector<float> fracs = { 0.72f, 0.5f, 0.08f, 1.0f, 0.25f, 0.9f, 1.5f, 2.0f / 3.0f };
    PEnt e; e.key = key;
    auto I = [&](long v) { e.type = 'i'; e.i = (int)v; }; auto F = [&](float v) { e.type = 'f'; e.f = v; }; auto S = [&](const std::string &v) { e.type = 's'; e.s = v; };
    if (key == "solver.type") { std::string st = rng.pick(solvers); if (!sym && st == "cg") st = "bicgstab"; S(st); }
    else if (key == "solver.tol") F(rng.pick(tols));
    else if (key == "solver.maxiter") I(rng.range(1, 40));
    else if (key == "solver.M") I(rng.range(2, 12));
    else if (key == "solver.K") I(rng.range(1, 3));
    else if (key == "solver.L") I(rng.range(1, 4));
    else if (key == "solver.s") I(rng.range(1, 5));
    else if (key == "solver.damping") F(rng.pick(fracs));
    else if (key == "precond.coarsening.type") S(rng.pick(coars));
    else if (key == "precond.relax.type") S(rng.pick(relax));
    else if (key == "precond.coarse_enough") I(rng.range(2, std::max<long>(3, n / 2)));
    else if (key == "precond.npre") I(rng.range(0, 3));
    else if (key == "precond.npost") I(rng.range(1, 3));
    else if (key == "precond.ncycle") I(rng.range(1, 2));
    else if (key == "precond.pre_cycles") I(rng.range(0, 2));
    else if (key == "precond.max_levels") I(rng.range(1, 4));
    else if (key == "precond.direct_coarse") I(rng.range(0, 1));
    else if (key == "precond.coarsening.aggr.eps_strong") F(rng.pick(fracs) * 0.1f);
    else if (key == "precond.coarsening.relax") F(rng.pick(fracs));
    else if (key == "precond.coarsening.over_interp") F(rng.pick(fracs) + 1.0f);
    else if (key == "precond.coarsening.eps_strong") F(rng.pick(fracs) * 0.5f);
    else if (key == "precond.coarsening.do_trunc") I(rng.range(0, 1));
    else if (key == "precond.relax.damping") F(rng.pick(fracs));
    else if (key == "precond.relax.k") I(rng.range(1, 2));
    else if (key == "precond.relax.tau") F(rng.pick(fracs) * 0.01f);
    else if (key == "precond.relax.degree") I(rng.range(1, 6));
    else if (key == "solver.no_such_parameter") I(rng.range(1, 9));
    else F(rng.pick(fracs));
    // an integer parameter handed over as text through amgcl_params_sets
    if (e.type == 'i' && e.i >= 0 && rng.coin(1, 10)) { e.type = 's'; e.s = std::to_string(e.i); }
    return e;
}
static bool same_value(const PEnt &a, const PEnt &b) { return value_text(a) == value_text(b); }
static void gen_hist(Rng &rng, const Opts &o, std::vector<std::string> &lines, long N) {
    // keys that change the iteration visibly are drawn more often
    static const std::vector<std::string> keys = {
        "solver.type", "solver.type", "solver.type", "solver.tol", "solver.tol", "solver.tol", "solver.maxiter", "solver.maxiter", "solver.maxiter",
        "precond.coarse_enough", "precond.coarse_enough", "precond.coarse_enough", "precond.relax.type", "precond.relax.type", "precond.coarsening.type", "precond.coarsening.type",
        "solver.M", "solver.K", "solver.L", "solver.s", "solver.damping",
        "precond.npre", "precond.npost", "precond.ncycle", "precond.pre_cycles", "precond.max_levels", "precond.direct_coarse",
        "precond.coarsening.aggr.eps_strong", "precond.coarsening.relax", "precond.coarsening.over_interp", "precond.coarsening.eps_strong", "precond.coarsening.do_trunc",
        "precond.relax.damping", "precond.relax.k", "precond.relax.tau", "precond.relax.degree", "solver.no_such_parameter", "precond.relax.no_such_parameter" };
    for (long k = 0; k < N; ++k) {
        long n = rng.range(4, o.thorough() ? 160 : 60);
        bool sym = rng.coin(2, 3);
        Mat A = sym ? gen_spd(rng, n, -1, 4) : gen_convdiff(rng, n);
        n = A.n;
        if (rng.coin(1, 5)) A = unsort(rng, A, false);
        struct GH { bool alive = true; bool amg = false; std::vector<PEnt> cur; };
        std::vector<GH> hs; long nobj = 0; std::vector<long> live_obj;
        std::vector<std::string> ev; bool emin = false;
        auto emit_ent = [&](Line &l, const GH &g, const PEnt &e) {
            l << (g.amg ? e.key.substr(8) : e.key);
            if (e.type == 'i') { l << "i" << (long)e.i; } else if (e.type == 'f') { l << "f"; l << float_q(e.f); } else { l << "s" << e.s; }
            if (e.type == 's' && e.s == "smoothed_aggr_emin") emin = true;
        };
        auto pick_key = [&](const GH &g) { for (;;) { const std::string &key = rng.pick(keys); if (!g.amg || key.compare(0, 8, "precond.") == 0) return key; } };
        auto g_new = [&](bool amg) { GH g; g.amg = amg; hs.push_back(g); ev.push_back("new"); return (long)hs.size() - 1; };
        // write one path: an existing one with a DIFFERENT value (overwrite) or any path
        auto g_set = [&](long h, bool overwrite) {
            GH &g = hs[h]; PEnt e;
            if (overwrite && !g.cur.empty()) {
                const PEnt old = g.cur[rng.next() % g.cur.size()];
                for (int t = 0; t < 8; ++t) { e = hist_value(rng, old.key, sym, n); if (!same_value(e, old)) break; }
            } else e = hist_value(rng, pick_key(g), sym, n);
            bool found = false; for (auto &c : g.cur) if (c.key == e.key) { c = e; found = true; } if (!found) g.cur.push_back(e);
            Line l; l << "set" << h; emit_ent(l, g, e); ev.push_back(l.get());
        };
        auto g_json = [&](long h, long K) {
            GH &g = hs[h]; g.cur.clear();
            for (long q = 0; q < K; ++q) { PEnt e = hist_value(rng, pick_key(g), sym, n); bool dup = false; for (auto &c : g.cur) if (c.key == e.key) dup = true; if (!dup) g.cur.push_back(e); }
            Line l; l << "json" << h << (long)g.cur.size(); for (auto &e : g.cur) emit_ent(l, g, e); ev.push_back(l.get());
        };
        auto g_mk = [&](long h) {           // h < 0: NULL parameters
            bool amg = h >= 0 ? hs[h].amg : rng.coin();
            if (h >= 0 && rng.coin(7, 8)) {  // the default coarse_enough (3000) means a single level for these sizes
                bool has = false; for (auto &c : hs[h].cur) if (c.key == "precond.coarse_enough") has = true;
                if (!has) { PEnt e = hist_value(rng, "precond.coarse_enough", sym, n); hs[h].cur.push_back(e); Line l; l << "set" << h; emit_ent(l, hs[h], e); ev.push_back(l.get()); }
            }
            if (h >= 0 && rng.coin(1, 12)) amg = !amg;          // a handle written for the other family: everything unknown, defaults
            Line l; l << "mk" << (amg ? "a" : "s") << rng.range(0, 1); if (h < 0) l << "null"; else l << h; ev.push_back(l.get());
            live_obj.push_back(nobj++);
        };
        auto g_pdel = [&](long h) { hs[h].alive = false; ev.push_back("pdel " + std::to_string(h)); };
        auto g_obj = [&]() {               // use or destroy a live object
            if (live_obj.empty()) return;
            size_t q = rng.next() % live_obj.size();
            if (rng.coin(2, 3)) ev.push_back("use " + std::to_string(live_obj[q]));
            else { ev.push_back("odel " + std::to_string(live_obj[q])); live_obj.erase(live_obj.begin() + q); }
        };
        auto fill = [&](long h, long cnt) { for (long q = 0; q < cnt; ++q) g_set(h, false); };
        int fam = (int)rng.range(0, 7);
        bool amg = rng.coin(1, 4);
        if (fam == 0) {             // a handle that is re-tuned and reused
            long h = g_new(amg); fill(h, rng.range(2, 7)); g_mk(h);
            for (long rep = rng.range(1, 3); rep > 0; --rep) { for (long q = rng.range(1, 4); q > 0; --q) g_set(h, rng.coin(4, 5)); if (rng.coin(1, 3)) g_obj(); g_mk(h); }
        } else if (fam == 1) {      // values read from a file, then overridden by setters
            long h = g_new(amg); g_json(h, rng.range(2, 9));
            for (long q = rng.range(1, 4); q > 0; --q) g_set(h, rng.coin(5, 6));
            g_mk(h);
            if (rng.coin()) { for (long q = rng.range(1, 3); q > 0; --q) g_set(h, true); g_mk(h); }
        } else if (fam == 2) {      // the same path written several times before the first use
            long h = g_new(amg); fill(h, rng.range(1, 4));
            for (long q = rng.range(2, 6); q > 0; --q) g_set(h, true);
            if (rng.coin(1, 3)) fill(h, rng.range(1, 3));
            g_mk(h);
        } else if (fam == 3) {      // destroy + create (the allocator is free to return the same address)
            long h = g_new(amg); fill(h, rng.range(2, 6)); if (rng.coin(2, 3)) g_mk(h); g_pdel(h);
            std::vector<PEnt> old = hs[h].cur;
            long h2 = g_new(amg);           // the same paths again, other values
            for (auto &e : old) if (rng.coin(2, 3)) {
                PEnt f = e; for (int t = 0; t < 8; ++t) { f = hist_value(rng, e.key, sym, n); if (!same_value(f, e)) break; }
                hs[h2].cur.push_back(f); Line l; l << "set" << h2; emit_ent(l, hs[h2], f); ev.push_back(l.get());
            }
            if (rng.coin()) g_set(h2, true);
            g_mk(h2);
        } else if (fam == 4) {      // two handles written in turns
            long a = g_new(amg), b = g_new(amg);
            for (long q = rng.range(3, 10); q > 0; --q) g_set(rng.coin() ? a : b, rng.coin(1, 2));
            g_mk(a); g_mk(b); if (rng.coin()) { g_set(a, true); g_mk(a); }
        } else if (fam == 5) {      // a file replaces what was set before (and what an earlier file said)
            long h = g_new(amg); fill(h, rng.range(1, 5)); if (rng.coin()) g_mk(h);
            g_json(h, rng.range(0, 6)); g_mk(h);
            if (rng.coin()) { if (rng.coin()) g_set(h, true); g_json(h, rng.range(1, 6)); if (rng.coin()) g_set(h, true); g_mk(h); }
        } else {                    // random walk over all calls
            long len = rng.range(4, 24); g_new(amg);
            for (long s = 0; s < len; ++s) {
                std::vector<long> lp; for (size_t q = 0; q < hs.size(); ++q) if (hs[q].alive) lp.push_back((long)q);
                int w = (int)rng.range(0, 15);
                if (lp.empty() || w == 0) { g_new(rng.coin(1, 4)); continue; }
                long h = lp[rng.next() % lp.size()];
                if (w <= 5) g_set(h, rng.coin());
                else if (w == 6) g_json(h, rng.range(0, 6));
                else if (w <= 10) g_mk(rng.coin(1, 8) ? -1 : h);
                else if (w == 11 && nobj > 0) g_pdel(h);
                else g_obj();
            }
            if (nobj == 0) { std::vector<long> lp; for (size_t q = 0; q < hs.size(); ++q) if (hs[q].alive) lp.push_back((long)q); if (lp.empty()) lp.push_back(g_new(amg)); g_mk(lp[0]); }
        }
        // tail: some handles destroyed before the final use of the objects, some objects used / destroyed explicitly
        for (size_t q = 0; q < hs.size(); ++q) if (hs[q].alive && rng.coin(1, 3)) { if (rng.coin()) g_set((long)q, true); else g_pdel((long)q); }
        if (rng.coin(1, 3)) g_obj();
        long nt = emin ? 1 : rng.pick(std::vector<long>{1, 1, 2, 3});
        std::vector<Q> rhs(n), x0(n);
        for (auto &v : rhs) v = dyadic(rng);
        bool zero_x0 = rng.coin(1, 2); for (auto &v : x0) v = zero_x0 ? Q(0) : dyadic(rng, 4);
        Line l; l << "capi_hist" << nt << A << rhs << x0; for (auto &e : ev) l << e;
        lines.push_back(l.get());
    }
    lines.push_back("capi_hist 1 1 1 1 0 1 1 1 1 0 set 0 solver.tol f 1/2");                    // handle never created
    lines.push_back("capi_hist 1 1 1 1 0 1 1 1 1 0 new pdel 0 mk s 0 0");                       // destroyed handle
    lines.push_back("capi_hist 1 1 1 1 0 1 1 1 1 0 new set 0 solver..tol f 1/2");               // empty path segment
    lines.push_back("capi_hist 1 1 1 1 0 1 1 1 1 0 new json 0 2 solver s x solver.tol f 1/2");  // a file cannot hold a value and an object at one key
    lines.push_back("capi_hist 1 1 1 1 0 1 1 1 1 0 new set 0 solver.tol f 1/3");                // 1/3 is not a float
    lines.push_back("capi_hist 1 1 1 1 0 1 1 1 1 0 mk s 0 null use 1");                         // object never created
}
#endif

static void generate(Rng &rng, const Opts &o, std::vector<std::string> &lines) {
#ifndef CAPI_IMPL_ONLY
    long nv = o.cases > 0 ? o.cases : (o.thorough() ? 3000 : 250);
    long ns = o.cases > 0 ? o.cases : (o.thorough() ? 2000 : 150);
    gen_view(rng, o, lines, nv);
    gen_script(rng, o, lines, ns);
    gen_params(rng, o, lines, o.cases > 0 ? o.cases : (o.thorough() ? 3000 : 300));
#else
    long N = o.cases > 0 ? o.cases : (o.thorough() ? 2500 : 160);
    gen_solve(rng, o, lines, N);
    gen_hist(rng, o, lines, o.cases > 0 ? o.cases : (o.thorough() ? 1500 : 110));
#endif
}

int main(int argc, char **argv) {
    for (int i = 1; i + 1 < argc; ++i) if (std::string(argv[i]) == "--out") g_outdir = argv[i + 1];
    return vh::harness_main(argc, argv, generate, execute);
}
