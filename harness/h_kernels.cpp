// C08 harness: sparse kernels of the builtin backend at the exact rational type Q.
// Ops: k_transpose A | k_saad A B sort | k_rmerge A B | k_product nt A B sort | k_sum a A b B sort
//      k_scale A s | k_sort A | k_diag A invert | k_gersh scaled A | k_power scaled iters A (double, labelled test)
//      k_crs_copy kind A   (0: range constructor, 1: copy constructor, 2: convert from crs<Q,int,int>, 3: convert from a tuple adapter (square))
#include "gen.hpp"
#include <amgcl/backend/builtin.hpp>
#include <amgcl/detail/spgemm.hpp>
#include <amgcl/adapter/crs_tuple.hpp>
#ifdef _OPENMP
#include <omp.h>
#endif
using namespace vh;

static std::vector<long> ptr_of(const Crs &C) { return std::vector<long>(C.ptr, C.ptr + C.nrows + 1); }
static bool dense_eq(const Dense &a, const Dense &b) {
    if (a.size() != b.size()) return false;
    for (size_t i = 0; i < a.size(); ++i) { if (a[i].size() != b[i].size()) return false; for (size_t j = 0; j < a[i].size(); ++j) if (a[i][j].v != b[i][j].v) return false; }
    return true;
}
static Mat checked(Cur &c) { Mat A = c.mat(); std::string why; if (!crs_wf(*A.crs(), why)) throw bad_input(why); return A; }
static bool sorted_in(const Mat &A) { return crs_sorted_nodup(*A.crs()); }
static bool has_dup_accum(const Mat &A, const Mat &B) {   // some product entry accumulates >= 2 terms
    for (long i = 0; i < A.n; ++i) { std::map<long,int> cnt; for (auto j = A.ptr[i]; j < A.ptr[i+1]; ++j) { long k = A.col[j]; for (auto l = B.ptr[k]; l < B.ptr[k+1]; ++l) if (++cnt[B.col[l]] > 1) return true; } }
    return false;
}

static void check_product(Result &r, const Mat &A, const Mat &B, const Crs &C, bool expect_sorted, bool b_sorted) {
    std::string why;
    if (!crs_wf(C, why)) { r.fail("product: " + why); return; }
    if (C.nrows != (size_t)A.n || C.ncols != (size_t)B.m) r.fail("product: wrong shape");
    if (!dense_eq(dense(C), dmul(dense(A), dense(B), B.m))) r.fail("product != dense A*B");
    if (b_sorted && sorted_in(A) && !crs_nodup(C)) r.fail("product row has duplicate columns");
    if (expect_sorted && !crs_sorted_nodup(C)) r.fail("product rows not sorted");
}

static Result execute(const Toks &t) {
    Cur c(t); const std::string &op = t[0]; Result r;
    if (op == "k_transpose") {
        Mat A = checked(c); c.expect_end();
        auto T = amgcl::backend::transpose(*A.crs());
        std::string why; if (!crs_wf(*T, why)) r.fail("transpose: " + why);
        Dense D = dense(A), DT = dense(*T); bool ok = T->nrows == (size_t)A.m && T->ncols == (size_t)A.n;
        for (long i = 0; ok && i < A.n; ++i) for (long j = 0; j < A.m; ++j) if (D[i][j].v != DT[j][i].v) ok = false;
        if (!ok) r.fail("transpose != dense transpose");
        if (!crs_sorted_nodup(*T) && crs_nodup(*A.crs())) r.fail("transpose rows not sorted");
        r.out = (Line() << *T).get(); r.nontrivial = A.col.size() > 1; r.tag("transpose"); if (A.n != A.m) r.tag("rect");
    } else if (op == "k_saad" || op == "k_rmerge") {
        Mat A = checked(c), B = checked(c); bool sort = false; if (op == "k_saad") sort = c.nat() != 0; c.expect_end();
        if (A.m != B.n) throw bad_input("shape");
        if (op == "k_rmerge" && !sorted_in(B)) throw bad_input("rmerge needs sorted B");
        Crs C;
        if (op == "k_saad") amgcl::backend::spgemm_saad(*A.crs(), *B.crs(), C, sort); else amgcl::backend::spgemm_rmerge(*A.crs(), *B.crs(), C);
        check_product(r, A, B, C, op == "k_rmerge" ? true : sort, sorted_in(B));
        r.out = (Line() << ptr_of(C) << C).get(); r.nontrivial = has_dup_accum(A, B); r.tag(op); if (sort) r.tag("sort"); if (!sorted_in(A) || !sorted_in(B)) r.tag("unsorted_in");
    } else if (op == "k_product") {
        long nt = c.nat(); Mat A = checked(c), B = checked(c); bool sort = c.nat() != 0; c.expect_end();
        if (A.m != B.n || nt < 1) throw bad_input("shape");
        if (nt > 16 && !sorted_in(B)) throw bad_input("rmerge needs sorted B");
#ifdef _OPENMP
        omp_set_num_threads((int)nt);
#endif
        auto C = amgcl::backend::product(*A.crs(), *B.crs(), sort);
#ifdef _OPENMP
        omp_set_num_threads(1);
#endif
        check_product(r, A, B, *C, nt > 16 ? true : sort, sorted_in(B));
        r.out = (Line() << *C).get(); r.nontrivial = has_dup_accum(A, B); r.tag(nt > 16 ? "product_rmerge" : "product_saad"); r.tag("nt" + std::to_string(nt));
    } else if (op == "k_sum") {
        Q a = c.rat(); Mat A = checked(c); Q b = c.rat(); Mat B = checked(c); bool sort = c.nat() != 0; c.expect_end();
        try {
            auto C = amgcl::backend::sum(a, *A.crs(), b, *B.crs(), sort);
            std::string why; if (!crs_wf(*C, why)) r.fail("sum: " + why);
            Dense DA = dense(A), DB = dense(B), DC = dense(*C); bool ok = true;
            for (long i = 0; i < A.n; ++i) for (long j = 0; j < A.m; ++j) if (DC[i][j].v != (a * DA[i][j] + b * DB[i][j]).v) ok = false;
            if (!ok) r.fail("sum != alpha*A + beta*B");
            if (!crs_nodup(*C)) r.fail("sum row has duplicate columns");
            if (sort && !crs_sorted_nodup(*C)) r.fail("sum rows not sorted");
            r.out = (Line() << ptr_of(*C) << *C).get();
        } catch (const std::exception &e) { r.out = "precondition"; if (A.n == B.n && A.m == B.m) r.fail("sum threw on equal shapes"); }
        r.nontrivial = A.col.size() > 0 && B.col.size() > 0; r.tag("sum"); if (sort) r.tag("sort");
    } else if (op == "k_scale") {
        Mat A = c.mat(); Q s = c.rat(); c.expect_end();
        auto Ac = A.crs(); amgcl::backend::scale(*Ac, s);
        bool ok = true; for (size_t j = 0; j < A.val.size(); ++j) if (Ac->val[j].v != (A.val[j] * s).v || Ac->col[j] != A.col[j]) ok = false;
        if (!ok) r.fail("scale");
        r.out = (Line() << *Ac).get(); r.nontrivial = A.col.size() > 0; r.tag("scale");
    } else if (op == "k_sort") {
        Mat A = c.mat(); c.expect_end();
        auto Ac = A.crs(); amgcl::backend::sort_rows(*Ac);
        bool ok = true;
        for (long i = 0; i < A.n; ++i) {
            std::vector<std::pair<long,std::string>> a, b;
            for (auto j = A.ptr[i]; j < A.ptr[i+1]; ++j) { a.push_back({(long)A.col[j], A.val[j].str()}); b.push_back({(long)Ac->col[j], Ac->val[j].str()}); if (j > A.ptr[i] && Ac->col[j-1] > Ac->col[j]) ok = false; }
            std::stable_sort(a.begin(), a.end(), [](auto &x, auto &y){ return x.first < y.first; });
            if (a != b) ok = false;      // sorted, a permutation, and stable
        }
        if (!ok) r.fail("sort_rows: not a stable sort of each row");
        r.out = (Line() << *Ac).get(); r.nontrivial = !sorted_in(A); r.tag("sort_rows");
    } else if (op == "k_diag") {
        Mat A = checked(c); bool inv = c.nat() != 0; c.expect_end();
        auto Ac = A.crs(); auto d = amgcl::backend::diagonal(*Ac, inv);
        Line l; l << (long)A.n; bool ok = true;
        for (long i = 0; i < A.n; ++i) {
            bool found = false; Q v;
            for (auto j = A.ptr[i]; j < A.ptr[i+1]; ++j) if (A.col[j] == i) { found = true; v = A.val[j]; break; }
            // a row without stored diagonal entry: the value of a zero diagonal (0, identity when inverted); before fix
            // baae926 the entry was never written (heap garbage / POISON)
            Q e = !found ? (inv ? Q(1) : Q(0)) : inv ? (v == 0 ? Q(1) : Q(1) / v) : v;
            if ((*d)[i].poison) { ok = false; }
            if ((*d)[i].v != e.v) ok = false;
            l << (*d)[i];
        }
        if (!ok) r.fail("diagonal");
        r.out = l.get(); r.nontrivial = A.n > 0; r.tag(inv ? "diag_inv" : "diag");
    } else if (op == "k_gersh") {
        bool sc = c.nat() != 0; Mat A = checked(c); c.expect_end();
        if (A.n != A.m) throw bad_input("square");
        auto Ac = A.crs();
        Q g = sc ? amgcl::backend::spectral_radius<true>(*Ac, 0) : amgcl::backend::spectral_radius<false>(*Ac, 0);
        // oracle (only when every row has exactly one diagonal entry, which is what the library requires): max_i sum_j |a_ij| / |a_ii|
        bool alldiag = true; Q ref(0);
        for (long i = 0; i < A.n; ++i) { Q s(0), d(0); int nd = 0; for (auto j = A.ptr[i]; j < A.ptr[i+1]; ++j) { s += vq::abs(A.val[j]); if (A.col[j] == i) { d = A.val[j]; ++nd; } } if (nd != 1) alldiag = false; if (sc) s = s * vq::abs(Q(1) / d); if (s > ref) ref = s; }
        if ((alldiag || !sc) && g.v != ref.v) r.fail("gershgorin bound != max row sum");
        r.out = (Line() << g).get(); r.nontrivial = A.col.size() > 0; r.tag(sc ? "gersh_scaled" : "gersh"); if (!alldiag) r.tag("missing_diag");
    } else if (op == "k_crs_copy") {
        long kind = c.nat(); Mat A = checked(c); c.expect_end();
        if (kind > 3 || (kind == 3 && A.n != A.m)) throw bad_input("kind");
        std::shared_ptr<Crs> C;
        if (kind == 0) C = A.crs();                                             // crs(nrows, ncols, ptr_range, col_range, val_range)
        else if (kind == 1) { auto Ac = A.crs(); C = std::make_shared<Crs>(*Ac); } // crs(const crs&)
        else if (kind == 2) {                                                    // crs(const Matrix&) from another index type
            std::vector<int> p(A.ptr.begin(), A.ptr.end()), cl(A.col.begin(), A.col.end());
            amgcl::backend::crs<Q, int, int> S((size_t)A.n, (size_t)A.m, p, cl, A.val);
            C = std::make_shared<Crs>(S);
        } else {                                                                 // crs(const Matrix&) from the tuple adapter
            auto T = std::make_tuple((size_t)A.n, amgcl::make_iterator_range(A.ptr.data(), A.ptr.data() + A.ptr.size()),
                    amgcl::make_iterator_range(A.col.data(), A.col.data() + A.col.size()),
                    amgcl::make_iterator_range(A.val.data(), A.val.data() + A.val.size()));
            C = std::make_shared<Crs>(T);
        }
        bool ok = C->nrows == (size_t)A.n && C->ncols == (size_t)A.m && C->nnz == A.col.size() && C->own_data;
        for (long i = 0; ok && i <= A.n; ++i) if (C->ptr[i] != A.ptr[i]) ok = false;
        for (size_t j = 0; ok && j < A.col.size(); ++j) if (C->col[j] != A.col[j] || C->val[j].v != A.val[j].v) ok = false;
        if (!ok) r.fail("crs copy/convert constructor is not the identity");
        r.out = (Line() << ptr_of(*C) << *C).get(); r.nontrivial = A.col.size() > 0; r.tag("crs_copy" + std::to_string(kind)); if (A.n != A.m) r.tag("rect");
    } else if (op == "k_power") {
        // power-method branch of spectral_radius (thread-seeded random start vector: not modelled).  Labelled TEST in
        // double: the estimate <b1,b0> of k steps never exceeds the largest singular value of (D^-1)A.
        bool sc = c.nat() != 0; long iters = c.nat(); Mat A = checked(c); c.expect_end();
        if (A.n != A.m || iters < 1) throw bad_input("square");
        long n = A.n; std::vector<ptrdiff_t> ptr(A.ptr), col(A.col); std::vector<double> val(A.val.size());
        for (size_t i = 0; i < val.size(); ++i) val[i] = A.val[i].v.get_d();
        amgcl::backend::crs<double> Ad(n, n, ptr, col, val);
        for (long i = 0; i < n; ++i) { int nd = 0; for (auto j = ptr[i]; j < ptr[i+1]; ++j) if (col[j] == i && val[j] != 0) ++nd; if (sc && nd != 1) throw bad_input("diagonal"); }
        double est = sc ? amgcl::backend::spectral_radius<true>(Ad, (int)iters) : amgcl::backend::spectral_radius<false>(Ad, (int)iters);
        // sigma_max^2 = largest eigenvalue of M^T M, M = (D^-1) A, by cyclic Jacobi in long double
        std::vector<std::vector<long double>> M(n, std::vector<long double>(n, 0)), G(n, std::vector<long double>(n, 0));
        for (long i = 0; i < n; ++i) { long double d = 1; for (auto j = ptr[i]; j < ptr[i+1]; ++j) if (col[j] == i) d = val[j]; for (auto j = ptr[i]; j < ptr[i+1]; ++j) M[i][col[j]] += sc ? val[j] / d : (long double)val[j]; }
        for (long i = 0; i < n; ++i) for (long j = 0; j < n; ++j) for (long k = 0; k < n; ++k) G[i][j] += M[k][i] * M[k][j];
        for (int sweep = 0; sweep < 60; ++sweep) { long double off = 0; for (long p = 0; p < n; ++p) for (long q = p + 1; q < n; ++q) { off += G[p][q] * G[p][q]; if (G[p][q] == 0) continue;
            long double th = (G[q][q] - G[p][p]) / (2 * G[p][q]), tt = (th >= 0 ? 1 : -1) / (fabsl(th) + sqrtl(th * th + 1)), cs = 1 / sqrtl(tt * tt + 1), sn = tt * cs;
            for (long k = 0; k < n; ++k) { long double a = G[k][p], b = G[k][q]; G[k][p] = cs * a - sn * b; G[k][q] = sn * a + cs * b; }
            for (long k = 0; k < n; ++k) { long double a = G[p][k], b = G[q][k]; G[p][k] = cs * a - sn * b; G[q][k] = sn * a + cs * b; } } if (off < 1e-40L) break; }
        long double lmax = 0; for (long i = 0; i < n; ++i) lmax = std::max(lmax, G[i][i]);
        long double smax = sqrtl(lmax);
        if (!(est <= smax * (1 + 1e-9L) + 1e-12L)) r.fail("power-method estimate exceeds the largest singular value: est=" + std::to_string(est) + " sigma_max=" + std::to_string((double)smax));
        r.out = "power-ok"; r.nontrivial = n > 1 && iters > 1; r.tag(sc ? "power_scaled" : "power"); r.tag("iters" + std::to_string(iters));
    } else r.out = "bad-op";
    return r;
}

// all sparsity patterns of an n x m matrix, values cycling through a small set
static Mat pattern_mat(long n, long m, unsigned long bits, int vshift) {
    static const long vals[] = { 1, -1, 2, -3, 5 };
    std::vector<std::vector<std::pair<long,Q>>> rows(n); int k = vshift;
    for (long i = 0; i < n; ++i) for (long j = 0; j < m; ++j) if (bits >> (i * m + j) & 1) rows[i].push_back({j, Q(vals[k++ % 5])});
    return from_rows(n, m, rows);
}

static void generate(Rng &rng, const Opts &o, std::vector<std::string> &lines) {
    long N = o.cases > 0 ? o.cases : (o.thorough() ? 6000 : 500);
    static const std::vector<long> nts = { 1, 2, 4, 16, 17, 32 };
    for (long k = 0; k < N; ++k) {
        int which = (int)rng.range(0, 9);
        long n = rng.range(0, o.thorough() ? 40 : 14), m = rng.coin(1, 3) ? rng.range(0, 14) : n, p = rng.coin(1, 3) ? rng.range(0, 14) : n;
        int dens = (int)rng.range(5, 60);
        Line l;
        if (which == 0) { Mat A = gen_sparse(rng, n, m, dens); if (rng.coin(1, 3)) A = unsort(rng, A, rng.coin()); l << "k_transpose" << A; }
        else if (which == 1) { Mat A = gen_sparse(rng, n, m, dens), B = gen_sparse(rng, m, p, dens); if (rng.coin(1, 3)) A = unsort(rng, A, rng.coin(1, 4)); if (rng.coin(1, 3)) B = unsort(rng, B, rng.coin(1, 4)); l << "k_saad" << A << B << rng.coin(); }
        else if (which == 2) { Mat A = gen_sparse(rng, n, m, dens), B = gen_sparse(rng, m, p, dens); if (rng.coin(1, 3)) A = unsort(rng, A, rng.coin(1, 4)); l << "k_rmerge" << A << B; }
        else if (which == 3) { Mat A = gen_sparse(rng, n, m, dens), B = gen_sparse(rng, m, p, dens); l << "k_product" << rng.pick(nts) << A << B << rng.coin(); }
        else if (which == 4) { Mat A = gen_sparse(rng, n, m, dens), B = gen_sparse(rng, n, m, dens); if (rng.coin(1, 3)) A = unsort(rng, A, rng.coin(1, 4)); if (rng.coin(1, 3)) B = unsort(rng, B, rng.coin(1, 4)); l << "k_sum" << rng.rat() << A << rng.rat() << B << rng.coin(); }
        else if (which == 5) { Mat A = gen_sparse(rng, n, m, dens); l << "k_scale" << A << rng.rat(); }
        else if (which == 6) { Mat A = unsort(rng, gen_sparse(rng, n, m, dens), rng.coin()); l << "k_sort" << A; }
        else if (which == 7) { Mat A = gen_sparse(rng, n, n, dens, false, true); if (rng.coin()) A = unsort(rng, A, rng.coin(1, 4)); l << "k_diag" << A << rng.coin(); }
        else if (which == 8) { Mat A = rng.coin() ? gen_spd(rng, std::max<long>(n, 2)) : gen_convdiff(rng, std::max<long>(n, 2)); l << "k_gersh" << rng.coin() << A; }
        else { Mat A = gen_sparse(rng, n, n, dens); l << "k_gersh" << rng.coin(1, 4) << A; }
        lines.push_back(l.get());
    }
    for (long k = 0; k < (o.thorough() ? 400 : 60); ++k) {
        long n = rng.range(1, 12); Mat A = rng.coin() ? gen_spd(rng, std::max<long>(n, 2)) : gen_convdiff(rng, std::max<long>(n, 2));
        if (rng.coin(1, 4)) { Q s3(3); for (auto &v : A.val) v = v * s3; }
        lines.push_back((Line() << "k_power" << rng.coin() << rng.range(1, 6) << A).get());
    }
    // power method on every pattern up to 3x3 (nilpotent / zero matrices make A*b0 vanish exactly: as found the estimate was NaN,
    // fix 714f66b), unscaled; and on random strictly triangular matrices
    for (long n = 1; n <= 3; ++n) for (unsigned long bits = 0; bits < (1ul << (n * n)); ++bits) {
        if (n == 3 && !o.thorough() && bits % 7 != 0) continue;
        Mat A = pattern_mat(n, n, bits, (int)(bits % 5));
        lines.push_back((Line() << "k_power" << 0L << (long)(2 + bits % 4) << A).get());
    }
    for (long k = 0; k < (o.thorough() ? 100 : 20); ++k) {
        long n = rng.range(2, 8); std::vector<std::vector<std::pair<long,Q>>> rows(n);
        bool lower = rng.coin();
        for (long i = 0; i < n; ++i) for (long j = 0; j < n; ++j) if ((lower ? j < i : j > i) && rng.coin(1, 2)) rows[i].push_back({j, rng.integer(3)});
        lines.push_back((Line() << "k_power" << 0L << rng.range(2, 9) << from_rows(n, n, rows)).get());
    }
    // exhaustive small patterns: every pair of 2x2 patterns (quick), every pair of 3x3 patterns sampled / 2x3 * 3x2 (thorough)
    for (unsigned a = 0; a < 16; ++a) for (unsigned b = 0; b < 16; ++b) {
        lines.push_back((Line() << "k_saad" << pattern_mat(2, 2, a, 0) << pattern_mat(2, 2, b, 2) << (a + b) % 2).get());
        lines.push_back((Line() << "k_rmerge" << pattern_mat(2, 2, a, 0) << pattern_mat(2, 2, b, 2)).get());
    }
    if (o.thorough()) {
        for (unsigned a = 0; a < 64; ++a) for (unsigned b = 0; b < 64; ++b) {
            lines.push_back((Line() << "k_saad" << pattern_mat(2, 3, a, 1) << pattern_mat(3, 2, b, 3) << 0).get());
            lines.push_back((Line() << "k_rmerge" << pattern_mat(2, 3, a, 1) << pattern_mat(3, 2, b, 3)).get());
        }
        for (int s = 0; s < 3000; ++s) { unsigned long a = rng.next() & 511, b = rng.next() & 511; lines.push_back((Line() << "k_rmerge" << pattern_mat(3, 3, a, 0) << pattern_mat(3, 3, b, 1)).get()); lines.push_back((Line() << "k_sum" << Q(1) << pattern_mat(3, 3, a, 0) << Q(-1) << pattern_mat(3, 3, b, 1) << 1).get()); }
    }
    // CRS copy / convert constructors (separate loop: leaves the stream of the cases above unchanged)
    for (long k = 0; k < (o.thorough() ? 400 : 60); ++k) {
        long kind = rng.range(0, 3), n = rng.range(0, 14), m = (kind == 3 || rng.coin()) ? n : rng.range(0, 14);
        Mat A = gen_sparse(rng, n, m, (int)rng.range(5, 60)); if (rng.coin()) A = unsort(rng, A, rng.coin(1, 3));
        lines.push_back((Line() << "k_crs_copy" << kind << A).get());
    }
    // malformed stream
    lines.push_back("k_transpose 1 2 1 3 1");              // column 3 in a 2-column matrix
    lines.push_back("k_saad 1 2 1 0 1 1 1 1 0 1 0");        // inner dimensions differ
    lines.push_back("k_sum 1 1 1 1 0 1 1 2 2 0 0 0");       // shapes differ: precondition
    lines.push_back("k_crs_copy 3 1 2 1 0 1");              // tuple adapter is square only
    lines.push_back("k_crs_copy 4 1 1 1 0 1");              // unknown constructor kind
}

VH_MAIN(generate, execute)
