// C08 harness, structured value types: EVERY sparse kernel of the builtin backend at block values static_matrix<Q,b,b> (b = 2, 3;
// non-commuting, non-symmetric, ill-conditioned blocks) and at std::complex<Q> (harness/cq.hpp).  h_kernels.cpp drives the same
// kernels at the scalar type Q; h_primitives3.cpp drives transpose / galerkin at these value types.
//
//   kb_gersh_blk b sc A            kb_gersh_cx sc A              spectral_radius<sc>(A, 0) (Gershgorin branch)
//   kb_eig_blk   b sc A x lam      kb_eig_cx   sc A x lam        the same call on a matrix with a KNOWN eigenpair: A x = lam x (sc = 0),
//                                                                 A x = lam D x, D = block diagonal (sc = 1); x flat
//   kb_diag_blk  b inv A           kb_diag_cx  inv A             diagonal(A, inv)
//   kb_scale_blk b A s             kb_scale_cx rs A s            scale(A, s): s of the scalar type Q (blocks; complex with rs = 1) or complex
//   kb_sum_blk   b al A be B sort  kb_sum_cx   al A be B sort    sum(alpha, A, beta, B, sort): alpha, beta have the VALUE type (blocks!)
//   kb_sort_blk  b A               kb_sort_cx  A                 sort_rows(A)
//   kb_pw_blk    b bs A            kb_pw_cx    bs A              pointwise_matrix(A, bs): entries = largest math::norm in the bs x bs group
//   kb_copy_blk  b kind A          kb_copy_cx  kind A            crs constructors: 0 ranges, 1 copy, 2 convert from crs<V,int,int>, 3 convert from
//                                                                 a tuple adapter (square), 4 convert crs<V(float)> -> crs<V(double)> (dyadic data),
//                                                                 5 (blocks) crs<V>(adapter::block_matrix<V>(*adapter::unblock_matrix(A))) (sorted A)
//   kb_product_blk b nt A B sort   kb_product_cx nt A B sort     product(A, B, sort) with nt threads (nt > 16: row-merge SpGEMM)
//
// A block matrix is `nb mb` then per block row `k (c v_00 v_01 .. )*` with row-major b x b blocks; a complex number is two rationals.
// Oracles (exact, independent of the Lean model and of amgcl's math:: functions): Frobenius norm / modulus recomputed with the
// rsqrt of the type Q, block inverse by exact Gauss-Jordan, dense recomputation on the EXPANDED scalar matrix.
#include "cq.hpp"
#include "gen.hpp"
#include <complex>
#include <amgcl/backend/builtin.hpp>
#include <amgcl/value_type/static_matrix.hpp>
#include <amgcl/value_type/complex.hpp>
#include <amgcl/adapter/crs_tuple.hpp>
#include <amgcl/adapter/block_matrix.hpp>
#ifdef _OPENMP
#include <omp.h>
#endif
using namespace vh;

typedef std::complex<Q> CQ;
static const Q EPS32 = Q::frac(1, 1L << 32);

// ------------------------------------------------------------------ values: BV = flat b x b block, CQ = complex
struct BV { long b = 0; std::vector<Q> e; BV() {} explicit BV(long b) : b(b), e(b * b) {} Q& at(long p, long q) { return e[p*b+q]; } const Q& at(long p, long q) const { return e[p*b+q]; } };
static BV b_identity(long b) { BV v(b); for (long p = 0; p < b; ++p) v.at(p, p) = Q(1); return v; }
static BV vmul(const BV &x, const BV &y) { long b = x.b; BV r(b); for (long p = 0; p < b; ++p) for (long k = 0; k < b; ++k) for (long q = 0; q < b; ++q) r.at(p, q) += x.at(p, k) * y.at(k, q); return r; }
static CQ vmul(const CQ &x, const CQ &y) { return CQ(x.real() * y.real() - x.imag() * y.imag(), x.real() * y.imag() + x.imag() * y.real()); }
static BV vadd(const BV &x, const BV &y) { BV r = x; for (size_t i = 0; i < r.e.size(); ++i) r.e[i] += y.e[i]; return r; }
static CQ vadd(const CQ &x, const CQ &y) { return CQ(x.real() + y.real(), x.imag() + y.imag()); }
static bool veq(const BV &x, const BV &y) { if (x.e.size() != y.e.size()) return false; for (size_t i = 0; i < x.e.size(); ++i) if (x.e[i].v != y.e[i].v) return false; return true; }
static bool veq(const CQ &x, const CQ &y) { return x.real().v == y.real().v && x.imag().v == y.imag().v; }
static bool vzero(const BV &x) { for (auto &v : x.e) if (v.v != 0) return false; return true; }
static bool vzero(const CQ &x) { return x.real().v == 0 && x.imag().v == 0; }
static bool vis_identity(const BV &x) { return veq(x, b_identity(x.b)); }
static bool vis_identity(const CQ &x) { return x.real().v == 1 && x.imag().v == 0; }
// Frobenius norm with the root of the type Q: floor(sqrt(sum x^2) * 2^32) / 2^32
static Q vnorm(const BV &x) { Q s(0); for (auto &v : x.e) s += v * v; return vq::sqrt(vq::abs(s)); }
// modulus of a Gaussian rational as the type computes it (libstdc++'s scaled formula, see cq.hpp), written out again
static Q vnorm(const CQ &z) { Q x = vq::abs(z.real()), y = vq::abs(z.imag()); Q s = x < y ? y : x; if (s.v == 0) return Q(0); Q u = z.real() / s, w = z.imag() / s; return s * vq::sqrt(u * u + w * w); }
// an upper bound of the TRUE norm (the roots above are rounded down by < 2^-32, relative to the scale factor for complex numbers)
static Q vnorm_up(const BV &x) { return vnorm(x) + EPS32; }
static Q vnorm_up(const CQ &z) { return vnorm(z) + (vq::abs(z.real()) + vq::abs(z.imag()) + Q(1)) * EPS32; }
// exact inverse by Gauss-Jordan; false when singular
static bool vinv(const BV &x, BV &out) {
    long b = x.b; std::vector<std::vector<Q>> M(b, std::vector<Q>(2 * b));
    for (long p = 0; p < b; ++p) { for (long q = 0; q < b; ++q) M[p][q] = x.at(p, q); M[p][b + p] = Q(1); }
    for (long c = 0; c < b; ++c) { long piv = -1; for (long p = c; p < b; ++p) if (M[p][c].v != 0) { piv = p; break; } if (piv < 0) return false; std::swap(M[c], M[piv]);
        Q d = M[c][c]; for (auto &v : M[c]) v = v / d;
        for (long p = 0; p < b; ++p) if (p != c && M[p][c].v != 0) { Q f = M[p][c]; for (long q = 0; q < 2 * b; ++q) M[p][q] -= f * M[c][q]; } }
    out = BV(b); for (long p = 0; p < b; ++p) for (long q = 0; q < b; ++q) out.at(p, q) = M[p][b + q]; return true;
}
static bool vinv(const CQ &z, CQ &out) { Q n = z.real() * z.real() + z.imag() * z.imag(); if (n.v == 0) return false; out = CQ(z.real() / n, -z.imag() / n); return true; }
// largest |entry| (diagnosis only)
static Q maxentry(const BV &x) { Q m(0); for (auto &v : x.e) if (m < vq::abs(v)) m = vq::abs(v); return m; }
static Q maxentry(const CQ &z) { Q a = vq::abs(z.real()), b = vq::abs(z.imag()); return a < b ? b : a; }
static bool self_adjoint(const CQ &v) { return v.imag().v == 0; }
static bool self_adjoint(const BV &v) { for (long p = 0; p < v.b; ++p) for (long q = 0; q < p; ++q) if (v.at(p, q).v != v.at(q, p).v) return false; return true; }

template <class V> struct SMat { long n = 0, m = 0; std::vector<ptrdiff_t> ptr{0}, col; std::vector<V> val;
    long rowlen(long i) const { return (long)(ptr[i+1] - ptr[i]); } };
typedef SMat<BV> BMat; typedef SMat<CQ> CMat;

static Q rdq(Cur &c) { Q x = c.rat(); if (x.poison) throw bad_input("poison"); return x; }
static CQ rdc(Cur &c) { Q r = rdq(c); Q i = rdq(c); return CQ(r, i); }
static BV rdb(Cur &c, long b) { BV v(b); for (auto &x : v.e) x = rdq(c); return v; }
template <class V, class RD> static SMat<V> rdmat(Cur &c, RD rd) {
    SMat<V> A; A.n = c.nat(); A.m = c.nat(); if (A.n < 0 || A.m < 0) throw bad_input("shape");
    for (long i = 0; i < A.n; ++i) { long k = c.nat(); if (k < 0) throw bad_input("k"); for (long j = 0; j < k; ++j) { long cc = c.nat(); if (cc < 0 || cc >= A.m) throw bad_input("col"); A.col.push_back(cc); A.val.push_back(rd(c)); } A.ptr.push_back((ptrdiff_t)A.col.size()); }
    return A;
}
static Line& putv(Line &l, const CQ &v) { l << v.real(); l << v.imag(); return l; }
static Line& putv(Line &l, const BV &v) { for (auto &x : v.e) l << x; return l; }
static Line& putv(Line &l, const Q &v) { l << v; return l; }
template <class V> static Line& putm(Line &l, const SMat<V> &A) {
    l << A.n << A.m;
    for (long i = 0; i < A.n; ++i) { l << A.rowlen(i); for (auto j = A.ptr[i]; j < A.ptr[i+1]; ++j) { l << (long)A.col[j]; putv(l, A.val[j]); } }
    return l;
}
template <class V> static Line& putptr(Line &l, const SMat<V> &A) { l << (long)A.ptr.size(); for (auto p : A.ptr) l << (long)p; return l; }
template <class V> static bool nodup(const SMat<V> &A) { for (long i = 0; i < A.n; ++i) { std::set<long> s; for (auto j = A.ptr[i]; j < A.ptr[i+1]; ++j) if (!s.insert(A.col[j]).second) return false; } return true; }
template <class V> static bool sorted_rows(const SMat<V> &A) { for (long i = 0; i < A.n; ++i) for (auto j = A.ptr[i]; j + 1 < A.ptr[i+1]; ++j) if (!(A.col[j] < A.col[j+1])) return false; return true; }
template <class V> static bool same_mat(const SMat<V> &A, const SMat<V> &B) {
    if (A.n != B.n || A.m != B.m || A.ptr != B.ptr || A.col != B.col) return false;
    for (size_t j = 0; j < A.val.size(); ++j) if (!veq(A.val[j], B.val[j])) return false; return true; }
template <class V> static bool has_structure(const SMat<V> &A) { for (auto &v : A.val) if (!self_adjoint(v)) return true; return false; }

// ------------------------------------------------------------------ dense over T = Q (expanded blocks) or CQ
template <class T> using Dn = std::vector<std::vector<T>>;
static bool eqT(const Q &a, const Q &b) { return a.v == b.v; }
static bool eqT(const CQ &a, const CQ &b) { return veq(a, b); }
static bool zeroT(const Q &a) { return a.v == 0; }
static bool zeroT(const CQ &a) { return vzero(a); }
static Q mulT(const Q &a, const Q &b) { return a * b; }
static CQ mulT(const CQ &a, const CQ &b) { return vmul(a, b); }
static void accT(Q &a, const Q &b) { a += b; }
static void accT(CQ &a, const CQ &b) { a = vadd(a, b); }
template <class T> static Dn<T> dzero(long n, long m) { return Dn<T>(n, std::vector<T>(m, T(Q(0)))); }
template <class T> static Dn<T> dmulT(const Dn<T> &A, const Dn<T> &B, long n, long k, long m) {
    Dn<T> C = dzero<T>(n, m); for (long i = 0; i < n; ++i) for (long l = 0; l < k; ++l) if (!zeroT(A[i][l])) for (long j = 0; j < m; ++j) accT(C[i][j], mulT(A[i][l], B[l][j])); return C; }
template <class T> static Dn<T> daddT(const Dn<T> &A, const Dn<T> &B) { Dn<T> C = A; for (size_t i = 0; i < C.size(); ++i) for (size_t j = 0; j < C[i].size(); ++j) accT(C[i][j], B[i][j]); return C; }
template <class T> static bool deq(const Dn<T> &A, const Dn<T> &B) {
    if (A.size() != B.size()) return false;
    for (size_t i = 0; i < A.size(); ++i) { if (A[i].size() != B[i].size()) return false; for (size_t j = 0; j < A[i].size(); ++j) if (!eqT(A[i][j], B[i][j])) return false; }
    return true; }
static Dn<Q> ddense(const BMat &A, long b) { Dn<Q> D = dzero<Q>(A.n * b, A.m * b); for (long i = 0; i < A.n; ++i) for (auto j = A.ptr[i]; j < A.ptr[i+1]; ++j) for (long p = 0; p < b; ++p) for (long q = 0; q < b; ++q) D[i*b+p][A.col[j]*b+q] += A.val[j].at(p, q); return D; }
static Dn<CQ> ddense(const CMat &A, long) { Dn<CQ> D = dzero<CQ>(A.n, A.m); for (long i = 0; i < A.n; ++i) for (auto j = A.ptr[i]; j < A.ptr[i+1]; ++j) accT(D[i][A.col[j]], A.val[j]); return D; }
// block diagonal matrix diag(v, .., v) with n copies
static Dn<Q> dblockdiag(const BV &v, long n) { long b = v.b; Dn<Q> D = dzero<Q>(n * b, n * b); for (long i = 0; i < n; ++i) for (long p = 0; p < b; ++p) for (long q = 0; q < b; ++q) D[i*b+p][i*b+q] = v.at(p, q); return D; }
static Dn<CQ> dblockdiag(const CQ &v, long n) { Dn<CQ> D = dzero<CQ>(n, n); for (long i = 0; i < n; ++i) D[i][i] = v; return D; }

// ------------------------------------------------------------------ the real amgcl types
template <int B> struct BK {
    typedef BV V; typedef Q T; enum { b = B };
    typedef amgcl::static_matrix<Q, B, B> val; typedef amgcl::backend::crs<val> Matrix;
    typedef amgcl::static_matrix<float, B, B> fval; typedef amgcl::static_matrix<double, B, B> dval;
    static val to_val(const BV &v) { val x; for (int i = 0; i < B * B; ++i) x(i) = v.e[i]; return x; }
    static BV from_val(const val &x) { BV v(B); for (int i = 0; i < B * B; ++i) v.e[i] = x(i); return v; }
    static fval to_f(const BV &v) { fval x; for (int i = 0; i < B * B; ++i) x(i) = (float)v.e[i].v.get_d(); return x; }
    static BV from_d(const dval &x) { BV v(B); for (int i = 0; i < B * B; ++i) v.e[i] = Q(x(i)); return v; }
    static BV rd(Cur &c) { return rdb(c, B); }
    static BV identity() { return b_identity(B); }
    static bool float_exact(const BV &v) { for (auto &x : v.e) { if (abs(x.v.get_num()) > (1L << 20)) return false; auto d = x.v.get_den(); if (d != 1 && d != 2 && d != 4 && d != 8) return false; } return true; }
};
struct CK {
    typedef CQ V; typedef CQ T; enum { b = 1 };
    typedef CQ val; typedef amgcl::backend::crs<CQ> Matrix;
    typedef std::complex<float> fval; typedef std::complex<double> dval;
    static CQ to_val(const CQ &v) { return v; } static CQ from_val(const CQ &v) { return v; }
    static fval to_f(const CQ &v) { return fval((float)v.real().v.get_d(), (float)v.imag().v.get_d()); }
    static CQ from_d(const dval &x) { return CQ(Q(x.real()), Q(x.imag())); }
    static CQ rd(Cur &c) { return rdc(c); }
    static CQ identity() { return CQ(Q(1), Q(0)); }
    static bool float_exact(const CQ &v) { for (const Q &x : { v.real(), v.imag() }) { if (abs(x.v.get_num()) > (1L << 20)) return false; auto d = x.v.get_den(); if (d != 1 && d != 2 && d != 4 && d != 8) return false; } return true; }
};
template <class K> static std::shared_ptr<typename K::Matrix> build(const SMat<typename K::V> &A) {
    std::vector<typename K::val> v(A.val.size()); for (size_t i = 0; i < v.size(); ++i) v[i] = K::to_val(A.val[i]);
    return std::make_shared<typename K::Matrix>((size_t)A.n, (size_t)A.m, A.ptr, A.col, v);
}
// copy a result out; a structurally broken result is reported, never dereferenced out of range
template <class M, class V, class FV> static bool extract(const M &T, SMat<V> &R, std::string &why, FV from_val) {
    R = SMat<V>(); R.n = (long)T.nrows; R.m = (long)T.ncols;
    if (!T.ptr) { if (T.nrows) { why = "ptr missing"; return false; } return true; }
    if (T.ptr[0] != 0) { why = "ptr[0] != 0"; return false; }
    for (size_t i = 0; i < T.nrows; ++i) if (T.ptr[i+1] < T.ptr[i]) { why = "ptr not monotone"; return false; }
    if ((size_t)T.ptr[T.nrows] != T.nnz) { why = "ptr[nrows] != nnz"; return false; }
    for (size_t i = 0; i < T.nrows; ++i) { for (auto j = T.ptr[i]; j < T.ptr[i+1]; ++j) { if (T.col[j] < 0 || (size_t)T.col[j] >= T.ncols) { why = "column out of range"; return false; } R.col.push_back(T.col[j]); R.val.push_back(from_val(T.val[j])); } R.ptr.push_back((ptrdiff_t)R.col.size()); }
    return true;
}
struct ThreadScope {
    explicit ThreadScope(long nt) {
#ifdef _OPENMP
        omp_set_num_threads((int)nt);
#else
        (void)nt;
#endif
    }
    ~ThreadScope() {
#ifdef _OPENMP
        omp_set_num_threads(1);
#endif
    }
};
static bool flag(Cur &c) { long f = c.nat(); if (f < 0 || f > 1) throw bad_input("flag"); return f != 0; }

template <class T> static T rdT(Cur &c);
template <> Q rdT<Q>(Cur &c) { return rdq(c); }
template <> CQ rdT<CQ>(Cur &c) { return rdc(c); }
static Q mod2(const Q &l) { return l * l; }
static Q mod2(const CQ &l) { return l.real() * l.real() + l.imag() * l.imag(); }

// ------------------------------------------------------------------ Gershgorin estimate
template <class V> static long diag_count(const SMat<V> &A, long i) { long k = 0; for (auto j = A.ptr[i]; j < A.ptr[i+1]; ++j) if (A.col[j] == i) ++k; return k; }
// math::inverse of a block asserts a non-zero pivot: a block that gets inverted must be invertible (the Lean side applies the same rule)
static bool invertible(const BV &v) { BV t; return vinv(v, t); }
static bool invertible(const CQ &) { return true; }      // scalars: identity / x with the total division, no assertion
template <class V> static bool admissible_diag(const SMat<V> &A) { for (long i = 0; i < A.n; ++i) for (auto j = A.ptr[i]; j < A.ptr[i+1]; ++j) if (A.col[j] == i && !invertible(A.val[j])) return false; return true; }

template <class K> static Result run_gersh(Cur &c, bool eig) {
    typedef typename K::V V; typedef typename K::T T; const long b = K::b;
    Result r; bool sc = flag(c); SMat<V> A = rdmat<V>(c, K::rd);
    std::vector<T> x; T lam = T(Q(0));
    if (eig) { long k = c.nat(); if (k < 0) throw bad_input("n"); x.resize(k); for (auto &v : x) v = rdT<T>(c); lam = rdT<T>(c); }
    c.expect_end();
    if (A.n != A.m) throw bad_input("square");
    if (sc && !admissible_diag(A)) throw bad_input("singular diagonal block");
    bool onediag = true; for (long i = 0; i < A.n; ++i) if (diag_count(A, i) != 1) onediag = false;
    if (eig) {   // the op line must carry a genuine eigenpair
        long N = A.n * b; if (!onediag || (long)x.size() != N) throw bad_input("eigenpair");
        SMat<V> Dg; Dg.n = Dg.m = A.n; for (long i = 0; i < A.n; ++i) { for (auto j = A.ptr[i]; j < A.ptr[i+1]; ++j) if (A.col[j] == i) { Dg.col.push_back(i); Dg.val.push_back(A.val[j]); } Dg.ptr.push_back((ptrdiff_t)Dg.col.size()); }
        auto E = ddense(A, b), Ed = ddense(Dg, b); bool nz = false, ok = true;
        for (long i = 0; i < N; ++i) { if (!zeroT(x[i])) nz = true; T y = T(Q(0)), z = T(Q(0)); for (long j = 0; j < N; ++j) { accT(y, mulT(E[i][j], x[j])); accT(z, mulT(Ed[i][j], x[j])); } if (!sc) z = x[i]; if (!eqT(y, mulT(lam, z))) ok = false; }
        if (!nz || !ok) throw bad_input("not an eigenpair");
    }
    auto Ac = build<K>(A);
    Q g = sc ? amgcl::backend::spectral_radius<true>(*Ac, 0) : amgcl::backend::spectral_radius<false>(*Ac, 0);
    // oracle 1 (exact): max_i sum_j ||a_ij|| * ||a_ii^-1|| resp. max_i sum_j ||a_ij||, from the independent norm / inverse above
    bool have_ref = !sc || onediag; Q ref(0), up(0);
    for (long i = 0; have_ref && i < A.n; ++i) {
        Q s(0), su(0); V dinv; bool di = true;
        for (auto j = A.ptr[i]; j < A.ptr[i+1]; ++j) { s += vnorm(A.val[j]); su += vnorm_up(A.val[j]); if (sc && A.col[j] == i) di = vinv(A.val[j], dinv); }
        if (sc) { if (!di) { have_ref = false; break; } s = s * vnorm(dinv); su = su * vnorm_up(dinv); }
        if (s > ref) ref = s; if (su > up) up = su;
    }
    std::string msg;
    if (have_ref && g.v != ref.v) {
        bool wrong = false;      // diagnosis only: sum_j ||a_ij|| / ||a_ii|| ?
        if (sc) { Q alt(0); for (long i = 0; i < A.n; ++i) { Q s(0), d(0); for (auto j = A.ptr[i]; j < A.ptr[i+1]; ++j) { s += vnorm(A.val[j]); if (A.col[j] == i) d = vnorm(A.val[j]); } s = s / d; if (s > alt) alt = s; } wrong = alt.v == g.v; }
        msg = std::string("Gershgorin estimate != max_i sum_j ||a_ij||") + (sc ? " * ||a_ii^-1||" : "") + (wrong ? " (it is sum_j ||a_ij|| / ||a_ii||: the norm of the inverse is not the inverse of the norm)" : "");
    }
    // oracle 2 (the property clause): the estimate bounds every eigenvalue of A resp. D^-1 A — here a known one.  `up - ref` is the
    // allowance for the rounded-down roots (relative 2^-32); `up` itself is a mathematical upper bound of |lam|.
    if (eig && have_ref) {
        Q lim = g + (up - ref); Q l2 = mod2(lam);
        if (lim < 0 || lim * lim < l2) msg += std::string(msg.empty() ? "" : "; ") + "Gershgorin estimate is below the modulus of a known eigenvalue of " + (sc ? "D^-1 A" : "A") + ": not an upper bound of the spectral radius";
        if (up * up < l2) msg += std::string(msg.empty() ? "" : "; ") + "harness: the reference bound itself is below |lambda|";
    }
    if (!msg.empty()) r.fail(msg);
    r.out = (Line() << g).get();
    r.nontrivial = A.col.size() > 1 && has_structure(A);
    r.tag(sc ? "gersh_scaled" : "gersh"); if (!onediag) r.tag("missing_or_dup_diag"); if (eig) r.tag("eigenpair");
    return r;
}

// ------------------------------------------------------------------ diagonal
template <class K> static Result run_diag(Cur &c) {
    typedef typename K::V V; Result r; bool inv = flag(c); SMat<V> A = rdmat<V>(c, K::rd); c.expect_end();
    // the entry that gets inverted: the FIRST stored diagonal entry of a row, unless it is zero
    std::vector<int> kind(A.n, 0); std::vector<V> first(A.n);     // 0 none, 1 zero, 2 invertible, 3 singular non-zero
    for (long i = 0; i < A.n; ++i) for (auto j = A.ptr[i]; j < A.ptr[i+1]; ++j) if (A.col[j] == i) { first[i] = A.val[j]; kind[i] = vzero(A.val[j]) ? 1 : invertible(A.val[j]) ? 2 : 3; break; }
    if (inv) for (long i = 0; i < A.n; ++i) if (kind[i] == 3) throw bad_input("singular diagonal block");
    auto Ac = build<K>(A); auto d = amgcl::backend::diagonal(*Ac, inv);
    Line l; l << A.n; bool ok = d->size() == (size_t)A.n; std::string why;
    for (long i = 0; ok && i < A.n; ++i) {
        V o = K::from_val((*d)[i]); putv(l, o);
        if (!inv) { if (kind[i] == 0 ? !vzero(o) : !veq(o, first[i])) { ok = false; why = "entry is not the first stored diagonal value (zero when there is none)"; } }
        else if (kind[i] <= 1) { if (!vis_identity(o)) { ok = false; why = "absent / zero diagonal must give the identity"; } }
        else {  // o must be THE inverse: d * o = o * d = identity (dense, independent of the inversion algorithm)
            if (!vis_identity(vmul(first[i], o)) || !vis_identity(vmul(o, first[i]))) { ok = false; V t; vinv(first[i], t);
                why = "inverted diagonal entry times the entry is not the identity"; (void)t; }
        }
    }
    if (!ok) r.fail("diagonal(A, " + std::string(inv ? "invert" : "plain") + "): " + (why.empty() ? "wrong length" : why));
    r.out = l.get(); r.nontrivial = A.n > 0 && has_structure(A); r.tag(inv ? "diag_inv" : "diag");
    bool missing = false; for (auto k : kind) if (k == 0) missing = true; if (missing) r.tag("missing_diag");
    return r;
}

// ------------------------------------------------------------------ scale
static BV vscale(const BV &v, const Q &s) { BV r = v; for (auto &x : r.e) x = x * s; return r; }
template <class K> static Result finish_scale(Result &r, const SMat<typename K::V> &A, const typename K::Matrix &M, const std::vector<typename K::V> &want) {
    typedef typename K::V V; SMat<V> R; std::string why;
    if (!extract(M, R, why, K::from_val)) { r.fail("scale: " + why); r.out = "malformed"; return r; }
    bool ok = R.n == A.n && R.m == A.m && R.ptr == A.ptr && R.col == A.col && R.val.size() == want.size();
    for (size_t j = 0; ok && j < want.size(); ++j) if (!veq(R.val[j], want[j])) ok = false;
    if (!ok) r.fail("scale: values are not a_ij * s on the unchanged pattern");
    Line l; putm(l, R); r.out = l.get(); r.nontrivial = A.col.size() > 0 && has_structure(A); r.tag("scale"); return r;
}
template <int B> static Result run_scale_blk(Cur &c) {
    typedef BK<B> K; Result r; BMat A = rdmat<BV>(c, K::rd); Q s = rdq(c); c.expect_end();
    auto Ac = build<K>(A); amgcl::backend::scale(*Ac, s);
    std::vector<BV> want; for (auto &v : A.val) want.push_back(vscale(v, s));
    return finish_scale<K>(r, A, *Ac, want);
}
static Result run_scale_cx(Cur &c) {
    Result r; bool rs = flag(c); CMat A = rdmat<CQ>(c, CK::rd); CQ s = rdc(c); c.expect_end();
    if (rs && s.imag().v != 0) throw bad_input("real scale");
    auto Ac = build<CK>(A); if (rs) amgcl::backend::scale(*Ac, s.real()); else amgcl::backend::scale(*Ac, s);
    std::vector<CQ> want; for (auto &v : A.val) want.push_back(vmul(v, s));
    finish_scale<CK>(r, A, *Ac, want); r.tag(rs ? "real_weight" : "complex_weight"); return r;
}

// ------------------------------------------------------------------ sum
template <class K> static Result run_sum(Cur &c) {
    typedef typename K::V V; typedef typename K::T T; const long b = K::b; Result r;
    V al = K::rd(c); SMat<V> A = rdmat<V>(c, K::rd); V be = K::rd(c); SMat<V> B = rdmat<V>(c, K::rd); bool sort = flag(c); c.expect_end();
    auto Ac = build<K>(A), Bc = build<K>(B);
    try {
        auto C = amgcl::backend::sum(K::to_val(al), *Ac, K::to_val(be), *Bc, sort);
        SMat<V> R; std::string why; if (!extract(*C, R, why, K::from_val)) { r.fail("sum: " + why); r.out = "malformed"; return r; }
        // alpha and beta multiply every value from the LEFT: C = diag(alpha) A + diag(beta) B on the expanded scalar matrices
        auto ref = daddT(dmulT(dblockdiag(al, A.n), ddense(A, b), A.n * b, A.n * b, A.m * b), dmulT(dblockdiag(be, A.n), ddense(B, b), A.n * b, A.n * b, A.m * b));
        if (R.n != A.n || R.m != A.m) r.fail("sum: wrong shape");
        else if (!deq(ddense(R, b), ref)) {
            auto alt = daddT(dmulT(ddense(A, b), dblockdiag(al, A.m), A.n * b, A.m * b, A.m * b), dmulT(ddense(B, b), dblockdiag(be, A.m), A.n * b, A.m * b, A.m * b));
            r.fail(std::string("sum != alpha*A + beta*B (weights applied from the left, entry by entry)") + (deq(ddense(R, b), alt) ? " (it is A*alpha + B*beta: weights applied from the wrong side)" : ""));
        }
        if (!nodup(R)) r.fail("sum row has duplicate columns");
        if (sort && !sorted_rows(R)) r.fail("sum rows not sorted");
        Line l; putptr(l, R); putm(l, R); r.out = l.get();
    } catch (const std::exception &) { r.out = "precondition"; if (A.n == B.n && A.m == B.m) r.fail("sum threw on equal shapes"); }
    (void)sizeof(T);
    r.nontrivial = A.col.size() > 0 && B.col.size() > 0 && !self_adjoint(al) && has_structure(A); r.tag("sum"); if (sort) r.tag("sort");
    return r;
}

// ------------------------------------------------------------------ sort_rows
template <class V> static std::string vkey(const V &v) { Line l; putv(l, v); return l.get(); }
template <class K> static Result run_sort(Cur &c) {
    typedef typename K::V V; Result r; SMat<V> A = rdmat<V>(c, K::rd); c.expect_end();
    auto Ac = build<K>(A); amgcl::backend::sort_rows(*Ac);
    SMat<V> R; std::string why; if (!extract(*Ac, R, why, K::from_val)) { r.fail("sort_rows: " + why); r.out = "malformed"; return r; }
    bool ok = R.n == A.n && R.m == A.m && R.ptr == A.ptr;
    for (long i = 0; ok && i < A.n; ++i) {
        std::vector<std::pair<long, std::string>> a, s;
        for (auto j = A.ptr[i]; j < A.ptr[i+1]; ++j) { a.push_back({(long)A.col[j], vkey(A.val[j])}); s.push_back({(long)R.col[j], vkey(R.val[j])}); }
        std::stable_sort(a.begin(), a.end(), [](auto &x, auto &y) { return x.first < y.first; });
        if (a != s) ok = false;       // sorted, a permutation carrying each value with its column, and stable
    }
    if (!ok) r.fail("sort_rows: not a stable sort of each row with the values carried along");
    Line l; putm(l, R); r.out = l.get(); r.nontrivial = !sorted_rows(A) && A.col.size() > 1; r.tag("sort_rows");
    return r;
}

// ------------------------------------------------------------------ pointwise_matrix
template <class K> static Result run_pw(Cur &c) {
    typedef typename K::V V; Result r; long bs = c.nat(); SMat<V> A = rdmat<V>(c, K::rd); c.expect_end();
    if (bs < 1) throw bad_input("block size");
    auto Ac = build<K>(A);
    try {
        auto Ap = amgcl::backend::pointwise_matrix(*Ac, (unsigned)bs);
        // (a column count that is not a multiple of bs is outside the contract: the last partial group gets the column index ncols / bs)
        std::string why; if (A.m % bs == 0 && !crs_wf(*Ap, why)) { r.fail("pointwise_matrix: " + why); r.out = "malformed"; return r; }
        r.out = (Line() << *Ap).get();
        if (sorted_rows(A)) {     // group (I,J) present iff it holds a stored entry, value = the largest norm in the group
            long np = A.n / bs, mp = A.m / bs; bool ok = (long)Ap->nrows == np && (long)Ap->ncols == mp; bool maxabs = ok;
            for (long I = 0; ok && I < np; ++I) {
                std::map<long, Q> blk, blk2;
                for (long k = 0; k < bs; ++k) for (auto j = A.ptr[I*bs+k]; j < A.ptr[I*bs+k+1]; ++j) { long J = A.col[j] / bs; Q v = vnorm(A.val[j]), w = maxentry(A.val[j]);
                    auto it = blk.find(J); if (it == blk.end()) { blk[J] = v; blk2[J] = w; } else { if (it->second < v) it->second = v; if (blk2[J] < w) blk2[J] = w; } }
                auto j = Ap->ptr[I];
                for (auto &kv : blk) { if (j >= Ap->ptr[I+1] || Ap->col[j] != kv.first) { ok = false; maxabs = false; break; } if (!(Ap->val[j].v == kv.second.v)) ok = false; if (!(Ap->val[j].v == blk2[kv.first].v)) maxabs = false; ++j; }
                if (j != Ap->ptr[I+1]) { ok = false; maxabs = false; }
            }
            if (!ok) r.fail(std::string("pointwise_matrix != largest math::norm (Frobenius norm of a block / modulus) over each group, on the group pattern") + (maxabs ? " (it is the largest |entry|)" : ""));
        }
        r.nontrivial = A.col.size() > 0 && has_structure(A);
    } catch (const std::runtime_error &) { r.out = "precondition"; r.tag("precondition"); if (A.n % bs == 0) r.fail("pointwise_matrix threw although the size is divisible"); }
    r.tag("pw_bs" + std::to_string(bs));
    return r;
}

// block -> scalar -> block through the adapters (kind 5 of the constructor op)
template <class K> struct Roundtrip { static std::shared_ptr<typename K::Matrix> get(const SMat<typename K::V> &) { throw bad_input("kind"); } };
template <int B> struct Roundtrip<BK<B>> { static std::shared_ptr<typename BK<B>::Matrix> get(const BMat &A) {
    auto Ac = build<BK<B>>(A); auto U = amgcl::adapter::unblock_matrix(*Ac);
    return std::make_shared<typename BK<B>::Matrix>(amgcl::adapter::block_matrix<typename BK<B>::val>(*U)); } };
template <class K> static std::shared_ptr<typename K::Matrix> roundtrip(const SMat<typename K::V> &A) { return Roundtrip<K>::get(A); }
static void add_block(Dn<Q> &D, long I, long J, const BV &t) { for (long p = 0; p < t.b; ++p) for (long q = 0; q < t.b; ++q) D[I*t.b+p][J*t.b+q] += t.at(p, q); }
static void add_block(Dn<CQ> &D, long I, long J, const CQ &t) { accT(D[I][J], t); }

// ------------------------------------------------------------------ CRS constructors
template <class K> static Result run_copy(Cur &c) {
    typedef typename K::V V; typedef typename K::val val; typedef typename K::Matrix Matrix; Result r;
    long kind = c.nat(); SMat<V> A = rdmat<V>(c, K::rd); c.expect_end();
    const long maxkind = K::b > 1 ? 5 : 4;
    if (kind < 0 || kind > maxkind || (kind == 3 && A.n != A.m)) throw bad_input("kind");
    if (kind == 4) for (auto &v : A.val) if (!K::float_exact(v)) throw bad_input("not exact in binary32");
    if (kind == 5 && !sorted_rows(A)) throw bad_input("block_matrix adapter needs sorted rows");
    std::vector<val> v(A.val.size()); for (size_t i = 0; i < v.size(); ++i) v[i] = K::to_val(A.val[i]);
    SMat<V> R; std::string why; bool got = true, own = true;
    if (kind <= 3 || kind == 5) {
        std::shared_ptr<Matrix> C;
        if (kind == 0) C = build<K>(A);                                                 // crs(nrows, ncols, ptr_range, col_range, val_range)
        else if (kind == 1) { auto Ac = build<K>(A); C = std::make_shared<Matrix>(*Ac); } // crs(const crs&)
        else if (kind == 2) {                                                            // crs(const Matrix&) from other index types
            std::vector<int> p(A.ptr.begin(), A.ptr.end()), cl(A.col.begin(), A.col.end());
            amgcl::backend::crs<val, int, int> S((size_t)A.n, (size_t)A.m, p, cl, v);
            C = std::make_shared<Matrix>(S);
        } else if (kind == 3) {                                                          // crs(const Matrix&) from the tuple adapter
            auto T = std::make_tuple((size_t)A.n, amgcl::make_iterator_range(A.ptr.data(), A.ptr.data() + A.ptr.size()),
                    amgcl::make_iterator_range(A.col.data(), A.col.data() + A.col.size()), amgcl::make_iterator_range(v.data(), v.data() + v.size()));
            C = std::make_shared<Matrix>(T);
        } else C = roundtrip<K>(A);                                                      // block -> scalar -> block through the adapters
        got = extract(*C, R, why, K::from_val); own = C->own_data;
    } else {                                                                             // value-type conversion binary32 -> binary64
        typedef typename K::fval fval; typedef typename K::dval dval;
        std::vector<fval> f(A.val.size()); for (size_t i = 0; i < f.size(); ++i) f[i] = K::to_f(A.val[i]);
        amgcl::backend::crs<fval> F((size_t)A.n, (size_t)A.m, A.ptr, A.col, f);
        amgcl::backend::crs<dval> D(F);
        got = extract(D, R, why, K::from_d); own = D.own_data;
    }
    if (!got) { r.fail("crs constructor: " + why); r.out = "malformed"; return r; }
    if (!same_mat(R, A) || !own) r.fail("crs copy / convert constructor (kind " + std::to_string(kind) + ") is not the identity on ptr, col, val");
    Line l; putptr(l, R); putm(l, R); r.out = l.get(); r.nontrivial = A.col.size() > 0 && has_structure(A); r.tag("crs_copy" + std::to_string(kind)); if (A.n != A.m) r.tag("rect");
    return r;
}

// ------------------------------------------------------------------ product
template <class K> static Result run_product(Cur &c) {
    typedef typename K::V V; const long b = K::b; Result r;
    long nt = c.nat(); SMat<V> A = rdmat<V>(c, K::rd), B = rdmat<V>(c, K::rd); bool sort = flag(c); c.expect_end();
    if (A.m != B.n || nt < 1) throw bad_input("shape");
    if (nt > 16 && !sorted_rows(B)) throw bad_input("rmerge needs sorted B");
    auto Ac = build<K>(A), Bc = build<K>(B); std::shared_ptr<typename K::Matrix> C;
    { ThreadScope ts(nt); C = amgcl::backend::product(*Ac, *Bc, sort); }
    SMat<V> R; std::string why; if (!extract(*C, R, why, K::from_val)) { r.fail("product: " + why); r.out = "malformed"; return r; }
    if (R.n != A.n || R.m != B.m) r.fail("product: wrong shape");
    else {
        auto DA = ddense(A, b), DB = ddense(B, b), DC = ddense(R, b);
        if (!deq(DC, dmulT(DA, DB, A.n * b, A.m * b, B.m * b))) {
            bool sw = false;   // diagnosis only: every term b_kj * a_ik instead of a_ik * b_kj ?
            { auto ref = dzero<typename K::T>(A.n * b, B.m * b); for (long i = 0; i < A.n; ++i) for (auto j = A.ptr[i]; j < A.ptr[i+1]; ++j) { long k = A.col[j]; for (auto l = B.ptr[k]; l < B.ptr[k+1]; ++l) { V t = vmul(B.val[l], A.val[j]); add_block(ref, i, B.col[l], t); } } sw = deq(DC, ref); }
            r.fail(std::string("product != dense A*B on the expanded scalar matrices") + (sw ? " (blocks multiplied in the wrong order)" : ""));
        }
    }
    if (sorted_rows(B) && sorted_rows(A) && !nodup(R)) r.fail("product row has duplicate columns");
    if ((nt > 16 || sort) && !sorted_rows(R)) r.fail("product rows not sorted");
    Line l; putm(l, R); r.out = l.get();
    bool acc = false; for (long i = 0; i < A.n && !acc; ++i) { std::map<long, int> cnt; for (auto j = A.ptr[i]; j < A.ptr[i+1]; ++j) { long k = A.col[j]; for (auto q = B.ptr[k]; q < B.ptr[k+1]; ++q) if (++cnt[B.col[q]] > 1) acc = true; } }
    r.nontrivial = acc && has_structure(A) && has_structure(B); r.tag(nt > 16 ? "product_rmerge" : "product_saad"); r.tag("nt" + std::to_string(nt)); if (sort) r.tag("sort");
    return r;
}

template <class K> static Result dispatch(const std::string &kind, Cur &c) {
    if (kind == "gersh") return run_gersh<K>(c, false);
    if (kind == "eig") return run_gersh<K>(c, true);
    if (kind == "diag") return run_diag<K>(c);
    if (kind == "sum") return run_sum<K>(c);
    if (kind == "sort") return run_sort<K>(c);
    if (kind == "pw") return run_pw<K>(c);
    if (kind == "copy") return run_copy<K>(c);
    if (kind == "product") return run_product<K>(c);
    Result r; r.out = "bad-op"; return r;
}

static Result execute(const Toks &t) {
    Cur c(t); const std::string &op = t[0]; Result r;
    if (op.compare(0, 3, "kb_") != 0 || op.size() < 7) { r.out = "bad-op"; return r; }
    size_t us = op.rfind('_'); std::string kind = op.substr(3, us - 3), vt = op.substr(us + 1);
    if (vt == "blk") {
        long b = c.nat(); if (b != 2 && b != 3) throw bad_input("b");
        if (kind == "scale") r = b == 2 ? run_scale_blk<2>(c) : run_scale_blk<3>(c);
        else r = b == 2 ? dispatch<BK<2>>(kind, c) : dispatch<BK<3>>(kind, c);
        r.tag("b" + std::to_string(b));
    } else if (vt == "cx") {
        if (kind == "scale") r = run_scale_cx(c); else r = dispatch<CK>(kind, c);
    } else { r.out = "bad-op"; return r; }
    r.tag(op);
    return r;
}

// ------------------------------------------------------------------ generators
static CQ vdiv(const CQ &a, const CQ &b) { CQ bi; vinv(b, bi); return vmul(a, bi); }
static Q small(Rng &rng, bool dyadic) { return dyadic ? Q::frac(rng.range(-6, 6), 1L << rng.range(0, 2)) : rng.rat(4); }
static CQ gen_c(Rng &rng, bool dyadic = false) { Q im = rng.coin(1, 8) ? Q(0) : small(rng, dyadic); return CQ(small(rng, dyadic), im); }
static CQ gen_c_nz(Rng &rng) { for (;;) { CQ z = gen_c(rng); if (!vzero(z)) return z; } }
// general block: non-symmetric (hence not commuting with its neighbours) with overwhelming probability, some zero entries;
// 1/10 symmetric, 1/20 multiple of the identity
static BV gen_b(Rng &rng, long b, bool dyadic = false) {
    BV v(b); int kind = (int)rng.range(0, 19);
    for (auto &x : v.e) x = rng.coin(1, 5) ? Q(0) : small(rng, dyadic);
    if (kind == 0) { Q d = small(rng, dyadic); for (long p = 0; p < b; ++p) for (long q = 0; q < b; ++q) v.at(p, q) = p == q ? d : Q(0); }
    else if (kind <= 2) for (long p = 0; p < b; ++p) for (long q = 0; q < p; ++q) v.at(p, q) = v.at(q, p);
    return v;
}
static BV gen_b_inv(Rng &rng, long b) { for (int t = 0; t < 100; ++t) { BV v = gen_b(rng, b); if (invertible(v)) return v; } return b_identity(b); }
// integer matrix with determinant 1: a product of shears
static BV gen_unimod(Rng &rng, long b) {
    BV S = b_identity(b);
    for (int t = 0; t < 2 * b; ++t) { long p = rng.range(0, b - 1), q = rng.range(0, b - 1); if (p == q) continue; BV E = b_identity(b); E.at(p, q) = Q(rng.range(-2, 2)); S = vmul(S, E); }
    return S;
}
// S diag(t_0, .., t_{b-2}, 2^-k u) S^-1: condition number ~ 2^k, non-symmetric; `vec` receives the eigenvector of the tiny eigenvalue
static BV gen_illcond(Rng &rng, long b, long k, std::vector<Q> *vec = nullptr) {
    BV S = gen_unimod(rng, b), Si; vinv(S, Si); BV D(b);
    for (long p = 0; p + 1 < b; ++p) D.at(p, p) = rng.rat_nz(3);
    D.at(b - 1, b - 1) = Q::frac(1, 1L << k) * rng.rat_nz(3);
    if (vec) { vec->resize(b); for (long p = 0; p < b; ++p) (*vec)[p] = S.at(p, b - 1); }
    return vmul(vmul(S, D), Si);
}
// a block for a diagonal position: mostly invertible, often ill-conditioned (||D^-1|| >> 1 / ||D||); sometimes zero / singular when allowed
static BV gen_diag_b(Rng &rng, long b, bool allow_bad) {
    int kind = (int)rng.range(0, 19);
    if (kind <= 5) return gen_illcond(rng, b, rng.range(2, 20));
    if (kind <= 7) { BV D(b); for (long p = 0; p < b; ++p) D.at(p, p) = p == 0 ? Q(1) : Q::frac(1, 1L << rng.range(1, 24)); return D; }     // diag(1, 2^-k, ..)
    if (kind == 8) { BV P(b); for (long p = 0; p < b; ++p) P.at(p, (p + 1) % b) = rng.rat_nz(3); return P; }                                     // zero diagonal inside the block: row exchanges in math::inverse
    if (kind == 9 && allow_bad) return BV(b);                                                                                                     // zero block
    if (kind == 10 && allow_bad) { BV v = gen_b(rng, b); for (long q = 0; q < b; ++q) v.at(b - 1, q) = v.at(0, q) * Q(2); return v; }             // singular
    return gen_b_inv(rng, b);
}
template <class V, class G> static SMat<V> gen_mat(Rng &rng, long n, long m, int dens, G g, bool unsorted, bool dups) {
    std::vector<std::vector<std::pair<long, V>>> rows(n);
    for (long i = 0; i < n; ++i) { for (long j = 0; j < m; ++j) if (rng.range(0, 99) < dens) { rows[i].push_back({j, g()}); if (dups && rng.coin(1, 4)) rows[i].push_back({j, g()}); }
        if (unsorted) for (size_t k = rows[i].size(); k > 1; --k) std::swap(rows[i][k-1], rows[i][rng.next() % k]); }
    SMat<V> A; A.n = n; A.m = m; for (auto &r : rows) { for (auto &cv : r) { A.col.push_back(cv.first); A.val.push_back(cv.second); } A.ptr.push_back((ptrdiff_t)A.col.size()); }
    return A;
}
// square matrix with a diagonal generator of its own; a diagonal entry is missing with probability 1/miss (miss = 0: never), doubled with 1/dupd
template <class V, class G, class GD> static SMat<V> gen_sq(Rng &rng, long n, int dens, G g, GD gd, int miss, int dupd, bool unsorted) {
    std::vector<std::vector<std::pair<long, V>>> rows(n);
    for (long i = 0; i < n; ++i) { for (long j = 0; j < n; ++j) { if (j == i) { if (miss && rng.coin(1, miss)) continue; rows[i].push_back({j, gd()}); if (dupd && rng.coin(1, dupd)) rows[i].push_back({j, gd()}); } else if (rng.range(0, 99) < dens) rows[i].push_back({j, g()}); }
        if (unsorted) for (size_t k = rows[i].size(); k > 1; --k) std::swap(rows[i][k-1], rows[i][rng.next() % k]); }
    SMat<V> A; A.n = A.m = n; for (auto &r : rows) { for (auto &cv : r) { A.col.push_back(cv.first); A.val.push_back(cv.second); } A.ptr.push_back((ptrdiff_t)A.col.size()); }
    return A;
}
template <class V> static SMat<V> from_maps(Rng &rng, const std::vector<std::map<long, V>> &rows, long m, bool unsorted) {
    SMat<V> A; A.n = (long)rows.size(); A.m = m;
    for (auto &r : rows) { std::vector<std::pair<long, V>> e(r.begin(), r.end()); if (unsorted) for (size_t k = e.size(); k > 1; --k) std::swap(e[k-1], e[rng.next() % k]);
        for (auto &cv : e) { A.col.push_back(cv.first); A.val.push_back(cv.second); } A.ptr.push_back((ptrdiff_t)A.col.size()); }
    return A;
}
static std::vector<Q> bmv(const BV &B, const std::vector<Q> &x) { std::vector<Q> y(B.b); for (long p = 0; p < B.b; ++p) for (long q = 0; q < B.b; ++q) y[p] += B.at(p, q) * x[q]; return y; }
// Block matrix with a prescribed eigenpair: ARBITRARY (non-commuting) blocks and block vectors x_i; in every block row one off-diagonal
// block receives the rank-one correction that makes  sum_j B_ij x_j = lam * D_i x_i  (scaled: eigenpair of D^-1 A) resp. = lam * x_i.
// `ill`: D_i = S diag(.., 2^-k) S^-1 with x_i the eigenvector of the tiny eigenvalue and off-diagonal blocks of size 2^-k, so that
// ||D_i^-1|| ~ 2^k while ||D_i|| ~ 1: the true bound holds with room, sum_j ||a_ij|| / ||a_ii|| ~ 1 does not reach |lam| >= 2.
static std::string gen_eig_blk(Rng &rng, long b) {
    bool sc = !rng.coin(1, 4), ill = sc && rng.coin(2, 3); long n = rng.range(2, b == 2 ? 5 : 3), k = rng.range(3, 16); Q eps = Q::frac(1, 1L << k);
    std::vector<std::map<long, BV>> rows(n); std::vector<std::vector<Q>> xs(n);
    for (long i = 0; i < n; ++i) {
        if (ill) { rows[i][i] = gen_illcond(rng, b, k, &xs[i]); Q cf = rng.rat_nz(3); for (auto &v : xs[i]) v = v * cf; }
        else { rows[i][i] = rng.coin(1, 3) ? gen_illcond(rng, b, rng.range(2, 12)) : gen_b_inv(rng, b); xs[i].assign(b, Q(0)); while (std::all_of(xs[i].begin(), xs[i].end(), [](const Q &q) { return q.v == 0; })) for (auto &v : xs[i]) v = rng.rat(3); }
    }
    int dens = (int)rng.range(20, 70);
    for (long i = 0; i < n; ++i) { for (long j = 0; j < n; ++j) if (j != i && rng.range(0, 99) < dens) rows[i][j] = ill ? vscale(gen_b(rng, b), eps) : gen_b(rng, b);
        if (rows[i].size() < 2) { long j = (i + 1 + rng.range(0, n - 2)) % n; rows[i][j] = ill ? vscale(gen_b(rng, b), eps) : gen_b(rng, b); } }
    Q lam = ill ? Q(rng.range(2, 6) * (rng.coin() ? 1 : -1)) : rng.rat_nz(5);
    for (long i = 0; i < n; ++i) {
        std::vector<long> off; for (auto &cv : rows[i]) if (cv.first != i) off.push_back(cv.first); long kc = rng.pick(off);
        std::vector<Q> rhs = sc ? bmv(rows[i][i], xs[i]) : xs[i]; for (auto &v : rhs) v = v * lam;
        for (auto &cv : rows[i]) if (cv.first != kc) { auto y = bmv(cv.second, xs[cv.first]); for (long p = 0; p < b; ++p) rhs[p] -= y[p]; }
        auto y = bmv(rows[i][kc], xs[kc]); Q nn(0); for (auto &v : xs[kc]) nn += v * v;
        for (long p = 0; p < b; ++p) for (long q = 0; q < b; ++q) rows[i][kc].at(p, q) += (rhs[p] - y[p]) * xs[kc][q] / nn;
    }
    Line l; l << "kb_eig_blk" << b << sc; putm(l, from_maps(rng, rows, n, rng.coin(1, 3)));
    l << n * b; for (auto &xi : xs) for (auto &v : xi) l << v; l << lam; return l.get();
}
static std::string gen_eig_cx(Rng &rng) {
    bool sc = !rng.coin(1, 4); long n = rng.range(2, 6); std::vector<std::map<long, CQ>> rows(n); std::vector<CQ> x(n);
    for (long i = 0; i < n; ++i) { rows[i][i] = gen_c_nz(rng); x[i] = gen_c_nz(rng); }
    int dens = (int)rng.range(20, 70);
    for (long i = 0; i < n; ++i) { for (long j = 0; j < n; ++j) if (j != i && rng.range(0, 99) < dens) rows[i][j] = gen_c(rng);
        if (rows[i].size() < 2) rows[i][(i + 1 + rng.range(0, n - 2)) % n] = gen_c(rng); }
    CQ lam = gen_c_nz(rng);
    for (long i = 0; i < n; ++i) {
        std::vector<long> off; for (auto &cv : rows[i]) if (cv.first != i) off.push_back(cv.first); long kc = rng.pick(off);
        CQ rhs = vmul(lam, sc ? vmul(rows[i][i], x[i]) : x[i]);
        for (auto &cv : rows[i]) if (cv.first != kc) { CQ t = vmul(cv.second, x[cv.first]); rhs = CQ(rhs.real() - t.real(), rhs.imag() - t.imag()); }
        rows[i][kc] = vdiv(rhs, x[kc]);
    }
    Line l; l << "kb_eig_cx" << sc; putm(l, from_maps(rng, rows, n, rng.coin(1, 3)));
    l << n; for (auto &v : x) putv(l, v); putv(l, lam); return l.get();
}

static void generate(Rng &rng, const Opts &o, std::vector<std::string> &lines) {
    long N = o.cases > 0 ? o.cases : (o.thorough() ? 5000 : 420);
    static const std::vector<long> nts = { 1, 1, 2, 17 };
    for (long kk = 0; kk < N; ++kk) {
        int which = (int)rng.range(0, 17); bool cx = rng.coin(1, 3); long b = rng.range(2, 3);
        long lo = rng.coin(1, 8) ? 0 : 1, hi = cx ? 8 : (b == 2 ? 6 : 4), n = rng.range(lo, hi), m = rng.coin(1, 2) ? rng.range(lo, hi) : n; int dens = (int)rng.range(10, 70);
        bool uns = rng.coin(1, 3), dups = rng.coin(1, 5);
        auto gb = [&]() { return gen_b(rng, b); }; auto gc = [&]() { return gen_c(rng); };
        std::string sfx = cx ? "_cx" : "_blk";
        Line l; auto head = [&](const char *name) -> Line& { l << (std::string(name) + sfx); if (!cx) l << b; return l; };
        if (which <= 2) {            // Gershgorin estimate on general matrices: ill-conditioned / permuted diagonal blocks, missing and doubled diagonal entries
            bool sc = !rng.coin(1, 3); head("kb_gersh") << sc;
            int miss = rng.coin(1, 4) ? 6 : 0, dupd = rng.coin(1, 6) ? 5 : 0;
            if (cx) putm(l, gen_sq<CQ>(rng, std::max<long>(n, 1), dens, gc, [&]() { return rng.coin(1, 12) ? CQ(Q(0), Q(0)) : gen_c_nz(rng); }, miss, dupd, uns));
            else putm(l, gen_sq<BV>(rng, std::max<long>(n, 1), dens, gb, [&]() { return gen_diag_b(rng, b, false); }, miss, dupd, uns));
        } else if (which <= 4) {     // ... and on matrices with a known eigenpair
            lines.push_back(cx ? gen_eig_cx(rng) : gen_eig_blk(rng, b)); continue;
        } else if (which <= 6) {     // diagonal
            bool inv = rng.coin(2, 3); head("kb_diag") << inv;
            int miss = rng.coin(1, 3) ? 4 : 0, dupd = rng.coin(1, 5) ? 4 : 0;
            if (cx) putm(l, gen_sq<CQ>(rng, n, dens, gc, [&]() { return rng.coin(1, 8) ? CQ(Q(0), Q(0)) : gen_c_nz(rng); }, miss, dupd, uns));
            else putm(l, gen_sq<BV>(rng, n, dens, gb, [&]() { BV d = gen_diag_b(rng, b, true); if (inv && !vzero(d) && !invertible(d)) d = b_identity(b); return d; }, miss, dupd, uns));
        } else if (which == 7) {     // scale
            if (cx) { bool rs = rng.coin(1, 3); l << "kb_scale_cx" << rs; putm(l, gen_mat<CQ>(rng, n, m, dens, gc, uns, dups)); putv(l, rs ? CQ(rng.rat(), Q(0)) : gen_c(rng)); }
            else { l << "kb_scale_blk" << b; putm(l, gen_mat<BV>(rng, n, m, dens, gb, uns, dups)); l << rng.rat(); }
        } else if (which <= 9) {     // sum: block-valued weights multiply from the left
            bool sort = rng.coin(); head("kb_sum");
            if (cx) { putv(l, gen_c(rng)); putm(l, gen_mat<CQ>(rng, n, m, dens, gc, uns, dups)); putv(l, gen_c(rng)); putm(l, gen_mat<CQ>(rng, n, m, dens, gc, rng.coin(1, 3), dups)); }
            else { putv(l, gen_b(rng, b)); putm(l, gen_mat<BV>(rng, n, m, dens, gb, uns, dups)); putv(l, gen_b(rng, b)); putm(l, gen_mat<BV>(rng, n, m, dens, gb, rng.coin(1, 3), dups)); }
            l << sort;
        } else if (which == 10) {    // sort_rows
            head("kb_sort");
            if (cx) putm(l, gen_mat<CQ>(rng, n, m, dens + 20, gc, true, rng.coin())); else putm(l, gen_mat<BV>(rng, n, m, dens + 20, gb, true, rng.coin()));
        } else if (which <= 12) {    // pointwise_matrix: group size 1 (the norm of each value) and 2, 3 (largest norm in the group); sizes possibly not divisible
            long bs = rng.coin(1, 2) ? 1 : rng.range(2, 3); long np = rng.range(0, 3), mp = rng.range(0, 3);
            long nn = np * bs + (rng.coin(1, 8) ? 1 : 0), mm = mp * bs + (rng.coin(1, 6) ? rng.range(0, bs - 1) : 0); bool u = rng.coin(1, 6);
            head("kb_pw") << bs;
            if (cx) putm(l, gen_mat<CQ>(rng, nn, mm, dens, gc, u, false)); else putm(l, gen_mat<BV>(rng, nn, mm, dens, gb, u, false));
        } else if (which <= 14) {    // CRS constructors
            long kind = rng.range(0, cx ? 4 : 5); long mm = kind == 3 ? n : m; bool u = kind == 5 ? false : uns, d = kind == 5 ? false : dups;
            head("kb_copy") << kind;
            if (cx) putm(l, gen_mat<CQ>(rng, n, mm, dens, [&]() { return gen_c(rng, kind == 4); }, u, d)); else putm(l, gen_mat<BV>(rng, n, mm, dens, [&]() { return gen_b(rng, b, kind == 4); }, u, d));
        } else {                     // product, both algorithms
            long nt = rng.pick(nts), p = rng.coin(1, 2) ? rng.range(lo, hi) : n; bool sort = rng.coin();
            head("kb_product") << nt;
            if (cx) { putm(l, gen_mat<CQ>(rng, n, m, dens, gc, uns, dups)); putm(l, gen_mat<CQ>(rng, m, p, dens, gc, nt <= 16 && rng.coin(1, 3), nt <= 16 && dups)); }
            else { putm(l, gen_mat<BV>(rng, n, m, dens, gb, uns, dups)); putm(l, gen_mat<BV>(rng, m, p, dens, gb, nt <= 16 && rng.coin(1, 3), nt <= 16 && dups)); }
            l << sort;
        }
        lines.push_back(l.get());
    }
    // fixed cases: [[D, B], [B, D]] with D = diag(1, 2^-k), B = diag(0, 2 * 2^-k) (commuting), k = 1 .. 12: x = (e2, e2) is an eigenvector of
    // D^-1 A for lambda = 3; ||D^-1|| ~ 2^k, ||D|| ~ 1: the scaled estimate must use ||a_ii^-1||
    for (long k = 1; k <= 12; ++k) {
        Q e = Q::frac(1, 1L << k); BV D(2), B(2); D.at(0, 0) = Q(1); D.at(1, 1) = e; B.at(1, 1) = Q(2) * e;
        std::vector<std::map<long, BV>> rows(2); rows[0][0] = D; rows[0][1] = B; rows[1][0] = B; rows[1][1] = D;
        BMat A = from_maps(rng, rows, 2, false);
        { Line l; l << "kb_gersh_blk" << 2 << 1; putm(l, A); lines.push_back(l.get()); }
        { Line l; l << "kb_eig_blk" << 2 << 1; putm(l, A); l << 4 << 0 << 1 << 0 << 1 << 3; lines.push_back(l.get()); }
    }
    // malformed stream: both sides answer bad-input (precondition for the shape test of sum / the divisibility test of pointwise_matrix)
    lines.push_back("kb_gersh_blk 4 0 0 0");                                          // block size outside {2,3}
    lines.push_back("kb_gersh_blk 2 1 1 1 1 0 1 2 2 4");                              // scaled estimate: singular diagonal block (math::inverse asserts)
    lines.push_back("kb_gersh_cx 0 1 2 0");                                           // not square
    lines.push_back("kb_eig_blk 2 0 1 1 1 0 1 0 0 1 2 1 0 3");                        // (x, 3) is not an eigenpair of the identity
    lines.push_back("kb_eig_cx 1 2 2 1 1 1 0 1 1 1 0 2 1 0 0 0 1 0");                 // row 0 stores no diagonal entry
    lines.push_back("kb_diag_blk 2 1 1 1 1 0 1 1 1 1");                               // inverted diagonal of a singular non-zero block
    lines.push_back("kb_scale_cx 1 1 1 1 0 1 2 3 4");                                 // real-typed weight with an imaginary part
    lines.push_back("kb_sum_blk 2 1 0 0 1 1 1 1 0 1 2 3 4 1 0 0 1 1 2 1 0 1 2 3 4 0"); // shapes differ: precondition
    lines.push_back("kb_pw_blk 2 0 0 0");                                             // group size 0
    lines.push_back("kb_pw_cx 2 3 4 0 0 0");                                          // 3 rows, group size 2: precondition
    lines.push_back("kb_copy_cx 5 0 0");                                              // adapter round trip exists for blocks only
    lines.push_back("kb_copy_blk 2 4 1 1 1 0 1/3 0 0 1");                             // 1/3 is not a binary32 number
    lines.push_back("kb_copy_blk 2 5 1 2 2 1 1 0 0 1 0 1 0 0 1");                     // adapter round trip needs sorted rows
    lines.push_back("kb_product_cx 17 1 1 1 0 1 0 1 2 2 1 1 0 0 1 0 0");              // row-merge product needs sorted B rows
    lines.push_back("kb_sort_blk 2 1 1 1 1 1 2 3 4");                                 // column 1 in a matrix with 1 block column
}

VH_MAIN(generate, execute)
