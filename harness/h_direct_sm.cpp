// C16 harness, part 2: amgcl::static_matrix<Q,N,M> arithmetic (N, M <= 4) at the exact rational type Q.
// Ops, oracles and generators: harness/direct_sm.hpp (shared with h_direct_smc.cpp, the same at std::complex<Q>).
#include "direct_sm.hpp"

static Result execute(const Toks &t) {
    Cur c(t);
    const std::string &op = t[0];
    for (auto &k : sm_kinds()) if (op == "direct_sm_" + k) return run_sm<Q>(op, k, c);
    Result r; r.out = "bad-op"; return r;
}

static void generate(Rng &rng, const Opts &o, std::vector<std::string> &lines) {
    const bool T = o.thorough();
    long scale = o.cases > 0 ? o.cases : (T ? 10 : 1);
    gen_family(rng, lines, false, 60 * scale);
    // malformed stream: both sides must answer bad-input
    lines.push_back("direct_sm_mul 5 1 1 1 1 1 1 1");            // dimension out of range
    lines.push_back("direct_sm_lin 2 2 1 1 2 3 4 1 2 3");        // too few entries
    lines.push_back("direct_sm_assoc 4 4 4 3 1 1");              // shape outside the instantiated set
    lines.push_back("direct_sm_inverse 2 1 2 3");                // too few entries
    lines.push_back("direct_sm_adj 2 2 1 2 3 4 1 2 3");          // too few entries
}

VH_MAIN(generate, execute)
