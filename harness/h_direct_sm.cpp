// C16 harness, part 2: amgcl::static_matrix<Q,N,M> arithmetic (N, M <= 4) at the exact rational type Q.
// Ops (the same text is fed to the Lean model, lean/Amgcl/Driver/Direct.lean):
//   direct_sm_lin N M c a b | direct_sm_mul N P M a b | direct_sm_assoc N P M L a b c | direct_sm_distrib N P M a b c | direct_sm_inner N M x y | direct_sm_inverse N a
// Oracles: entrywise / dense recomputation and the matrix algebra identities, evaluated with the real operators.
#include "direct_common.hpp"
#include <amgcl/value_type/static_matrix.hpp>
#include <amgcl/detail/inverse.hpp>
using namespace vh;

// ------------------------------------------------------------------ static matrices
template <int Lo, int Hi, class F> static void dispatch(long n, F &&f) {
    if constexpr (Lo > Hi) { (void)n; (void)f; throw bad_input("dim"); }
    else { if (n == Lo) f(std::integral_constant<int, Lo>()); else dispatch<Lo + 1, Hi>(n, f); }
}
template <int N, int M> static amgcl::static_matrix<Q,N,M> parse_sm(Cur &c) { amgcl::static_matrix<Q,N,M> a; for (int i = 0; i < N * M; ++i) a(i) = c.rat(); return a; }
template <int N, int M> static void print_sm(Line &l, const amgcl::static_matrix<Q,N,M> &a) { for (int i = 0; i < N * M; ++i) l << a(i); }
template <int N, int M> static bool sm_eq(const amgcl::static_matrix<Q,N,M> &a, const amgcl::static_matrix<Q,N,M> &b) { for (int i = 0; i < N * M; ++i) if (!qeq(a(i), b(i))) return false; return true; }
template <int N, int M> static Dense sm_dense(const amgcl::static_matrix<Q,N,M> &a) { Dense D(N, std::vector<Q>(M)); for (int i = 0; i < N; ++i) for (int j = 0; j < M; ++j) D[i][j] = a(i, j); return D; }
template <int N, int M> static bool sm_eq_dense(const amgcl::static_matrix<Q,N,M> &a, const Dense &D) { for (int i = 0; i < N; ++i) for (int j = 0; j < M; ++j) if (!qeq(a(i,j), D[i][j])) return false; return true; }

static Result run_sm(const std::string &op, Cur &c) {
    Result r; r.nontrivial = true; r.tag(op);
    namespace m = amgcl::math;
    if (op == "direct_sm_lin") {
        long N = c.nat(), M = c.nat();
        dispatch<1,4>(N, [&](auto n_) { dispatch<1,4>(M, [&](auto m_) {
            constexpr int N = decltype(n_)::value, M = decltype(m_)::value; typedef amgcl::static_matrix<Q,N,M> SM;
            Q s = c.rat(); SM a = parse_sm<N,M>(c), b = parse_sm<N,M>(c); c.expect_end();
            SM sum = a + b, dif = a - b, sc = s * a, ng = -a; auto ad = m::adjoint(a); bool z = m::is_zero(a); Q nrm = m::norm(a);
            for (int i = 0; i < N; ++i) for (int j = 0; j < M; ++j) {
                if (!qeq(sum(i,j), a(i,j) + b(i,j))) r.fail("a+b entrywise"); if (!qeq(dif(i,j), a(i,j) - b(i,j))) r.fail("a-b entrywise");
                if (!qeq(sc(i,j), s * a(i,j))) r.fail("c*a entrywise"); if (!qeq(ng(i,j), Q(0) - a(i,j))) r.fail("-a entrywise");
                if (!qeq(ad(j,i), a(i,j))) r.fail("adjoint entrywise"); }
            if (!sm_eq(sum - b, a)) r.fail("(a+b)-b != a"); if (!sm_eq(m::adjoint(ad), a)) r.fail("adjoint(adjoint(a)) != a");
            if (!sm_eq(s * (a + b), s * a + s * b)) r.fail("c*(a+b) != c*a + c*b"); if (!sm_eq(a + b, b + a)) r.fail("a+b != b+a");
            if (!sm_eq(a + ng, m::zero<SM>())) r.fail("a + (-a) != 0");
            Q fro(0); for (int i = 0; i < N * M; ++i) fro += a(i) * a(i); if (!qeq(nrm, vq::sqrt(fro))) r.fail("norm != sqrt(sum a_i^2)");
            Line l; print_sm(l, sum); print_sm(l, dif); print_sm(l, sc); print_sm(l, ng); print_sm(l, ad); l << z << nrm; r.out = l.get();
        }); });
    } else if (op == "direct_sm_mul") {
        long N = c.nat(), P = c.nat(), M = c.nat();
        dispatch<1,4>(N, [&](auto n_) { dispatch<1,4>(P, [&](auto p_) { dispatch<1,4>(M, [&](auto m_) {
            constexpr int N = decltype(n_)::value, P = decltype(p_)::value, M = decltype(m_)::value;
            auto a = parse_sm<N,P>(c); auto b = parse_sm<P,M>(c); c.expect_end();
            auto ab = a * b; auto abt = m::adjoint(ab);
            if (!sm_eq_dense(ab, dmul(sm_dense(a), sm_dense(b)))) r.fail("a*b != dense product");
            if (!sm_eq(abt, m::adjoint(b) * m::adjoint(a))) r.fail("(ab)^T != b^T a^T");
            if constexpr (N == P) if (!sm_eq(m::identity<amgcl::static_matrix<Q,N,N>>() * b, b)) r.fail("I*b != b");
            if constexpr (P == M) if (!sm_eq(a * m::identity<amgcl::static_matrix<Q,M,M>>(), a)) r.fail("a*I != a");
            Line l; print_sm(l, ab); print_sm(l, abt); r.out = l.get();
        }); }); });
    } else if (op == "direct_sm_assoc") {
        long N = c.nat(), P = c.nat(), M = c.nat(), L = c.nat();
        auto body = [&](auto n_, auto p_, auto m_, auto l_) {
            constexpr int N = decltype(n_)::value, P = decltype(p_)::value, M = decltype(m_)::value, L = decltype(l_)::value;
            auto a = parse_sm<N,P>(c); auto b = parse_sm<P,M>(c); auto d = parse_sm<M,L>(c); c.expect_end();
            auto lhs = (a * b) * d; auto rhs = a * (b * d);
            if (!sm_eq(lhs, rhs)) r.fail("(ab)c != a(bc)");
            Line l; print_sm(l, lhs); print_sm(l, rhs); r.out = l.get();
        };
        if (N == 4 && P == 4 && M == 4 && L == 4) { std::integral_constant<int,4> f; body(f, f, f, f); }
        else dispatch<1,3>(N, [&](auto n_) { dispatch<1,3>(P, [&](auto p_) { dispatch<1,3>(M, [&](auto m_) { dispatch<1,3>(L, [&](auto l_) { body(n_, p_, m_, l_); }); }); }); });
    } else if (op == "direct_sm_distrib") {
        long N = c.nat(), P = c.nat(), M = c.nat();
        dispatch<1,4>(N, [&](auto n_) { dispatch<1,4>(P, [&](auto p_) { dispatch<1,4>(M, [&](auto m_) {
            constexpr int N = decltype(n_)::value, P = decltype(p_)::value, M = decltype(m_)::value;
            auto a = parse_sm<N,P>(c); auto b = parse_sm<P,M>(c); auto d = parse_sm<P,M>(c); c.expect_end();
            auto l1 = a * (b + d); auto r1 = a * b + a * d; auto l2 = a * (b - d);
            if (!sm_eq(l1, r1)) r.fail("a(b+c) != ab+ac"); if (!sm_eq(l2, a * b - a * d)) r.fail("a(b-c) != ab-ac");
            if (!sm_eq(m::adjoint(b + d), m::adjoint(b) + m::adjoint(d))) r.fail("(b+c)^T != b^T + c^T");
            Line l; print_sm(l, l1); print_sm(l, r1); print_sm(l, l2); r.out = l.get();
        }); }); });
    } else if (op == "direct_sm_inner") {
        long N = c.nat(), M = c.nat();
        dispatch<1,4>(N, [&](auto n_) { dispatch<1,4>(M, [&](auto m_) {
            constexpr int N = decltype(n_)::value, M = decltype(m_)::value;
            auto x = parse_sm<N,M>(c); auto y = parse_sm<N,M>(c); c.expect_end();
            auto xty = m::adjoint(x) * y;
            if constexpr (M == 1) { Q ip = m::inner_product(x, y); if (!qeq(ip, xty(0,0))) r.fail("inner_product != x^T y"); r.out = (Line() << ip).get(); }
            else { auto ip = m::inner_product(x, y); if (!sm_eq(ip, xty)) r.fail("inner_product != x^T y"); Line l; print_sm(l, ip); r.out = l.get(); }
        }); });
    } else if (op == "direct_sm_inverse") {
        long N = c.nat();
        dispatch<1,4>(N, [&](auto n_) {
            constexpr int N = decltype(n_)::value; typedef amgcl::static_matrix<Q,N,N> SM;
            SM a = parse_sm<N,N>(c); c.expect_end();
            if (dense_rank(sm_dense(a)) < N) { r.out = "singular"; r.tag("singular"); return; }
            SM ia = m::inverse(a);
            if (!sm_eq(a * ia, m::identity<SM>())) r.fail("a * inverse(a) != I"); if (!sm_eq(ia * a, m::identity<SM>())) r.fail("inverse(a) * a != I");
            Line l; print_sm(l, ia); r.out = l.get();
        });
    }
    return r;
}

static Result execute(const Toks &t) {
    Cur c(t);
    const std::string &op = t[0];
    if (op == "direct_sm_lin" || op == "direct_sm_mul" || op == "direct_sm_assoc" || op == "direct_sm_distrib" || op == "direct_sm_inner" || op == "direct_sm_inverse") return run_sm(op, c);
    Result r; r.out = "bad-op"; return r;
}

static void put_rats(Rng &rng, Line &l, long cnt, int zero_pct = 15) { for (long i = 0; i < cnt; ++i) l << (rng.range(0, 99) < zero_pct ? Q(0) : rng.rat(5)); }

static void generate(Rng &rng, const Opts &o, std::vector<std::string> &lines) {
    const bool T = o.thorough();
    long scale = o.cases > 0 ? o.cases : (T ? 10 : 1);
    for (long k = 0; k < 60 * scale; ++k) {
        long N = rng.range(1, 4), P = rng.range(1, 4), M = rng.range(1, 4), L4 = rng.range(1, 4);
        { Line l; l << "direct_sm_lin" << N << M << rng.rat(4); put_rats(rng, l, 2 * N * M); lines.push_back(l.get()); }
        { Line l; l << "direct_sm_mul" << N << P << M; put_rats(rng, l, N * P + P * M); lines.push_back(l.get()); }
        { long a = N, b = P, cc = M, d = L4; if (rng.coin(1, 5)) a = b = cc = d = 4; else { a = rng.range(1, 3); b = rng.range(1, 3); cc = rng.range(1, 3); d = rng.range(1, 3); }
          Line l; l << "direct_sm_assoc" << a << b << cc << d; put_rats(rng, l, a * b + b * cc + cc * d); lines.push_back(l.get()); }
        { Line l; l << "direct_sm_distrib" << N << P << M; put_rats(rng, l, N * P + 2 * P * M); lines.push_back(l.get()); }
        { Line l; l << "direct_sm_inner" << N << M; put_rats(rng, l, 2 * N * M); lines.push_back(l.get()); }
        { std::vector<Q> A(N * N); for (int tries = 0; tries < 50; ++tries) { for (auto &x : A) x = rng.coin(1, 4) ? Q(0) : rng.rat(5); if (dense_rank(rm_dense(N, N, A)) == N) break; for (long i = 0; i < N; ++i) A[i * N + i] += Q(7); }
          if (dense_rank(rm_dense(N, N, A)) == N) { Line l; l << "direct_sm_inverse" << N; for (auto &v : A) l << v; lines.push_back(l.get()); } }
    }
    // malformed stream: both sides must answer bad-input
    lines.push_back("direct_sm_mul 5 1 1 1 1 1 1 1");            // dimension out of range
    lines.push_back("direct_sm_lin 2 2 1 1 2 3 4 1 2 3");        // too few entries
    lines.push_back("direct_sm_assoc 4 4 4 3 1 1");              // shape outside the instantiated set
    lines.push_back("direct_sm_inverse 2 1 2 3");                // too few entries
}

VH_MAIN(generate, execute)
