// C07 harness, part 2: other backends and value types.
//   bcrs_spmv bs a A x b y | bcrs_residual bs f A x          amgcl::backend::block_crs<Q> (matrix converted from builtin CRS)
//   eig_spmv 0 a A x b y | eig_residual 0 f A x | eig_axpby a x b y | eig_axpbypcz a x b y c z | eig_vmul a x y b z
//   eig_inner_product x y                                      amgcl::backend::eigen<double> on exact-in-binary64 data
//   cx_spmv a A x b y | cx_residual f A x | cx_axpby a x b y | cx_inner_product nt x y     builtin<std::complex<Q>>
// (complex numbers are written as two rationals `re im`)
#include "gen.hpp"
#include <complex>
#include <amgcl/backend/builtin.hpp>
#include <amgcl/backend/block_crs.hpp>
#include <amgcl/value_type/complex.hpp>
#include <Eigen/SparseCore>
#include <amgcl/backend/eigen.hpp>
#ifdef _OPENMP
#include <omp.h>
#endif
using namespace vh;

typedef std::complex<Q> CQ;
static bool has_poison(const std::vector<Q> &v) { for (auto &x : v) if (x.poison) return true; return false; }
static bool same(const NVec &a, const std::vector<Q> &b) {
    if (a.size() != b.size()) return false;
    for (size_t i = 0; i < b.size(); ++i) { if (a[i].poison != b[i].poison) return false; if (!a[i].poison && a[i].v != b[i].v) return false; }
    return true;
}
static bool distinct_cols(const Mat &A) { return crs_nodup(*A.crs()); }

// --- Eigen helpers: exact conversion both ways, NaN <-> POISON
static double to_d(const Q &q) { return q.poison ? std::numeric_limits<double>::quiet_NaN() : q.v.get_d(); }
static Q from_d(double d) { return std::isnan(d) ? Q::poisoned() : Q(d); }
typedef Eigen::Matrix<double, Eigen::Dynamic, 1> EVec;
static EVec evec(const std::vector<Q> &v) { EVec e(v.size()); for (size_t i = 0; i < v.size(); ++i) e[i] = to_d(v[i]); return e; }
static std::vector<Q> qvec(const EVec &e) { std::vector<Q> v(e.size()); for (long i = 0; i < e.size(); ++i) v[i] = from_d(e[i]); return v; }
static bool exact_small(const std::vector<Q> &v) { for (auto &x : v) if (!x.poison && (x.v.get_den() != 1 || abs(x.v.get_num()) > (1L << 40))) return false; return true; }
static Line& put(Line &l, const std::vector<Q> &v) { return l << v; }

static Line& putc(Line &l, const CQ &c) { l << c.real(); l << c.imag(); return l; }
static Line& putcv(Line &l, const std::vector<CQ> &v) { l << v.size(); for (auto &c : v) putc(l, c); return l; }
static CQ rdc(Cur &c) { Q r = c.rat(); Q i = c.rat(); return CQ(r, i); }
static std::vector<CQ> rdcv(Cur &c) { long n = c.nat(); if (n < 0) throw bad_input("n"); std::vector<CQ> v(n); for (auto &x : v) x = rdc(c); return v; }
static bool ceq(const CQ &a, const CQ &b) { return a.real().v == b.real().v && a.imag().v == b.imag().v; }

static Result execute(const Toks &t) {
    Cur c(t); const std::string &op = t[0]; Result r;
    if (op == "bcrs_spmv" || op == "bcrs_residual") {
        long bs = c.nat(); if (bs < 1 || bs > 8) throw bad_input("bs");
        bool is_spmv = op == "bcrs_spmv";
        Q a(1), b(0); std::vector<Q> f, x, y; Mat A;
        if (is_spmv) { a = c.rat(); A = c.mat(); x = c.vec(); b = c.rat(); y = c.vec(); } else { f = c.vec(); A = c.mat(); x = c.vec(); y = f; }
        c.expect_end();
        std::string why; auto Ac = A.crs();
        if (!crs_wf(*Ac, why) || (long)x.size() != A.m || (long)y.size() != A.n || !distinct_cols(A)) throw bad_input("shape");
        amgcl::backend::bcrs<Q, ptrdiff_t, ptrdiff_t> B(*Ac, (size_t)bs);
        NVec X(x), Y(y);
        Dense D = dense(A); std::vector<Q> ref = dmv(D, x);
        if (is_spmv) {
            amgcl::backend::spmv(a, B, X, b, Y);
            for (long i = 0; i < A.n; ++i) ref[i] = (b == 0) ? a * ref[i] : a * ref[i] + b * y[i];
            if (b == 0 && !a.poison) for (long i = 0; i < A.n; ++i) if (Y[i].poison) { r.fail("bcrs spmv: beta = 0 but old output leaked"); break; }
        } else {
            NVec F(f), R(A.n); for (long i = 0; i < A.n; ++i) R[i] = Q::poisoned();
            amgcl::backend::residual(F, B, X, R);
            for (long i = 0; i < A.n; ++i) { ref[i] = f[i] - ref[i]; Y[i] = R[i]; }
        }
        if (!same(Y, ref)) r.fail(is_spmv ? "bcrs spmv != alpha*A*x + beta*y" : "bcrs residual != f - A*x");
        r.out = (Line() << Y).get(); r.nontrivial = A.col.size() > 0; r.tag(op); r.tag("bs" + std::to_string(bs));
        if (A.n % bs || A.m % bs) r.tag("partial_block");
    } else if (op == "eig_spmv" || op == "eig_residual") {
        c.nat();
        bool is_spmv = op == "eig_spmv";
        Q a(1), b(0); std::vector<Q> f, x, y; Mat A;
        if (is_spmv) { a = c.rat(); A = c.mat(); x = c.vec(); b = c.rat(); y = c.vec(); } else { f = c.vec(); A = c.mat(); x = c.vec(); y = f; }
        c.expect_end();
        std::string why; if (!crs_wf(*A.crs(), why) || (long)x.size() != A.m || (long)y.size() != A.n) throw bad_input("shape");
        if (!exact_small(A.val) || !exact_small(x) || !exact_small(y) || !exact_small({a, b})) throw bad_input("not exact in binary64");
        std::vector<ptrdiff_t> ptr(A.ptr), col(A.col); std::vector<double> val(A.val.size()); for (size_t i = 0; i < val.size(); ++i) val[i] = to_d(A.val[i]);
        ptrdiff_t dummy_i = 0; double dummy_v = 0;
        amgcl::backend::eigen<double>::matrix M(A.n, A.m, (ptrdiff_t)val.size(), ptr.data(), col.empty() ? &dummy_i : col.data(), val.empty() ? &dummy_v : val.data());
        EVec X = evec(x), Y = evec(y);
        std::vector<Q> ref = dmv(dense(A), x);
        if (is_spmv) { amgcl::backend::spmv(to_d(a), M, X, to_d(b), Y); for (long i = 0; i < A.n; ++i) ref[i] = (b == 0) ? a * ref[i] : a * ref[i] + b * y[i]; }
        else { EVec F = evec(f), R(A.n); R.setConstant(std::numeric_limits<double>::quiet_NaN()); amgcl::backend::residual(F, M, X, R); Y = R; for (long i = 0; i < A.n; ++i) ref[i] = f[i] - ref[i]; }
        std::vector<Q> out = qvec(Y); NVec O(out);
        if (!same(O, ref)) r.fail(std::string("eigen backend ") + (is_spmv ? "spmv" : "residual") + " != defining formula");
        r.out = (Line() << out).get(); r.nontrivial = A.col.size() > 0; r.tag(op);
    } else if (op == "eig_axpby" || op == "eig_axpbypcz" || op == "eig_vmul") {
        Q a = c.rat(); std::vector<Q> x = c.vec(), y, z; Q b(0), cc(0);
        if (op == "eig_axpby") { b = c.rat(); z = c.vec(); }
        else if (op == "eig_axpbypcz") { b = c.rat(); y = c.vec(); cc = c.rat(); z = c.vec(); }
        else { y = c.vec(); b = c.rat(); z = c.vec(); }
        c.expect_end();
        if (x.size() != z.size() || (op != "eig_axpby" && x.size() != y.size())) throw bad_input("shape");
        if (!exact_small(x) || !exact_small(y) || !exact_small(z) || !exact_small({a, b, cc})) throw bad_input("not exact");
        EVec X = evec(x), Y = evec(y), Z = evec(z); std::vector<Q> ref(x.size());
        if (op == "eig_axpby") { amgcl::backend::axpby(to_d(a), X, to_d(b), Z); for (size_t i = 0; i < x.size(); ++i) ref[i] = b == 0 ? a * x[i] : a * x[i] + b * z[i]; }
        else if (op == "eig_axpbypcz") { amgcl::backend::axpbypcz(to_d(a), X, to_d(b), Y, to_d(cc), Z); for (size_t i = 0; i < x.size(); ++i) ref[i] = cc == 0 ? a * x[i] + b * y[i] : a * x[i] + b * y[i] + cc * z[i]; }
        else { amgcl::backend::vmul(to_d(a), X, Y, to_d(b), Z); for (size_t i = 0; i < x.size(); ++i) ref[i] = b == 0 ? a * x[i] * y[i] : a * x[i] * y[i] + b * z[i]; }
        std::vector<Q> out = qvec(Z); NVec O(out);
        if (!same(O, ref)) r.fail("eigen backend " + op + " != defining formula");
        Q outc = op == "eig_axpbypcz" ? cc : b; if (outc == 0 && has_poison(out)) r.fail("zero output coefficient but old output (NaN) leaked");
        r.out = (Line() << out).get(); r.nontrivial = x.size() > 0; r.tag(op);
    } else if (op == "eig_inner_product") {
        auto x = c.vec(), y = c.vec(); c.expect_end(); if (x.size() != y.size() || !exact_small(x) || !exact_small(y)) throw bad_input("shape");
        EVec X = evec(x), Y = evec(y); double s = amgcl::backend::inner_product(X, Y);
        Q ref(0); for (size_t i = 0; i < x.size(); ++i) ref += x[i] * y[i];
        if (Q(s).v != ref.v) r.fail("eigen inner_product");
        r.out = (Line() << Q(s)).get(); r.nontrivial = x.size() > 1; r.tag(op);
    } else if (op == "cx_spmv" || op == "cx_residual") {
        bool is_spmv = op == "cx_spmv"; CQ a(Q(1)), b(Q(0)); std::vector<CQ> f, x, y;
        long n, m; std::vector<ptrdiff_t> ptr(1, 0), col; std::vector<CQ> val;
        auto rdmat = [&]() { n = c.nat(); m = c.nat(); for (long i = 0; i < n; ++i) { long k = c.nat(); for (long j = 0; j < k; ++j) { col.push_back(c.nat()); val.push_back(rdc(c)); } ptr.push_back((ptrdiff_t)col.size()); } };
        if (is_spmv) { a = rdc(c); rdmat(); x = rdcv(c); b = rdc(c); y = rdcv(c); } else { f = rdcv(c); rdmat(); x = rdcv(c); y = f; }
        c.expect_end();
        for (auto cc : col) if (cc < 0 || cc >= m) throw bad_input("col");
        if ((long)x.size() != m || (long)y.size() != n) throw bad_input("shape");
        amgcl::backend::crs<CQ> A(n, m, ptr, col, val);
        amgcl::backend::numa_vector<CQ> X(x), Y(y);
        std::vector<CQ> ref(n, CQ(Q(0)));
        for (long i = 0; i < n; ++i) for (auto j = ptr[i]; j < ptr[i+1]; ++j) ref[i] += val[j] * x[col[j]];
        bool bz = b.real() == 0 && b.imag() == 0;
        if (is_spmv) { amgcl::backend::spmv(a, A, X, b, Y); for (long i = 0; i < n; ++i) ref[i] = bz ? a * ref[i] : a * ref[i] + b * y[i]; }
        else { amgcl::backend::numa_vector<CQ> F(f), R(n); amgcl::backend::residual(F, A, X, R); for (long i = 0; i < n; ++i) { ref[i] = f[i] - ref[i]; Y[i] = R[i]; } }
        std::vector<CQ> out(n); bool ok = true; for (long i = 0; i < n; ++i) { out[i] = Y[i]; if (!ceq(out[i], ref[i])) ok = false; }
        if (!ok) r.fail("complex " + op + " != defining formula");
        Line l; putcv(l, out); r.out = l.get(); r.nontrivial = !col.empty(); r.tag(op);
    } else if (op == "cx_axpby") {
        CQ a = rdc(c); auto x = rdcv(c); CQ b = rdc(c); auto y = rdcv(c); c.expect_end(); if (x.size() != y.size()) throw bad_input("shape");
        amgcl::backend::numa_vector<CQ> X(x), Y(y); amgcl::backend::axpby(a, X, b, Y);
        bool bz = b.real() == 0 && b.imag() == 0; bool ok = true; std::vector<CQ> out(x.size());
        for (size_t i = 0; i < x.size(); ++i) { out[i] = Y[i]; CQ ref = bz ? a * x[i] : a * x[i] + b * y[i]; if (!ceq(out[i], ref)) ok = false; }
        if (!ok) r.fail("complex axpby"); Line l; putcv(l, out); r.out = l.get(); r.nontrivial = x.size() > 0; r.tag(op);
    } else if (op == "cx_inner_product") {
        long nt = c.nat(); auto x = rdcv(c), y = rdcv(c); c.expect_end(); if (x.size() != y.size() || nt < 1) throw bad_input("shape");
#ifdef _OPENMP
        omp_set_num_threads((int)nt);
#endif
        amgcl::backend::numa_vector<CQ> X(x), Y(y); CQ s = amgcl::backend::inner_product(X, Y);
#ifdef _OPENMP
        omp_set_num_threads(1);
#endif
        CQ ref(Q(0)); for (size_t i = 0; i < x.size(); ++i) ref += x[i] * std::conj(y[i]);      // linear in x, conjugate-linear in y
        if (!ceq(s, ref)) r.fail("complex inner_product != sum x_i * conj(y_i)");
        Line l; putc(l, s); r.out = l.get(); bool cplx = false; for (auto &v : x) if (v.imag() != 0) cplx = true; r.nontrivial = x.size() > 1 && cplx; r.tag(op);
    } else r.out = "bad-op";
    return r;
}

static std::vector<CQ> gen_cvec(Rng &rng, long n) { std::vector<CQ> v(n); for (auto &x : v) x = CQ(rng.rat(4), rng.rat(4)); return v; }

static void generate(Rng &rng, const Opts &o, std::vector<std::string> &lines) {
    long N = o.cases > 0 ? o.cases : (o.thorough() ? 3000 : 300);
    const std::vector<Q> coefs = { Q(0), Q(1), Q(-1), Q(2) };
    auto icoef = [&]() { return rng.coin(3, 4) ? rng.pick(coefs) : rng.integer(3); };
    auto poisoned = [&](std::vector<Q> v) { for (auto &x : v) if (rng.coin()) x = Q::poisoned(); return v; };
    for (long k = 0; k < N; ++k) {
        int which = (int)rng.range(0, 10);
        long n = rng.range(0, 14), m = rng.coin(1, 2) ? rng.range(0, 14) : n; int dens = (int)rng.range(5, 60);
        Line l;
        if (which <= 1) { long bs = rng.range(1, 5); Mat A = gen_sparse(rng, n, m, dens); if (rng.coin(1, 3)) A = unsort(rng, A, false);
            Q b = rng.coin(1, 3) ? Q(0) : rng.rat(); auto y = gen_vec(rng, n); if (b == 0 && rng.coin()) y = poisoned(y);
            if (which == 0) l << "bcrs_spmv" << bs << rng.rat() << A << gen_vec(rng, m) << b << y; else l << "bcrs_residual" << bs << gen_vec(rng, n) << A << gen_vec(rng, m); }
        else if (which == 2) { Mat A = gen_sparse(rng, n, m, dens, true); Q b = icoef(); auto y = gen_vec(rng, n, true); if (b == 0 && rng.coin()) y = poisoned(y); l << "eig_spmv" << 0L << icoef() << A << gen_vec(rng, m, true) << b << y; }
        else if (which == 3) { Mat A = gen_sparse(rng, n, m, dens, true); l << "eig_residual" << 0L << gen_vec(rng, n, true) << A << gen_vec(rng, m, true); }
        else if (which == 4) { Q b = icoef(); auto y = gen_vec(rng, n, true); if (b == 0 && rng.coin()) y = poisoned(y); l << "eig_axpby" << icoef() << gen_vec(rng, n, true) << b << y; }
        else if (which == 5) { Q cc = icoef(); auto z = gen_vec(rng, n, true); if (cc == 0 && rng.coin()) z = poisoned(z); l << "eig_axpbypcz" << icoef() << gen_vec(rng, n, true) << icoef() << gen_vec(rng, n, true) << cc << z; }
        else if (which == 6) { Q b = icoef(); auto z = gen_vec(rng, n, true); if (b == 0 && rng.coin()) z = poisoned(z); l << "eig_vmul" << icoef() << gen_vec(rng, n, true) << gen_vec(rng, n, true) << b << z; }
        else if (which == 7) { l << "eig_inner_product" << gen_vec(rng, n, true) << gen_vec(rng, n, true); }
        else if (which == 8 || which == 9) {
            Mat A = gen_sparse(rng, n, m, dens); bool sp = which == 8; CQ b = rng.coin(1, 3) ? CQ(Q(0)) : CQ(rng.rat(3), rng.rat(3));
            l << (sp ? "cx_spmv" : "cx_residual"); if (sp) putc(l, CQ(rng.rat(3), rng.rat(3))); else putcv(l, gen_cvec(rng, n));
            l << A.n << A.m; for (long i = 0; i < A.n; ++i) { l << (long)(A.ptr[i+1] - A.ptr[i]); for (auto j = A.ptr[i]; j < A.ptr[i+1]; ++j) { l << (long)A.col[j]; putc(l, CQ(A.val[j], rng.rat(3))); } }
            putcv(l, gen_cvec(rng, m)); if (sp) { putc(l, b); putcv(l, gen_cvec(rng, n)); } }
        else { static const std::vector<long> nts = { 1, 2, 3, 8, 17 }; if (rng.coin()) { l << "cx_inner_product" << rng.pick(nts); putcv(l, gen_cvec(rng, n)); putcv(l, gen_cvec(rng, n)); } else { l << "cx_axpby"; putc(l, CQ(rng.rat(3), rng.rat(3))); putcv(l, gen_cvec(rng, n)); putc(l, rng.coin(1, 3) ? CQ(Q(0)) : CQ(rng.rat(3), rng.rat(3))); putcv(l, gen_cvec(rng, n)); } }
        lines.push_back(l.get());
    }
    lines.push_back("bcrs_spmv 2 1 1 2 2 0 1 0 2 2 1 1 0 1 5");      // duplicate column in a row: outside the converter's domain
    lines.push_back("eig_axpby 1 2 1 2 1 3 1 2 3");                      // size mismatch
}

VH_MAIN(generate, execute)
