// C12 harness (implementation-only, "no_model"): the distributed coupled solver under real MPI, in double.
//
//   msolve combo repart <part> A f     amgcl::mpi::make_solver<mpi::amg<builtin<double>, rec<C>, R, mpi::direct::skyline_lu,
//                                      mpi::partition::merge>, S> on an SPD M-matrix, rows distributed by <part>
//        combo 0: aggregation (over_interp = 1) + spai0         + cg
//              1: smoothed_aggregation          + spai0         + cg
//              2: aggregation                   + damped_jacobi + bicgstab
//              3: smoothed_aggregation          + gauss_seidel  + gmres
//              4: smoothed_aggregation (estimate_spectral_radius) + chebyshev + cg
//              5: aggregation                   + ilu0          + bicgstab
//        repart 0/1: mpi::partition::merge enabled (shrink_ratio 2: ranks become EMPTY on the coarse levels)
//   mdirect <part> A f                 amgcl::mpi::direct::skyline_lu on the distributed matrix (master/slave consolidation)
//   mnonsquare <rp> <cp>               mpi::amg on a matrix with glob_rows != glob_cols: communicator::check must make
//                                      every rank throw (regression test for /repo 853da24 under ASan)
// Oracles (the result line only summarises; the verdicts are the oracles):
//   * (iters, resid) bitwise identical on all ranks                                                   [property]
//   * true residual of the gathered solution, recomputed on rank 0 in long double, within 1e-8 of the reported one   [test]
//   * converged within maxiter to tol (SPD M-matrices)                                                [test]
//   * recording coarsening wrapper: every distributed coarse operator == s * R*A*P on the gathered matrices
//     (exactly when all entries involved are small dyadic numbers, else to 1e-12 relative), R == P^T exactly
//   * aggregation: P_tent is a global partition (every row has at most one entry, equal to 1; no empty aggregate;
//     a row without entry has no strong off-diagonal neighbour on ANY rank)
//   * direct coarse solver: A x = f to 1e-10 on whichever ranks hold rows, nothing written elsewhere
#include "mpi_common.hpp"
#include <amgcl/mpi/make_solver.hpp>
#include <amgcl/mpi/amg.hpp>
#include <amgcl/mpi/coarsening/aggregation.hpp>
#include <amgcl/mpi/coarsening/smoothed_aggregation.hpp>
#include <amgcl/mpi/relaxation/spai0.hpp>
#include <amgcl/mpi/relaxation/damped_jacobi.hpp>
#include <amgcl/mpi/relaxation/gauss_seidel.hpp>
#include <amgcl/mpi/relaxation/chebyshev.hpp>
#include <amgcl/mpi/relaxation/ilu0.hpp>
#include <amgcl/mpi/direct_solver/skyline_lu.hpp>
#include <amgcl/mpi/partition/merge.hpp>
#include <amgcl/mpi/solver/cg.hpp>
#include <amgcl/mpi/solver/bicgstab.hpp>
#include <amgcl/mpi/solver/gmres.hpp>

typedef std::vector<std::vector<long double>> LD;

// ---------------------------------------------------------------- gather a distributed matrix to a dense one on rank 0
static LD gather_dense(const DM &M, bool &dy) {
    amgcl::mpi::communicator comm = M.comm();
    const DCrs &L = *M.local(), &R = *M.remote();
    std::vector<ptrdiff_t> rdom = comm.exclusive_sum((ptrdiff_t)M.loc_rows());
    ptrdiff_t rb = rdom[comm.rank], cb = M.loc_col_shift();
    std::vector<double> trip;
    for (size_t i = 0; i < L.nrows; ++i) {
        for (auto j = L.ptr[i]; j < L.ptr[i+1]; ++j) { trip.push_back((double)(rb + i)); trip.push_back((double)(cb + L.col[j])); trip.push_back(L.val[j]); }
        for (auto j = R.ptr[i]; j < R.ptr[i+1]; ++j) { trip.push_back((double)(rb + i)); trip.push_back((double)R.col[j]); trip.push_back(R.val[j]); }
    }
    int len = (int)trip.size(); std::vector<int> lens(comm.size), disp(comm.size, 0);
    MPI_Gather(&len, 1, MPI_INT, lens.data(), 1, MPI_INT, 0, comm);
    std::vector<double> all; if (comm.rank == 0) { int tot = 0; for (int r = 0; r < comm.size; ++r) { disp[r] = tot; tot += lens[r]; } all.resize(tot + 1); }
    MPI_Gatherv(trip.data(), len, MPI_DOUBLE, all.data(), lens.data(), disp.data(), MPI_DOUBLE, 0, comm);
    LD D;
    if (comm.rank == 0) {
        D.assign(M.glob_rows(), std::vector<long double>(M.glob_cols(), 0.0L));
        int tot = disp[comm.size - 1] + lens[comm.size - 1];
        for (int k = 0; k + 2 < tot; k += 3) { D[(size_t)all[k]][(size_t)all[k+1]] += all[k+2]; if (!dyadic_ok(all[k+2])) dy = false; }
    }
    return D;
}

// ---------------------------------------------------------------- recording coarsening wrapper
struct LevelRec { LD A, P, R, Ac; bool dyadic; };
static std::vector<LevelRec> g_rec;          // filled on rank 0
template <class Base> struct rec : Base {
    typedef typename Base::params params;
    rec(const params &p = params()) : Base(p) {}
    std::shared_ptr<DM> coarse_operator(const DM &A, const DM &P, const DM &R) const {
        auto Ac = Base::coarse_operator(A, P, R);
        LevelRec l; l.dyadic = true;
        l.A = gather_dense(A, l.dyadic); l.P = gather_dense(P, l.dyadic); l.R = gather_dense(R, l.dyadic); l.Ac = gather_dense(*Ac, l.dyadic);
        if (A.comm().rank == 0) g_rec.push_back(l);
        return Ac;
    }
};
template <class Base> unsigned block_size(const rec<Base> &c) { return c.prm.aggr.block_size; }

typedef amgcl::mpi::coarsening::aggregation<BD> Aggr;
typedef amgcl::mpi::coarsening::smoothed_aggregation<BD> SA;
template <class C, template <class> class Rx> using AMG = amgcl::mpi::amg<BD, rec<C>, Rx<BD>, amgcl::mpi::direct::skyline_lu<double>, amgcl::mpi::partition::merge<BD>>;
typedef amgcl::mpi::make_solver<AMG<Aggr, amgcl::mpi::relaxation::spai0>,         amgcl::mpi::solver::cg<BD>>       S0;
typedef amgcl::mpi::make_solver<AMG<SA,   amgcl::mpi::relaxation::spai0>,         amgcl::mpi::solver::cg<BD>>       S1;
typedef amgcl::mpi::make_solver<AMG<Aggr, amgcl::mpi::relaxation::damped_jacobi>, amgcl::mpi::solver::bicgstab<BD>> S2;
typedef amgcl::mpi::make_solver<AMG<SA,   amgcl::mpi::relaxation::gauss_seidel>,  amgcl::mpi::solver::gmres<BD>>    S3;
typedef amgcl::mpi::make_solver<AMG<SA,   amgcl::mpi::relaxation::chebyshev>,     amgcl::mpi::solver::cg<BD>>       S4;
typedef amgcl::mpi::make_solver<AMG<Aggr, amgcl::mpi::relaxation::ilu0>,          amgcl::mpi::solver::bicgstab<BD>> S5;

static const double TOL = 1e-10; static const int MAXIT = 200;
static const double EPS_STRONG = 0.08;

struct SolveOut { size_t iters; double resid; std::vector<double> x; };

template <class S> static void common_prm(typename S::params &p, bool repart) {
    p.precond.coarse_enough = 3; p.precond.npre = 1; p.precond.npost = 1;
    p.precond.repart.enable = repart; p.precond.repart.min_per_proc = 4; p.precond.repart.shrink_ratio = 2;
    p.precond.coarsening.aggr.eps_strong = EPS_STRONG;
    p.solver.tol = TOL; p.solver.maxiter = MAXIT;
}
template <class S> static void special_prm(typename S::params &, int) {}
template <> void special_prm<S0>(S0::params &p, int) { p.precond.coarsening.over_interp = 1.0f; }
template <> void special_prm<S2>(S2::params &p, int) { p.precond.coarsening.over_interp = 2.0f; }
template <> void special_prm<S4>(S4::params &p, int) { p.precond.coarsening.estimate_spectral_radius = true; p.precond.coarsening.power_iters = 0; }

template <class S> static SolveOut run(const Ctx &x, const Mat &A, const Part &P, const std::vector<double> &F, bool repart, int combo) {
    typename S::params prm; common_prm<S>(prm, repart); special_prm<S>(prm, combo);
    long rb = P.off[x.rank], re = P.off[x.rank + 1];
    std::vector<ptrdiff_t> ptr(1, 0), col; std::vector<double> val;
    for (long i = rb; i < re; ++i) { for (auto j = A.ptr[i]; j < A.ptr[i+1]; ++j) { col.push_back(A.col[j]); val.push_back(exact(A.val[j])); } ptr.push_back((ptrdiff_t)col.size()); }
    S solve(x.comm, std::make_tuple((size_t)(re - rb), ptr, col, val), prm);
    SolveOut o; o.x.assign(re - rb, 0.0);
    std::vector<double> f(F.begin() + rb, F.begin() + re);
    std::tie(o.iters, o.resid) = solve(f, o.x);
    return o;
}

static long double maxabs(const LD &M) { long double m = 0; for (auto &r : M) for (auto v : r) m = std::max(m, std::fabs(v)); return m; }
static LD mul(const LD &A, const LD &B) {
    size_t n = A.size(), k = B.size(), m = k ? B[0].size() : 0; LD C(n, std::vector<long double>(m, 0.0L));
    for (size_t i = 0; i < n; ++i) for (size_t l = 0; l < k && l < A[i].size(); ++l) if (A[i][l] != 0) for (size_t j = 0; j < m; ++j) C[i][j] += A[i][l] * B[l][j];
    return C;
}

// oracles on the recorded hierarchy (rank 0)
static void check_levels(Result &r, int combo) {
    const bool aggr = (combo == 0 || combo == 2 || combo == 5);
    // scaled_galerkin(A, P, R, 1 / over_interp): the factor is computed in float
    const float over_interp = combo == 0 ? 1.0f : combo == 2 ? 2.0f : 1.5f;
    const long double s = aggr ? (long double)(1.0f / over_interp) : 1.0L;
    for (size_t k = 0; k < g_rec.size(); ++k) {
        const LevelRec &l = g_rec[k];
        size_t n = l.A.size(), nc = l.P.size() ? l.P[0].size() : 0;
        // R == P^T exactly
        bool rt = l.R.size() == nc; for (size_t i = 0; rt && i < nc; ++i) { if (l.R[i].size() != n) { rt = false; break; } for (size_t j = 0; j < n; ++j) if (l.R[i][j] != l.P[j][i]) rt = false; }
        if (!rt) r.fail("level " + std::to_string(k) + ": R != P^T");
        // A_c == s R A P
        LD G = mul(l.R, mul(l.A, l.P)); bool ok = l.Ac.size() == nc; long double scale = std::max<long double>(1.0L, maxabs(G) * std::fabs(s));
        const bool exactv = l.dyadic && (combo == 0 || combo == 2);
        for (size_t i = 0; ok && i < nc; ++i) for (size_t j = 0; j < nc; ++j) { long double d = l.Ac[i][j] - s * G[i][j]; if (exactv ? d != 0 : std::fabs(d) > 1e-12L * scale) ok = false; }
        if (!ok) r.fail("level " + std::to_string(k) + ": distributed coarse operator != s*R*A*P" + (exactv ? " (exact)" : ""));
        r.tag(exactv ? "galerkin_exact" : "galerkin_tol");
        if (aggr) {
            // P_tent is a global partition
            std::vector<int> colcnt(nc, 0); bool part = true, iso = true;
            for (size_t i = 0; i < n; ++i) {
                int cnt = 0; for (size_t j = 0; j < nc; ++j) if (l.P[i][j] != 0) { ++cnt; ++colcnt[j]; if (l.P[i][j] != 1) part = false; }
                if (cnt > 1) part = false;
                if (cnt == 0) { for (size_t j = 0; j < n; ++j) if (j != i && l.A[i][j] != 0 && (double)(EPS_STRONG * EPS_STRONG) * (double)l.A[i][i] * (double)l.A[j][j] < (double)l.A[i][j] * (double)l.A[i][j]) iso = false; }
            }
            for (size_t j = 0; j < nc; ++j) if (!colcnt[j]) part = false;
            if (!part) r.fail("level " + std::to_string(k) + ": aggregates are not a partition (row with != 1 unit entry or empty aggregate)");
            if (!iso) r.fail("level " + std::to_string(k) + ": an unknown with a strong neighbour is in no aggregate");
        }
    }
}

static Result execute(const Toks &t) {
    Cur c(t); const std::string &op = t[0]; Result r;
    if (op == "msolve") {
        long combo = c.nat(), rep = c.nat(); need(combo >= 0 && combo <= 5 && (rep == 0 || rep == 1));
        Part P = part(c); Mat A = checked(c); auto fq = c.vec(); c.expect_end(); need_mat(A, P, P); need((long)fq.size() == A.n);
        auto F = dvec(fq);
        Ctx x = ctx_for(P.np()); if (!x.active) return r;
        g_rec.clear();
        SolveOut o;
        switch (combo) {
            case 0: o = run<S0>(x, A, P, F, rep, 0); break; case 1: o = run<S1>(x, A, P, F, rep, 1); break;
            case 2: o = run<S2>(x, A, P, F, rep, 2); break; case 3: o = run<S3>(x, A, P, F, rep, 3); break;
            case 4: o = run<S4>(x, A, P, F, rep, 4); break; default: o = run<S5>(x, A, P, F, rep, 5); break;
        }
        std::vector<double> its, res; bool same_it = same_on_all(x, (double)o.iters, its), same_res = same_on_all(x, o.resid, res);
        auto X = gather_vec(x, o.x, P);
        if (x.rank) return r;
        if (!same_it || !same_res) { std::string s = "(iters, resid) differ between ranks:"; for (int q = 0; q < x.np; ++q) s += " (" + std::to_string((long)its[q]) + "," + qd(res[q]).str() + ")"; r.fail(s); }
        // true residual in long double
        long double rr = 0, ff = 0;
        for (long i = 0; i < A.n; ++i) { long double s = F[i]; for (auto j = A.ptr[i]; j < A.ptr[i+1]; ++j) s -= (long double)A.val[j].v.get_d() * (long double)X[A.col[j]]; rr += s * s; ff += (long double)F[i] * F[i]; }
        long double rel = ff > 0 ? std::sqrt(rr / ff) : std::sqrt(rr);
        if (!(std::fabs(rel - (long double)o.resid) <= 1e-8L)) r.fail("test: reported residual " + std::to_string(o.resid) + " is not the true residual " + std::to_string((double)rel) + " of the gathered solution");
        if (!(o.resid <= TOL) || o.iters >= (size_t)MAXIT) r.fail("test: not converged on an SPD M-matrix: iters=" + std::to_string(o.iters) + " resid=" + std::to_string(o.resid));
        check_levels(r, (int)combo);
        r.out = (Line() << "converged" << (long)g_rec.size()).get();
        r.nontrivial = o.iters >= 1 && g_rec.size() >= 1 && x.np > 1; r.tag("msolve" + std::to_string(combo)); r.tag("np" + std::to_string(x.np)); if (rep) r.tag("repart");
        r.tag("levels" + std::to_string(g_rec.size() + 1)); bool e = false; for (long s : P.p) if (!s) e = true; if (e) r.tag("emptyrank");
    } else if (op == "mdirect") {
        Part P = part(c); Mat A = checked(c); auto fq = c.vec(); c.expect_end(); need_mat(A, P, P); need((long)fq.size() == A.n && A.n > 0);
        auto F = dvec(fq);
        Ctx x = ctx_for(P.np()); if (!x.active) return r;
        auto D = make_dm(x, A, P, P);
        amgcl::mpi::direct::skyline_lu<double> S(x.comm, *D);
        std::vector<double> f(F.begin() + P.off[x.rank], F.begin() + P.off[x.rank + 1]), xl(P.p[x.rank], 777.0);
        S(f, xl);
        auto X = gather_vec(x, xl, P);
        if (x.rank) return r;
        bool ok = true; long double fm = 0; for (double v : F) fm = std::max<long double>(fm, std::fabs(v));
        for (long i = 0; i < A.n; ++i) { long double s = F[i]; for (auto j = A.ptr[i]; j < A.ptr[i+1]; ++j) s -= (long double)A.val[j].v.get_d() * (long double)X[A.col[j]]; if (std::fabs(s) > 1e-10L * std::max<long double>(1.0L, fm)) ok = false; }
        if (!ok) r.fail("distributed direct solver: A x != f on the gathered system");
        r.out = "solved"; r.nontrivial = x.np > 1; r.tag("mdirect"); r.tag("np" + std::to_string(x.np)); bool e = false; for (long s : P.p) if (!s) e = true; if (e) r.tag("emptyrank");
    } else if (op == "mnonsquare") {
        Part rp = part(c), cp = part(c); c.expect_end(); need(rp.np() == cp.np() && rp.sum != cp.sum);
        Ctx x = ctx_for(rp.np()); if (!x.active) return r;
        Mat A; A.n = rp.sum; A.m = cp.sum; A.ptr.assign(A.n + 1, 0);
        for (long i = 0; i < A.n; ++i) { if (A.m) { A.col.push_back(i % A.m); A.val.push_back(Q(1)); } A.ptr[i + 1] = (ptrdiff_t)A.col.size(); }
        auto D = make_dm(x, A, rp, cp);
        bool threw = false;
        try { AMG<Aggr, amgcl::mpi::relaxation::spai0> amg(x.comm, D); } catch (const std::runtime_error &) { threw = true; }
        bool all = all_true(x, threw);
        if (x.rank) return r;
        if (!all) r.fail("mpi::amg accepted a non-square matrix on some rank");
        r.out = threw ? "precondition" : "accepted"; r.nontrivial = x.np > 1; r.tag("nonsquare"); r.tag("np" + std::to_string(x.np));
    } else r.out = "bad-op";
    return r;
}

static void generate(Rng &rng, const Opts &o, std::vector<std::string> &lines) {
    const int W = std::min(g_wsize, MAXNP);
    long N = o.cases > 0 ? o.cases : (o.thorough() ? 800 : 160);
    for (long k = 0; k < N; ++k) {
        int np = (k < 8 * 6) ? (int)(k % 8) + 1 : (int)rng.range(1, W); if (np > W) np = W;
        int combo = (int)((k / 8) % 6);
        long n = rng.range(6, o.thorough() ? 60 : 30);
        Mat A = gen_spd(rng, n, (int)rng.range(0, 3), 4);          // dyadic weights: exact in binary64
        auto p = rand_part(rng, A.n, np);
        Line l; l << "msolve" << combo << rng.coin(); lp(l, p); l << A << gen_vec(rng, A.n, true);
        lines.push_back(l.get());
    }
    for (long k = 0; k < (o.thorough() ? 300 : 50); ++k) {
        int np = (int)rng.range(1, W); long n = rng.range(1, 25);
        Mat A = gen_spd(rng, std::max<long>(n, 2), (int)rng.range(0, 2), 4);
        Line l; l << "mdirect"; lp(l, rand_part(rng, A.n, np)); l << A << gen_vec(rng, A.n, true);
        lines.push_back(l.get());
    }
    for (int np = 1; np <= W; ++np) { long n = rng.range(2, 9); Line l; l << "mnonsquare"; lp(l, rand_part(rng, n, np)); lp(l, rand_part(rng, n + 1 + rng.range(0, 2), np)); lines.push_back(l.get()); }
}

VH_MPI_MAIN(generate, execute)
