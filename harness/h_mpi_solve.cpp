// C12 harness (implementation-only, "no_model"): the distributed coupled solver under real MPI, in double.
//
//   msolve combo repart <part> A f     amgcl::mpi::make_solver<mpi::amg<builtin<double>, rec<C>, R, mpi::direct::skyline_lu,
//                                      mpi::partition::merge>, S> on an SPD M-matrix, rows distributed by <part>
//        combo 0: aggregation (over_interp = 1) + spai0         + cg
//              1: smoothed_aggregation          + spai0         + cg
//              2: aggregation                   + damped_jacobi + bicgstab
//              3: smoothed_aggregation          + gauss_seidel  + gmres
//              4: smoothed_aggregation (estimate_spectral_radius) + chebyshev + cg
//              5: aggregation                   + ilu0          + bicgstab
//        repart 0/1: mpi::partition::merge enabled (shrink_ratio 2: ranks become EMPTY on the coarse levels)
//   mdirect <part> A f                 amgcl::mpi::direct::skyline_lu on the distributed matrix (master/slave consolidation)
//   mnonsquare <rp> <cp>               mpi::amg on a matrix with glob_rows != glob_cols: communicator::check must make
//                                      every rank throw (regression test for /repo 853da24 under ASan)
//   mtransfer esr epsidx relax <part> A   amgcl::mpi::coarsening::smoothed_aggregation::transfer_operators alone on the distributed matrix
//                                      (estimate_spectral_radius esr, eps_strong = EPS_TAB[epsidx], relax dyadic); the oracles are the
//                                      smoothed-aggregation oracles below on the gathered P
// Oracles (the result line only summarises; the verdicts are the oracles):
//   * (iters, resid) bitwise identical on all ranks                                                   [property]
//   * true residual of the gathered solution, recomputed on rank 0 in long double, within 1e-8 of the reported one   [test]
//   * converged within maxiter to tol (SPD M-matrices)                                                [test]
//   * recording coarsening wrapper: every distributed coarse operator == s * R*A*P on the gathered matrices
//     (exactly when all entries involved are small dyadic numbers, else to 1e-12 relative), R == P^T exactly
//   * aggregation: P_tent is a global partition (every row has at most one entry, equal to 1; no empty aggregate;
//     a row without entry has no strong off-diagonal neighbour on ANY rank)
//   * smoothed aggregation (every level of msolve combos 1/3/4, and mtransfer), on the gathered A, P and the P_tent of an
//     independent PMIS run at the same threshold:
//       - near-null space: a row of A with zero row sum whose strong neighbours are all aggregated has row sum 1 in P
//         (the constant vector is interpolated exactly, wherever the rank boundaries fall: weak connections, local OR
//         remote, are lumped into the filtered diagonal)                                              [property]
//       - rows sums of P == row sums of the SERIAL amgcl::coarsening::smoothed_aggregation P on the assembled matrix
//         (P*1 = (I - w Df^-1 Af) t does not depend on the aggregates, only on which unknowns are aggregated at all)
//       - P == (I - w Df^-1 Af) P_tent entry by entry, recomputed densely in long double from the documented formula
//   * direct coarse solver: A x = f to 1e-10 on whichever ranks hold rows, nothing written elsewhere
#include "mpi_common.hpp"
#include <amgcl/mpi/make_solver.hpp>
#include <amgcl/mpi/amg.hpp>
#include <amgcl/mpi/coarsening/aggregation.hpp>
#include <amgcl/mpi/coarsening/smoothed_aggregation.hpp>
#include <amgcl/mpi/coarsening/pmis.hpp>
#include <amgcl/coarsening/smoothed_aggregation.hpp>
#include <amgcl/mpi/relaxation/spai0.hpp>
#include <amgcl/mpi/relaxation/damped_jacobi.hpp>
#include <amgcl/mpi/relaxation/gauss_seidel.hpp>
#include <amgcl/mpi/relaxation/chebyshev.hpp>
#include <amgcl/mpi/relaxation/ilu0.hpp>
#include <amgcl/mpi/direct_solver/skyline_lu.hpp>
#include <amgcl/mpi/partition/merge.hpp>
#include <amgcl/mpi/solver/cg.hpp>
#include <amgcl/mpi/solver/bicgstab.hpp>
#include <amgcl/mpi/solver/gmres.hpp>

typedef std::vector<std::vector<long double>> LD;

// ---------------------------------------------------------------- gather a distributed matrix to a dense one on rank 0
static LD gather_dense(const DM &M, bool &dy) {
    amgcl::mpi::communicator comm = M.comm();
    const DCrs &L = *M.local(), &R = *M.remote();
    std::vector<ptrdiff_t> rdom = comm.exclusive_sum((ptrdiff_t)M.loc_rows());
    ptrdiff_t rb = rdom[comm.rank], cb = M.loc_col_shift();
    std::vector<double> trip;
    for (size_t i = 0; i < L.nrows; ++i) {
        for (auto j = L.ptr[i]; j < L.ptr[i+1]; ++j) { trip.push_back((double)(rb + i)); trip.push_back((double)(cb + L.col[j])); trip.push_back(L.val[j]); }
        for (auto j = R.ptr[i]; j < R.ptr[i+1]; ++j) { trip.push_back((double)(rb + i)); trip.push_back((double)R.col[j]); trip.push_back(R.val[j]); }
    }
    int len = (int)trip.size(); std::vector<int> lens(comm.size), disp(comm.size, 0);
    MPI_Gather(&len, 1, MPI_INT, lens.data(), 1, MPI_INT, 0, comm);
    std::vector<double> all; if (comm.rank == 0) { int tot = 0; for (int r = 0; r < comm.size; ++r) { disp[r] = tot; tot += lens[r]; } all.resize(tot + 1); }
    MPI_Gatherv(trip.data(), len, MPI_DOUBLE, all.data(), lens.data(), disp.data(), MPI_DOUBLE, 0, comm);
    LD D;
    if (comm.rank == 0) {
        D.assign(M.glob_rows(), std::vector<long double>(M.glob_cols(), 0.0L));
        int tot = disp[comm.size - 1] + lens[comm.size - 1];
        for (int k = 0; k + 2 < tot; k += 3) { D[(size_t)all[k]][(size_t)all[k+1]] += all[k+2]; if (!dyadic_ok(all[k+2])) dy = false; }
    }
    return D;
}

// ---------------------------------------------------------------- recording coarsening wrapper
struct LevelRec { LD A, P, R, Ac, T; bool dyadic; double eps; std::vector<ptrdiff_t> rdom; };
static std::vector<LevelRec> g_rec;          // filled on rank 0
// what transfer_operators of the current level saw: the strength threshold BEFORE the call (smoothed_aggregation
// halves prm.aggr.eps_strong after every level) and the tentative prolongation of an independent PMIS run on the
// same matrix at that threshold (PMIS draws no random numbers: the run inside Base::transfer_operators is the same)
static struct { bool have; double eps; LD T; } g_pend = { false, 0.0, LD() };
template <class Base> struct rec : Base {
    typedef typename Base::params params;
    rec(const params &p = params()) : Base(p) {}
    std::tuple<std::shared_ptr<DM>, std::shared_ptr<DM>> transfer_operators(const DM &A) {
        g_pend.have = true; g_pend.eps = this->prm.aggr.eps_strong;
        { auto ap = this->prm.aggr; amgcl::mpi::coarsening::pmis<BD> ag(A, ap); bool dy = true; g_pend.T = gather_dense(*ag.p_tent, dy); }
        return Base::transfer_operators(A);
    }
    std::shared_ptr<DM> coarse_operator(const DM &A, const DM &P, const DM &R) const {
        auto Ac = Base::coarse_operator(A, P, R);
        LevelRec l; l.dyadic = true;
        l.A = gather_dense(A, l.dyadic); l.P = gather_dense(P, l.dyadic); l.R = gather_dense(R, l.dyadic); l.Ac = gather_dense(*Ac, l.dyadic);
        l.rdom = A.comm().exclusive_sum((ptrdiff_t)A.loc_rows());
        l.eps = g_pend.have ? g_pend.eps : -1.0; l.T.swap(g_pend.T); g_pend.have = false;
        if (A.comm().rank == 0) g_rec.push_back(l);
        return Ac;
    }
};
template <class Base> unsigned block_size(const rec<Base> &c) { return c.prm.aggr.block_size; }

typedef amgcl::mpi::coarsening::aggregation<BD> Aggr;
typedef amgcl::mpi::coarsening::smoothed_aggregation<BD> SA;
template <class C, template <class> class Rx> using AMG = amgcl::mpi::amg<BD, rec<C>, Rx<BD>, amgcl::mpi::direct::skyline_lu<double>, amgcl::mpi::partition::merge<BD>>;
typedef amgcl::mpi::make_solver<AMG<Aggr, amgcl::mpi::relaxation::spai0>,         amgcl::mpi::solver::cg<BD>>       S0;
typedef amgcl::mpi::make_solver<AMG<SA,   amgcl::mpi::relaxation::spai0>,         amgcl::mpi::solver::cg<BD>>       S1;
typedef amgcl::mpi::make_solver<AMG<Aggr, amgcl::mpi::relaxation::damped_jacobi>, amgcl::mpi::solver::bicgstab<BD>> S2;
typedef amgcl::mpi::make_solver<AMG<SA,   amgcl::mpi::relaxation::gauss_seidel>,  amgcl::mpi::solver::gmres<BD>>    S3;
typedef amgcl::mpi::make_solver<AMG<SA,   amgcl::mpi::relaxation::chebyshev>,     amgcl::mpi::solver::cg<BD>>       S4;
typedef amgcl::mpi::make_solver<AMG<Aggr, amgcl::mpi::relaxation::ilu0>,          amgcl::mpi::solver::bicgstab<BD>> S5;

static const double TOL = 1e-10; static const int MAXIT = 200;
static const double EPS_STRONG = 0.08;

struct SolveOut { size_t iters; double resid; std::vector<double> x; };

template <class S> static void common_prm(typename S::params &p, bool repart) {
    p.precond.coarse_enough = 3; p.precond.npre = 1; p.precond.npost = 1;
    p.precond.repart.enable = repart; p.precond.repart.min_per_proc = 4; p.precond.repart.shrink_ratio = 2;
    p.precond.coarsening.aggr.eps_strong = EPS_STRONG;
    p.solver.tol = TOL; p.solver.maxiter = MAXIT;
}
template <class S> static void special_prm(typename S::params &, int) {}
template <> void special_prm<S0>(S0::params &p, int) { p.precond.coarsening.over_interp = 1.0f; }
template <> void special_prm<S2>(S2::params &p, int) { p.precond.coarsening.over_interp = 2.0f; }
template <> void special_prm<S4>(S4::params &p, int) { p.precond.coarsening.estimate_spectral_radius = true; p.precond.coarsening.power_iters = 0; }

template <class S> static SolveOut run(const Ctx &x, const Mat &A, const Part &P, const std::vector<double> &F, bool repart, int combo) {
    typename S::params prm; common_prm<S>(prm, repart); special_prm<S>(prm, combo);
    long rb = P.off[x.rank], re = P.off[x.rank + 1];
    std::vector<ptrdiff_t> ptr(1, 0), col; std::vector<double> val;
    for (long i = rb; i < re; ++i) { for (auto j = A.ptr[i]; j < A.ptr[i+1]; ++j) { col.push_back(A.col[j]); val.push_back(exact(A.val[j])); } ptr.push_back((ptrdiff_t)col.size()); }
    S solve(x.comm, std::make_tuple((size_t)(re - rb), ptr, col, val), prm);
    SolveOut o; o.x.assign(re - rb, 0.0);
    std::vector<double> f(F.begin() + rb, F.begin() + re);
    std::tie(o.iters, o.resid) = solve(f, o.x);
    return o;
}

static long double maxabs(const LD &M) { long double m = 0; for (auto &r : M) for (auto v : r) m = std::max(m, std::fabs(v)); return m; }
static LD mul(const LD &A, const LD &B) {
    size_t n = A.size(), k = B.size(), m = k ? B[0].size() : 0; LD C(n, std::vector<long double>(m, 0.0L));
    for (size_t i = 0; i < n; ++i) for (size_t l = 0; l < k && l < A[i].size(); ++l) if (A[i][l] != 0) for (size_t j = 0; j < m; ++j) C[i][j] += A[i][l] * B[l][j];
    return C;
}

// ---------------------------------------------------------------- smoothed-aggregation oracles (rank 0, gathered data)
// A: assembled level matrix, P: gathered distributed prolongation, T: gathered tentative prolongation of an independent
// PMIS run, rdom: row distribution of A (for the diagnostics only).  The documented operator (amgcl/coarsening/
// smoothed_aggregation.hpp) is P = (I - w Df^-1 Af) P_tent with Af the FILTERED matrix: strong off-diagonal entries
// (eps^2 a_ii a_jj < a_ij^2) kept, every weak off-diagonal entry lumped into the diagonal Df.
struct SACfg { double eps, relax; bool esr; };
static const double EPS_TAB[] = { 0.08, 0.04, 0.16, 0.25 };
static std::string fmt(long double v) { char b[64]; snprintf(b, sizeof b, "%.17Lg", v); return b; }
static int owner_of(const std::vector<ptrdiff_t> &rdom, size_t i) { int q = 0; while (q + 2 < (int)rdom.size() && (ptrdiff_t)i >= rdom[q + 1]) ++q; return q; }
static void check_sa(Result &r, const std::string &where, const LD &A, const LD &P, const LD &T, const std::vector<ptrdiff_t> &rdom, const SACfg &cfg) {
    const size_t n = A.size(), nc = n && P.size() == n ? P[0].size() : 0;
    if (P.size() != n) { r.fail(where + "P has " + std::to_string(P.size()) + " rows, A has " + std::to_string(n)); return; }
    if (!n || !nc) { r.tag("sa_no_aggregates"); return; }
    for (size_t i = 0; i < n; ++i) if (A[i].size() != n) { r.fail(where + "level matrix is not square"); return; }
    // strength of connection, evaluated in double exactly as documented: eps^2 * a_ii * a_jj < a_ij^2
    auto strong_at = [&](size_t i, size_t j, double e2) { double v = (double)A[i][j]; return i != j && v != 0 && (e2 * (double)A[i][i]) * (double)A[j][j] < v * v; };
    const double e2 = cfg.eps * cfg.eps; const float ef = (float)cfg.eps; const double e2f = ef * ef;     // the serial code squares a float
    auto strong = [&](size_t i, size_t j) { return strong_at(i, j, e2); };
    long double omega = cfg.relax;
    if (cfg.esr) { long double rho = 0; for (size_t i = 0; i < n; ++i) { long double sum = 0; for (size_t j = 0; j < n; ++j) sum += std::fabs(A[i][j]); rho = std::max(rho, sum * std::fabs(1.0L / A[i][i])); } omega *= (4.0L / 3) / rho; }
    else omega *= (long double)(2.0 / 3);
    std::vector<long double> dia(n), t(n, 0.0L), rsA(n, 0.0L), rsP(n, 0.0L), absA(n, 0.0L); std::vector<int> nstrong(n, 0), weak_rem(n, -1);
    bool haveT = T.size() == n && T[0].size() == nc, Tpart = haveT, bad_dia = false, weak_remote = false; long zrs = 0;
    for (size_t i = 0; haveT && i < n; ++i) { int cnt = 0; for (size_t c = 0; c < nc; ++c) if (T[i][c] != 0) { ++cnt; t[i] += T[i][c]; if (T[i][c] != 1) Tpart = false; } if (cnt > 1) Tpart = false; }
    for (size_t i = 0; i < n; ++i) {
        dia[i] = A[i][i];
        for (size_t j = 0; j < n; ++j) {
            rsA[i] += A[i][j]; absA[i] += std::fabs(A[i][j]);
            if (j == i || A[i][j] == 0) continue;
            if (strong(i, j)) ++nstrong[i]; else { dia[i] += A[i][j]; if (owner_of(rdom, i) != owner_of(rdom, j)) { weak_remote = true; if (weak_rem[i] < 0) weak_rem[i] = (int)j; } }
        }
        for (size_t c = 0; c < nc; ++c) rsP[i] += P[i][c];
        if (nstrong[i] && dia[i] == 0) bad_dia = true;
    }
    if (weak_remote) r.tag("sa_weak_remote");
    if (bad_dia) { r.tag("sa_zero_filtered_diagonal"); return; }           // outside the SPD M-matrix domain: 1/0 in the distributed code
    if (!haveT || !Tpart) { r.tag("sa_pmis_rerun_unusable"); }
    // (1) near-null space: zero row sum in A, aggregated, all strong neighbours aggregated => row sum 1 in P
    if (haveT && Tpart) for (size_t i = 0; i < n; ++i) {
        if (!nstrong[i] || t[i] != 1 || std::fabs(rsA[i]) > 1e-14L * absA[i]) continue;
        bool all = true; for (size_t j = 0; j < n; ++j) if (j != i && A[i][j] != 0 && strong(i, j) && t[j] != 1) all = false;
        if (!all) continue;
        ++zrs;
        if (std::fabs(rsP[i] - 1.0L) > 1e-11L) {
            std::string m = where + "near-null space not reproduced: row " + std::to_string(i) + " of A (owned by rank " + std::to_string(owner_of(rdom, i)) + ") has zero row sum and " + std::to_string(nstrong[i]) + " strong neighbour(s), but row " + std::to_string(i) + " of the distributed prolongation sums to " + fmt(rsP[i]) + " instead of 1";
            if (weak_rem[i] >= 0) m += "; the row has a WEAK connection a(" + std::to_string(i) + "," + std::to_string(weak_rem[i]) + ") = " + fmt(A[i][weak_rem[i]]) + " to an unknown owned by rank " + std::to_string(owner_of(rdom, weak_rem[i])) + " that must be lumped into the filtered diagonal";
            r.fail(m); return;
        }
    }
    if (zrs) r.tag("sa_nullspace_rows");
    // (2) the serial coarsening on the assembled matrix: P*1 is independent of the aggregates
    {
        bool same_class = true; for (size_t i = 0; i < n; ++i) for (size_t j = 0; j < n; ++j) if (strong_at(i, j, e2) != strong_at(i, j, e2f)) same_class = false;
        if (!same_class) r.tag("sa_serial_borderline");
        else {
            std::vector<ptrdiff_t> ptr(1, 0), col; std::vector<double> val;
            for (size_t i = 0; i < n; ++i) { for (size_t j = 0; j < n; ++j) if (A[i][j] != 0 || j == i) { col.push_back((ptrdiff_t)j); val.push_back((double)A[i][j]); } ptr.push_back((ptrdiff_t)col.size()); }
            DCrs As(std::make_tuple(n, ptr, col, val));
            typedef amgcl::coarsening::smoothed_aggregation<BD> SerialSA;
            SerialSA::params sp; sp.aggr.eps_strong = ef; sp.relax = (float)cfg.relax; sp.estimate_spectral_radius = cfg.esr; sp.power_iters = 0;
            std::shared_ptr<DCrs> Ps, Rs; bool empty = false;
            try { SerialSA C(sp); std::tie(Ps, Rs) = C.transfer_operators(As); } catch (const amgcl::error::empty_level &) { empty = true; }
            if (empty) r.fail(where + "serial smoothed_aggregation finds no aggregate on the assembled matrix, the distributed one finds " + std::to_string(nc));
            else {
                r.tag("sa_serial");
                for (size_t i = 0; i < n; ++i) {
                    // same set of aggregated unknowns on both sides (an unknown is left out iff it has no strong neighbour)
                    if (haveT && Tpart && (t[i] != 0) != (nstrong[i] != 0)) { r.fail(where + "unknown " + std::to_string(i) + " has " + std::to_string(nstrong[i]) + " strong neighbour(s) but is " + (t[i] != 0 ? "" : "not ") + "aggregated by PMIS"); return; }
                    long double rs = 0; for (auto j = Ps->ptr[i]; j < Ps->ptr[i+1]; ++j) rs += Ps->val[j];
                    if (std::fabs(rs - rsP[i]) > 1e-11L * std::max(1.0L, std::fabs(rs))) {
                        std::string m = where + "row " + std::to_string(i) + " (rank " + std::to_string(owner_of(rdom, i)) + ") of the distributed prolongation sums to " + fmt(rsP[i]) + ", the same row of the serial smoothed_aggregation prolongation of the assembled matrix sums to " + fmt(rs);
                        if (weak_rem[i] >= 0) m += "; the row has a weak connection to unknown " + std::to_string(weak_rem[i]) + " on rank " + std::to_string(owner_of(rdom, weak_rem[i]));
                        r.fail(m); return;
                    }
                }
            }
        }
    }
    // (3) entry by entry: P == (I - w Df^-1 Af) T
    if (haveT && Tpart) {
        long double worst = 0, scale = 1; size_t wi = 0, wc = 0; long double wexp = 0;
        for (size_t i = 0; i < n; ++i) for (size_t c = 0; c < nc; ++c) {
            long double e = (1 - omega) * T[i][c];
            if (nstrong[i]) for (size_t j = 0; j < n; ++j) if (j != i && A[i][j] != 0 && T[j][c] != 0 && strong(i, j)) e += (-omega / dia[i]) * A[i][j] * T[j][c];
            scale = std::max(scale, std::fabs(e)); long double d = std::fabs(P[i][c] - e); if (d > worst) { worst = d; wi = i; wc = c; wexp = e; }
        }
        if (worst > 1e-11L * scale) r.fail(where + "P(" + std::to_string(wi) + "," + std::to_string(wc) + ") = " + fmt(P[wi][wc]) + " but ((I - w Df^-1 Af) P_tent)(" + std::to_string(wi) + "," + std::to_string(wc) + ") = " + fmt(wexp) + " (row owned by rank " + std::to_string(owner_of(rdom, wi)) + ")");
        r.tag("sa_entrywise");
    }
}

// oracles on the recorded hierarchy (rank 0)
static void check_levels(Result &r, int combo) {
    const bool aggr = (combo == 0 || combo == 2 || combo == 5);
    // scaled_galerkin(A, P, R, 1 / over_interp): the factor is computed in float
    const float over_interp = combo == 0 ? 1.0f : combo == 2 ? 2.0f : 1.5f;
    const long double s = aggr ? (long double)(1.0f / over_interp) : 1.0L;
    for (size_t k = 0; k < g_rec.size(); ++k) {
        const LevelRec &l = g_rec[k];
        size_t n = l.A.size(), nc = l.P.size() ? l.P[0].size() : 0;
        // R == P^T exactly
        bool rt = l.R.size() == nc; for (size_t i = 0; rt && i < nc; ++i) { if (l.R[i].size() != n) { rt = false; break; } for (size_t j = 0; j < n; ++j) if (l.R[i][j] != l.P[j][i]) rt = false; }
        if (!rt) r.fail("level " + std::to_string(k) + ": R != P^T");
        // A_c == s R A P
        LD G = mul(l.R, mul(l.A, l.P)); bool ok = l.Ac.size() == nc; long double scale = std::max<long double>(1.0L, maxabs(G) * std::fabs(s));
        const bool exactv = l.dyadic && (combo == 0 || combo == 2);
        for (size_t i = 0; ok && i < nc; ++i) for (size_t j = 0; j < nc; ++j) { long double d = l.Ac[i][j] - s * G[i][j]; if (exactv ? d != 0 : std::fabs(d) > 1e-12L * scale) ok = false; }
        if (!ok) r.fail("level " + std::to_string(k) + ": distributed coarse operator != s*R*A*P" + (exactv ? " (exact)" : ""));
        r.tag(exactv ? "galerkin_exact" : "galerkin_tol");
        if (!aggr) { SACfg cfg = { l.eps, 1.0, combo == 4 }; check_sa(r, "level " + std::to_string(k) + ": ", l.A, l.P, l.T, l.rdom, cfg); }
        if (aggr) {
            // P_tent is a global partition
            std::vector<int> colcnt(nc, 0); bool part = true, iso = true;
            for (size_t i = 0; i < n; ++i) {
                int cnt = 0; for (size_t j = 0; j < nc; ++j) if (l.P[i][j] != 0) { ++cnt; ++colcnt[j]; if (l.P[i][j] != 1) part = false; }
                if (cnt > 1) part = false;
                if (cnt == 0) { for (size_t j = 0; j < n; ++j) if (j != i && l.A[i][j] != 0 && (double)(EPS_STRONG * EPS_STRONG) * (double)l.A[i][i] * (double)l.A[j][j] < (double)l.A[i][j] * (double)l.A[i][j]) iso = false; }
            }
            for (size_t j = 0; j < nc; ++j) if (!colcnt[j]) part = false;
            if (!part) r.fail("level " + std::to_string(k) + ": aggregates are not a partition (row with != 1 unit entry or empty aggregate)");
            if (!iso) r.fail("level " + std::to_string(k) + ": an unknown with a strong neighbour is in no aggregate");
        }
    }
}

static Result execute(const Toks &t) {
    Cur c(t); const std::string &op = t[0]; Result r;
    if (op == "msolve") {
        long combo = c.nat(), rep = c.nat(); need(combo >= 0 && combo <= 5 && (rep == 0 || rep == 1));
        Part P = part(c); Mat A = checked(c); auto fq = c.vec(); c.expect_end(); need_mat(A, P, P); need((long)fq.size() == A.n);
        auto F = dvec(fq);
        Ctx x = ctx_for(P.np()); if (!x.active) return r;
        g_rec.clear();
        SolveOut o;
        switch (combo) {
            case 0: o = run<S0>(x, A, P, F, rep, 0); break; case 1: o = run<S1>(x, A, P, F, rep, 1); break;
            case 2: o = run<S2>(x, A, P, F, rep, 2); break; case 3: o = run<S3>(x, A, P, F, rep, 3); break;
            case 4: o = run<S4>(x, A, P, F, rep, 4); break; default: o = run<S5>(x, A, P, F, rep, 5); break;
        }
        std::vector<double> its, res; bool same_it = same_on_all(x, (double)o.iters, its), same_res = same_on_all(x, o.resid, res);
        auto X = gather_vec(x, o.x, P);
        if (x.rank) return r;
        if (!same_it || !same_res) { std::string s = "(iters, resid) differ between ranks:"; for (int q = 0; q < x.np; ++q) s += " (" + std::to_string((long)its[q]) + "," + qd(res[q]).str() + ")"; r.fail(s); }
        // true residual in long double
        long double rr = 0, ff = 0;
        for (long i = 0; i < A.n; ++i) { long double s = F[i]; for (auto j = A.ptr[i]; j < A.ptr[i+1]; ++j) s -= (long double)A.val[j].v.get_d() * (long double)X[A.col[j]]; rr += s * s; ff += (long double)F[i] * F[i]; }
        long double rel = ff > 0 ? std::sqrt(rr / ff) : std::sqrt(rr);
        if (!(std::fabs(rel - (long double)o.resid) <= 1e-8L)) r.fail("test: reported residual " + std::to_string(o.resid) + " is not the true residual " + std::to_string((double)rel) + " of the gathered solution");
        if (!(o.resid <= TOL) || o.iters >= (size_t)MAXIT) r.fail("test: not converged on an SPD M-matrix: iters=" + std::to_string(o.iters) + " resid=" + std::to_string(o.resid));
        check_levels(r, (int)combo);
        r.out = (Line() << "converged" << (long)g_rec.size()).get();
        r.nontrivial = o.iters >= 1 && g_rec.size() >= 1 && x.np > 1; r.tag("msolve" + std::to_string(combo)); r.tag("np" + std::to_string(x.np)); if (rep) r.tag("repart");
        r.tag("levels" + std::to_string(g_rec.size() + 1)); bool e = false; for (long s : P.p) if (!s) e = true; if (e) r.tag("emptyrank");
    } else if (op == "mdirect") {
        Part P = part(c); Mat A = checked(c); auto fq = c.vec(); c.expect_end(); need_mat(A, P, P); need((long)fq.size() == A.n && A.n > 0);
        auto F = dvec(fq);
        Ctx x = ctx_for(P.np()); if (!x.active) return r;
        auto D = make_dm(x, A, P, P);
        amgcl::mpi::direct::skyline_lu<double> S(x.comm, *D);
        std::vector<double> f(F.begin() + P.off[x.rank], F.begin() + P.off[x.rank + 1]), xl(P.p[x.rank], 777.0);
        S(f, xl);
        auto X = gather_vec(x, xl, P);
        if (x.rank) return r;
        bool ok = true; long double fm = 0; for (double v : F) fm = std::max<long double>(fm, std::fabs(v));
        for (long i = 0; i < A.n; ++i) { long double s = F[i]; for (auto j = A.ptr[i]; j < A.ptr[i+1]; ++j) s -= (long double)A.val[j].v.get_d() * (long double)X[A.col[j]]; if (std::fabs(s) > 1e-10L * std::max<long double>(1.0L, fm)) ok = false; }
        if (!ok) r.fail("distributed direct solver: A x != f on the gathered system");
        r.out = "solved"; r.nontrivial = x.np > 1; r.tag("mdirect"); r.tag("np" + std::to_string(x.np)); bool e = false; for (long s : P.p) if (!s) e = true; if (e) r.tag("emptyrank");
    } else if (op == "mtransfer") {
        long esr = c.nat(), ei = c.nat(); need((esr == 0 || esr == 1) && ei >= 0 && ei < (long)(sizeof(EPS_TAB) / sizeof(EPS_TAB[0])));
        double relax = exact(c.rat()); need(relax > 0 && relax <= 2);
        Part P = part(c); Mat A = checked(c); c.expect_end(); need_mat(A, P, P); need(A.n > 0);
        for (long i = 0; i < A.n; ++i) { bool d = false; for (auto j = A.ptr[i]; j < A.ptr[i+1]; ++j) if (A.col[j] == i && A.val[j] > 0) d = true; need(d); }
        Ctx x = ctx_for(P.np()); if (!x.active) return r;
        auto D = make_dm(x, A, P, P);
        SA::params sp; sp.aggr.eps_strong = EPS_TAB[ei]; sp.relax = relax; sp.estimate_spectral_radius = esr != 0; sp.power_iters = 0;
        LD T; { auto ap = sp.aggr; amgcl::mpi::coarsening::pmis<BD> ag(*D, ap); bool dy = true; T = gather_dense(*ag.p_tent, dy); }
        SA C(sp); std::shared_ptr<DM> Pd, Rd; std::tie(Pd, Rd) = C.transfer_operators(*D);
        bool halved = C.prm.aggr.eps_strong == 0.5 * EPS_TAB[ei];
        bool dy = true; LD Ad = gather_dense(*D, dy), Pg = gather_dense(*Pd, dy), Rg = gather_dense(*Rd, dy);
        if (x.rank) return r;
        std::vector<ptrdiff_t> rdom(P.off.begin(), P.off.end());
        size_t n = Ad.size(), nc = Pg.size() ? Pg[0].size() : 0;
        bool rt = Rg.size() == nc && Pg.size() == n; for (size_t i = 0; rt && i < nc; ++i) { if (Rg[i].size() != n) { rt = false; break; } for (size_t j = 0; j < n; ++j) if (Rg[i][j] != Pg[j][i]) rt = false; }
        if (!rt) r.fail("mtransfer: R != P^T");
        if (!halved) r.fail("mtransfer: eps_strong is not halved for the next level");
        SACfg cfg = { EPS_TAB[ei], relax, esr != 0 }; check_sa(r, "mtransfer: ", Ad, Pg, T, rdom, cfg);
        r.out = (Line() << "transfer" << (long)n << (long)nc).get();
        r.nontrivial = x.np > 1 && nc >= 1 && has_remote(A, P, P); r.tag("mtransfer"); r.tag("np" + std::to_string(x.np)); if (esr) r.tag("esr");
        bool e = false; for (long q : P.p) if (!q) e = true; if (e) r.tag("emptyrank");
    } else if (op == "mnonsquare") {
        Part rp = part(c), cp = part(c); c.expect_end(); need(rp.np() == cp.np() && rp.sum != cp.sum);
        Ctx x = ctx_for(rp.np()); if (!x.active) return r;
        Mat A; A.n = rp.sum; A.m = cp.sum; A.ptr.assign(A.n + 1, 0);
        for (long i = 0; i < A.n; ++i) { if (A.m) { A.col.push_back(i % A.m); A.val.push_back(Q(1)); } A.ptr[i + 1] = (ptrdiff_t)A.col.size(); }
        auto D = make_dm(x, A, rp, cp);
        bool threw = false;
        try { AMG<Aggr, amgcl::mpi::relaxation::spai0> amg(x.comm, D); } catch (const std::runtime_error &) { threw = true; }
        bool all = all_true(x, threw);
        if (x.rank) return r;
        if (!all) r.fail("mpi::amg accepted a non-square matrix on some rank");
        r.out = threw ? "precondition" : "accepted"; r.nontrivial = x.np > 1; r.tag("nonsquare"); r.tag("np" + std::to_string(x.np));
    } else r.out = "bad-op";
    return r;
}

static void generate(Rng &rng, const Opts &o, std::vector<std::string> &lines) {
    const int W = std::min(g_wsize, MAXNP);
    long N = o.cases > 0 ? o.cases : (o.thorough() ? 800 : 160);
    for (long k = 0; k < N; ++k) {
        int np = (k < 8 * 6) ? (int)(k % 8) + 1 : (int)rng.range(1, W); if (np > W) np = W;
        int combo = (int)((k / 8) % 6);
        long n = rng.range(6, o.thorough() ? 60 : 30);
        Mat A = gen_spd(rng, n, (int)rng.range(0, 3), 4);          // dyadic weights: exact in binary64
        auto p = rand_part(rng, A.n, np);
        Line l; l << "msolve" << combo << rng.coin(); lp(l, p); l << A << gen_vec(rng, A.n, true);
        lines.push_back(l.get());
    }
    for (long k = 0; k < (o.thorough() ? 300 : 50); ++k) {
        int np = (int)rng.range(1, W); long n = rng.range(1, 25);
        Mat A = gen_spd(rng, std::max<long>(n, 2), (int)rng.range(0, 2), 4);
        Line l; l << "mdirect"; lp(l, rand_part(rng, A.n, np)); l << A << gen_vec(rng, A.n, true);
        lines.push_back(l.get());
    }
    for (int np = 1; np <= W; ++np) { long n = rng.range(2, 9); Line l; l << "mnonsquare"; lp(l, rand_part(rng, n, np)); lp(l, rand_part(rng, n + 1 + rng.range(0, 2), np)); lines.push_back(l.get()); }
    // ---- anisotropic / two-scale families: WEAK connections (a_ij^2 <= eps^2 a_ii a_jj) that cross rank boundaries.
    // Mostly zero-row-sum rows (one Dirichlet-like shift), so the constant vector is the near-null space.
    // (appended after the older families so that their op streams stay what they were for a given seed)
    auto two_scale = [&](int fam, int np, long nmax, std::vector<long> &p) -> Mat {
        std::vector<Edge> e; long N = 0;
        static const long WEAKDIV[] = { 8, 16, 32, 64 };
        Q s = Q::frac(rng.range(1, 4), rng.range(1, 2)), wk = s * Q::frac(1, WEAKDIV[rng.range(0, 3)]);
        auto jit = [&](const Q &w) { return rng.coin(1, 3) ? w * Q::frac(rng.range(3, 5), 4) : w; };
        if (fam <= 2) {
            // 2-D grid, strong along one direction, weak along the other; fam 0: slabs of whole grid lines (every
            // cross-rank connection is of one kind), fam 1: cuts anywhere (empty ranks included), fam 2: as 1, jittered weights
            int parts = std::max(np, 2); long nx = rng.range(2, 6), lines_max = std::max<long>(1, nmax / (nx * parts));
            std::vector<long> nl(parts); long ny = 0; for (auto &q : nl) { q = rng.range(1, std::min<long>(3, lines_max)); ny += q; }
            bool strong_x = rng.coin(2, 3); N = nx * ny;
            for (long j = 0; j < ny; ++j) for (long i = 0; i < nx; ++i) { long k = j * nx + i;
                if (i + 1 < nx) e.push_back({k, k + 1, fam == 2 ? jit(strong_x ? s : wk) : (strong_x ? s : wk)});
                if (j + 1 < ny) e.push_back({k, k + nx, fam == 2 ? jit(strong_x ? wk : s) : (strong_x ? wk : s)}); }
            if (fam == 0 && np >= 2) { p.clear(); for (auto q : nl) p.push_back(q * nx); } else p = rand_part(rng, N, np);
        } else {
            // random connected graph: a strong spanning forest of a few clusters + weak links between and inside clusters
            N = rng.range(6, nmax);
            long ncl = rng.range(1, std::max<long>(1, N / 3)); std::vector<long> cl(N); for (long i = 0; i < N; ++i) cl[i] = i < ncl ? i : rng.range(0, ncl - 1);
            std::vector<long> last(ncl, -1);
            for (long i = 0; i < N; ++i) { if (last[cl[i]] >= 0) e.push_back({i, last[cl[i]], jit(s)}); last[cl[i]] = i; }
            for (long i = 1; i < N; ++i) e.push_back({i, rng.range(0, i - 1), jit(wk)});
            for (long k = 0; k < N / 2; ++k) { long a = rng.range(0, N - 1), b = rng.range(0, N - 1); if (a != b) e.push_back({a, b, jit(wk)}); }
            p = rand_part(rng, N, np);
        }
        std::vector<Q> shift(N, Q(0)); shift[rng.coin() ? 0 : rng.range(0, N - 1)] = s * Q::frac(rng.range(1, 4), 2);
        for (long i = 0; i < N; ++i) if (rng.coin(1, 12)) shift[i] = s * Q::frac(rng.range(1, 4), 4);
        return mmatrix_from_edges(N, e, shift);
    };
    static const Q RELAX[] = { Q(1), Q(1), Q::frac(1, 2), Q::frac(3, 4), Q::frac(5, 4) };
    for (long k = 0; k < (o.thorough() ? 800 : 200); ++k) {
        int np = (k % 4 == 3) ? (int)rng.range(1, W) : (int)rng.range(2, W); if (np > W) np = W;
        int fam = (int)(k % 4); std::vector<long> p; Mat A;
        if (k % 10 == 9) { A = gen_spd(rng, rng.range(6, o.thorough() ? 60 : 30), (int)rng.range(0, 3), 4); p = rand_part(rng, A.n, np); }   // the older families too
        else A = two_scale(fam, np, o.thorough() ? 72 : 40, p);
        Line l; l << "mtransfer" << rng.coin(1, 4) << (long)(rng.coin() ? 0 : rng.range(0, 3)) << RELAX[rng.range(0, 4)]; lp(l, p); l << A;
        lines.push_back(l.get());
    }
    // the coupled solver on the same families, smoothed-aggregation combinations (1, 3, 4)
    for (long k = 0; k < (o.thorough() ? 150 : 42); ++k) {
        static const int SAC[] = { 1, 3, 4 };
        int np = (int)rng.range(2, W); if (np > W) np = W;
        std::vector<long> p; Mat A = two_scale((int)(k % 4), np, o.thorough() ? 60 : 36, p);
        Line l; l << "msolve" << SAC[k % 3] << rng.coin(); lp(l, p); l << A << gen_vec(rng, A.n, true);
        lines.push_back(l.get());
    }
    lines.push_back("mtransfer 0 9 1 1 2 2 2 2 0 1 1 -1 2 0 -1 1 1");      // eps index out of range
    lines.push_back("mtransfer 0 0 1/3 1 2 2 2 2 0 1 1 -1 2 0 -1 1 1");    // relax not exact in binary64
    lines.push_back("mtransfer 0 0 1 1 2 2 2 1 1 -1 2 0 -1 1 1");          // row 0 has no diagonal entry
}

VH_MPI_MAIN(generate, execute)
