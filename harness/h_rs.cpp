// C04 / C10 / C03 harness for the FAITHFUL Ruge-Stuben model (lean/Amgcl/Model/RugeStuben.lean, Driver/RugeStuben.lean):
// runs the REAL coarsening::ruge_stuben<builtin<Q>> at the exact rational type Q.
// Ops (the same text is fed to the Lean model):
//   rs_transfer eps_strong do_trunc eps_trunc A
//        -> cf=<marks> sval <flags> sptr <n+1 ptrs> scol <cols> P <CRS>    (or `... empty_level` instead of `P <CRS>`)
//      cf / S are what the private members connect() + cfsplit() leave behind (called directly; access through
//      `#define private public` around the one header, no library change), P is what transfer_operators() returns.
//   rs_coarse   eps_strong do_trunc eps_trunc A
//        -> R <CRS> Ac <CRS> | empty_level         R = std::get<1>(transfer_operators(A)), Ac = coarse_operator(A, P, R)
// eps_strong / eps_trunc are the exact rational values of the float parameters.
// Every case is executed three times with every fresh `operator new` block pre-filled with 0xFF / 0x00 / PRNG bytes
// (C10: S.ptr, S.val, S.col, P.col are allocated uninitialised); the three runs must agree.
// Implementation-side oracles (exact arithmetic, independent of the Lean model):
//   strength flags and the rows marked F by connect recomputed from the definition; (S.ptr, S.col) == transposed flag
//   pattern; no 'U' left; every F point not marked by connect has a strong C neighbour; P: nc = #C columns, column
//   indices in range, C rows are unit rows in C-order, no duplicate columns (A without duplicates); P equals the dense
//   direct-interpolation formula (eps_strong >= 0); rows of P sum to one on zero-row-sum F rows that interpolate;
//   R == P^T, Ac == R*A*P (dense); outputs independent of the heap fill pattern.
#include "gen.hpp"
#include <new>
#include <cstdlib>
#include <cstring>
#include <tuple>
#include <memory>
#include <numeric>
#include <algorithm>

// ---------------------------------------------------------------- allocation poisoning (as in h_pipeline.cpp)
namespace poison {
    static int mode = -1;                 // -1 = off, 0: 0x00, 1: 0xFF, 2: 0xAA, 3: PRNG bytes
    static uint64_t state = 88172645463325252ULL;
    static inline void fill(void *p, std::size_t n) {
        if (mode < 0) return;
        if (mode == 0) std::memset(p, 0x00, n);
        else if (mode == 1) std::memset(p, 0xFF, n);
        else if (mode == 2) std::memset(p, 0xAA, n);
        else { unsigned char *c = (unsigned char*)p; for (std::size_t i = 0; i < n; ++i) { state ^= state << 13; state ^= state >> 7; state ^= state << 17; c[i] = (unsigned char)(state >> 32); } }
    }
}
void* operator new(std::size_t n) { void *p = std::malloc(n ? n : 1); if (!p) throw std::bad_alloc(); poison::fill(p, n); return p; }
void* operator new[](std::size_t n) { void *p = std::malloc(n ? n : 1); if (!p) throw std::bad_alloc(); poison::fill(p, n); return p; }
void operator delete(void *p) noexcept { std::free(p); }
void operator delete[](void *p) noexcept { std::free(p); }
void operator delete(void *p, std::size_t) noexcept { std::free(p); }
void operator delete[](void *p, std::size_t) noexcept { std::free(p); }

#include <amgcl/backend/builtin.hpp>
#include <amgcl/value_type/interface.hpp>
#include <amgcl/util.hpp>
#include <amgcl/coarsening/detail/scaled_galerkin.hpp>
#include <amgcl/coarsening/detail/galerkin.hpp>
// read access to the private static members connect() / cfsplit(): every header ruge_stuben.hpp includes has been
// included above (include guards), so the macro touches the text of that one header only
#define private public
#include <amgcl/coarsening/ruge_stuben.hpp>
#undef private
using namespace vh;
namespace ac = amgcl::coarsening;
typedef amgcl::backend::builtin<Q> Backend;
typedef ac::ruge_stuben<Backend> RS;
typedef amgcl::backend::crs<char, ptrdiff_t, ptrdiff_t> CrsS;

// ------------------------------------------------------------------ helpers
static float as_float(const Q &q) {
    if (q.poison) throw bad_input("poison");
    float f = (float)q.v.get_d();
    if (!(Q(f) == q)) throw bad_input("not a float");
    return f;
}
static Q qabs(const Q &x) { return x < 0 ? -x : x; }
static const Q TINY = Q::frac(1, 1L << 51);          // amgcl::detail::eps<Q>(1) = 2 * 2^-52
static bool rows_sorted(const Mat &A) { for (long i = 0; i < A.n; ++i) for (auto j = A.ptr[i]; j + 1 < A.ptr[i+1]; ++j) if (!(A.col[j] < A.col[j+1])) return false; return true; }
static Mat to_mat(const Crs &P) { Mat M; M.n = P.nrows; M.m = P.ncols; M.ptr.assign(P.ptr, P.ptr + P.nrows + 1); M.col.assign(P.col, P.col + P.ptr[P.nrows]); M.val.assign(P.val, P.val + P.ptr[P.nrows]); return M; }
static bool same_mat(const Mat &a, const Mat &b) { if (a.n != b.n || a.m != b.m || a.ptr != b.ptr || a.col != b.col || a.val.size() != b.val.size()) return false; for (size_t k = 0; k < a.val.size(); ++k) if (!(a.val[k] == b.val[k])) return false; return true; }

struct Run {
    std::vector<char> cf0, cf, sval; std::vector<ptrdiff_t> sptr, scol;
    bool empty = false; Mat P{}, R{}, Ac{};
};
static Run run_rs(const Mat &A, float eps, bool tr, float et, int mode, bool coarse) {
    Run r; auto Ac = A.crs();
    poison::mode = mode;
    try {
        {
            std::vector<char> cf(A.n, 'U'); CrsS S;
            RS::connect(*Ac, eps, S, cf);
            r.cf0 = cf;
            r.sval.assign(S.val, S.val + A.col.size());
            r.sptr.assign(S.ptr, S.ptr + A.n + 1); r.scol.assign(S.col, S.col + S.ptr[A.n]);
            RS::cfsplit(*Ac, S, cf);
            r.cf = cf;
        }
        RS::params prm; prm.eps_strong = eps; prm.do_trunc = tr; prm.eps_trunc = et;
        RS C(prm);
        try {
            auto PR = C.transfer_operators(*Ac);
            r.P = to_mat(*std::get<0>(PR)); r.R = to_mat(*std::get<1>(PR));
            if (coarse) { auto a2 = C.coarse_operator(*Ac, *std::get<0>(PR), *std::get<1>(PR)); r.Ac = to_mat(*a2); }
        } catch (const amgcl::error::empty_level &) { r.empty = true; }
    } catch (...) { poison::mode = -1; throw; }
    poison::mode = -1;
    return r;
}
static bool same_run(const Run &a, const Run &b) {
    return a.cf0 == b.cf0 && a.cf == b.cf && a.sval == b.sval && a.sptr == b.sptr && a.scol == b.scol && a.empty == b.empty
        && (a.empty || (same_mat(a.P, b.P) && same_mat(a.R, b.R) && same_mat(a.Ac, b.Ac)));
}

static void tag_matrix(Result &r, const Mat &A) {
    if (is_symmetric(A)) r.tag("sym"); else r.tag("nonsym");
    if (!rows_sorted(A)) r.tag("unsorted");
    bool posrow = false, zrs = false, diag = true;
    for (long i = 0; i < A.n; ++i) { bool anyoff = false, allpos = true; Q s(0); for (auto j = A.ptr[i]; j < A.ptr[i+1]; ++j) { s += A.val[j]; if (A.col[j] != i) { anyoff = true; diag = false; if (!(A.val[j] > 0)) allpos = false; } } if (anyoff && allpos) posrow = true; if (anyoff && s == 0) zrs = true; }
    if (posrow) r.tag("posoffrow"); if (zrs) r.tag("zerorowsum"); if (diag) r.tag("diagonal");
    r.tag(A.n <= 6 ? "n<=6" : (A.n <= 30 ? "n<=30" : "n>30"));
}

// ------------------------------------------------------------------ oracles
static void oracles(Result &r, const Mat &A, float epsf, bool tr, float etf, const Run &run) {
    const long n = A.n; const Q eps(epsf), et(etf);
    auto Ac = A.crs(); const bool nodup = crs_nodup(*Ac);
    // 1. strength of connection from the definition
    std::vector<char> ref(A.col.size(), 0), f0(n, 'U');
    for (long i = 0; i < n; ++i) {
        Q amin(0); for (auto j = A.ptr[i]; j < A.ptr[i+1]; ++j) if (A.col[j] != i && A.val[j] < amin) amin = A.val[j];
        if (qabs(amin) < TINY) { f0[i] = 'F'; continue; }
        Q thr = amin * eps;
        for (auto j = A.ptr[i]; j < A.ptr[i+1]; ++j) ref[j] = (A.col[j] != i && A.val[j] < thr) ? 1 : 0;
    }
    if (ref != run.sval) r.fail("connect: strength flags differ from the definition a_ij < eps_strong * min_k a_ik");
    if (f0 != run.cf0) r.fail("connect: rows marked F differ from 'no negative coupling beyond eps'");
    // 2. (S.ptr, S.col) is the transposed flag pattern
    { std::vector<std::vector<ptrdiff_t>> T(n);
      for (long i = 0; i < n; ++i) for (auto j = A.ptr[i]; j < A.ptr[i+1]; ++j) if (run.sval[j]) T[A.col[j]].push_back(i);
      bool ok = (long)run.sptr.size() == n + 1 && run.sptr[0] == 0;
      for (long c = 0; ok && c < n; ++c) { ok = run.sptr[c+1] - run.sptr[c] == (ptrdiff_t)T[c].size(); for (size_t k = 0; ok && k < T[c].size(); ++k) ok = run.scol[run.sptr[c] + k] == T[c][k]; }
      if (!ok) r.fail("connect: (S.ptr, S.col) is not the transposed strength pattern"); }
    // 3. splitting
    long nc = 0; std::vector<long> cidx(n, -1);
    for (long i = 0; i < n; ++i) { if (run.cf[i] == 'U') r.fail("cfsplit left an undecided point"); if (run.cf[i] == 'C') cidx[i] = nc++; if (run.cf0[i] == 'F' && run.cf[i] != 'F') r.fail("a point marked F by connect changed"); }
    for (long i = 0; i < n; ++i) if (run.cf[i] == 'F' && run.cf0[i] != 'F') {
        bool sc = false; for (auto j = A.ptr[i]; j < A.ptr[i+1]; ++j) if (run.sval[j] && run.cf[A.col[j]] == 'C') sc = true;
        if (!sc) r.fail("F point created by cfsplit without a strong C neighbour");
    }
    if (run.empty != (nc == 0)) r.fail("empty_level iff no C point");
    if (run.empty) return;
    // 4. structure of P
    const Mat &P = run.P; std::string why; auto Pc = P.crs();
    if (P.n != n || P.m != nc || !crs_wf(*Pc, why)) { r.fail("P: wrong shape or column out of range"); return; }
    if (nodup && !crs_nodup(*Pc)) r.fail("P: duplicate column in a row");
    for (long i = 0; i < n; ++i) if (run.cf[i] == 'C') {
        if (P.ptr[i+1] - P.ptr[i] != 1 || P.col[P.ptr[i]] != cidx[i] || !(P.val[P.ptr[i]] == Q(1))) r.fail("P: C row is not the unit row of its coarse index");
    }
    // 5. direct interpolation formula (only negative couplings are strong when eps_strong >= 0), dense
    if (nodup && !(eps < 0)) {
        Dense D = dense(P); bool ok = true, rs_ok = true; long rs_rows = 0;
        for (long i = 0; i < n && ok; ++i) if (run.cf[i] != 'C') {
            Q dia(0), anum(0), bnum(0), aden(0), rowsum(0), vmin(0);
            for (auto j = A.ptr[i]; j < A.ptr[i+1]; ++j) { long c = A.col[j]; const Q &v = A.val[j]; rowsum += v;
                if (c == i) { dia = v; continue; } if (v < 0) anum += v; else bnum += v;
                if (run.sval[j] && run.cf[c] == 'C') { aden += v; if (v < vmin) vmin = v; } }
            if (Q(0) < bnum) dia += bnum;                       // no positive strong couplings: b_den = 0
            std::vector<Q> row(nc, Q(0)); Q kept(0);
            for (auto j = A.ptr[i]; j < A.ptr[i+1]; ++j) { long c = A.col[j]; const Q &v = A.val[j];
                if (!(run.sval[j] && run.cf[c] == 'C')) continue;
                if (tr && !(v < vmin * et) ) continue;          // truncated: not below eps_trunc * most negative
                kept += v; }
            Q w(0);
            if (qabs(aden) > TINY) { Q scale = (tr && qabs(kept) > TINY) ? aden / kept : Q(1); w = Q(0) - scale * anum / aden / qabs(dia); }
            for (auto j = A.ptr[i]; j < A.ptr[i+1]; ++j) { long c = A.col[j]; const Q &v = A.val[j];
                if (!(run.sval[j] && run.cf[c] == 'C')) continue; if (tr && !(v < vmin * et)) continue; row[cidx[c]] += w * v; }
            for (long k = 0; k < nc; ++k) if (!(row[k] == D[i][k])) ok = false;
            // row sums: zero row sum in A, interpolating row (kept part beyond eps)
            if (rowsum == 0 && qabs(aden) > TINY && (!tr || qabs(kept) > TINY)) { ++rs_rows; Q s(0); for (long k = 0; k < nc; ++k) s += D[i][k]; if (!(s == Q(1))) rs_ok = false; }
        }
        if (!ok) r.fail("P differs from the direct interpolation formula w_ij = -(sum_neg a_ik / sum_kept a_ij) a_ij / a_ii'");
        if (!rs_ok) r.fail("Ruge-Stuben: zero-row-sum F row with a strong C neighbour, but the row of P does not sum to 1");
        if (rs_rows) r.tag("rowsum_rows");
    }
}

// ------------------------------------------------------------------ execute
static Result execute(const Toks &t) {
    Cur c(t);
    const std::string &op = t[0];
    Result r;
    if (op == "rs_transfer" || op == "rs_coarse") {
        const bool coarse = op == "rs_coarse";
        float eps = as_float(c.rat()); long tr = c.nat(); float et = as_float(c.rat()); auto A = c.mat(); c.expect_end();
        if (tr != 0 && tr != 1) throw bad_input("do_trunc");
        { std::string why; auto Ac = A.crs(); if (!crs_wf(*Ac, why) || A.n != A.m) throw bad_input("shape"); }
        Run run = run_rs(A, eps, tr != 0, et, 1, coarse);
        { Run r0 = run_rs(A, eps, tr != 0, et, 0, coarse); Run r3 = run_rs(A, eps, tr != 0, et, 3, coarse);
          if (!same_run(run, r0) || !same_run(run, r3)) r.fail("result depends on the initial contents of freshly allocated memory (0xFF / 0x00 / PRNG fill differ)"); }
        if (!coarse) {
            Line l; std::string marks = "cf="; for (char ch : run.cf) marks += ch; l << marks;
            l << "sval" << (size_t)run.sval.size(); for (char s : run.sval) l << (long)(s ? 1 : 0);
            l << "sptr" << (size_t)run.sptr.size(); for (auto p : run.sptr) l << (long)p;
            l << "scol" << (size_t)run.scol.size(); for (auto p : run.scol) l << (long)p;
            if (run.empty) l << "empty_level"; else { l << "P"; l << run.P; }
            r.out = l.get();
            oracles(r, A, eps, tr != 0, et, run);
            bool interp = false; if (!run.empty) for (long i = 0; i < A.n; ++i) if (run.cf[i] == 'F' && run.P.ptr[i+1] > run.P.ptr[i]) interp = true;
            r.nontrivial = A.n >= 2 && interp;
            r.tag(tr ? "rs_trunc" : "rs_notrunc");
        } else {
            if (run.empty) r.out = "empty_level";
            else {
                Line l; l << "R"; l << run.R; l << "Ac"; l << run.Ac; r.out = l.get();
                Dense DP = dense(run.P), DR = dense(run.R), DA = dense(A), DC = dense(run.Ac);
                bool rt = run.R.n == run.P.m && run.R.m == run.P.n; for (long i = 0; rt && i < run.P.n; ++i) for (long j = 0; j < run.P.m; ++j) if (!(DP[i][j] == DR[j][i])) rt = false;
                if (!rt) r.fail("R != P^T");
                else { Dense RAP = dmul(DR, dmul(DA, DP, run.P.m), run.P.m); bool ok = run.Ac.n == run.P.m && run.Ac.m == run.P.m; for (long i = 0; ok && i < run.P.m; ++i) for (long j = 0; j < run.P.m; ++j) if (!(RAP[i][j] == DC[i][j])) ok = false; if (!ok) r.fail("coarse operator != R*A*P"); }
            }
            r.nontrivial = !run.empty && run.P.m >= 1 && A.n >= 2;
            r.tag("rs_coarse");
        }
        if (run.empty) r.tag("empty_level");
        if (eps < 0) r.tag("eps_strong<0");
        tag_matrix(r, A);
    } else {
        r.out = "bad-op";
    }
    return r;
}

// ------------------------------------------------------------------ generate
static const float EPS_S[] = { 0.25f, 0.25f, 0.5f, 0.125f, 0.0f, 1.0f, 0.75f, -0.25f, 0.0625f };
static const float EPS_T[] = { 0.2f, 0.25f, 0.5f, 0.3f, 0.0f, 1.0f, 0.75f, 0.125f };
static void emit(Rng &rng, const Mat &A, std::vector<std::string> &lines, int coarse_den = 6) {
    float es = EPS_S[rng.range(0, 8)], et = EPS_T[rng.range(0, 7)]; bool tr = rng.coin();
    { Line l; l << "rs_transfer" << Q(es) << (tr ? 1 : 0) << Q(et) << A; lines.push_back(l.get()); }
    if (rng.coin(1, coarse_den)) { Line l; l << "rs_coarse" << Q(es) << (tr ? 1 : 0) << Q(et) << A; lines.push_back(l.get()); }
}
static Q offval(Rng &rng, int mode) {   // mode 0: {-2,-1,1,2}; 1: negative only; 2: positive only
    static const long v[] = {-2, -1, 1, 2};
    if (mode == 1) return Q(-rng.range(1, 2)); if (mode == 2) return Q(rng.range(1, 2));
    return Q(v[rng.range(0, 3)]);
}
// matrix from an off-diagonal pattern (bit mask over pairs i<j for symmetric, ordered pairs i!=j otherwise);
// each row draws its own sign mode so that rows with only positive off-diagonals occur next to M-matrix rows
static Mat pattern_matrix(Rng &rng, long n, uint64_t mask, bool symmetric) {
    std::vector<std::map<long,Q>> rows(n);
    int gmode = (int)rng.range(0, 5);           // 0..2: global mode, 3..5: mixed per entry
    int bit = 0;
    if (symmetric) { for (long i = 0; i < n; ++i) for (long j = i + 1; j < n; ++j, ++bit) if (mask >> bit & 1) { Q v = offval(rng, gmode > 2 ? 0 : gmode); rows[i][j] = v; rows[j][i] = v; } }
    else { for (long i = 0; i < n; ++i) { int rmode = gmode > 2 ? (int)rng.range(0, 2) : gmode; for (long j = 0; j < n; ++j) if (i != j) { if (mask >> bit & 1) rows[i][j] = offval(rng, rmode); ++bit; } } }
    int dmode = (int)rng.range(0, 5);
    for (long i = 0; i < n; ++i) {
        Q s(0), sa(0); for (auto &cv : rows[i]) { s += cv.second; sa += qabs(cv.second); }
        Q d;
        if (dmode <= 2) d = Q(0) - s;                                  // zero row sum (may be 0 or negative)
        else if (dmode == 3) d = sa + Q(rng.range(0, 1));              // weakly / strictly dominant
        else if (dmode == 4) d = Q(rng.range(1, 4));
        else { static const long dv[] = {-3, -1, 1, 2, 4, 0}; d = Q(dv[rng.range(0, 5)]); }
        rows[i][i] = d;
    }
    std::vector<std::vector<std::pair<long,Q>>> rr(n);
    for (long i = 0; i < n; ++i) for (auto &cv : rows[i]) { if (cv.first == i && dmode == 5 && rng.coin(1, 8)) continue; rr[i].push_back({cv.first, cv.second}); }
    return from_rows(n, n, rr);
}
// symmetric zero-row-sum matrix on a random graph, mostly negative weights, optionally some positive couplings
static Mat zero_rowsum(Rng &rng, long n, bool pos) {
    std::vector<std::map<long,Q>> rows(n);
    for (long i = 0; i < n; ++i) for (int e = 0; e < 2; ++e) { long j = rng.range(0, n - 1); if (j == i) continue; Q v = (pos && rng.coin(1, 5)) ? Q(rng.range(1, 2)) : Q(-rng.range(1, 4)); rows[i][j] = v; rows[j][i] = v; }
    for (long i = 0; i < n; ++i) { Q sum(0); for (auto &cv : rows[i]) if (cv.first != i) sum += cv.second; rows[i][i] = Q(0) - sum; if (rng.coin(1, 10)) rows[i][i] += Q(1); }
    std::vector<std::vector<std::pair<long,Q>>> rr(n); for (long i = 0; i < n; ++i) for (auto &cv : rows[i]) rr[i].push_back({cv.first, cv.second});
    return from_rows(n, n, rr);
}
static Mat random_general(Rng &rng, long n) {
    bool sym = rng.coin(); std::vector<std::map<long,Q>> rows(n);
    for (long i = 0; i < n; ++i) for (int k = 0; k < 3; ++k) { long j = rng.range(0, n - 1); if (j == i) continue; Q v = rng.coin(3, 4) ? Q::frac(-rng.range(1, 6), rng.range(1, 2)) : Q(rng.range(1, 2)); rows[i][j] = v; if (sym) rows[j][i] = v; }
    bool zrs = rng.coin();
    for (long i = 0; i < n; ++i) { Q s(0), sa(0); for (auto &cv : rows[i]) if (cv.first != i) { s += cv.second; sa += qabs(cv.second); } rows[i][i] = zrs ? Q(0) - s : sa + Q(rng.range(0, 2)); if (rng.coin(1, 40)) rows[i][i] = Q(0); }
    bool dropdiag = rng.coin(1, 12);
    std::vector<std::vector<std::pair<long,Q>>> rr(n);
    for (long i = 0; i < n; ++i) for (auto &cv : rows[i]) { if (dropdiag && cv.first == i && rng.coin(1, 4)) continue; rr[i].push_back({cv.first, cv.second}); }
    return from_rows(n, n, rr);
}
static Mat block_diag(const Mat &A, const Mat &B) {
    auto ra = to_rows(A), rb = to_rows(B); std::vector<std::vector<std::pair<long,Q>>> rr;
    for (auto &r : ra) rr.push_back(r);
    for (auto &r : rb) { std::vector<std::pair<long,Q>> s; for (auto &cv : r) s.push_back({cv.first + A.n, cv.second}); rr.push_back(s); }
    return from_rows(A.n + B.n, A.n + B.n, rr);
}
static Mat scaled(const Mat &A, const Q &s) { Mat B = A; for (auto &v : B.val) v = v * s; return B; }

static void generate(Rng &rng, const Opts &o, std::vector<std::string> &lines) {
    const bool th = o.thorough();
    // 1. exhaustive: all symmetric off-diagonal patterns on n <= 5 (6) nodes, all non-symmetric on n <= 3 (4)
    long nsym = th ? 6 : 5, nns = th ? 4 : 3;
    if (o.cases > 0) { nsym = 3; nns = 2; }
    for (long n = 1; n <= nsym; ++n) { long bits = n * (n - 1) / 2;
        for (uint64_t m = 0; m < (1ull << bits); ++m) { emit(rng, pattern_matrix(rng, n, m, true), lines, 12); if (th && n <= 5) emit(rng, pattern_matrix(rng, n, m, true), lines, 12); } }
    for (long n = 2; n <= nns; ++n) { long bits = n * (n - 1);
        for (uint64_t m = 0; m < (1ull << bits); ++m) emit(rng, pattern_matrix(rng, n, m, false), lines, 12); }
    // 2. random families
    long N = o.cases > 0 ? o.cases : (th ? 4000 : 320);
    for (long k = 0; k < N; ++k) {
        int which = (int)rng.range(0, 11);
        long n = rng.coin(1, 4) ? rng.range(2, 60) : rng.range(1, 24);
        Mat A;
        if (which <= 1) A = gen_spd(rng, n);                                        // chain / grid / random graph / anisotropic
        else if (which == 2) A = gen_spd(rng, n, 3, 6);                             // anisotropic grid
        else if (which == 3) A = gen_convdiff(rng, n);
        else if (which <= 5) A = zero_rowsum(rng, n, which == 5);
        else if (which <= 7) A = random_general(rng, n);
        else if (which == 8) {                                                       // diagonal matrix (-> empty_level), also with zero / negative entries
            std::vector<std::vector<std::pair<long,Q>>> rr(n); for (long i = 0; i < n; ++i) if (!rng.coin(1, 10)) rr[i].push_back({i, Q(rng.range(-2, 5))});
            A = from_rows(n, n, rr);
        } else if (which == 9) {                                                     // disconnected: two blocks, one possibly diagonal / scaled below eps (K05 branch)
            Mat B1 = gen_spd(rng, rng.range(1, 12)), B2 = rng.coin() ? zero_rowsum(rng, rng.range(1, 10), false) : random_general(rng, rng.range(1, 10));
            if (rng.coin(1, 3)) B2 = scaled(B2, Q::frac(1, 1L << 60));
            A = rng.coin() ? block_diag(B1, B2) : block_diag(B2, B1);
        } else if (which == 10) {                                                    // whole matrix at the scale of the absolute threshold 2^-51
            A = scaled(rng.coin() ? gen_spd(rng, rng.range(2, 16)) : random_general(rng, rng.range(2, 16)), Q::frac(1, 1L << rng.range(48, 54)));
        } else A = pattern_matrix(rng, rng.range(2, 8), rng.next(), rng.coin());
        if (rng.coin(1, 6)) A = unsort(rng, A, false);
        emit(rng, A, lines, 5);
    }
    // malformed stream: both sides must answer bad-input
    lines.push_back("rs_transfer 1/4 1 1/2 2 3 1 0 1 1 1 1");                    // not square
    lines.push_back("rs_transfer 1/4 1 1/2 2 2 1 0 1 1 5 1");                    // column out of range
    lines.push_back("rs_transfer 1/3 0 1/2 2 2 2 0 1 1 -1 2 0 -1 1 1");          // eps_strong is not a float
    lines.push_back("rs_transfer 1/4 1 1/5 2 2 2 0 1 1 -1 2 0 -1 1 1");          // eps_trunc is not a float
    lines.push_back("rs_transfer 1/4 2 1/2 2 2 2 0 1 1 -1 2 0 -1 1 1");          // do_trunc not 0/1
    lines.push_back("rs_coarse 1/4 1 1/2 2 2 2 0 1 1 -1 2 0 -1");                // truncated matrix
    lines.push_back("rs_transfer 1/4 1 1/2 2 2 2 0 1 1 -1 2 0 -1 1 1 7");        // trailing token
}

VH_MAIN(generate, execute)
