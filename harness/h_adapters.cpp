// C13 / C17 harness (model-corresponded part): matrix adapters and block / complex reformulations, real amgcl code at
// the exact rational type Q (Eigen / uBlas: double on exact-in-binary64 integer data).  Result parts are separated by `|`.
//   ad_tuple     idx n ptr col val x        rows cols nnz | CRS | A*x       idx in {int,long,unsigned,size_t,ptrdiff_t}
//   ad_zero_copy kind A x                   rows cols nnz own | CRS | A*x | #arrays freed     kind 0 zero_copy, 1 zero_copy_direct
//   ad_builder   A x                        rows cols | CRS | A*x
//   ad_block     b A alpha x beta y         rows cols est | BCRS | alpha*B*x + beta*y   or `precondition`
//   ad_hybrid    b A alpha x beta y         alpha*B*x + beta*y (builtin_hybrid)         or `precondition`
//   ad_block_eigen b A alpha x beta y       same with the Eigen::Matrix<double,b,b> value type on small integers
//   ad_unblock   b B                        CRS
//   ad_complex   A z                        rows cols nnz | CRS | Ahat*zhat | A*z
//   ad_reorder   A perm f y x0              iperm | CRS | forward f | inverse y into x0 | B*y
//   ad_scaled    A s f                      CRS | s.*f
//   ad_scale_diag A                         s
//   ad_eigen / ad_ublas A x                 rows cols nnz | CRS | A*x
//   ad_asprec    kind A m rhs^m             CRS | apply(rhs)^m  or `precondition`      kind 0 user matrix (copied), 1 shared_ptr
//   ad_amg_sort  A                          CRS of amg::system_matrix()
#include "gen_adapters.hpp"
#include <amgcl/adapter/crs_tuple.hpp>
#include <amgcl/adapter/zero_copy.hpp>
#if defined(__SANITIZE_ADDRESS__)
#include <sanitizer/lsan_interface.h>
#endif
#include <amgcl/adapter/crs_builder.hpp>
#include <amgcl/adapter/block_matrix.hpp>
#include <amgcl/adapter/complex.hpp>
#include <amgcl/adapter/reorder.hpp>
#include <amgcl/adapter/scaled_problem.hpp>
#include <amgcl/adapter/eigen.hpp>
#include <amgcl/adapter/ublas.hpp>
#include <amgcl/value_type/static_matrix.hpp>
#include <amgcl/value_type/eigen.hpp>
#include <amgcl/value_type/complex.hpp>
#include <amgcl/backend/builtin_hybrid.hpp>
#include <amgcl/relaxation/as_preconditioner.hpp>
#include <amgcl/relaxation/ilu0.hpp>
#include <amgcl/relaxation/spai0.hpp>
#include <amgcl/relaxation/gauss_seidel.hpp>
#include <amgcl/coarsening/aggregation.hpp>
#include <amgcl/coarsening/smoothed_aggregation.hpp>
#include <amgcl/coarsening/ruge_stuben.hpp>
#include <amgcl/amg.hpp>
using namespace vh;

typedef amgcl::backend::builtin<Q> Backend;
static const char *BAR = "|";

static std::vector<Q> to_std(const NVec &v) { std::vector<Q> r(v.size()); for (size_t i = 0; i < v.size(); ++i) r[i] = v[i]; return r; }
static bool veq(const std::vector<Q> &a, const std::vector<Q> &b) { if (a.size() != b.size()) return false; for (size_t i = 0; i < a.size(); ++i) if (a[i].v != b[i].v) return false; return true; }
static bool dense_eq(const Dense &a, const Dense &b) {
    if (a.size() != b.size()) return false;
    for (size_t i = 0; i < a.size(); ++i) { if (a[i].size() != b[i].size()) return false; for (size_t j = 0; j < a[i].size(); ++j) if (a[i][j].v != b[i][j].v) return false; }
    return true;
}
static Mat checked(Cur &c) { Mat A = c.mat(); std::string why; if (!crs_wf(*A.crs(), why)) throw bad_input(why); return A; }
static void check_rows(Result &r, const Crs &C, const Mat &A, const char *what) {   // stored rows identical to the source
    bool ok = C.nrows == (size_t)A.n && C.ncols == (size_t)A.m;
    for (long i = 0; ok && i <= A.n; ++i) if (C.ptr[i] != A.ptr[i]) ok = false;
    for (size_t j = 0; ok && j < A.col.size(); ++j) if (C.col[j] != A.col[j] || C.val[j].v != A.val[j].v) ok = false;
    if (!ok) r.fail(std::string(what) + ": rows differ from the source matrix");
}
static void tag_shape(Result &r, const Mat &A) {
    auto Ac = A.crs();
    if (!crs_sorted_nodup(*Ac)) r.tag(crs_nodup(*Ac) ? "unsorted" : "dups");
    for (long i = 0; i < A.n; ++i) if (A.ptr[i] == A.ptr[i+1]) { r.tag("emptyrow"); break; }
}

// ---------------------------------------------------------------------------------------------- crs_tuple
template <class I> static Result run_tuple(long n, const std::vector<long> &ptr, const std::vector<long> &col, const std::vector<Q> &val, const std::vector<Q> &x) {
    Result r;
    std::vector<I> P(ptr.begin(), ptr.end()), C(col.begin(), col.end());
    std::vector<Q> V(val);
    const std::vector<I> P0 = P, C0 = C;
    I nn = (I)n;
    auto A = std::tie(nn, P, C, V);
    size_t rows = amgcl::backend::rows(A), cols = amgcl::backend::cols(A), nnz = amgcl::backend::nonzeros(A);
    Crs M(A);                                               // generic converting constructor over the row iterator
    NVec X = nvec(x), Y(n); for (long i = 0; i < n; ++i) Y[i] = Q::poisoned();
    amgcl::backend::spmv(Q(1), A, X, Q(0), Y);              // SpMV directly on the adapter
    // oracle: recomputation straight from the arrays
    long base = ptr[0];
    Dense D(n, std::vector<Q>(n)); long cnt = 0;
    for (long i = 0; i < n; ++i) for (long j = ptr[i]; j < ptr[i+1]; ++j) { D[i][col[j]] += val[j]; ++cnt; }
    if (!dense_eq(dense(M), D)) r.fail("tuple adapter: copied matrix differs from the source arrays");
    if (rows != (size_t)n || cols != (size_t)n) r.fail("tuple adapter: rows/cols");
    if ((long)nnz != ptr[n]) r.fail("tuple adapter: nonzeros() != ptr[n]");
    if (base == 0 && (long)nnz != cnt) r.fail("tuple adapter: nonzeros() != number of stored entries");
    if ((long)M.nnz != cnt || M.ptr[0] != 0) r.fail("tuple adapter: copied nnz / ptr[0]");
    for (long i = 0; i < n; ++i) if (amgcl::backend::row_nonzeros(A, i) != (size_t)(ptr[i+1] - ptr[i])) r.fail("tuple adapter: row_nonzeros");
    if (!veq(to_std(Y), dmv(D, x))) r.fail("tuple adapter: spmv on the adapter != A*x");
    if (P != P0 || C != C0) r.fail("tuple adapter wrote to the user's index arrays");
    for (size_t j = 0; j < V.size(); ++j) if (V[j].v != val[j].v) r.fail("tuple adapter wrote to the user's values");
    r.out = (Line() << rows << cols << nnz << BAR << M << BAR << Y).get();
    r.nontrivial = cnt > 0;
    return r;
}

// ---------------------------------------------------------------------------------------------- row builder
struct RowBuilder {
    typedef Q val_type; typedef long col_type;
    const Mat *A;
    size_t rows() const { return A->n; }
    size_t nonzeros() const { return A->col.size(); }
    void operator()(size_t row, std::vector<col_type> &col, std::vector<val_type> &val) const {
        for (auto j = A->ptr[row]; j < A->ptr[row+1]; ++j) { col.push_back(A->col[j]); val.push_back(A->val[j]); }
    }
};

// ---------------------------------------------------------------------------------------------- blocks
template <int B> struct Blocks {
    typedef amgcl::static_matrix<Q, B, B> Blk;
    typedef amgcl::backend::crs<Blk, ptrdiff_t, ptrdiff_t> BCrs;

    static void print(Line &l, const BCrs &M) {
        l << M.nrows << M.ncols;
        for (size_t i = 0; i < M.nrows; ++i) {
            l << (long)(M.ptr[i+1] - M.ptr[i]);
            for (auto j = M.ptr[i]; j < M.ptr[i+1]; ++j) { l << (long)M.col[j]; for (int k = 0; k < B * B; ++k) l << M.val[j](k); }
        }
    }
    static Dense bdense(const BCrs &M) {
        Dense D(M.nrows * B, std::vector<Q>(M.ncols * B));
        for (size_t i = 0; i < M.nrows; ++i) for (auto j = M.ptr[i]; j < M.ptr[i+1]; ++j)
            for (int p = 0; p < B; ++p) for (int q = 0; q < B; ++q) D[i * B + p][M.col[j] * B + q] += M.val[j](p, q);
        return D;
    }
    static bool bsorted(const BCrs &M) { for (size_t i = 0; i < M.nrows; ++i) for (auto j = M.ptr[i]; j + 1 < M.ptr[i+1]; ++j) if (!(M.col[j] < M.col[j+1])) return false; return true; }
    static bool bsame(const BCrs &a, const BCrs &b) {
        if (a.nrows != b.nrows || a.ncols != b.ncols) return false;
        for (size_t i = 0; i <= a.nrows; ++i) if (a.ptr[i] != b.ptr[i]) return false;
        for (ptrdiff_t j = 0; j < a.ptr[a.nrows]; ++j) { if (a.col[j] != b.col[j]) return false; for (int k = 0; k < B * B; ++k) if (a.val[j](k).v != b.val[j](k).v) return false; }
        return true;
    }

    // ad_block / ad_hybrid
    static Result block(const Mat &A, const Q &al, const std::vector<Q> &x, const Q &be, const std::vector<Q> &y, bool hybrid) {
        Result r; Line l;
        auto Ac = A.crs();
        const bool canonical = crs_sorted_nodup(*Ac);
        std::shared_ptr<BCrs> Bm; size_t rows = 0, cols = 0, est = 0;
        try {
            if (hybrid) {
                typedef amgcl::backend::builtin_hybrid<Blk> HB;
                Bm = HB::copy_matrix(Ac, typename HB::params());
            } else {
                auto ad = amgcl::adapter::block_matrix<Blk>(*Ac);
                rows = amgcl::backend::rows(ad); cols = amgcl::backend::cols(ad); est = amgcl::backend::nonzeros(ad);
                Bm = std::make_shared<BCrs>(ad);
            }
        } catch (const std::runtime_error&) {
            if (A.n % B == 0 && A.m % B == 0) r.fail("block adapter rejected a block-aligned matrix");
            r.out = "precondition"; r.tag("indivisible"); return r;
        }
        if (A.n % B != 0 || A.m % B != 0) r.fail("block adapter accepted a matrix whose size is not divisible by the block size");
        NVec X = nvec(x), Y = nvec(y);
        if (hybrid) {
            amgcl::backend::spmv(al, *Bm, X, be, Y);        // mixed scalar/block spmv_impl (matrix_ops.hpp:134-156)
        } else {
            auto Xb = amgcl::backend::reinterpret_as_rhs<Blk>(X);
            auto Yb = amgcl::backend::reinterpret_as_rhs<Blk>(Y);
            amgcl::backend::spmv(al, *Bm, Xb, be, Yb);
        }
        std::string why;
        if (!crs_wf(*Bm, why)) r.fail("block matrix: " + why);
        if (!hybrid && (rows != (size_t)A.n / B || cols != (size_t)A.m / B)) r.fail("block adapter rows()/cols()");
        if (canonical) {
            // the block matrix denotes the scalar operator: entries, SpMV, and unblock_matrix gives the entries back
            if (!dense_eq(bdense(*Bm), dense(A))) r.fail("block matrix does not have the entries of the scalar matrix");
            if (!bsorted(*Bm)) r.fail("block rows not strictly sorted");
            auto U = amgcl::adapter::unblock_matrix(*Bm);
            if (!dense_eq(dense(*U), dense(A))) r.fail("unblock_matrix(block_matrix(A)) != A");
            std::vector<Q> ref = dmv(dense(A), x);
            for (long i = 0; i < A.n; ++i) ref[i] = (be == 0) ? ref[i] * al : ref[i] * al + y[i] * be;
            if (!veq(to_std(Y), ref)) r.fail("block SpMV on reinterpreted vectors != scalar SpMV");
            // every scalar entry sits in exactly one stored block; every stored block holds at least one scalar entry
            size_t nb = Bm->ptr[Bm->nrows]; std::set<std::pair<long,long>> blocks;
            for (long i = 0; i < A.n; ++i) for (auto j = A.ptr[i]; j < A.ptr[i+1]; ++j) blocks.insert({ i / B, (long)A.col[j] / B });
            if (nb != blocks.size()) r.fail("number of stored blocks != number of touched blocks");
        }
        if (hybrid) { l << Y; r.tag("hybrid" + std::to_string(B)); }
        else { l << rows << cols << est << BAR; print(l, *Bm); l << BAR << Y; r.tag("block" + std::to_string(B)); }
        r.out = l.get();
        bool incomplete = false;
        { std::set<std::pair<long,long>> blocks; for (long i = 0; i < A.n; ++i) for (auto j = A.ptr[i]; j < A.ptr[i+1]; ++j) blocks.insert({ i / B, (long)A.col[j] / B }); incomplete = blocks.size() * B * B != A.col.size(); }
        if (incomplete) r.tag("incomplete"); if (!canonical) r.tag("noncanonical");
        r.nontrivial = !A.col.empty() && canonical;
        return r;
    }

    // ad_unblock
    static Result unblock(Cur &c) {
        Result r;
        long n = c.nat(), m = c.nat(); if (n < 0 || m < 0) throw bad_input("shape");
        std::vector<ptrdiff_t> ptr(1, 0), col; std::vector<Blk> val;
        for (long i = 0; i < n; ++i) {
            long k = c.nat(); if (k < 0) throw bad_input("k");
            for (long j = 0; j < k; ++j) { long cc = c.nat(); if (cc < 0 || cc >= m) throw bad_input("col"); col.push_back(cc); Blk v; for (int q = 0; q < B * B; ++q) v(q) = c.rat(); val.push_back(v); }
            ptr.push_back((ptrdiff_t)col.size());
        }
        c.expect_end();
        BCrs Bm((size_t)n, (size_t)m, ptr, col, val);
        auto U = amgcl::adapter::unblock_matrix(Bm);
        std::string why;
        if (!crs_wf(*U, why)) r.fail("unblock_matrix: " + why);
        if (U->nrows != (size_t)n * B || U->ncols != (size_t)m * B) r.fail("unblock_matrix: shape");
        if (!dense_eq(dense(*U), bdense(Bm))) r.fail("unblock_matrix: entries differ from the blocks");
        if ((size_t)U->ptr[U->nrows] != col.size() * B * B) r.fail("unblock_matrix: nnz != B*B*#blocks");
        if (bsorted(Bm)) {
            if (!crs_sorted_nodup(*U)) r.fail("unblock_matrix of a sorted block matrix is not sorted");
            BCrs back(amgcl::adapter::block_matrix<Blk>(*U));
            if (!bsame(back, Bm)) r.fail("block_matrix(unblock_matrix(B)) != B");
        } else r.tag("unsortedB");
        r.out = (Line() << *U).get(); r.tag("unblock" + std::to_string(B)); r.nontrivial = !col.empty();
        return r;
    }
};

// ---------------------------------------------------------------------------------------------- Eigen blocks
// block adapter with the Eigen block value type (value_type/eigen.hpp), double on exact-in-binary64 integer data
template <int B> static Result eigen_block(const Mat &A, const Q &al, const std::vector<Q> &x, const Q &be, const std::vector<Q> &y) {
    typedef Eigen::Matrix<double, B, B> Blk; typedef amgcl::backend::crs<Blk, ptrdiff_t, ptrdiff_t> BCrs;
    typedef amgcl::backend::crs<double, ptrdiff_t, ptrdiff_t> DCrs;
    Result r; Line l;
    std::vector<double> vd(A.val.size()), xd(x.size()), yd(y.size());
    for (size_t j = 0; j < vd.size(); ++j) vd[j] = A.val[j].v.get_d();
    for (size_t j = 0; j < xd.size(); ++j) xd[j] = x[j].v.get_d();
    for (size_t j = 0; j < yd.size(); ++j) yd[j] = y[j].v.get_d();
    DCrs Ad((size_t)A.n, (size_t)A.m, A.ptr, A.col, vd);
    const bool canonical = crs_sorted_nodup(*A.crs());
    std::shared_ptr<BCrs> Bm; size_t rows, cols, est;
    try {
        auto ad = amgcl::adapter::block_matrix<Blk>(Ad);
        rows = amgcl::backend::rows(ad); cols = amgcl::backend::cols(ad); est = amgcl::backend::nonzeros(ad);
        Bm = std::make_shared<BCrs>(ad);
    } catch (const std::runtime_error&) {
        if (A.n % B == 0 && A.m % B == 0) r.fail("block adapter rejected a block-aligned matrix");
        r.out = "precondition"; r.tag("indivisible"); return r;
    }
    // (numa_vector, not std::vector: reinterpret_as_rhs takes `&x[0]`, which is undefined for an EMPTY std::vector)
    amgcl::backend::numa_vector<double> xn(xd), yn(yd);
    auto Xb = amgcl::backend::reinterpret_as_rhs<Blk>(xn);
    auto Yb = amgcl::backend::reinterpret_as_rhs<Blk>(yn);
    amgcl::backend::spmv(al.v.get_d(), *Bm, Xb, be.v.get_d(), Yb);
    for (size_t i = 0; i < yd.size(); ++i) yd[i] = yn[i];
    std::vector<Q> yq(A.n); bool exact = true;
    for (long i = 0; i < A.n; ++i) { if (!(std::fabs(yd[i]) < 9007199254740992.0) || yd[i] != std::floor(yd[i])) exact = false; yq[i] = Q(yd[i]); }
    if (!exact) r.fail("result left the exactly representable integers");
    if (canonical) {
        Dense D(A.n, std::vector<Q>(A.m));
        for (size_t i = 0; i < Bm->nrows; ++i) for (auto j = Bm->ptr[i]; j < Bm->ptr[i+1]; ++j) for (int p = 0; p < B; ++p) for (int q = 0; q < B; ++q) D[i * B + p][Bm->col[j] * B + q] += Q(Bm->val[j](p, q));
        if (!dense_eq(D, dense(A))) r.fail("Eigen block matrix does not have the entries of the scalar matrix");
        std::vector<Q> ref = dmv(dense(A), x);
        for (long i = 0; i < A.n; ++i) ref[i] = (be == 0) ? ref[i] * al : ref[i] * al + y[i] * be;
        if (!veq(yq, ref)) r.fail("Eigen block SpMV on reinterpreted vectors != scalar SpMV");
    }
    l << rows << cols << est << BAR << Bm->nrows << Bm->ncols;
    for (size_t i = 0; i < Bm->nrows; ++i) { l << (long)(Bm->ptr[i+1] - Bm->ptr[i]); for (auto j = Bm->ptr[i]; j < Bm->ptr[i+1]; ++j) { l << (long)Bm->col[j]; for (int p = 0; p < B; ++p) for (int q = 0; q < B; ++q) l << Q(Bm->val[j](p, q)); } }
    l << BAR << yq;
    r.out = l.get(); r.tag("eigen_block" + std::to_string(B)); if (!canonical) r.tag("noncanonical");
    r.nontrivial = !A.col.empty() && canonical;
    return r;
}

// ---------------------------------------------------------------------------------------------- reorder
static std::vector<ptrdiff_t> g_perm;
struct fixed_order {
    template <class Matrix, class Vector> static void get(const Matrix&, Vector &perm) { for (size_t i = 0; i < g_perm.size(); ++i) perm[i] = g_perm[i]; }
};

// ---------------------------------------------------------------------------------------------- as_preconditioner / amg
template <class P> static std::vector<std::vector<Q>> apply_all(const P &p, long n, const std::vector<std::vector<Q>> &rhs) {
    std::vector<std::vector<Q>> out;
    for (auto &f : rhs) { NVec F = nvec(f), X(n); for (long i = 0; i < n; ++i) X[i] = Q::poisoned(); p.apply(F, X); out.push_back(to_std(X)); }
    return out;
}
static std::vector<std::vector<Q>> unit_vectors(long n) { std::vector<std::vector<Q>> e; for (long k = 0; k < n; ++k) { e.push_back(std::vector<Q>(n, Q(0))); e.back()[k] = Q(1); } return e; }
static bool full_diag(const Mat &A) { for (long i = 0; i < A.n; ++i) { bool d = false; for (auto j = A.ptr[i]; j < A.ptr[i+1]; ++j) if (A.col[j] == i) d = true; if (!d) return false; } return true; }
static Mat sorted_copy(const Mat &A) {
    auto rows = to_rows(A); for (auto &r : rows) std::stable_sort(r.begin(), r.end(), [](const std::pair<long,Q> &a, const std::pair<long,Q> &b) { return a.first < b.first; });
    return from_rows(A.n, A.m, rows);
}

// build P from the user's arrays through the tuple adapter (a "user matrix"), apply to all unit vectors; "throw" on exception
template <class P> struct Built { std::shared_ptr<P> p; bool threw = false; std::vector<std::vector<Q>> cols; };
template <class P, class Prm> static Built<P> build_from_user(const Mat &A, const Prm &prm) {
    Built<P> b; std::vector<ptrdiff_t> ptr(A.ptr), col(A.col); std::vector<Q> val(A.val); ptrdiff_t n = A.n;
    try { b.p = std::make_shared<P>(std::tie(n, ptr, col, val), prm); b.cols = apply_all(*b.p, A.n, unit_vectors(A.n)); }
    catch (const std::exception&) { b.threw = true; }
    return b;
}
template <class P, class Prm> static void order_oracle(Result &r, const Mat &A, const Prm &prm, const std::string &name) {
    auto s = build_from_user<P>(sorted_copy(A), prm);
    auto u = build_from_user<P>(A, prm);
    if (s.threw != u.threw) { r.fail(name + ": construction from the row-shuffled matrix " + (u.threw ? "throws" : "succeeds") + " while the sorted matrix " + (s.threw ? "throws" : "succeeds")); return; }
    if (!s.threw) for (size_t k = 0; k < s.cols.size(); ++k) if (!veq(s.cols[k], u.cols[k])) { r.fail(name + ": preconditioner built from the row-shuffled matrix differs from the one built from the sorted matrix (apply on unit vector " + std::to_string(k) + ")"); return; }
}


// Life cycle of a NON-OWNING view (adapter::zero_copy / zero_copy_direct): every member operation that replaces the contents of
// the view (copy assignment, move assignment) must leave the user's arrays alone (neither freed nor overwritten: the caller
// checks the contents afterwards and frees them itself -- ASan reports a double free) and must not lose the arrays the
// library allocates instead (LeakSanitizer, queried right after the objects are gone).
template <class MakeView, class Check>
static void view_life_cycle(Result &r, MakeView make_view, Check check) {
    {
        auto Z2 = make_view();
        typedef typename std::decay<decltype(*Z2)>::type M;
        M owned(*Z2);
        *Z2 = owned;                    // copy assignment INTO the view
        check(*Z2, "copy-assigned zero_copy view");
        auto Z3 = make_view();
        *Z3 = M(*Z2);                   // move assignment INTO the view
        check(*Z3, "move-assigned zero_copy view");
        M owned2; owned2 = *Z3;         // copy assignment from it into an empty owning matrix
        check(owned2, "copy of the assigned view");
    }
#if defined(__SANITIZE_ADDRESS__)
    if (__lsan_do_recoverable_leak_check()) r.fail("arrays allocated by an assignment into a zero_copy view were never freed (leak of owned arrays)");
#endif
}

static Result execute(const Toks &t) {
    Cur c(t); const std::string &op = t[0]; Result r;
    if (op == "ad_tuple") {
        std::string idx = c.tok(); long n = c.nat(); auto ptr = c.natvec(); auto col = c.natvec(); auto val = c.vec(); auto x = c.vec(); c.expect_end();
        if (n < 0 || (long)ptr.size() != n + 1 || (long)x.size() != n) throw bad_input("shape");
        if (ptr[0] < 0) throw bad_input("ptr");
        for (long i = 0; i < n; ++i) if (ptr[i] > ptr[i+1]) throw bad_input("ptr");
        if (ptr[n] > (long)col.size() || ptr[n] > (long)val.size()) throw bad_input("ptr[n]");
        for (long j = ptr[0]; j < ptr[n]; ++j) if (col[j] < 0 || col[j] >= n) throw bad_input("col");
        if (idx == "int") r = run_tuple<int>(n, ptr, col, val, x);
        else if (idx == "long") r = run_tuple<long>(n, ptr, col, val, x);
        else if (idx == "unsigned") r = run_tuple<unsigned>(n, ptr, col, val, x);
        else if (idx == "size_t") r = run_tuple<size_t>(n, ptr, col, val, x);
        else if (idx == "ptrdiff_t") r = run_tuple<ptrdiff_t>(n, ptr, col, val, x);
        else throw bad_input("idx");
        r.tag("tuple_" + idx); if (ptr[0] != 0) r.tag("ptrbase");
    } else if (op == "ad_zero_copy") {
        long kind = c.nat(); Mat A = checked(c); auto x = c.vec(); c.expect_end();
        if (kind < 0 || kind > 1 || (long)x.size() != A.m) throw bad_input("shape");
        Line l; NVec X = nvec(x), Y(A.n);
        if (kind == 0) {
            std::vector<ptrdiff_t> ptr(A.ptr), col(A.col); std::vector<Q> val(A.val);
            if (col.empty()) { col.reserve(1); val.reserve(1); }
            {
                auto Z = amgcl::adapter::zero_copy((size_t)A.n, (size_t)A.m, ptr.data(), col.data(), val.data());
                if ((const void*)Z->ptr != (const void*)ptr.data() || (const void*)Z->col != (const void*)col.data() || (const void*)Z->val != (const void*)val.data()) r.fail("zero_copy does not alias the user's arrays");
                if (Z->own_data) r.fail("zero_copy owns the data");
                if (Z->bytes() != 0) r.fail("zero_copy accounts user memory as its own");
                amgcl::backend::spmv(Q(1), *Z, X, Q(0), Y);
                check_rows(r, *Z, A, "zero_copy");
                l << Z->nrows << Z->ncols << Z->nnz << Z->own_data << BAR << *Z << BAR << Y << BAR << (long)(Z->own_data ? 3 : 0);
                { Crs copy(*Z); if (!copy.own_data) r.fail("copy of a zero_copy matrix must own its data"); check_rows(r, copy, A, "copy of zero_copy"); }
            }   // ~crs(): must not free the user's arrays (ASan would report the double free below)
            view_life_cycle(r, [&]() { return amgcl::adapter::zero_copy((size_t)A.n, (size_t)A.m, ptr.data(), col.data(), val.data()); },
                            [&](const auto &M, const char *what) { check_rows(r, M, A, what); });
            if (ptr != A.ptr || col != A.col) r.fail("zero_copy modified the user's index arrays");
            for (size_t j = 0; j < val.size(); ++j) if (val[j].v != A.val[j].v) r.fail("zero_copy modified the user's values");
        } else {
            std::vector<int> ptr(A.ptr.begin(), A.ptr.end()); std::vector<unsigned> col(A.col.begin(), A.col.end()); std::vector<Q> val(A.val);
            if (col.empty()) { col.reserve(1); val.reserve(1); }      // as for kind 0: non-null data() for a matrix without entries
            const std::vector<int> ptr0 = ptr; const std::vector<unsigned> col0 = col;
            {
                auto Z = amgcl::adapter::zero_copy_direct((size_t)A.n, (size_t)A.m, ptr.data(), col.data(), val.data());
                if (Z->ptr != ptr.data() || Z->col != col.data() || Z->val != val.data()) r.fail("zero_copy_direct does not alias the user's arrays");
                if (Z->own_data) r.fail("zero_copy_direct owns the data");
                amgcl::backend::spmv(Q(1), *Z, X, Q(0), Y);
                Crs copy(*Z); check_rows(r, copy, A, "zero_copy_direct");
                l << Z->nrows << Z->ncols << Z->nnz << Z->own_data << BAR << *Z << BAR << Y << BAR << (long)(Z->own_data ? 3 : 0);
            }
            view_life_cycle(r, [&]() { return amgcl::adapter::zero_copy_direct((size_t)A.n, (size_t)A.m, ptr.data(), col.data(), val.data()); },
                            [&](const auto &M, const char *what) { Crs cp(M); check_rows(r, cp, A, what); });
            if (ptr != ptr0 || col != col0) r.fail("zero_copy_direct modified the user's index arrays");
            for (size_t j = 0; j < val.size(); ++j) if (val[j].v != A.val[j].v) r.fail("zero_copy_direct modified the user's values");
        }
        if (!veq(to_std(Y), dmv(dense(A), x))) r.fail("zero_copy: spmv != A*x");
        r.out = l.get(); r.nontrivial = !A.col.empty(); r.tag(kind ? "zero_copy_direct" : "zero_copy"); tag_shape(r, A);
    } else if (op == "ad_builder") {
        Mat A = checked(c); auto x = c.vec(); c.expect_end();
        if (A.n != A.m || (long)x.size() != A.m) throw bad_input("shape");
        RowBuilder rb{&A};
        auto M = amgcl::adapter::make_matrix(rb);
        Crs C(M); NVec X = nvec(x), Y(A.n);
        amgcl::backend::spmv(Q(1), M, X, Q(0), Y);
        check_rows(r, C, A, "matrix_builder");
        if (amgcl::backend::rows(M) != (size_t)A.n || amgcl::backend::cols(M) != (size_t)A.n || amgcl::backend::nonzeros(M) != A.col.size()) r.fail("matrix_builder: rows/cols/nonzeros");
        if (!veq(to_std(Y), dmv(dense(A), x))) r.fail("matrix_builder: spmv != A*x");
        r.out = (Line() << amgcl::backend::rows(M) << amgcl::backend::cols(M) << BAR << C << BAR << Y).get();
        r.nontrivial = !A.col.empty(); r.tag("builder"); tag_shape(r, A);
    } else if (op == "ad_block" || op == "ad_hybrid") {
        long b = c.nat(); Mat A = checked(c); Q al = c.rat(); auto x = c.vec(); Q be = c.rat(); auto y = c.vec(); c.expect_end();
        if (b < 2 || b > 4 || (long)x.size() != A.m || (long)y.size() != A.n) throw bad_input("shape");
        bool hy = op == "ad_hybrid";
        r = b == 2 ? Blocks<2>::block(A, al, x, be, y, hy) : b == 3 ? Blocks<3>::block(A, al, x, be, y, hy) : Blocks<4>::block(A, al, x, be, y, hy);
    } else if (op == "ad_block_eigen") {
        long b = c.nat(); Mat A = checked(c); Q al = c.rat(); auto x = c.vec(); Q be = c.rat(); auto y = c.vec(); c.expect_end();
        if (b < 2 || b > 4 || (long)x.size() != A.m || (long)y.size() != A.n) throw bad_input("shape");
        auto is_small_int = [](const Q &q) { return q.v.get_den() == 1 && abs(q.v.get_num()) < (1L << 20); };
        for (auto &v : A.val) if (!is_small_int(v)) throw bad_input("integers"); for (auto &v : x) if (!is_small_int(v)) throw bad_input("integers");
        for (auto &v : y) if (!is_small_int(v)) throw bad_input("integers"); if (!is_small_int(al) || !is_small_int(be)) throw bad_input("integers");
        r = b == 2 ? eigen_block<2>(A, al, x, be, y) : b == 3 ? eigen_block<3>(A, al, x, be, y) : eigen_block<4>(A, al, x, be, y);
    } else if (op == "ad_unblock") {
        long b = c.nat(); if (b < 2 || b > 4) throw bad_input("b");
        r = b == 2 ? Blocks<2>::unblock(c) : b == 3 ? Blocks<3>::unblock(c) : Blocks<4>::unblock(c);
    } else if (op == "ad_complex") {
        typedef std::complex<Q> Cq;
        long n = c.nat(), m = c.nat(); if (n < 0 || m != n) throw bad_input("shape");      // the source is a tuple of ranges: square
        std::vector<ptrdiff_t> ptr(1, 0), col; std::vector<Cq> val;
        for (long i = 0; i < n; ++i) { long k = c.nat(); if (k < 0) throw bad_input("k"); for (long j = 0; j < k; ++j) { long cc = c.nat(); if (cc < 0 || cc >= m) throw bad_input("col"); col.push_back(cc); Q re = c.rat(), im = c.rat(); val.push_back(Cq(re, im)); } ptr.push_back((ptrdiff_t)col.size()); }
        long zn = c.nat(); if (zn != m) throw bad_input("z"); std::vector<Cq> z(zn); for (auto &e : z) { Q re = c.rat(), im = c.rat(); e = Cq(re, im); }
        c.expect_end();
        // complex_adapter needs `Base::col_type` of the source's row iterator: tuple adapters have it, backend::crs does not
        ptrdiff_t nn = n;
        auto A = std::tie(nn, ptr, col, val);
        auto ad = amgcl::adapter::complex_matrix(A);
        Crs R(ad);
        NVec Y(2 * n); for (long i = 0; i < 2 * n; ++i) Y[i] = Q::poisoned();
        if (!z.empty()) {                                               // complex_range takes `&rng[0]`: undefined for an empty vector (not exercised)
            auto zr = amgcl::adapter::complex_range(z);
            amgcl::backend::spmv(Q(1), ad, zr, Q(0), Y);               // real-equivalent operator on the real view of z
        }
        std::vector<Cq> w(n);
        amgcl::backend::spmv(Q(1), A, z, Q(0), w);                      // complex operator
        // oracle: Ahat*zhat is the real view of A*z, computed independently
        std::vector<Cq> ref(n, Cq(Q(0), Q(0)));
        for (long i = 0; i < n; ++i) for (auto j = ptr[i]; j < ptr[i+1]; ++j) {
            const Cq &a = val[j], &zz = z[col[j]];
            ref[i] = Cq(ref[i].real() + a.real() * zz.real() - a.imag() * zz.imag(), ref[i].imag() + a.real() * zz.imag() + a.imag() * zz.real());
        }
        for (long i = 0; i < n; ++i) {
            if (w[i].real().v != ref[i].real().v || w[i].imag().v != ref[i].imag().v) r.fail("complex spmv != A*z");
            if (Y[2*i].v != ref[i].real().v || Y[2*i+1].v != ref[i].imag().v) r.fail("real-equivalent spmv is not the real view of A*z");
        }
        Dense D = dense(R);
        for (long i = 0; i < n; ++i) for (long j = 0; j < m; ++j) {
            Cq s(Q(0), Q(0)); for (auto k = ptr[i]; k < ptr[i+1]; ++k) if (col[k] == j) s = Cq(s.real() + val[k].real(), s.imag() + val[k].imag());
            if (D[2*i][2*j].v != s.real().v || D[2*i+1][2*j+1].v != s.real().v || D[2*i+1][2*j].v != s.imag().v || D[2*i][2*j+1].v != (-s.imag()).v) r.fail("complex adapter entries are not [[a,-b],[b,a]]");
        }
        if (amgcl::backend::rows(ad) != (size_t)2 * n || amgcl::backend::cols(ad) != (size_t)2 * m || amgcl::backend::nonzeros(ad) != 4 * col.size() || (size_t)R.ptr[R.nrows] != 4 * col.size()) r.fail("complex adapter rows/cols/nonzeros");
        Line l; l << amgcl::backend::rows(ad) << amgcl::backend::cols(ad) << amgcl::backend::nonzeros(ad) << BAR << R << BAR << Y << BAR << (long)n;
        for (auto &e : w) { l << e.real(); l << e.imag(); }
        r.out = l.get(); r.nontrivial = !col.empty(); r.tag("complex"); if (n != m) r.tag("rect");
    } else if (op == "ad_reorder") {
        Mat A = checked(c); auto perm = c.natvec(); auto f = c.vec(); auto y = c.vec(); auto x0 = c.vec(); c.expect_end();
        long n = A.n;
        if (A.n != A.m || (long)perm.size() != n || (long)f.size() != n || (long)y.size() != n || (long)x0.size() != n) throw bad_input("shape");
        { std::vector<char> seen(n, 0); for (auto p : perm) { if (p < 0 || p >= n || seen[p]) throw bad_input("perm"); seen[p] = 1; } }   // `ordering::get` must return a permutation
        g_perm.assign(perm.begin(), perm.end());
        auto Ac = A.crs();
        amgcl::adapter::reorder<fixed_order> ro(*Ac);
        auto Bv = ro(*Ac);
        Crs Bm(Bv);
        std::vector<long> iperm(Bv.iperm, Bv.iperm + n);
        NVec F = nvec(f), Ff(n), Yv = nvec(y), X0 = nvec(x0), BY(n);
        ro.forward(F, Ff); ro.inverse(Yv, X0);
        amgcl::backend::spmv(Q(1), Bv, Yv, Q(0), BY);
        {
            // B = Pi A Pi^T with (Pi v)[i] = v[perm[i]]:  B[i][j] = A[perm i][perm j];  forward = Pi, inverse = Pi^T
            Dense D = dense(A), DB = dense(Bm);
            for (long i = 0; i < n; ++i) for (long j = 0; j < n; ++j) if (DB[i][j].v != D[perm[i]][perm[j]].v) { r.fail("reordered matrix is not Pi*A*Pi^T"); i = n; break; }
            for (long i = 0; i < n; ++i) { if (Ff[i].v != f[perm[i]].v) r.fail("forward is not Pi"); if (X0[perm[i]].v != y[i].v) r.fail("inverse is not Pi^T"); if (iperm[perm[i]] != i) r.fail("iperm is not the inverse permutation"); }
            // B y == Pi (A (Pi^T y))
            std::vector<Q> Ax = dmv(D, to_std(X0));
            for (long i = 0; i < n; ++i) if (BY[i].v != Ax[perm[i]].v) { r.fail("(Pi A Pi^T) y != Pi (A (Pi^T y))"); break; }
            // the view reordered_vector agrees with forward
            std::vector<Q> fstd(f); auto fv = ro(fstd);                    // (numa_vector has no iterator typedefs: std::vector)
            for (long i = 0; i < n; ++i) if (fv[i].v != Ff[i].v) { r.fail("reordered_vector view != forward"); break; }
            if (fv.size() != (size_t)n) r.fail("reordered_vector size");
            if (amgcl::backend::rows(Bv) != (size_t)n || amgcl::backend::cols(Bv) != (size_t)n || amgcl::backend::nonzeros(Bv) != A.col.size()) r.fail("reordered_matrix rows/cols/nonzeros");
        }
        r.out = (Line() << iperm << BAR << Bm << BAR << Ff << BAR << X0 << BAR << BY).get();
        r.nontrivial = n > 1 && !A.col.empty(); r.tag("reorder"); tag_shape(r, A);
    } else if (op == "ad_scaled") {
        Mat A = checked(c); auto s = c.vec(); auto f = c.vec(); c.expect_end();
        long n = A.n; if (A.n != A.m || (long)s.size() != n || (long)f.size() != n) throw bad_input("shape");
        // scaled_matrix::row_iterator derives from the source's row iterator and constructs it from (A, i): tuple adapters only
        std::vector<ptrdiff_t> ptr(A.ptr), col(A.col); std::vector<Q> val(A.val); ptrdiff_t nn = n;
        auto At = std::tie(nn, ptr, col, val);
        amgcl::adapter::scaled_problem<Backend, std::vector<Q>> sp(std::make_shared<std::vector<Q>>(s));
        auto Sm = sp.matrix(At);
        Crs C(Sm);
        NVec F = nvec(f); sp(F);
        auto Fr = sp.rhs(f);
        Dense D = dense(A), DS = dense(C);
        for (long i = 0; i < n; ++i) { for (long j = 0; j < n; ++j) if (DS[i][j].v != (s[i] * D[i][j] * s[j]).v) r.fail("scaled matrix is not S*A*S"); if (F[i].v != (s[i] * f[i]).v || (*Fr)[i].v != F[i].v) r.fail("scaled rhs is not S*f"); }
        if (amgcl::backend::rows(Sm) != (size_t)n || amgcl::backend::cols(Sm) != (size_t)n || amgcl::backend::nonzeros(Sm) != A.col.size()) r.fail("scaled_matrix rows/cols/nonzeros");
        r.out = (Line() << C << BAR << F).get(); r.nontrivial = !A.col.empty(); r.tag("scaled"); tag_shape(r, A);
    } else if (op == "ad_scale_diag") {
        Mat A = checked(c); c.expect_end(); if (A.n != A.m) throw bad_input("shape");
        std::vector<ptrdiff_t> ptr(A.ptr), col(A.col); std::vector<Q> val(A.val); ptrdiff_t nn = A.n;
        auto sp = amgcl::adapter::scale_diagonal<Backend>(std::tie(nn, ptr, col, val));
        const std::vector<Q> &s = *sp.s;
        for (long i = 0; i < A.n; ++i) {
            Q d(0); bool has = false; for (auto j = A.ptr[i]; j < A.ptr[i+1] && !has; ++j) if (A.col[j] == i) { d = A.val[j]; has = true; }
            Q ref = has ? Q(1) / vq::sqrt(vq::abs(d)) : Q(0);
            if (s[i].v != ref.v) r.fail("scale_diagonal: s[i] != 1/sqrt(|a_ii|)");
        }
        r.out = (Line() << s).get(); r.nontrivial = A.n > 0; r.tag("scale_diag");
    } else if (op == "ad_eigen" || op == "ad_ublas") {
        Mat A = checked(c); auto x = c.vec(); c.expect_end();
        if ((long)x.size() != A.m) throw bad_input("shape");
        auto is_small_int = [](const Q &q) { return q.v.get_den() == 1 && abs(q.v.get_num()) < (1L << 20); };
        for (auto &v : A.val) if (!is_small_int(v)) throw bad_input("eigen/ublas ops take small integers");
        for (auto &v : x) if (!is_small_int(v)) throw bad_input("eigen/ublas ops take small integers");
        std::vector<double> xd(x.size()); for (size_t i = 0; i < x.size(); ++i) xd[i] = x[i].v.get_d();
        typedef amgcl::backend::crs<double, ptrdiff_t, ptrdiff_t> DCrs;
        std::shared_ptr<DCrs> C; size_t rows, cols, nnz; std::vector<double> yd(A.n, std::nan(""));
        if (op == "ad_eigen") {
            std::vector<int> ptr(A.ptr.begin(), A.ptr.end()), col(A.col.begin(), A.col.end()); std::vector<double> val(A.val.size());
            for (size_t j = 0; j < val.size(); ++j) val[j] = A.val[j].v.get_d();
            if (col.empty()) { col.reserve(1); val.reserve(1); }
            typedef Eigen::SparseMatrix<double, Eigen::RowMajor, int> ESp;
            Eigen::Map<ESp> M(A.n, A.m, (int)col.size(), ptr.data(), col.data(), val.data());
            rows = amgcl::backend::rows(M); cols = amgcl::backend::cols(M); nnz = amgcl::backend::nonzeros(M);
            C = std::make_shared<DCrs>(M);
            if (crs_sorted_nodup(*A.crs())) {                             // an owning Eigen matrix through the same adapter (Eigen itself requires sorted inner indices)
                ESp M2 = M; DCrs C2(M2);
                bool same = C2.nrows == C->nrows && C2.ncols == C->ncols && C2.ptr[C2.nrows] == C->ptr[C->nrows];
                for (ptrdiff_t j = 0; same && j < C2.ptr[C2.nrows]; ++j) same = C2.col[j] == C->col[j] && C2.val[j] == C->val[j];
                if (!same) r.fail("Eigen::SparseMatrix and its Map give different copies");
            }
            amgcl::backend::spmv(1.0, *C, xd, 0.0, yd);
        } else {
            if (A.n != A.m || !crs_sorted_nodup(*A.crs())) throw bad_input("ublas: square, sorted");
            boost::numeric::ublas::compressed_matrix<double, boost::numeric::ublas::row_major> M(A.n, A.m, A.col.size());
            for (long i = 0; i < A.n; ++i) for (auto j = A.ptr[i]; j < A.ptr[i+1]; ++j) M.push_back(i, A.col[j], A.val[j].v.get_d());
            M.complete_index1_data();
            auto T = amgcl::backend::map(M);
            rows = amgcl::backend::rows(T); cols = amgcl::backend::cols(T); nnz = amgcl::backend::nonzeros(T);
            C = std::make_shared<DCrs>(T);
            boost::numeric::ublas::vector<double> xu(A.m), yu(A.n); for (long i = 0; i < A.m; ++i) xu[i] = xd[i];
            amgcl::backend::spmv(1.0, T, xu, 0.0, yu);                   // uBlas vectors are builtin vectors
            for (long i = 0; i < A.n; ++i) yd[i] = yu[i];
        }
        // exactness + oracle
        std::vector<Q> yq(A.n); bool exact = true;
        for (long i = 0; i < A.n; ++i) { if (!(std::fabs(yd[i]) < 9007199254740992.0) || yd[i] != std::floor(yd[i])) exact = false; yq[i] = Q(yd[i]); }
        if (!exact) r.fail("result left the exactly representable integers");
        if (!veq(yq, dmv(dense(A), x))) r.fail(op + ": spmv != A*x");
        Crs CQ; { std::vector<ptrdiff_t> p(C->ptr, C->ptr + C->nrows + 1), cc(C->col, C->col + C->ptr[C->nrows]); std::vector<Q> vv(C->ptr[C->nrows]); for (size_t j = 0; j < vv.size(); ++j) vv[j] = Q(C->val[j]); CQ = Crs(C->nrows, C->ncols, p, cc, vv); }
        check_rows(r, CQ, A, op.c_str());
        if (rows != (size_t)A.n || cols != (size_t)A.m || nnz != A.col.size()) r.fail(op + ": rows/cols/nonzeros");
        r.out = (Line() << rows << cols << nnz << BAR << CQ << BAR << yq).get(); r.nontrivial = !A.col.empty(); r.tag(op.substr(3)); tag_shape(r, A);
    } else if (op == "ad_asprec") {
        long kind = c.nat(); Mat A = checked(c); long m = c.nat(); if (m < 0 || m > 64) throw bad_input("m");
        std::vector<std::vector<Q>> rhs; for (long k = 0; k < m; ++k) rhs.push_back(c.vec()); c.expect_end();
        if (kind < 0 || kind > 1 || A.n != A.m || !full_diag(A)) throw bad_input("shape");
        for (auto &f : rhs) if ((long)f.size() != A.n) throw bad_input("rhs");
        typedef amgcl::relaxation::as_preconditioner<Backend, amgcl::relaxation::ilu0> P;
        P::params prm; prm.solve.serial = true;
        Line l;
        try {
            std::shared_ptr<P> p; std::shared_ptr<Crs> shared;
            std::vector<ptrdiff_t> ptr(A.ptr), col(A.col); std::vector<Q> val(A.val); ptrdiff_t n = A.n;
            if (kind == 0) p = std::make_shared<P>(std::tie(n, ptr, col, val), prm);
            else { shared = A.crs(); p = std::make_shared<P>(shared, prm); }
            l << p->system_matrix();
            for (auto &x : apply_all(*p, A.n, rhs)) { l << BAR; l << x; }
            if (kind == 1) check_rows(r, *shared, A, "as_preconditioner(shared_ptr) reordered the user's matrix: ");
            if (ptr != A.ptr || col != A.col) r.fail("as_preconditioner modified the user's arrays");
        } catch (const std::exception&) { l = Line(); l << "precondition"; }
        r.out = l.get();
        // C17, last clause: a preconditioner built from a user matrix with arbitrarily ordered row entries equals the one
        // built from the sorted matrix
        if (kind == 0 && crs_nodup(*A.crs())) order_oracle<P>(r, A, prm, "relaxation::as_preconditioner<ilu0>");
        r.nontrivial = A.n > 1 && !crs_sorted_nodup(*A.crs()); r.tag(kind ? "asprec_shared" : "asprec_user"); tag_shape(r, A);
    } else if (op == "ad_amg_sort") {
        Mat A = checked(c); c.expect_end(); if (A.n != A.m) throw bad_input("shape");
        typedef amgcl::amg<Backend, amgcl::coarsening::smoothed_aggregation, amgcl::relaxation::ilu0> AMG1;
        typedef amgcl::amg<Backend, amgcl::coarsening::aggregation, amgcl::relaxation::gauss_seidel> AMG2;
        typedef amgcl::amg<Backend, amgcl::coarsening::ruge_stuben, amgcl::relaxation::spai0> AMG3;
        AMG1::params p1; p1.coarse_enough = 2; p1.relax.solve.serial = true; AMG2::params p2; p2.coarse_enough = 2; p2.relax.serial = true; AMG3::params p3; p3.coarse_enough = 2;
        Line l;
        try {
            std::vector<ptrdiff_t> ptr(A.ptr), col(A.col); std::vector<Q> val(A.val); ptrdiff_t n = A.n;
            AMG2 amg(std::tie(n, ptr, col, val), p2);
            l << amg.system_matrix();
            if (!crs_sorted_nodup(amg.system_matrix()) && crs_nodup(*A.crs())) r.fail("amg: system matrix rows not sorted");
            if (!dense_eq(dense(amg.system_matrix()), dense(A))) r.fail("amg: system matrix differs from the input");
            if (ptr != A.ptr || col != A.col) r.fail("amg modified the user's arrays");
        } catch (const std::exception&) { l = Line(); l << "precondition"; }
        r.out = l.get();
        if (crs_nodup(*A.crs()) && full_diag(A)) {
            order_oracle<AMG1>(r, A, p1, "amg<smoothed_aggregation, ilu0>");
            order_oracle<AMG2>(r, A, p2, "amg<aggregation, gauss_seidel>");
            order_oracle<AMG3>(r, A, p3, "amg<ruge_stuben, spai0>");
        }
        r.nontrivial = A.n > 2 && !crs_sorted_nodup(*A.crs()); r.tag("amg_sort"); tag_shape(r, A);
    } else {
        r.out = "bad-op";
    }
    return r;
}

#ifndef ADAPTERS_FAMILY
#define ADAPTERS_FAMILY 17
#endif
static void generate(Rng &rng, const Opts &o, std::vector<std::string> &lines) { gen_adapter_ops(rng, o, lines, ADAPTERS_FAMILY); }

VH_MAIN(generate, execute)
