// h_lockstep.cpp — C12: the BiCGStab(L) / IDR(s) PROGRAMS over the solver instruction set against the REAL code.
//
//   lockstep_bicgstabl  side L delta convex maxiter tol abstol ns          A PREC f x0
//   lockstep_idrs       s omega smoothing replacement maxiter tol abstol ns   A PREC f x0  RAW
//
// The implementation side is EXACTLY the one of h_solvers2.cpp (the real amgcl::solver::bicgstabl / idrs templates at the
// exact rational type Q, called through operator()(A, P, rhs, x); the oracles listed there: reported residual = true
// residual recomputed densely, iteration bounds, ...): this file includes h_solvers2.cpp, takes the `solve_bicgstabl` /
// `solve_idrs` lines (and the malformed lines for these two solvers) of its generator, renames the op, and answers a
// `lockstep_*` op by executing the corresponding `solve_*` op.  What differs is the MODEL side: the Lean driver answers
// `lockstep_*` with the serial semantics of the instruction-set programs of Model/LockstepBiCGStabL.lean /
// Model/LockstepIDRs.lean (Driver/LockstepKry.lean) — the programs for which Properties/C12e.lean proves
// "rank-local run with MPI_Allreduce inner products = serial run, all ranks the same (iters, resid)".
#include "proto.hpp"
#undef VH_MAIN
#define VH_MAIN(gen, exec)
#include "h_solvers2.cpp"

static bool starts_with(const std::string &s, const char *p) { return s.compare(0, strlen(p), p) == 0; }

static void generate_ls(vh::Rng &rng, const vh::Opts &o, std::vector<std::string> &lines) {
    std::vector<std::string> all;
    generate(rng, o, all);
    for (auto &l : all) {
        if (starts_with(l, "solve_bicgstabl ")) lines.push_back("lockstep_bicgstabl " + l.substr(strlen("solve_bicgstabl ")));
        else if (starts_with(l, "solve_idrs ")) lines.push_back("lockstep_idrs " + l.substr(strlen("solve_idrs ")));
    }
}

static vh::Result execute_ls(const vh::Toks &t) {
    vh::Toks u = t;
    if (!u.empty() && u[0] == "lockstep_bicgstabl") u[0] = "solve_bicgstabl";
    else if (!u.empty() && u[0] == "lockstep_idrs") u[0] = "solve_idrs";
    else if (!u.empty() && (u[0] == "solve_bicgstabl" || u[0] == "solve_idrs")) u[0] = "unknown_op";
    return execute(u);
}

int main(int argc, char **argv) { return vh::harness_main(argc, argv, generate_ls, execute_ls); }
