// C04 harness: coarsening::rigid_body_modes and its composition with the null-space branch of tentative_prolongation.
// rigid_body_modes(int ndim, const Vector &coo, std::vector<double> &B, bool transpose) is a template in the coordinate
// container only: B and every operation on it (1/sqrt(n), dot products, sqrt(s), division) are double.  So the op lines
// carry the implementation's output (exact rational values of the doubles) and the Lean driver compares it with the model
// run at Rat with a 2^-60 rational square root, entrywise up to tol (lean/Amgcl/Driver/RigidBodyModes.lean):
//   rbm_modes      ndim transpose tol coo[] B0[] B[]        -> precondition | nmodes close
//   rbm_degenerate ndim transpose coo[] B0[]                -> precondition | nonfinite | finite   (0/0 in a normalisation)
//   rbm_ptent      ndim tol eps A coo[] B[] P Bc[]          -> empty_level | count id[] close shape repro ortho
//                  (A square with block structure ndim; aggregates = real pointwise_aggregates(A, eps, block_size = ndim,
//                   min_aggregate = nmodes), compared exactly with the Lean model of C04; then as ptent_ns)
//   rbm_nsparams   cols B[]                                 -> precondition | cols B[]   (nullspace_params(ptree): rows*cols values copied)
// B0 = what the caller's vector holds on entry (B.resize keeps it).  execute re-runs the real code and requires the
// values in the op line to be bitwise the implementation's output.
// Implementation-side oracles (exact arithmetic on the doubles, independent of the Lean model):
//   translation entries: one value sn with |sn^2 n - 1| <= 2^-40 at (i, i % ndim), zero elsewhere, in the storage order
//   selected by `transpose`; rotation columns have unit norm; every output column lies in the span of the translations
//   and the infinitesimal rotations w x X evaluated at the nodes (exact least squares, residual <= 2^-30 relative) and
//   vice versa; rbm_ptent: P_tent has nmodes entries per aggregated row in the columns of its block aggregate,
//   P_tent * B_coarse == B on aggregated rows and P_tent^T P_tent == I up to tol.
//   The columns of B are NOT orthonormal (sn = 1/sqrt(ndim * nodes)): tagged `gram_not_identity`, not a failure of C04
//   (see notes/repro_rbm_not_orthonormal.cpp).
#include "gen.hpp"
#include <cmath>
#include <amgcl/backend/builtin.hpp>
#include <amgcl/value_type/interface.hpp>
#include <amgcl/coarsening/plain_aggregates.hpp>
#include <amgcl/coarsening/pointwise_aggregates.hpp>
#include <amgcl/coarsening/tentative_prolongation.hpp>
#include <amgcl/coarsening/rigid_body_modes.hpp>
using namespace vh;
namespace ac = amgcl::coarsening;

static double as_double(const Q &q) {
    if (q.poison) throw bad_input("poison");
    double d = q.v.get_d();
    if (!(Q(d) == q)) throw bad_input("not a double");
    return d;
}
static float as_float(const Q &q) {
    if (q.poison) throw bad_input("poison");
    float f = (float)q.v.get_d();
    if (!(Q(f) == q)) throw bad_input("not a float");
    return f;
}
static std::vector<double> as_doubles(const std::vector<Q> &v) { std::vector<double> d; for (auto &q : v) d.push_back(as_double(q)); return d; }
static std::vector<Q> as_rats(const std::vector<double> &v) { std::vector<Q> q; for (double d : v) q.push_back(Q(d)); return q; }
static bool all_finite(const std::vector<double> &v) { for (double d : v) if (!std::isfinite(d)) return false; return true; }
static bool same_bits(const std::vector<double> &a, const std::vector<Q> &b) { if (a.size() != b.size()) return false; for (size_t k = 0; k < a.size(); ++k) if (!std::isfinite(a[k]) || !(Q(a[k]) == b[k])) return false; return true; }
static Q qabs(const Q &x) { return x < 0 ? -x : x; }
static bool within(const Q &tol, const Q &x) { return !(tol < x) && !(tol < -x); }

struct RbmOut { bool precondition = false; int nm = 0; std::vector<double> B; };
static RbmOut run_rbm(long ndim, bool tr, const std::vector<double> &coo, const std::vector<double> &B0) {
    RbmOut o; o.B = B0;
    try { o.nm = ac::rigid_body_modes((int)ndim, coo, o.B, tr); }
    catch (const std::runtime_error &) { o.precondition = true; }
    return o;
}

// translations (indicator of the component) and infinitesimal rotations w x X at the nodes, from the definition
static std::vector<std::vector<Q>> definition_modes(long ndim, const std::vector<Q> &coo) {
    long n = (long)coo.size(), nm = ndim == 2 ? 3 : 6;
    std::vector<std::vector<Q>> M(nm, std::vector<Q>(n, Q(0)));
    for (long nod = 0; nod < n / ndim; ++nod) {
        for (long d = 0; d < ndim; ++d) M[d][nod * ndim + d] = Q(1);
        if (ndim == 2) { Q x = coo[nod*2], y = coo[nod*2+1]; M[2][nod*2] = -y; M[2][nod*2+1] = x; }          // e_z x X
        else { Q x = coo[nod*3], y = coo[nod*3+1], z = coo[nod*3+2];
            M[3][nod*3] = y;  M[3][nod*3+1] = -x;                                                            // (-e_z) x X
            M[4][nod*3+1] = -z; M[4][nod*3+2] = y;                                                           // e_x x X
            M[5][nod*3] = z;  M[5][nod*3+2] = -x; }                                                          // e_y x X
    }
    return M;
}
static Q dotq(const std::vector<Q> &a, const std::vector<Q> &b) { Q s(0); for (size_t k = 0; k < a.size(); ++k) s += a[k] * b[k]; return s; }
// squared distance of c from span(M) (exact least squares through the normal equations, dependent columns skipped)
static Q dist2_to_span(const std::vector<std::vector<Q>> &M, const std::vector<Q> &c) {
    // Gram-Schmidt over Q without normalisation (exact): orthogonal basis of span(M)
    std::vector<std::vector<Q>> U;
    for (auto m : M) { for (auto &u : U) { Q f = dotq(m, u) / dotq(u, u); for (size_t k = 0; k < m.size(); ++k) m[k] -= f * u[k]; } if (!(dotq(m, m) == 0)) U.push_back(m); }
    std::vector<Q> r = c; for (auto &u : U) { Q f = dotq(r, u) / dotq(u, u); for (size_t k = 0; k < r.size(); ++k) r[k] -= f * u[k]; }
    return dotq(r, r);
}
static void rbm_oracles(Result &r, long ndim, bool tr, const std::vector<Q> &coo, bool prefilled, const RbmOut &o) {
    long n = (long)coo.size(), nm = ndim == 2 ? 3 : 6;
    if (o.nm != nm) { r.fail("return value != nmodes"); return; }
    if ((long)o.B.size() != n * nm) { r.fail("B.size() != n * nmodes"); return; }
    if (prefilled || n == 0) return;
    auto at = [&](long i, long k) { return Q(tr ? o.B[i + k * n] : o.B[i * nm + k]); };
    std::vector<std::vector<Q>> C(nm, std::vector<Q>(n));
    for (long k = 0; k < nm; ++k) for (long i = 0; i < n; ++i) C[k][i] = at(i, k);
    Q sn = C[0][0], eps40 = Q::frac(1, 1L << 40), eps30 = Q::frac(1, 1L << 30);
    if (!within(eps40, sn * sn * Q(n) - Q(1)) || !(sn > 0)) r.fail("translation entry sn: sn^2 * n != 1");
    for (long k = 0; k < ndim; ++k) for (long i = 0; i < n; ++i) if (!(C[k][i] == (i % ndim == k ? sn : Q(0)))) r.fail("translation column is not sn * indicator of its component (storage order?)");
    for (long k = ndim; k < nm; ++k) if (!within(eps30, dotq(C[k], C[k]) - Q(1))) r.fail("rotation column does not have unit norm");
    auto M = definition_modes(ndim, coo);
    for (long k = 0; k < nm; ++k) if (eps30 * eps30 * (Q(1) + dotq(C[k], C[k])) < dist2_to_span(M, C[k])) r.fail("output column not in the span of translations and rotations w x X");
    for (long k = 0; k < nm; ++k) if (eps30 * eps30 * (Q(1) + dotq(M[k], M[k])) < dist2_to_span(C, M[k])) r.fail("a rigid body mode (translation / rotation w x X) is not in the span of the output columns");
    bool gram = true; for (long a = 0; a < nm; ++a) for (long b = 0; b < nm; ++b) if (!within(eps30, dotq(C[a], C[b]) - Q(a == b ? 1 : 0))) gram = false;
    r.tag(gram ? "gram_identity" : "gram_not_identity");
}

typedef Cur::Mat Mat;
static Mat to_mat(const Crs &P) { Mat M; M.n = P.nrows; M.m = P.ncols; M.ptr.assign(P.ptr, P.ptr + P.nrows + 1); M.col.assign(P.col, P.col + P.ptr[P.nrows]); M.val.assign(P.val, P.val + P.ptr[P.nrows]); return M; }
static bool same_mat(const Mat &a, const Mat &b) { if (a.n != b.n || a.m != b.m || a.ptr != b.ptr || a.col != b.col || a.val.size() != b.val.size()) return false; for (size_t k = 0; k < a.val.size(); ++k) if (!(a.val[k] == b.val[k])) return false; return true; }
struct NsOut { Mat P; std::vector<Q> Bc; bool took = true; };
// nullspace_params through its property-tree constructor (cols / rows / B pointer), tentative_prolongation.hpp:77-106
static ac::nullspace_params ns_from_ptree(long cols, size_t rows, std::vector<double> &B) {
    boost::property_tree::ptree p;
    p.put("cols", (int)cols); p.put("rows", rows); if (!B.empty()) p.put("B", static_cast<void*>(B.data()));
    return ac::nullspace_params(p);
}
static NsOut ns_run(long bs, long cols, long naggr, const std::vector<ptrdiff_t> &id, std::vector<double> B) {
    ac::nullspace_params ns = ns_from_ptree(cols, id.size(), B);
    NsOut o; o.took = ns.cols == cols && ns.B == B;
    if (!o.took) return o;
    auto P = ac::tentative_prolongation<Crs>(id.size(), (size_t)naggr, id, ns, (int)bs);
    o.P = to_mat(*P); for (double d : ns.B) o.Bc.push_back(Q(d)); return o;
}

// ------------------------------------------------------------------ execute
static bool flag(Cur &c) { long v = c.nat(); if (v != 0 && v != 1) throw bad_input("flag"); return v == 1; }
static Result execute(const Toks &t) {
    Cur c(t);
    const std::string &op = t[0];
    Result r;
    if (op == "rbm_modes") {
        long ndim = c.nat(); bool tr = flag(c); Q tol = c.rat(); auto coo = c.vec(); auto B0 = c.vec(); auto B = c.vec(); c.expect_end();
        if (ndim < 0) throw bad_input("ndim");
        RbmOut o = run_rbm(ndim, tr, as_doubles(coo), as_doubles(B0)); (void)as_doubles(B);
        if (o.precondition) { r.out = "precondition"; r.tag("precondition"); r.nontrivial = true; return r; }
        if (!same_bits(o.B, B)) r.fail("B in the op line is not the implementation's output");
        rbm_oracles(r, ndim, tr, coo, !B0.empty(), o);
        r.out = (Line() << (long)o.nm << true).get();
        r.nontrivial = coo.size() >= (size_t)ndim;
        r.tag("rbm_" + std::to_string(ndim) + "d"); r.tag(tr ? "transposed" : "rowmajor"); if (!B0.empty()) r.tag("prefilled"); (void)tol;
    } else if (op == "rbm_degenerate") {
        long ndim = c.nat(); bool tr = flag(c); auto coo = c.vec(); auto B0 = c.vec(); c.expect_end();
        if (ndim < 0) throw bad_input("ndim");
        RbmOut o = run_rbm(ndim, tr, as_doubles(coo), as_doubles(B0));
        if (o.precondition) { r.out = "precondition"; r.tag("precondition"); r.nontrivial = true; return r; }
        bool fin = all_finite(o.B);
        r.out = fin ? "finite" : "nonfinite";
        // independent oracle: non-finite output only when the rigid body modes of the nodes are linearly dependent
        if (!fin && B0.empty()) { auto M = definition_modes(ndim, coo); bool dep = false; for (size_t k = 0; k < M.size(); ++k) { auto rest = M; rest.erase(rest.begin() + k); if (dist2_to_span(rest, M[k]) == 0) dep = true; } if (!dep) r.fail("non-finite output although the rigid body modes are linearly independent"); }
        r.nontrivial = !fin; r.tag(fin ? "finite" : "nonfinite");
    } else if (op == "rbm_ptent") {
        long ndim = c.nat(); Q tol = c.rat(); float eps = as_float(c.rat()); auto A = c.mat(); auto coo = c.vec(); auto B = c.vec(); auto P = c.mat(); auto Bc = c.vec(); c.expect_end();
        if (ndim != 2 && ndim != 3) throw bad_input("param");
        long cols = ndim == 2 ? 3 : 6, n = (long)coo.size();
        { std::string why; auto Ac = A.crs(); if (!crs_wf(*Ac, why) || A.n != A.m || A.n != n || n % ndim) throw bad_input("shape"); }
        std::vector<ptrdiff_t> id; long naggr = 0;
        try {
            auto Ac = A.crs(); ac::pointwise_aggregates::params ap; ap.eps_strong = eps; ap.block_size = (unsigned)ndim;
            ac::pointwise_aggregates ag(*Ac, ap, (unsigned)cols); id = ag.id; naggr = (long)ag.count;
        } catch (const amgcl::error::empty_level &) { r.out = "empty_level"; r.tag("empty_level"); return r; }
        catch (const std::runtime_error &) { throw bad_input("pointwise_aggregates precondition"); }
        std::string why; auto Pc = P.crs();
        if (B.size() != (size_t)n * (size_t)cols || !crs_wf(*Pc, why) || P.m != (naggr / ndim) * cols || (long)Bc.size() != (naggr / ndim) * cols * cols) throw bad_input("shape");
        RbmOut o = run_rbm(ndim, false, as_doubles(coo), {}); (void)as_doubles(B);
        if (o.precondition || !same_bits(o.B, B)) r.fail("B in the op line is not the output of rigid_body_modes");
        rbm_oracles(r, ndim, false, coo, false, o);
        NsOut ns = ns_run(ndim, cols, naggr, id, as_doubles(B));
        if (!ns.took) r.fail("nullspace_params(ptree) did not take over cols / B");
        bool rep = same_mat(ns.P, P) && ns.Bc.size() == Bc.size(); for (size_t k = 0; rep && k < Bc.size(); ++k) if (!(ns.Bc[k] == Bc[k])) rep = false;
        if (!rep) r.fail("P / B_coarse in the op line are not the implementation's output");
        bool shape = P.n == n, repro = true, ortho = true;
        for (long i = 0; shape && i < n; ++i) {
            long k = P.ptr[i+1] - P.ptr[i];
            if (id[i] < 0) shape = k == 0;
            else { shape = k == cols; for (long jj = 0; shape && jj < cols; ++jj) shape = P.col[P.ptr[i] + jj] == (id[i] / ndim) * cols + jj; }
        }
        for (long i = 0; i < n; ++i) if (id[i] >= 0) for (long k = 0; k < cols; ++k) {
            Q s(0); for (auto j = P.ptr[i]; j < P.ptr[i+1]; ++j) { size_t bi = (size_t)P.col[j] * cols + k; s += P.val[j] * (bi < Bc.size() ? Bc[bi] : Q(0)); }
            if (!within(tol, s - B[i * cols + k])) repro = false;
        }
        { Dense D = dense(P); for (long a = 0; a < P.m; ++a) for (long b2 = 0; b2 < P.m; ++b2) { Q g(0); for (long i = 0; i < P.n; ++i) g += D[i][a] * D[i][b2]; if (!within(tol, g - Q(a == b2 ? 1 : 0))) ortho = false; } }
        { Line l; l << naggr; l << (size_t)id.size(); for (auto v : id) l << (long)v; l << true << shape << repro << ortho; r.out = l.get(); }
        if (!shape) r.fail("rigid body modes: P_tent has the wrong shape"); if (!repro) r.fail("rigid body modes: P_tent * B_coarse != B on aggregated rows (beyond tol)"); if (!ortho) r.fail("rigid body modes: columns of P_tent not orthonormal (beyond tol)");
        r.nontrivial = P.col.size() > 0; r.tag("rbm_ptent_" + std::to_string(ndim) + "d");
    } else if (op == "rbm_nsparams") {
        long cols = c.nat(); auto B = c.vec(); c.expect_end();
        if (cols < 0 || (cols > 0 && B.size() % (size_t)cols)) throw bad_input("shape");
        std::vector<double> Bd = as_doubles(B);
        try {
            ac::nullspace_params ns = ns_from_ptree(cols, cols > 0 ? B.size() / cols : B.size(), Bd);
            r.out = (Line() << (long)ns.cols << as_rats(ns.B)).get();
            if (ns.cols != cols || ns.B != Bd) r.fail("nullspace_params(ptree) did not take over cols / B (rows * cols values)");
            r.nontrivial = !B.empty(); r.tag("nsparams");
        } catch (const std::runtime_error &) { r.out = "precondition"; r.tag("precondition"); r.nontrivial = true; }
    } else {
        r.out = "bad-op";
    }
    return r;
}

// ------------------------------------------------------------------ generate
static Q coord(Rng &rng, int kind) { return kind == 0 ? Q(rng.range(-6, 6)) : (kind == 1 ? Q::frac(rng.range(-24, 24), 4) : Q(rng.range(0, 3))); }
static Mat kron_eye(const Mat &A, long b) {
    std::vector<std::vector<std::pair<long,Q>>> rows(A.n * b);
    for (long i = 0; i < A.n; ++i) for (long k = 0; k < b; ++k) for (auto j = A.ptr[i]; j < A.ptr[i+1]; ++j) rows[i*b+k].push_back({(long)A.col[j]*b+k, A.val[j]});
    return from_rows(A.n * b, A.m * b, rows);
}
static void emit_modes(Rng &rng, long ndim, bool tr, const std::vector<Q> &coo, const std::vector<Q> &B0, std::vector<std::string> &lines) {
    (void)rng;
    RbmOut o = run_rbm(ndim, tr, as_doubles(coo), as_doubles(B0));
    if (!o.precondition && !all_finite(o.B)) { Line l; l << "rbm_degenerate" << ndim << tr << coo << B0; lines.push_back(l.get()); return; }
    Line l; l << "rbm_modes" << ndim << tr << Q::frac(1, 1L << 26) << coo << B0 << as_rats(o.precondition ? std::vector<double>() : o.B); lines.push_back(l.get());
    if (!o.precondition) { Line l2; l2 << "rbm_degenerate" << ndim << tr << coo << B0; lines.push_back(l2.get()); }
}
static void generate(Rng &rng, const Opts &o, std::vector<std::string> &lines) {
    const bool th = o.thorough();
    long N = o.cases > 0 ? o.cases : (th ? 1000 : 160);
    // exhaustive: every placement of one or two nodes (2D) / one node (3D) on the grid {-1,0,1}^ndim
    if (o.cases <= 0) for (int cfg = 0; cfg < 3; ++cfg) {
        long ndim = cfg == 2 ? 3 : 2, len = cfg == 0 ? 2 : (cfg == 1 ? 4 : 3), tot = 1; for (long i = 0; i < len; ++i) tot *= 3;
        for (long m = 0; m < tot; ++m) { std::vector<Q> coo; long x = m; for (long i = 0; i < len; ++i) { coo.push_back(Q(x % 3 - 1)); x /= 3; } emit_modes(rng, ndim, (m % 2) == 1, coo, {}, lines); }
    }
    for (long k = 0; k < N; ++k) {
        long ndim = rng.coin() ? 2 : 3; bool tr = rng.coin(1, 3);
        long nn = rng.coin(1, 8) ? rng.range(0, 2) : rng.range(1, th ? 14 : 9);
        int kind = (int)rng.range(0, 2);
        std::vector<Q> coo; for (long i = 0; i < nn * ndim; ++i) coo.push_back(coord(rng, kind));
        int special = (int)rng.range(0, 19);
        if (special == 0) for (auto &v : coo) v = Q(0);                                                     // all nodes at the origin
        if (special == 1) { long ax = rng.range(0, ndim - 1); for (long i = 0; i < nn * ndim; ++i) if (i % ndim != ax) coo[i] = Q(0); }   // nodes on a coordinate axis
        if (special == 2) { ndim = rng.pick(std::vector<long>{0, 1, 4, 5}); }                              // unsupported ndim
        if (special == 3) { coo.push_back(Q(1)); }                                                           // size not divisible by ndim
        if (special == 4 && ndim == 2) { nn = rng.coin() ? 2 : 8; coo.clear(); for (long i = 0; i < nn * 2; ++i) coo.push_back(coord(rng, 0)); }   // n a power of four: sn exact
        std::vector<Q> B0;
        if (rng.coin(1, 7)) { long len = rng.range(1, (long)coo.size() * 6 + 4); for (long i = 0; i < len; ++i) B0.push_back(Q::frac(rng.range(-8, 8), 2)); }
        emit_modes(rng, ndim, tr, coo, B0, lines);
    }
    // composition with the real aggregates and the null-space branch of tentative_prolongation
    long NP = o.cases > 0 ? o.cases / 4 + 2 : (th ? 160 : 40);
    for (long k = 0; k < NP; ++k) {
        long ndim = rng.coin() ? 2 : 3, cols = ndim == 2 ? 3 : 6;
        long nn = ndim == 2 ? rng.range(4, th ? 30 : 20) : rng.range(7, th ? 30 : 22);
        Mat G = rng.coin() ? gen_spd(rng, nn) : gen_spd(rng, nn, (int)rng.range(0, 1));
        nn = G.n; Mat A = kron_eye(G, ndim);
        int kind = (int)rng.range(0, 2);
        std::vector<Q> coo; for (long i = 0; i < nn * ndim; ++i) coo.push_back(coord(rng, kind));
        ac::pointwise_aggregates::params ap; ap.eps_strong = 0.08f; ap.block_size = (unsigned)ndim;
        try {
            auto Ac = A.crs(); ac::pointwise_aggregates ag(*Ac, ap, (unsigned)cols);
            RbmOut rb = run_rbm(ndim, false, as_doubles(coo), {});
            if (rb.precondition || !all_finite(rb.B)) continue;
            { Line l; l << "rbm_nsparams" << cols << as_rats(rb.B); lines.push_back(l.get()); }
            NsOut out = ns_run(ndim, cols, (long)ag.count, ag.id, rb.B);
            if (!out.took) continue;
            Line l; l << "rbm_ptent" << ndim << Q::frac(1, 1L << 26) << Q(0.08f) << A;
            l << coo << as_rats(rb.B) << out.P << out.Bc; lines.push_back(l.get());
        } catch (const amgcl::error::empty_level &) {} catch (const std::runtime_error &) {}
    }
    lines.push_back("rbm_nsparams 0 0");            // nothing set: cols = 0, B empty
    lines.push_back("rbm_nsparams 0 2 1 2");        // B is set, but cols is not
    lines.push_back("rbm_nsparams 2 0");            // cols > 0, but B is empty
    lines.push_back("rbm_nsparams 2 4 1 2 3 1/2");
    // malformed stream: both sides must answer bad-input
    lines.push_back("rbm_nsparams 2 3 1 2 3");                        // B.size() not divisible by cols
    lines.push_back("rbm_modes 2 2 1/1024 2 0 0 0 0");                // flag not 0/1
    lines.push_back("rbm_modes 2 0 1/1024 4 0 0 1");                  // truncated vector
    lines.push_back("rbm_degenerate 3 0 3 0 0 0 0 7");                // trailing token
    lines.push_back("rbm_ptent 2 1/1024 1/3 2 2 1 0 1 1 1 1 2 0 0 0 0 0 0");   // eps is not a float
}

VH_MAIN(generate, execute)
