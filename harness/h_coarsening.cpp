// C04 harness: aggregates, tentative prolongation, aggregation and smoothed aggregation at the exact type Q.
// Ops (the same text is fed to the Lean model, lean/Amgcl/Driver/Coarsening.lean):
//   aggr_pwmatrix  b A                     backend::pointwise_matrix
//   aggr_plain     eps A                   coarsening::plain_aggregates
//   aggr_pointwise eps b min_aggregate A   coarsening::pointwise_aggregates
//   aggr_ptent     naggr id[]              coarsening::tentative_prolongation (no null space)
//   rs_rowsum      eps do_trunc eps_trunc A P        V-grade: ruge_stuben<builtin<Q>>::transfer_operators; P is the
//                                          implementation's output (written by generate), the Lean driver evaluates the
//                                          verified predicate "zero-row-sum rows with a strong neighbour sum to one" on it
//   ptent_ns       bs cols tol naggr id[] B[] P Bc[] V-grade: tentative_prolongation with a near-null space (QR in double)
//   aggr_transfer  eps b A                 coarsening::aggregation<builtin<Q>>::transfer_operators
//   sa_transfer    lvl eps b relax est A   coarsening::smoothed_aggregation<builtin<Q>>::transfer_operators,
//                                          after `lvl` earlier calls on the same object (eps_strong halves per call)
// eps / relax are the exact rational values of the float parameters.
// Implementation-side oracles (independent of the Lean model, exact arithmetic):
//   strength flags recomputed densely, partition predicate (id>=0 <=> strong neighbour, ids in [0,count), every
//   aggregate non-empty, count < n), Kronecker lift (A (x) I_b with block_size b == lift of plain_aggregates(|A|)),
//   P_tent columns, smoothed P == (I - w D_F^-1 A_F) P_tent recomputed densely (dia = 0 guard), row sum one.
#include "gen.hpp"
#include <amgcl/backend/builtin.hpp>
#include <amgcl/value_type/interface.hpp>
#include <amgcl/coarsening/plain_aggregates.hpp>
#include <amgcl/coarsening/pointwise_aggregates.hpp>
#include <amgcl/coarsening/tentative_prolongation.hpp>
#include <amgcl/coarsening/aggregation.hpp>
#include <amgcl/coarsening/smoothed_aggregation.hpp>
#include <amgcl/coarsening/ruge_stuben.hpp>
using namespace vh;
namespace ac = amgcl::coarsening;
typedef amgcl::backend::builtin<Q> Backend;
typedef amgcl::backend::builtin<double> BackendD;
typedef amgcl::backend::crs<double, ptrdiff_t, ptrdiff_t> CrsD;

// ------------------------------------------------------------------ helpers
static float as_float(const Q &q) {
    if (q.poison) throw bad_input("poison");
    float f = (float)q.v.get_d();
    if (!(Q(f) == q)) throw bad_input("not a float");
    return f;
}
static bool rows_sorted(const Mat &A) { for (long i = 0; i < A.n; ++i) for (auto j = A.ptr[i]; j + 1 < A.ptr[i+1]; ++j) if (!(A.col[j] < A.col[j+1])) return false; return true; }
static bool has_all_diag(const Mat &A) { for (long i = 0; i < A.n; ++i) { bool f = false; for (auto j = A.ptr[i]; j < A.ptr[i+1]; ++j) if (A.col[j] == i) f = true; if (!f) return false; } return true; }
static void check_square(const Mat &A) {
    std::string why; auto Ac = A.crs();
    if (!crs_wf(*Ac, why) || A.n != A.m) throw bad_input("shape");
}
static Q qabs(const Q &x) { return x < 0 ? -x : x; }

template <class Aggr> static std::string aggr_line(const Aggr &a) {
    Line l; l << a.count; l << (size_t)a.id.size(); for (auto v : a.id) l << (long)v;
    l << (size_t)a.strong_connection.size(); for (auto s : a.strong_connection) l << (long)(s ? 1 : 0);
    return l.get();
}

// strength flags of plain_aggregates recomputed from the dense matrix (input without duplicate entries)
static std::vector<char> ref_strength(const Mat &A, float eps) {
    Dense D = dense(A); Q eps2(eps * eps);
    std::vector<char> s(A.col.size());
    for (long i = 0; i < A.n; ++i) for (auto j = A.ptr[i]; j < A.ptr[i+1]; ++j) {
        long c = A.col[j];
        s[j] = (c != i) && (eps2 * D[i][i] * D[c][c] < A.val[j] * A.val[j]);
    }
    return s;
}
// the partition predicate of C04 on (count, id) for a strength-flag array over the pattern of A
static void partition_oracle(Result &r, const Mat &A, const std::vector<char> &strong, size_t count, const std::vector<ptrdiff_t> &id, bool exact_removed) {
    if ((long)id.size() != A.n) { r.fail("id size"); return; }
    std::vector<long> members(count, 0);
    for (long i = 0; i < A.n; ++i) {
        bool hs = false; for (auto j = A.ptr[i]; j < A.ptr[i+1]; ++j) if (strong[j]) hs = true;
        if (hs || !exact_removed) {
            if (hs && exact_removed && id[i] < 0) r.fail("row with a strong neighbour is not aggregated");
            if (id[i] >= 0) { if ((size_t)id[i] >= count) { r.fail("id >= count"); return; } members[id[i]]++; }
            else if (id[i] != -2) r.fail("negative id other than removed");
        } else if (id[i] != -2) r.fail("row without strong neighbour is not marked removed");
    }
    for (size_t a = 0; a < count; ++a) if (!members[a]) r.fail("empty aggregate (numbering not contiguous)");
    if (A.n > 0 && !(count < (size_t)A.n)) r.fail("count >= n");
}
static Mat kron_eye(const Mat &A, long b) {
    std::vector<std::vector<std::pair<long,Q>>> rows(A.n * b);
    for (long i = 0; i < A.n; ++i) for (long k = 0; k < b; ++k) for (auto j = A.ptr[i]; j < A.ptr[i+1]; ++j) rows[i*b+k].push_back({(long)A.col[j]*b+k, A.val[j]});
    return from_rows(A.n * b, A.m * b, rows);
}
// if M == A (x) I_b return true and A
static bool un_kron(const Mat &M, long b, Mat &A) {
    if (M.n % b || M.m % b) return false;
    std::vector<std::vector<std::pair<long,Q>>> rows(M.n / b);
    for (long r = 0; r < M.n; ++r) {
        long i = r / b, k = r % b; std::vector<std::pair<long,Q>> cur;
        for (auto j = M.ptr[r]; j < M.ptr[r+1]; ++j) { if (M.col[j] % b != k) return false; cur.push_back({(long)M.col[j] / b, M.val[j]}); }
        if (k == 0) rows[i] = cur;
        else { if (cur.size() != rows[i].size()) return false; for (size_t t = 0; t < cur.size(); ++t) if (cur[t].first != rows[i][t].first || !(cur[t].second == rows[i][t].second)) return false; }
    }
    A = from_rows(M.n / b, M.m / b, rows); return true;
}
static Mat mat_abs(const Mat &A) { Mat B = A; for (auto &v : B.val) v = qabs(v); return B; }

static void tag_matrix(Result &r, const Mat &A) {
    if (is_symmetric(A)) r.tag("sym"); else r.tag("nonsym");
    if (!rows_sorted(A)) r.tag("unsorted");
    if (!has_all_diag(A)) r.tag("nodiag");
    { auto Ac = A.crs(); if (!crs_nodup(*Ac)) r.tag("dups"); }
    bool posrow = false, zrs = false;
    for (long i = 0; i < A.n; ++i) { bool anyoff = false, allpos = true; Q s(0); for (auto j = A.ptr[i]; j < A.ptr[i+1]; ++j) { s += A.val[j]; if (A.col[j] != i) { anyoff = true; if (!(A.val[j] > 0)) allpos = false; } } if (anyoff && allpos) posrow = true; if (anyoff && s == 0) zrs = true; }
    if (posrow) r.tag("posoffrow"); if (zrs) r.tag("zerorowsum");
    r.tag(A.n <= 6 ? "n<=6" : (A.n <= 30 ? "n<=30" : "n>30"));
}

// dense reference of smoothed aggregation: (I - w D_F^-1 A_F) P_tent with the code's filtered diagonal and guard.
// needs: no duplicates, every row has its diagonal entry
static Dense sa_reference(const Mat &A, const std::vector<char> &strong, const std::vector<ptrdiff_t> &id, size_t count, const Q &omega, std::vector<Q> *dia_out = 0) {
    Dense P(A.n, std::vector<Q>(count));
    if (dia_out) dia_out->assign(A.n, Q(0));
    for (long i = 0; i < A.n; ++i) {
        Q dia(0);
        for (auto j = A.ptr[i]; j < A.ptr[i+1]; ++j) if (A.col[j] == i || !strong[j]) dia += A.val[j];
        if (dia_out) (*dia_out)[i] = dia;
        for (auto j = A.ptr[i]; j < A.ptr[i+1]; ++j) {
            long c = A.col[j]; Q m;
            if (c == i) m = Q(1) - omega;                                  // (I - w D^-1 A_F)_ii = 1 - w
            else if (strong[j]) m = (dia == 0) ? Q(0) : Q(0) - omega * A.val[j] / dia;
            else continue;
            if (id[c] >= 0) P[i][id[c]] += m;
        }
    }
    return P;
}
static Q gershgorin_scaled(const Mat &A) {
    Dense D = dense(A); Q rho(0);
    for (long i = 0; i < A.n; ++i) { Q s(0); for (long j = 0; j < A.m; ++j) s += qabs(D[i][j]); s = s * qabs(Q(1) / D[i][i]); if (rho < s) rho = s; }
    return rho;
}

// ------------------------------------------------------------------ V-grade helpers
typedef ac::ruge_stuben<Backend> RS;
static std::shared_ptr<Crs> rs_P(const Mat &A, float eps, bool tr, float et) {
    RS::params prm; prm.eps_strong = eps; prm.do_trunc = tr; prm.eps_trunc = et;
    RS C(prm); auto Ac = A.crs(); auto PR = C.transfer_operators(*Ac); return std::get<0>(PR);
}
// rows of A with zero row sum and a strong neighbour in the sense of ruge_stuben::connect
static std::vector<long> rs_check_rows(const Mat &A, float eps) {
    std::vector<long> rows; Q tiny = Q::frac(1, 1L << 51);
    for (long i = 0; i < A.n; ++i) {
        Q s(0), amin(0);
        for (auto j = A.ptr[i]; j < A.ptr[i+1]; ++j) { s += A.val[j]; if (A.col[j] != i && A.val[j] < amin) amin = A.val[j]; }
        if (!(s == 0) || qabs(amin) < tiny) continue;
        Q thr = amin * Q(eps); bool hs = false;
        for (auto j = A.ptr[i]; j < A.ptr[i+1]; ++j) if (A.col[j] != i && A.val[j] < thr) hs = true;
        if (hs) rows.push_back(i);
    }
    return rows;
}
static Mat to_mat(const Crs &P) { Mat M; M.n = P.nrows; M.m = P.ncols; M.ptr.assign(P.ptr, P.ptr + P.nrows + 1); M.col.assign(P.col, P.col + P.ptr[P.nrows]); M.val.assign(P.val, P.val + P.ptr[P.nrows]); return M; }
static bool same_mat(const Mat &a, const Mat &b) { if (a.n != b.n || a.m != b.m || a.ptr != b.ptr || a.col != b.col || a.val.size() != b.val.size()) return false; for (size_t k = 0; k < a.val.size(); ++k) if (!(a.val[k] == b.val[k])) return false; return true; }
static bool within(const Q &tol, const Q &x) { return !(tol < x) && !(tol < -x); }
struct NsOut { Mat P; std::vector<Q> Bc; };
static NsOut ns_run(long bs, long cols, long naggr, const std::vector<ptrdiff_t> &id, const std::vector<Q> &B) {
    ac::nullspace_params ns; ns.cols = (int)cols; ns.B.resize(B.size()); for (size_t k = 0; k < B.size(); ++k) ns.B[k] = B[k].v.get_d();
    auto P = ac::tentative_prolongation<Crs>(id.size(), (size_t)naggr, id, ns, (int)bs);
    NsOut o; o.P = to_mat(*P); for (double d : ns.B) o.Bc.push_back(Q(d)); return o;
}

// ------------------------------------------------------------------ execute
static Result execute(const Toks &t) {
    Cur c(t);
    const std::string &op = t[0];
    Result r;
    if (op == "aggr_pwmatrix") {
        long b = c.nat(); auto A = c.mat(); c.expect_end();
        std::string why; auto Ac = A.crs();
        if (!crs_wf(*Ac, why) || b < 1) throw bad_input("shape");
        try {
            auto Ap = amgcl::backend::pointwise_matrix(*Ac, (unsigned)b);
            r.out = (Line() << *Ap).get();
            if (rows_sorted(A)) {    // oracle: block (I,J) present iff some stored entry, value = max |a|
                long np = A.n / b, mp = A.m / b; bool ok = (long)Ap->nrows == np && (long)Ap->ncols == mp;
                for (long I = 0; ok && I < np; ++I) {
                    std::map<long, Q> blk;
                    for (long k = 0; k < b; ++k) for (auto j = A.ptr[I*b+k]; j < A.ptr[I*b+k+1]; ++j) { long J = A.col[j] / b; Q v = qabs(A.val[j]); auto it = blk.find(J); if (it == blk.end()) blk[J] = v; else if (it->second < v) it->second = v; }
                    auto j = Ap->ptr[I];
                    for (auto &kv : blk) { if (j >= Ap->ptr[I+1] || Ap->col[j] != kv.first || !(Ap->val[j] == kv.second)) { ok = false; break; } ++j; }
                    if (j != Ap->ptr[I+1]) ok = false;
                }
                if (!ok) r.fail("pointwise_matrix != blockwise max |a_ij| on the block pattern");
            }
            r.nontrivial = A.col.size() > 0 && b > 1;
        } catch (const std::runtime_error &) { r.out = "precondition"; r.tag("precondition"); }
        r.tag("pwmatrix_b" + std::to_string(b));
    } else if (op == "aggr_plain") {
        float eps = as_float(c.rat()); auto A = c.mat(); c.expect_end(); check_square(A);
        auto Ac = A.crs();
        ac::plain_aggregates::params prm; prm.eps_strong = eps;
        try {
            ac::plain_aggregates ag(*Ac, prm);
            r.out = aggr_line(ag);
            if (crs_nodup(*Ac)) {
                if (ref_strength(A, eps) != ag.strong_connection) r.fail("strong_connection != (c != i) && eps^2 a_ii a_cc < a_ic^2");
                partition_oracle(r, A, ag.strong_connection, ag.count, ag.id, true);
            }
            r.nontrivial = A.n >= 2;
            bool rem = false; for (auto v : ag.id) if (v < 0) rem = true; if (rem) r.tag("removed");
        } catch (const amgcl::error::empty_level &) {
            r.out = "empty_level"; r.tag("empty_level");
            if (crs_nodup(*Ac)) { auto s = ref_strength(A, eps); for (auto f : s) if (f) r.fail("empty_level although a strong connection exists"); }
        }
        r.tag("plain"); tag_matrix(r, A);
    } else if (op == "aggr_pointwise") {
        float eps = as_float(c.rat()); long b = c.nat(); long minag = c.nat(); auto A = c.mat(); c.expect_end(); check_square(A);
        if (b < 1) throw bad_input("block_size");
        auto Ac = A.crs();
        ac::pointwise_aggregates::params prm; prm.eps_strong = eps; prm.block_size = (unsigned)b;
        try {
            ac::pointwise_aggregates ag(*Ac, prm, (unsigned)minag);
            r.out = aggr_line(ag);
            r.nontrivial = A.n >= 2 * b;
            bool sorted = rows_sorted(A);
            if (sorted && (long)ag.id.size() == A.n && ag.strong_connection.size() == A.col.size()) {
                // nodes travel together, ids in range, aggregates non-empty, count divisible by b
                if (ag.count % b) r.fail("count not divisible by block_size");
                std::vector<long> members(ag.count, 0);
                for (long I = 0; I < A.n / b; ++I) {
                    long base = ag.id[I*b];
                    for (long k = 0; k < b; ++k) if (ag.id[I*b+k] != base + k) r.fail("unknowns of one node do not travel together");
                    if (base >= 0) { if (base % b || (size_t)(base + b) > ag.count) r.fail("id out of range"); else for (long k = 0; k < b; ++k) members[base + k]++; }
                }
                for (auto m : members) if (!m) r.fail("empty aggregate");
                if (b == 1 && minag <= 1) { if (ref_strength(A, eps) != ag.strong_connection) r.fail("strength flags"); partition_oracle(r, A, ag.strong_connection, ag.count, ag.id, true); }
                if (b > 1) {
                    // flags: diagonal never strong; flags constant on the off-diagonal part of a block
                    std::map<std::pair<long,long>, int> blockflag;
                    for (long i = 0; i < A.n; ++i) for (auto j = A.ptr[i]; j < A.ptr[i+1]; ++j) {
                        if (A.col[j] == i) { if (ag.strong_connection[j]) r.fail("diagonal entry flagged strong"); continue; }
                        auto key = std::make_pair(i / b, (long)A.col[j] / b); int f = ag.strong_connection[j] ? 1 : 0;
                        auto it = blockflag.find(key); if (it == blockflag.end()) blockflag[key] = f; else if (it->second != f) r.fail("strength flags differ inside one block");
                    }
                    for (auto &kv : blockflag) if (kv.first.first == kv.first.second && !kv.second) r.fail("off-diagonal entry of a diagonal block flagged weak");
                }
                // Kronecker lift: A' (x) I_b with block_size b == lift of plain_aggregates(|A'|)
                Mat A1;
                if (b > 1 && minag <= 1 && un_kron(A, b, A1)) {
                    r.tag("kron");
                    Mat Aabs = mat_abs(A1); auto A1c = Aabs.crs();
                    ac::plain_aggregates::params p1; p1.eps_strong = eps;
                    try {
                        ac::plain_aggregates a1(*A1c, p1);
                        if (ag.count != a1.count * b) r.fail("kron lift: count != b * count(A)");
                        for (long i = 0; i < A1.n; ++i) for (long k = 0; k < b; ++k) if (ag.id[i*b+k] != b * a1.id[i] + k) r.fail("kron lift: id != b*id(A)+k");
                        for (long i = 0; i < A1.n; ++i) for (long k = 0; k < b; ++k) for (auto j = A1.ptr[i]; j < A1.ptr[i+1]; ++j)
                            if ((ag.strong_connection[A.ptr[i*b+k] + (j - A1.ptr[i])] != 0) != (a1.strong_connection[j] != 0)) r.fail("kron lift: strength flags != lifted flags of A");
                    } catch (const amgcl::error::empty_level &) { r.fail("kron lift: A has no aggregates but A (x) I_b has"); }
                }
            }
        } catch (const amgcl::error::empty_level &) {
            r.out = "empty_level"; r.tag("empty_level");
            Mat A1;
            if (b > 1 && rows_sorted(A) && un_kron(A, b, A1)) {
                Mat Aabs = mat_abs(A1); auto A1c = Aabs.crs(); ac::plain_aggregates::params p1; p1.eps_strong = eps;
                try { ac::plain_aggregates a1(*A1c, p1); r.fail("kron lift: A has aggregates but A (x) I_b is an empty level"); } catch (const amgcl::error::empty_level &) {}
            }
        } catch (const std::runtime_error &) { r.out = "precondition"; r.tag("precondition"); }
        r.tag("pointwise_b" + std::to_string(b)); if (minag > 1) r.tag("min_aggregate"); tag_matrix(r, A);
    } else if (op == "aggr_ptent") {
        long naggr = c.nat(); auto idv = c.natvec(); c.expect_end();
        if (naggr < 0) throw bad_input("naggr");
        for (auto v : idv) if (v >= naggr) throw bad_input("id >= naggr");
        std::vector<ptrdiff_t> id(idv.begin(), idv.end());
        ac::nullspace_params ns;
        auto P = ac::tentative_prolongation<Crs>(id.size(), (size_t)naggr, id, ns, 1);
        r.out = (Line() << *P).get();
        bool ok = P->nrows == id.size() && (long)P->ncols == naggr;
        for (size_t i = 0; ok && i < id.size(); ++i) {
            long k = P->ptr[i+1] - P->ptr[i];
            if (id[i] >= 0) ok = k == 1 && P->col[P->ptr[i]] == id[i] && P->val[P->ptr[i]] == Q(1);
            else ok = k == 0;
        }
        if (!ok) r.fail("P_tent: not one unit entry per aggregated row in column id[i]");
        r.nontrivial = id.size() > 0; r.tag("ptent");
    } else if (op == "aggr_transfer") {
        float eps = as_float(c.rat()); long b = c.nat(); auto A = c.mat(); c.expect_end(); check_square(A);
        if (b < 1) throw bad_input("block_size");
        auto Ac = A.crs();
        ac::aggregation<Backend>::params prm; prm.aggr.eps_strong = eps; prm.aggr.block_size = (unsigned)b;
        try {
            ac::aggregation<Backend> C(prm);
            auto PR = C.transfer_operators(*Ac);
            auto &P = *std::get<0>(PR); auto &R = *std::get<1>(PR);
            r.out = (Line() << P).get();
            // oracle: R = P^T, disjoint unit columns, P*1 = indicator of aggregated rows (aggregates built separately)
            Dense DP = dense(P), DR = dense(R); bool tr = DR.size() == P.ncols;
            for (size_t i = 0; tr && i < P.nrows; ++i) for (size_t j = 0; j < P.ncols; ++j) if (!(DP[i][j] == DR[j][i])) tr = false;
            if (!tr) r.fail("R != transpose(P)");
            ac::pointwise_aggregates::params ap; ap.eps_strong = eps; ap.block_size = (unsigned)b;
            ac::pointwise_aggregates ag(*Ac, ap, 0);
            if (P.ncols != ag.count) r.fail("ncols(P) != count");
            for (long i = 0; i < A.n; ++i) { Q s(0); for (auto j = P.ptr[i]; j < P.ptr[i+1]; ++j) s += P.val[j]; if (!(s == Q(ag.id[i] >= 0 ? 1 : 0))) r.fail("P_tent * 1 != indicator of aggregated rows"); if (P.ptr[i+1] - P.ptr[i] > 1) r.fail("more than one entry in a row of P_tent"); }
            if (A.n > 0 && !(P.ncols < P.nrows)) r.fail("ncols(P) >= nrows(P): coarse level not smaller");
            r.nontrivial = A.n >= 2;
        } catch (const amgcl::error::empty_level &) { r.out = "empty_level"; r.tag("empty_level"); }
          catch (const std::runtime_error &) { r.out = "precondition"; r.tag("precondition"); }
        r.tag("transfer_b" + std::to_string(b)); tag_matrix(r, A);
    } else if (op == "sa_transfer") {
        long lvl = c.nat(); float eps = as_float(c.rat()); long b = c.nat(); Q relaxq = c.rat(); float relax = as_float(relaxq); long est = c.nat();
        auto A = c.mat(); c.expect_end(); check_square(A);
        if (b < 1 || lvl < 0 || lvl > 64 || (est != 0 && est != 1)) throw bad_input("param");
        auto Ac = A.crs();
        ac::smoothed_aggregation<Backend>::params prm; prm.aggr.eps_strong = eps; prm.aggr.block_size = (unsigned)b;
        prm.relax = relax; prm.estimate_spectral_radius = est != 0; prm.power_iters = 0;
        try {
            ac::smoothed_aggregation<Backend> C(prm);
            for (long k = 0; k < lvl; ++k) { try { C.transfer_operators(*Ac); } catch (const amgcl::error::empty_level &) {} catch (const std::runtime_error &) {} }   // a throwing call does not reach the halving
            float eps_l = C.prm.aggr.eps_strong;
            auto PR = C.transfer_operators(*Ac);
            auto &P = *std::get<0>(PR); auto &R = *std::get<1>(PR);
            r.out = (Line() << P).get();
            Dense DP = dense(P), DR = dense(R); bool tr = DR.size() == P.ncols;
            for (size_t i = 0; tr && i < P.nrows; ++i) for (size_t j = 0; j < P.ncols; ++j) if (!(DP[i][j] == DR[j][i])) tr = false;
            if (!tr) r.fail("R != transpose(P)");
            if (!crs_nodup(P)) r.fail("duplicate column in a row of P");
            bool guard_hit = false;
            if (crs_nodup(*Ac) && has_all_diag(A)) {
                ac::pointwise_aggregates::params ap; ap.eps_strong = eps_l; ap.block_size = (unsigned)b;
                ac::pointwise_aggregates ag(*Ac, ap, 0);
                Q omega = Q(relax);
                if (est) omega = omega * (Q(4.0/3) / gershgorin_scaled(A)); else omega = omega * Q(2.0/3);
                std::vector<Q> dia;
                Dense ref = sa_reference(A, ag.strong_connection, ag.id, ag.count, omega, &dia);
                if (ref != DP) r.fail("P != (I - w D_F^-1 A_F) P_tent (dense recomputation)");
                bool guard = false, rowsum = false;
                bool sym = is_symmetric(A);
                for (long i = 0; i < A.n; ++i) {
                    bool hs = false; Q rs(0), ps(0);
                    for (auto j = A.ptr[i]; j < A.ptr[i+1]; ++j) { rs += A.val[j]; if (ag.strong_connection[j]) hs = true; }
                    for (auto j = P.ptr[i]; j < P.ptr[i+1]; ++j) ps += P.val[j];
                    if (dia[i] == 0 && hs) guard = true;
                    if (sym && b == 1 && hs && rs == 0 && !(dia[i] == 0)) { rowsum = true; if (!(ps == Q(1))) r.fail("symmetric A, zero row sum, strong neighbour, but row of P does not sum to 1"); }
                }
                if (guard) { r.tag("dia0_guard"); guard_hit = true; } if (rowsum) r.tag("rowsum_checked");
            }
            // supporting run of the shipped instantiation (double) on the same integer-valued data: the strength tests are
            // exact in binary64 here, so P must have the same pattern, finite entries (the `dia == 0` guard is invisible
            // at Q because 1/0 := 0 there) and values equal up to rounding
            {
                std::vector<double> vd(A.val.size()); bool small = true;
                for (size_t k = 0; k < vd.size(); ++k) { vd[k] = A.val[k].v.get_d(); if (!(Q(vd[k]) == A.val[k]) || std::fabs(vd[k]) > 1e6) small = false; }
                if (small && est) { Dense D0 = dense(A); for (long i = 0; i < A.n; ++i) if (D0[i][i] == 0) small = false; }   // 1/0 in the Gershgorin scaling: inf in IEEE, 0 at Q
                if (small && !(guard_hit || A.n > 6 || std::hash<std::string>()(t[t.size()-1] + t[t.size()/2]) % 4 == 0)) small = false;   // keep the thorough tier affordable
                if (small) {
                    CrsD Ad((size_t)A.n, (size_t)A.m, A.ptr, A.col, vd);
                    ac::smoothed_aggregation<BackendD>::params pd; pd.aggr.eps_strong = eps; pd.aggr.block_size = (unsigned)b;
                    pd.relax = relax; pd.estimate_spectral_radius = est != 0; pd.power_iters = 0;
                    ac::smoothed_aggregation<BackendD> Cd(pd);
                    try {
                        for (long k = 0; k < lvl; ++k) { try { Cd.transfer_operators(Ad); } catch (const amgcl::error::empty_level &) {} catch (const std::runtime_error &) {} }
                        auto PRd = Cd.transfer_operators(Ad); auto &Pd = *std::get<0>(PRd);
                        bool same = Pd.nrows == P.nrows && Pd.ncols == P.ncols, fin = true, close = true;
                        for (size_t i = 0; same && i < P.nrows; ++i) {
                            if (Pd.ptr[i+1] - Pd.ptr[i] != P.ptr[i+1] - P.ptr[i]) { same = false; break; }
                            for (auto j = P.ptr[i], jd = Pd.ptr[i]; j < P.ptr[i+1]; ++j, ++jd) {
                                if (Pd.col[jd] != P.col[j]) same = false;
                                if (!std::isfinite(Pd.val[jd])) fin = false;
                                else if (std::fabs(Pd.val[jd] - P.val[j].v.get_d()) > 1e-9 * (1 + std::fabs(P.val[j].v.get_d()))) close = false;
                            }
                        }
                        if (!fin) r.fail("double instantiation: non-finite entry in P (zero filtered diagonal not guarded?)");
                        else if (!same) r.fail("double instantiation: pattern of P differs from the exact one");
                        else if (!close) r.fail("double instantiation: P differs from the exact one by more than rounding");
                        r.tag("double_checked");
                    } catch (const amgcl::error::empty_level &) { r.fail("double instantiation: empty_level but not at Q"); }
                }
            }
            r.nontrivial = A.n >= 2;
        } catch (const amgcl::error::empty_level &) { r.out = "empty_level"; r.tag("empty_level"); }
          catch (const std::runtime_error &) { r.out = "precondition"; r.tag("precondition"); }
        r.tag("sa_b" + std::to_string(b)); if (est) r.tag("gershgorin"); if (lvl) r.tag("lvl>0"); tag_matrix(r, A);
    } else if (op == "rs_rowsum") {
        float eps = as_float(c.rat()); long tr = c.nat(); float et = as_float(c.rat()); auto A = c.mat(); auto P = c.mat(); c.expect_end(); check_square(A);
        if (tr != 0 && tr != 1) throw bad_input("do_trunc");
        // the P in the line must be what the real code returns (deterministic); the verdict is computed on it
        try { auto Pr = rs_P(A, eps, tr != 0, et); if (!same_mat(to_mat(*Pr), P)) r.fail("P in the op line is not the implementation's output"); }
        catch (const amgcl::error::empty_level &) { r.fail("P in the op line but the implementation throws empty_level"); }
        auto rows = rs_check_rows(A, eps);
        std::string why; auto Pc = P.crs(); bool ok = crs_wf(*Pc, why) && P.n == A.n;
        if (ok) for (long i : rows) { Q s(0); for (auto j = P.ptr[i]; j < P.ptr[i+1]; ++j) s += P.val[j]; if (!(s == Q(1))) ok = false; }
        r.out = (Line() << ok << (long)rows.size()).get();
        if (!ok) r.fail("Ruge-Stuben: zero-row-sum row with a strong neighbour, but the row of P does not sum to 1");
        r.nontrivial = !rows.empty(); r.tag(tr ? "rs_trunc" : "rs_notrunc"); tag_matrix(r, A);
    } else if (op == "ptent_ns") {
        long bs = c.nat(), cols = c.nat(); Q tol = c.rat(); long naggr = c.nat(); auto idv = c.natvec(); auto B = c.vec(); auto P = c.mat(); auto Bc = c.vec(); c.expect_end();
        if (bs < 1 || cols < 1 || naggr < 0) throw bad_input("param");
        std::string why; auto Pc = P.crs();
        if (B.size() != idv.size() * (size_t)cols || !crs_wf(*Pc, why) || P.m != (naggr / bs) * cols || (long)Bc.size() != (naggr / bs) * cols * cols) throw bad_input("shape");
        for (auto v : idv) if (v >= naggr) throw bad_input("id >= naggr");
        std::vector<ptrdiff_t> id(idv.begin(), idv.end());
        NsOut o = ns_run(bs, cols, naggr, id, B);
        bool rep = same_mat(o.P, P) && o.Bc.size() == Bc.size(); for (size_t k = 0; rep && k < Bc.size(); ++k) if (!(o.Bc[k] == Bc[k])) rep = false;
        if (!rep) r.fail("P / B_coarse in the op line are not the implementation's output");
        long n = (long)id.size(); bool shape = P.n == n, repro = true, ortho = true;
        for (long i = 0; shape && i < n; ++i) {
            long k = P.ptr[i+1] - P.ptr[i];
            if (id[i] < 0) shape = k == 0;
            else { shape = k == cols; for (long jj = 0; shape && jj < cols; ++jj) shape = P.col[P.ptr[i] + jj] == (id[i] / bs) * cols + jj; }
        }
        for (long i = 0; i < n; ++i) if (id[i] >= 0) for (long k = 0; k < cols; ++k) {
            Q s(0); for (auto j = P.ptr[i]; j < P.ptr[i+1]; ++j) { size_t bi = (size_t)P.col[j] * cols + k; s += P.val[j] * (bi < Bc.size() ? Bc[bi] : Q(0)); }
            if (!within(tol, s - B[i * cols + k])) repro = false;
        }
        { Dense D = dense(P); for (long a = 0; a < P.m; ++a) for (long b2 = 0; b2 < P.m; ++b2) { Q g(0); for (long i = 0; i < P.n; ++i) g += D[i][a] * D[i][b2]; if (!within(tol, g - Q(a == b2 ? 1 : 0))) ortho = false; } }
        r.out = (Line() << shape << repro << ortho).get();
        if (!shape) r.fail("null-space P_tent: wrong shape"); if (!repro) r.fail("null-space: P_tent * B_coarse != B on aggregated rows (beyond tol)"); if (!ortho) r.fail("null-space: columns of P_tent not orthonormal (beyond tol)");
        r.nontrivial = P.col.size() > 0; r.tag("ptent_ns_cols" + std::to_string(cols)); r.tag("ptent_ns_bs" + std::to_string(bs));
    } else {
        r.out = "bad-op";
    }
    return r;
}

// ------------------------------------------------------------------ generate
static const float EPS[] = { 0.0f, 0.08f, 0.5f, 0.04f, 0.25f, 1.0f, 0.02f };
static Q pick_eps(Rng &rng) { static const int w[] = {0,1,1,1,2,3,4,5,6,1}; return Q(EPS[w[rng.range(0, 9)]]); }
static Q offval(Rng &rng, int mode) {   // mode 0: {-2,-1,1,2}; 1: negative only; 2: positive only
    static const long v[] = {-2, -1, 1, 2};
    if (mode == 1) return Q(-rng.range(1, 2)); if (mode == 2) return Q(rng.range(1, 2));
    return Q(v[rng.range(0, 3)]);
}
// matrix from an off-diagonal pattern (bit mask over ordered pairs i<j for symmetric, i!=j otherwise)
static Mat pattern_matrix(Rng &rng, long n, uint64_t mask, bool symmetric) {
    std::vector<std::map<long,Q>> rows(n);
    int mode = (int)rng.range(0, 5); if (mode > 2) mode = 0;
    int bit = 0;
    if (symmetric) { for (long i = 0; i < n; ++i) for (long j = i + 1; j < n; ++j, ++bit) if (mask >> bit & 1) { Q v = offval(rng, mode); rows[i][j] = v; rows[j][i] = v; } }
    else { for (long i = 0; i < n; ++i) for (long j = 0; j < n; ++j) if (i != j) { if (mask >> bit & 1) rows[i][j] = offval(rng, mode); ++bit; } }
    int dmode = (int)rng.range(0, 5);
    for (long i = 0; i < n; ++i) {
        Q s(0), sa(0); for (auto &cv : rows[i]) { s += cv.second; sa += qabs(cv.second); }
        Q d;
        if (dmode <= 2) d = Q(0) - s;                                  // zero row sum (may be 0 or negative)
        else if (dmode == 3) d = sa + Q(rng.range(0, 1));              // weakly / strictly dominant
        else if (dmode == 4) d = Q(rng.range(1, 4));
        else { static const long dv[] = {-3, -1, 1, 2, 4, 0}; d = Q(dv[rng.range(0, 5)]); }
        rows[i][i] = d;
    }
    std::vector<std::vector<std::pair<long,Q>>> rr(n);
    for (long i = 0; i < n; ++i) for (auto &cv : rows[i]) rr[i].push_back({cv.first, cv.second});
    return from_rows(n, n, rr);
}
static Mat random_square(Rng &rng, long n) {
    int kind = (int)rng.range(0, 5);
    if (kind == 0) return gen_spd(rng, n);
    if (kind == 1) return gen_convdiff(rng, n);
    // random sparse with diagonal, about 3 off-diagonals per row, symmetric or not
    bool sym = kind <= 3; std::vector<std::map<long,Q>> rows(n);
    for (long i = 0; i < n; ++i) for (int k = 0; k < 2; ++k) { long j = rng.range(0, n - 1); if (j == i) continue; Q v = rng.coin(3, 4) ? Q(-rng.range(1, 3)) : Q(rng.range(1, 2)); rows[i][j] = v; if (sym) rows[j][i] = v; }
    bool zrs = rng.coin();
    for (long i = 0; i < n; ++i) { Q s(0), sa(0); for (auto &cv : rows[i]) if (cv.first != i) { s += cv.second; sa += qabs(cv.second); } rows[i][i] = zrs ? Q(0) - s : sa + Q(rng.range(0, 2)); if (rng.coin(1, 40)) rows[i][i] = Q(0); }
    bool dropdiag = rng.coin(1, 12);
    std::vector<std::vector<std::pair<long,Q>>> rr(n);
    for (long i = 0; i < n; ++i) for (auto &cv : rows[i]) { if (dropdiag && cv.first == i && rng.coin(1, 4)) continue; rr[i].push_back({cv.first, cv.second}); }
    return from_rows(n, n, rr);
}
// block-structured matrix that is NOT a Kronecker product: node graph + random b x b blocks (some structurally incomplete)
static Mat random_block(Rng &rng, long np, long b) {
    Mat G = random_square(rng, np); long n = G.n * b;
    std::vector<std::map<long,Q>> rows(n);
    for (long I = 0; I < G.n; ++I) for (auto j = G.ptr[I]; j < G.ptr[I+1]; ++j) { long J = G.col[j];
        for (long k = 0; k < b; ++k) for (long l = 0; l < b; ++l) {
            bool diag = (I == J && k == l);
            if (!diag && !rng.coin(2, 3)) continue;
            Q v = diag ? qabs(G.val[j]) + Q(rng.range(1, 3)) : (rng.coin(1, 3) ? G.val[j] : Q(rng.range(-3, 3)));
            if (!diag && v == 0) continue;
            rows[I*b+k][J*b+l] = v; } }
    std::vector<std::vector<std::pair<long,Q>>> rr(n);
    for (long i = 0; i < n; ++i) for (auto &cv : rows[i]) rr[i].push_back({cv.first, cv.second});
    return from_rows(n, n, rr);
}
static Q pick_relax(Rng &rng) { static const float rl[] = {1.0f, 1.0f, 0.5f, 1.5f, 0.75f, 0.0f}; return Q(rl[rng.range(0, 5)]); }

static void emit_for(Rng &rng, const Mat &A, std::vector<std::string> &lines, bool small) {
    Q eps = pick_eps(rng);
    { Line l; l << "aggr_plain" << eps << A; lines.push_back(l.get()); }
    { Line l; l << "sa_transfer" << (rng.coin(1, 4) ? rng.range(1, 3) : 0) << eps << 1 << pick_relax(rng) << (rng.coin(1, 4) && has_all_diag(A) ? 1 : 0) << A; lines.push_back(l.get()); }
    if (small || rng.coin(1, 3)) { Line l; l << "aggr_transfer" << eps << 1 << A; lines.push_back(l.get()); }
}
static void emit_kron(Rng &rng, const Mat &A, std::vector<std::string> &lines) {
    long b = rng.range(2, 3); Mat K = kron_eye(A, b); Q eps = pick_eps(rng);
    { Line l; l << "aggr_pointwise" << eps << b << 0 << K; lines.push_back(l.get()); }
    if (rng.coin()) { Line l; l << "sa_transfer" << 0 << eps << b << pick_relax(rng) << 0 << K; lines.push_back(l.get()); }
    if (rng.coin(1, 4)) { Line l; l << "aggr_pwmatrix" << b << K; lines.push_back(l.get()); }
}

static void generate(Rng &rng, const Opts &o, std::vector<std::string> &lines) {
    const bool th = o.thorough();
    // 1. exhaustive: all symmetric off-diagonal patterns on n <= 5 (6) nodes, all non-symmetric on n <= 3 (4)
    long nsym = th ? 6 : 5, nns = th ? 4 : 3;
    if (o.cases > 0) { nsym = 3; nns = 2; }
    for (long n = 1; n <= nsym; ++n) { long bits = n * (n - 1) / 2;
        for (uint64_t m = 0; m < (1ull << bits); ++m) {
            Mat A = pattern_matrix(rng, n, m, true);
            emit_for(rng, A, lines, n <= 4);
            if (n <= 4 || (th ? (m % 16 == 0) : (m % 64 == 0))) emit_kron(rng, A, lines);
        } }
    for (long n = 2; n <= nns; ++n) { long bits = n * (n - 1);
        for (uint64_t m = 0; m < (1ull << bits); ++m) {
            Mat A = pattern_matrix(rng, n, m, false);
            emit_for(rng, A, lines, true);
            if (n <= 3) emit_kron(rng, A, lines);
        } }
    // 2. random
    long N = o.cases > 0 ? o.cases : (th ? 3000 : 260);
    for (long k = 0; k < N; ++k) {
        int which = (int)rng.range(0, 9);
        long n = rng.coin(1, 5) ? rng.range(1, 120) : rng.range(1, 40);
        if (which <= 2) { Mat A = random_square(rng, n); if (rng.coin(1, 6)) A = unsort(rng, A, rng.coin(1, 3)); emit_for(rng, A, lines, false); }
        else if (which == 3) { Mat A = random_square(rng, rng.range(1, 30)); emit_kron(rng, A, lines); }
        else if (which <= 5) {   // genuine block matrices, block_size 2 or 3, also with min_aggregate
            long b = rng.range(2, 3); Mat A = random_block(rng, rng.range(1, 24), b); Q eps = pick_eps(rng);
            if (rng.coin(1, 8)) A = unsort(rng, A, false);
            { Line l; l << "aggr_pointwise" << eps << b << (rng.coin(1, 3) ? rng.range(2, 7) : rng.range(0, 1)) << A; lines.push_back(l.get()); }
            { Line l; l << "sa_transfer" << (rng.coin(1, 4) ? 1 : 0) << eps << b << pick_relax(rng) << (rng.coin(1, 4) ? 1 : 0) << A; lines.push_back(l.get()); }
            if (rng.coin()) { Line l; l << "aggr_transfer" << eps << b << A; lines.push_back(l.get()); }
            if (rng.coin()) { Line l; l << "aggr_pwmatrix" << b << A; lines.push_back(l.get()); }
        } else if (which == 6) {   // block_size 1 through pointwise_aggregates, with min_aggregate
            Mat A = random_square(rng, n); Line l; l << "aggr_pointwise" << pick_eps(rng) << 1 << rng.range(0, 4) << A; lines.push_back(l.get());
        } else if (which == 7) {   // pointwise_matrix on general (rectangular / size not divisible) input
            long b = rng.range(1, 4); long nr = rng.range(0, 12), nc = rng.range(0, 12); if (rng.coin(3, 4)) { nr -= nr % b; nc -= nc % b; }
            Mat A = gen_sparse(rng, nr, nc, (int)rng.range(5, 60)); Line l; l << "aggr_pwmatrix" << b << A; lines.push_back(l.get());
            if (rng.coin(1, 3)) { Mat S = random_square(rng, rng.range(1, 13)); Line l2; l2 << "aggr_pointwise" << pick_eps(rng) << rng.range(2, 3) << 0 << S; lines.push_back(l2.get()); }   // size possibly not divisible
        } else {                   // tentative prolongation from arbitrary id arrays
            long na = rng.range(0, 8); long len = rng.range(0, 30); Line l; l << "aggr_ptent" << na << len;
            for (long i = 0; i < len; ++i) l << (na > 0 && rng.coin(3, 4) ? rng.range(0, na - 1) : -rng.range(1, 6));
            lines.push_back(l.get());
        }
    }
    // 3. V-grade: Ruge-Stuben row sums and the null-space branch; the implementation's output is part of the op line
    long NV = o.cases > 0 ? o.cases / 4 + 2 : (th ? 1500 : 150);
    for (long k = 0; k < NV; ++k) {
        if (k % 3 != 2) {
            // symmetric, zero row sums (M-matrix or with some positive off-diagonals), small integer weights
            long n = rng.range(2, th ? 40 : 24); std::vector<std::map<long,Q>> rows(n); bool pos = rng.coin(1, 4);
            for (long i = 0; i < n; ++i) for (int e = 0; e < 2; ++e) { long j = rng.range(0, n - 1); if (j == i) continue; Q v = (pos && rng.coin(1, 5)) ? Q(rng.range(1, 2)) : Q(-rng.range(1, 4)); rows[i][j] = v; rows[j][i] = v; }
            for (long i = 0; i < n; ++i) { Q sum(0); for (auto &cv : rows[i]) if (cv.first != i) sum += cv.second; rows[i][i] = Q(0) - sum; if (rng.coin(1, 10)) rows[i][i] += Q(1); }
            std::vector<std::vector<std::pair<long,Q>>> rr(n); for (long i = 0; i < n; ++i) for (auto &cv : rows[i]) rr[i].push_back({cv.first, cv.second});
            Mat A = from_rows(n, n, rr);
            static const float es[] = {0.25f, 0.5f, 0.125f}; static const float ets[] = {0.2f, 0.2f, 0.5f, 0.25f, 0.3f};
            float eps = es[rng.range(0, 2)], et = ets[rng.range(0, 4)]; bool tr = rng.coin(2, 3);
            try { auto P = rs_P(A, eps, tr, et); Line l; l << "rs_rowsum" << Q(eps) << (tr ? 1 : 0) << Q(et) << A; l << to_mat(*P); lines.push_back(l.get()); }
            catch (const amgcl::error::empty_level &) {}
        } else {
            long bs = rng.coin(1, 3) ? 2 : 1, cols = rng.range(1, 3);
            Mat A = bs == 1 ? random_square(rng, rng.range(2, 30)) : kron_eye(random_square(rng, rng.range(2, 12)), bs);
            if (!rows_sorted(A)) continue;
            ac::pointwise_aggregates::params ap; ap.eps_strong = 0.08f; ap.block_size = (unsigned)bs;
            try {
                auto Ac = A.crs(); ac::pointwise_aggregates ag(*Ac, ap, (unsigned)cols);
                std::vector<Q> B(A.n * cols); for (long i = 0; i < A.n; ++i) for (long kk = 0; kk < cols; ++kk) B[i * cols + kk] = kk == 0 ? Q(1) : Q::frac(rng.range(-8, 8), 1L << rng.range(0, 2));
                NsOut out = ns_run(bs, cols, (long)ag.count, ag.id, B);
                Line l; l << "ptent_ns" << bs << cols << Q::frac(1, 1L << 28) << (long)ag.count; l << (size_t)ag.id.size(); for (auto v : ag.id) l << (long)v; l << B; l << out.P; l << out.Bc; lines.push_back(l.get());
            } catch (const amgcl::error::empty_level &) {} catch (const std::runtime_error &) {}
        }
    }
    // malformed stream: both sides must answer bad-input
    lines.push_back("aggr_plain 5368709/67108864 2 3 1 0 1 1 1 1");                  // not square
    lines.push_back("aggr_plain 5368709/67108864 2 2 1 0 1 1 5 1");                  // column out of range
    lines.push_back("aggr_plain 1/3 2 2 2 0 1 1 -1 2 0 -1 1 1");                     // eps is not a float
    lines.push_back("aggr_pointwise 1/2 0 0 2 2 2 0 1 1 -1 2 0 -1 1 1");             // block_size 0
    lines.push_back("sa_transfer 0 1/2 1 1/3 0 2 2 2 0 1 1 -1 2 0 -1 1 1");          // relax is not a float
    lines.push_back("sa_transfer 0 1/2 1 1 2 2 2 2 0 1 1 -1 2 0 -1 1 1");            // est flag not 0/1
    lines.push_back("aggr_ptent 2 3 0 2 1");                                         // id >= naggr
    lines.push_back("aggr_transfer 1/2 1 2 2 2 0 1 1 -1 2 0 -1");                    // truncated matrix
}

VH_MAIN(generate, execute)
