// C01 / C05 / C15 harness: the REAL amgcl::solver::{cg,bicgstab,richardson,preonly}<builtin<Q>> at the exact
// rational type Q, called through operator()(A, P, rhs, x) exactly as amgcl/make_solver.hpp:134 does.
//
// Ops (the same text is fed to the Lean model, lean/Amgcl/Driver/Solvers.lean):
//   solve_cg         maxiter tol abstol ns                    A PREC f x0
//   solve_bicgstab   side maxiter tol abstol check_after ns   A PREC f x0
//   solve_richardson damping maxiter tol abstol ns            A PREC f x0
//   solve_preonly                                             A PREC f x0
//   hist_cg | hist_bicgstab | hist_richardson   <params as above>  n k (A PREC f x0)^k     (ONE solver object)
// PREC = id | diag <vec> | mat <CRS>     (harness-owned preconditioner class applying x = M*rhs)
// Result: "ok <iters> <res> <x>" or "precondition <x>"; hist_*: the k results joined by " | ".
//
// Implementation-side oracles (exact arithmetic, independent of the Lean model):
//   C01  reported residual == nrm(f - A x)/norm_rhs (right) resp. nrm(P(f - A x))/norm_rhs (left) recomputed densely
//        from the returned x with the same sqrt; iters <= maxiter; early return on ||f|| < eps as the code defines it
//   C05  Richardson: x == k-fold dense iteration of x -> x + w P(f - A x); exact preconditioner (M*A == I): one
//        iteration and A x == f; CG on SPD A with symmetric P: Galerkin certificate r_k _|_ K_k(PA, P r0) and
//        x_k - x0 in K_k (<=> x_k minimises the A-norm error over x0 + K_k)
//   C15  every call of a history equals the same call on a fresh object; rhs and matrix unchanged by the call;
//        zero rhs -> zero vector, 0 iterations; converged guess returned unchanged in 0 iterations
#include "solvers_common.hpp"
#include <amgcl/solver/cg.hpp>
#include <amgcl/solver/bicgstab.hpp>
#include <amgcl/solver/richardson.hpp>
#include <amgcl/solver/preonly.hpp>
#include <tuple>
using namespace vh;
using namespace vsolv;

// which property's oracles are evaluated (tools/checks/Cxx.json passes -DVH_PROP=1|5|15; 0 = all of them)
#ifndef VH_PROP
#define VH_PROP 0
#endif
static const bool O_C01 = VH_PROP == 0 || VH_PROP == 1;
static const bool O_C05 = VH_PROP == 0 || VH_PROP == 5;
static const bool O_C15 = VH_PROP == 0 || VH_PROP == 15;

typedef amgcl::solver::cg<Backend>         CG;
typedef amgcl::solver::bicgstab<Backend>   BiCGStab;
typedef amgcl::solver::richardson<Backend> Richardson;
typedef amgcl::solver::preonly<Backend>    Preonly;

struct Prm { int solver = 0; bool left = false; long maxiter = 0; Q tol, abstol, damping = Q(1); bool check_after = false, ns = false; };
// solver: 0 cg, 1 bicgstab, 2 richardson, 3 preonly
static Prm parse_prm(int solver, Cur &c) {
    Prm p; p.solver = solver;
    if (solver == 3) return p;
    if (solver == 1) { const std::string &s = c.tok(); if (s == "left") p.left = true; else if (s == "right") p.left = false; else throw bad_input("side"); }
    if (solver == 2) p.damping = c.rat();
    p.maxiter = parse_nat(c); p.tol = c.rat(); p.abstol = c.rat();
    if (solver == 1) p.check_after = parse_bool(c);
    p.ns = parse_bool(c);
    return p;
}

static CG::params cg_prm(const Prm &p) { CG::params q; q.maxiter = p.maxiter; q.tol = p.tol; q.abstol = p.abstol; q.ns_search = p.ns; q.verbose = false; return q; }
static BiCGStab::params bi_prm(const Prm &p) { BiCGStab::params q; q.pside = p.left ? amgcl::preconditioner::side::left : amgcl::preconditioner::side::right; q.maxiter = p.maxiter; q.tol = p.tol; q.abstol = p.abstol; q.check_after = p.check_after; q.ns_search = p.ns; q.verbose = false; return q; }
static Richardson::params ri_prm(const Prm &p) { Richardson::params q; q.damping = p.damping; q.maxiter = p.maxiter; q.tol = p.tol; q.abstol = p.abstol; q.ns_search = p.ns; q.verbose = false; return q; }

// ------------------------------------------------------------------ property oracles on ONE call's result
static void oracle(const Prm &p, const CallData &d, const Out &o, Result &r) {
    const long n = d.n();
    if (O_C15 && !o.inputs_untouched) r.fail("rhs or system matrix modified by the solve");
    Dense A = dense(d.A), PD = d.pdense();
    if (p.solver == 3) {                                   // preonly: x = P f, (0, 0)
        std::vector<Q> ref = dmv(PD, d.f);
        if (O_C05 && (o.thrown || o.it != 0 || o.res.v != 0)) r.fail("preonly must return (0, 0)");
        if (O_C05) for (long i = 0; i < n; ++i) if (o.x[i].v != ref[i].v) { r.fail("preonly: x != P f"); break; }
        r.tag("preonly");
        return;
    }
    Q nf = nrm(d.f), eps = mach_eps();
    bool tiny = nf < eps;
    if (tiny) r.tag(dot(d.f, d.f) == 0 ? "zero_rhs" : "tiny_rhs");
    if (tiny && !p.ns) {                                   // the early return as the code defines it
        if (O_C15 && (o.thrown || o.it != 0)) r.fail("zero rhs: expected 0 iterations");
        if (O_C15) for (long i = 0; i < n; ++i) if (o.x[i] != 0) { r.fail("zero rhs: x is not the zero vector"); break; }
        if (O_C01 && !o.thrown && o.res.v != nf.v) r.fail("zero rhs: reported value is not ||f||");
        return;
    }
    if (tiny) { nf = Q(1); r.tag("ns_search"); }
    if (o.thrown) { r.tag("precondition"); if (p.solver != 1) r.fail("only BiCGStab has preconditions"); return; }
    Q epsT = (p.solver == 1) ? std::max(nf * p.tol, p.abstol) : std::max(p.tol * nf, p.abstol);
    // C01: iteration bound
    if (O_C01 && o.it > p.maxiter) r.fail("iters > maxiter");
    // C01: truthfulness, in the exact form the code defines the reported number
    std::vector<Q> tr = resid(A, d.f, o.x);
    if (p.solver == 1 && p.left) tr = dmv(PD, tr);
    Q truth = nrm(tr) / nf;
    if (O_C01 && o.res.v != truth.v) r.fail("reported residual != recomputed true residual of the returned x");
    // the check_after corner (bicgstab.hpp:242-244, fixed in /repo 13b78b9): a call that makes no pass returns x0 itself
    // and - by the oracle above - its true residual, not the placeholder 2*eps/norm_rhs the loop was entered with
    if (p.solver == 1 && p.check_after && o.it == 0) {
        r.tag("check_after_zero_pass");
        if (O_C01) for (long i = 0; i < n; ++i) if (o.x[i].v != d.x0[i].v) { r.fail("bicgstab check_after: zero passes but x != x0"); break; }
        if (O_C01 && !(p.maxiter == 0 || !(Q(2) * epsT > epsT))) r.fail("bicgstab check_after: zero passes although maxiter > 0 and 2*eps > eps");
    }
    // C15: converged guess is returned unchanged in zero iterations
    std::vector<Q> r0 = resid(A, d.f, d.x0); if (p.solver == 1 && p.left) r0 = dmv(PD, r0);
    Q res0 = nrm(r0);
    bool conv0 = !(res0 > epsT);
    if (conv0 && !(p.solver == 1 && p.check_after)) {
        r.tag("conv_guess");
        if (O_C15 && o.it != 0) r.fail("converged initial guess: iterations were made");
        if (O_C15) for (long i = 0; i < n; ++i) if (o.x[i].v != d.x0[i].v) { r.fail("converged initial guess modified"); break; }
    }
    // stop reason
    if (o.it == p.maxiter && nrm(tr) > epsT) r.tag("maxiter_hit"); else if (o.it > 0) r.tag("converged");
    // C05: Richardson closed form
    if (p.solver == 2 && O_C05) {
        std::vector<Q> x = d.x0;
        for (long k = 0; k < o.it; ++k) { std::vector<Q> s = dmv(PD, resid(A, d.f, x)); for (long i = 0; i < n; ++i) x[i] = x[i] + p.damping * s[i]; }
        for (long i = 0; i < n; ++i) if (x[i].v != o.x[i].v) { r.fail("richardson: x != k-fold iterate of x + w P(f - A x)"); break; }
        // stops exactly when converged or out of budget
        if (o.it < p.maxiter && nrm(tr) > epsT) r.fail("richardson stopped early without convergence");
    }
    // C05: exact preconditioner -> one iteration, exact solution
    bool exactP = n > 0 && is_identity(dmul(PD, A));
    if (exactP) {
        r.tag("exact_prec");
        std::vector<Q> rr = resid(A, d.f, d.x0), pr = dmv(PD, rr);
        // (BiCGStab with check_after enters the loop iff 2*eps > eps; the zero-pass corner is tagged check_after_zero_pass)
        bool enters = (p.solver == 1 && p.check_after) ? (Q(2) * epsT > epsT) : !conv0;
        bool applies = p.maxiter >= 1 && enters && !conv0 && epsT >= 0 && !(p.solver == 2 && p.damping != 1)
            && !(p.solver == 0 && dot(rr, pr) == 0) && !(p.solver == 1 && p.left && dot(pr, pr) == 0);
        if (applies && O_C05) {
            if (o.it != 1) r.fail("exact preconditioner: expected exactly one iteration");
            for (long i = 0; i < n; ++i) if (tr[i] != 0) { r.fail("exact preconditioner: A x != f after one iteration"); break; }
        }
    }
    // C05: CG Galerkin / A-norm optimality certificate on SPD A with SPD P
    if (O_C05 && p.solver == 0 && o.it >= 1 && n <= 12 && dspd(A) && dspd(PD)) {
        std::vector<Q> rr = resid(A, d.f, d.x0);
        std::vector<std::vector<Q>> K; std::vector<Q> z = dmv(PD, rr);
        for (long k = 0; k < o.it; ++k) { K.push_back(z); z = dmv(PD, dmv(A, z)); }
        bool ok = true;
        for (auto &kv : K) if (dot(tr, kv) != 0) ok = false;
        if (!ok) r.fail("cg: residual of x_k not orthogonal to K_k(PA, P r0) (x_k does not minimise the A-norm error)");
        std::vector<Q> dx(n); for (long i = 0; i < n; ++i) dx[i] = o.x[i] - d.x0[i];
        std::vector<std::vector<Q>> K2 = K; K2.push_back(dx);
        if (rank_of(K2) != rank_of(K)) r.fail("cg: x_k - x0 not in the Krylov space K_k(PA, P r0)");
        r.tag("cg_optimality_cert");
    }
}

static const char *solver_name(int s) { return s == 0 ? "cg" : s == 1 ? "bicgstab" : s == 2 ? "richardson" : "preonly"; }

static Out run_fresh(const Prm &p, const CallData &d) {
    switch (p.solver) {
        case 0: { CG S(d.n(), cg_prm(p)); return call(S, d); }
        case 1: { BiCGStab S(d.n(), bi_prm(p)); return call(S, d); }
        case 2: { Richardson S(d.n(), ri_prm(p)); return call(S, d); }
        default: { Preonly S(d.n()); return call(S, d); }
    }
}

template <class Solver>
static void run_history(const Solver &S, const Prm &p, const std::vector<CallData> &cs, Result &r) {
    std::string out; long total_it = 0; bool any_throw = false;
    for (size_t k = 0; k < cs.size(); ++k) {
        Out o = call(S, cs[k]);                      // the shared object
        Out fr = run_fresh(p, cs[k]);                // a freshly constructed object, same call
        if (O_C15 && !same_out(o, fr)) r.fail("history: call " + std::to_string(k) + " differs from the same call on a fresh object");
        oracle(p, cs[k], o, r);
        if (k) out += " | ";
        out += show(o);
        total_it += o.thrown ? 0 : o.it; any_throw |= o.thrown;
    }
    r.out = out;
    r.nontrivial = cs.size() >= 2 && total_it >= 2;
    r.tag(std::string("hist_") + solver_name(p.solver)); r.tag("hist_len" + std::to_string(cs.size()));
    if (any_throw) r.tag("hist_with_throw");
}

static Result execute(const Toks &t) {
    Cur c(t);
    const std::string &op = t[0];
    Result r;
    int solver = -1; bool hist = false;
    if (op == "solve_cg") solver = 0; else if (op == "solve_bicgstab") solver = 1; else if (op == "solve_richardson") solver = 2; else if (op == "solve_preonly") solver = 3;
    else if (op == "hist_cg") { solver = 0; hist = true; } else if (op == "hist_bicgstab") { solver = 1; hist = true; } else if (op == "hist_richardson") { solver = 2; hist = true; }
    else { r.out = "bad-op"; return r; }
    Prm p = parse_prm(solver, c);
    if (!hist) {
        CallData d = parse_call(c); c.expect_end(); validate(d);
        Out o = run_fresh(p, d);
        oracle(p, d, o, r);
        r.out = show(o);
        r.nontrivial = !o.thrown && o.it >= 2;
        r.tag(solver_name(solver)); if (solver == 1) r.tag(p.left ? "left" : "right"); if (p.check_after) r.tag("check_after");
        if (!o.thrown && solver != 3) r.tag("it" + std::to_string(o.it));
        r.tag(d.pk == 0 ? "prec_id" : d.pk == 1 ? "prec_diag" : "prec_mat");
        r.tag(is_symmetric(d.A) ? "sym" : "nonsym");
        bool x0nz = false; for (auto &v : d.x0) if (v != 0) x0nz = true; if (x0nz) r.tag("x0_nonzero");
    } else {
        long n = parse_nat(c), k = parse_nat(c);
        std::vector<CallData> cs;
        for (long i = 0; i < k; ++i) cs.push_back(parse_call(c));
        c.expect_end();
        for (auto &d : cs) { validate(d); if (d.n() != n) throw bad_input("n"); }
        if (solver == 0) { CG S(n, cg_prm(p)); run_history(S, p, cs, r); }
        else if (solver == 1) { BiCGStab S(n, bi_prm(p)); run_history(S, p, cs, r); }
        else { Richardson S(n, ri_prm(p)); run_history(S, p, cs, r); }
    }
    return r;
}

static void put_prm(Rng &rng, Line &l, int solver, long maxit_hi) {
    if (solver == 1) l << (rng.coin() ? "left" : "right");
    if (solver == 2) { static const std::vector<Q> w = { Q(1), Q(1), Q::frac(1, 2), Q::frac(2, 3), Q::frac(5, 4) }; l << rng.pick(w); }
    l << rng.range(0, maxit_hi) << gen_tol(rng) << gen_abstol(rng);
    if (solver == 1) l << rng.coin(1, 4);
    l << rng.coin(1, 6);
}

static void generate(Rng &rng, const Opts &o, std::vector<std::string> &lines) {
    long N = o.cases > 0 ? o.cases : (o.thorough() ? 4000 : 400);
    // fixed edge cases first (zero matrix -> zero omega, 1x1, n = 0, maxiter 0 with check_after)
    lines.push_back("solve_bicgstab right 3 0 0 0 0 2 2 0 0 id 2 1 2 2 0 0");
    lines.push_back("solve_bicgstab left 3 0 0 0 0 2 2 0 0 id 2 1 2 2 0 0");
    lines.push_back("solve_bicgstab right 4 0 0 0 0 2 2 1 1 1 1 0 -1 id 2 1 0 2 0 0");
    lines.push_back("solve_cg 3 0 0 0 2 2 0 0 id 2 1 2 2 1 1");
    lines.push_back("solve_cg 3 1/100 0 0 1 1 1 0 2 id 1 4 1 0");
    lines.push_back("solve_cg 2 1/100 0 0 0 0 id 0 0");
    lines.push_back("solve_richardson 1 4 0 0 0 1 1 1 0 1/2 diag 1 2 1 5 1 7");
    lines.push_back("solve_preonly 2 2 1 0 2 1 1 3 mat 2 2 2 0 1 1 1 1 1 -1 2 1 2 2 9 9");
    lines.push_back("solve_bicgstab right 0 1/10 0 1 0 2 2 1 0 2 1 1 3 id 2 1 2 2 0 0");
    // malformed stream: both sides must answer bad-input
    lines.push_back("solve_cg 3 0 0 0 2 2 1 0 1 1 1 1 id 3 1 2 3 2 0 0");            // rhs too long
    lines.push_back("solve_cg 3 0 0 0 2 2 1 2 1 1 1 1 id 2 1 2 2 0 0");              // column out of range
    lines.push_back("solve_cg 3 0 0 0 2 3 1 0 1 1 1 1 id 2 1 2 2 0 0");              // non-square
    lines.push_back("solve_cg x 0 0 0 2 2 1 0 1 1 1 1 id 2 1 2 2 0 0");              // maxiter not a number
    lines.push_back("solve_cg 3 0 0 2 2 2 1 0 1 1 1 1 id 2 1 2 2 0 0");              // ns not a boolean
    lines.push_back("solve_bicgstab up 3 0 0 0 0 2 2 1 0 1 1 1 1 id 2 1 2 2 0 0");   // bad side
    lines.push_back("solve_cg 3 0 0 0 2 2 1 0 1 1 1 1 jacobi 2 1 2 2 0 0");          // unknown preconditioner kind
    lines.push_back("solve_cg 3 0 0 0 2 2 1 0 1 1 1 1 diag 3 1 1 1 2 1 2 2 0 0");    // diag of wrong size
    lines.push_back("solve_cg 3 0 0 0 2 2 1 0 1 1 1 1 mat 1 1 1 0 1 2 1 2 2 0 0");   // M of wrong size
    lines.push_back("solve_cg 3 0 0 0 2 2 1 0 1 1 1 1 id 2 1 2 2 0 0 7");            // trailing token
    lines.push_back("solve_cg 3 0 0 0 2 2 1 0 1 1 1 1 id 2 1 2 2 0");                // x0 too short
    lines.push_back("solve_richardson 1 3 0 0 0 2 2 1 0 1 1 1 1 id 2 1 2 1 0");      // x0 of wrong size
    lines.push_back("hist_cg 3 0 0 0 2 2 2 2 1 0 1 1 1 1 id 2 1 2 2 0 0 1 1 1 0 1 id 1 1 1 0");   // second call has another n
    lines.push_back("solve_preonly 2 2 1 0 1 1 1 1 id 2 1 2");                       // missing x0
    const long nmax = o.thorough() ? 12 : 9;
    for (long k = 0; k < N; ++k) {
        Line l;
        int which = (int)rng.range(0, 19);
        long n = rng.range(1, nmax);
        if (rng.coin(1, 40)) n = 0;
        if (which < 5) { l << "solve_cg"; put_prm(rng, l, 0, 6); put_call(rng, l, n); }
        else if (which < 11) { l << "solve_bicgstab"; put_prm(rng, l, 1, 6); put_call(rng, l, n); }
        else if (which < 14) { l << "solve_richardson"; put_prm(rng, l, 2, 6); put_call(rng, l, n); }
        else if (which == 14) { l << "solve_preonly"; put_call(rng, l, n); }
        else {
            int solver = which == 15 ? 0 : which == 16 ? 2 : 1;
            l << (solver == 0 ? "hist_cg" : solver == 1 ? "hist_bicgstab" : "hist_richardson");
            put_prm(rng, l, solver, 4);
            // all calls of a history share n: use the 1-D / random-graph families only through a fixed n
            long len = rng.range(2, o.thorough() ? 6 : 4);
            n = rng.range(1, 6);
            std::vector<std::string> calls;
            for (long j = 0; j < len; ) {
                Line c; std::string fam, kind; Mat A = gen_matrix(rng, n, fam);
                if (A.n != n) continue;              // grid families may round n: redraw
                c << A; put_prec(rng, c, A); std::vector<Q> f = gen_rhs(rng, n, kind); c << f << gen_x0(rng, A, f);
                calls.push_back(c.get()); ++j;
            }
            l << n << len; for (auto &s : calls) l << s;
        }
        lines.push_back(l.get());
    }
}

VH_MAIN(generate, execute)
