// Shared pieces of the Krylov-solver harnesses (C01 / C05 / C15): the harness-owned preconditioner class, one
// call S(A, P, rhs, x) on a real solver object with exception mapping, exact dense helpers for the oracles,
// and the input generators (matrix families, preconditioner kinds, right-hand sides, initial guesses).
// Used by h_solvers.cpp; meant to be reused by the GMRES/FGMRES/LGMRES/IDR(s)/BiCGStab(L) harness.
#pragma once
#include "gen.hpp"
#include <amgcl/backend/builtin.hpp>
#include <amgcl/value_type/interface.hpp>
#include <tuple>

namespace vsolv {
using namespace vh;

typedef amgcl::backend::builtin<Q> Backend;

// ------------------------------------------------------------------ the harness' own preconditioner class
// interface as in amgcl/preconditioner/dummy.hpp: apply(rhs, x) overwrites x; system_matrix() for the 3-arg form
struct Prec {
    typedef Backend backend_type;
    typedef Backend::matrix matrix;
    int kind = 0;                              // 0 id, 1 diag, 2 mat
    std::shared_ptr<NVec> d;
    std::shared_ptr<Crs> M, A;
    template <class V1, class V2> void apply(const V1 &rhs, V2 &&x) const {
        if (kind == 0) amgcl::backend::copy(rhs, x);
        else if (kind == 1) amgcl::backend::vmul(Q(1), *d, rhs, Q(0), x);
        else amgcl::backend::spmv(Q(1), *M, rhs, Q(0), x);
    }
    const matrix& system_matrix() const { return *A; }
};

struct CallData {
    Mat A; int pk = 0; std::vector<Q> pd; Mat PM; std::vector<Q> f, x0;
    long n() const { return A.n; }
    Dense pdense() const {            // the preconditioner as a dense matrix
        long N = A.n; Dense D(N, std::vector<Q>(N));
        if (pk == 0) for (long i = 0; i < N; ++i) D[i][i] = Q(1);
        else if (pk == 1) for (long i = 0; i < N; ++i) D[i][i] = pd[i];
        else D = dense(PM);
        return D;
    }
};

inline bool mat_wf(const Mat &A) {
    for (auto c : A.col) if (c < 0 || c >= A.m) return false;
    return true;
}
inline CallData parse_call(Cur &c) {
    CallData d; d.A = c.mat();
    const std::string &k = c.tok();
    if (k == "id") d.pk = 0;
    else if (k == "diag") { d.pk = 1; d.pd = c.vec(); }
    else if (k == "mat") { d.pk = 2; d.PM = c.mat(); }
    else throw bad_input("prec");
    d.f = c.vec(); d.x0 = c.vec();
    return d;
}
inline void validate(const CallData &d) {
    if (!mat_wf(d.A) || d.A.n != d.A.m) throw bad_input("A");
    long n = d.A.n;
    if ((long)d.f.size() != n || (long)d.x0.size() != n) throw bad_input("vec");
    if (d.pk == 1 && (long)d.pd.size() != n) throw bad_input("diag");
    if (d.pk == 2 && (!mat_wf(d.PM) || d.PM.n != n || d.PM.m != n)) throw bad_input("M");
}
inline bool parse_bool(Cur &c) { const std::string &s = c.tok(); if (s == "0") return false; if (s == "1") return true; throw bad_input("bool"); }
inline long parse_nat(Cur &c) { const std::string &s = c.tok(); if (s.empty()) throw bad_input("nat"); for (char ch : s) if (ch < '0' || ch > '9') throw bad_input("nat"); return atol(s.c_str()); }

struct Out { bool thrown = false; long it = 0; Q res; std::vector<Q> x; bool inputs_untouched = true; };
inline std::string show(const Out &o) {
    Line l;
    if (o.thrown) l << "precondition"; else { l << "ok" << o.it << o.res; }
    l << o.x; return l.get();
}
inline bool same_out(const Out &a, const Out &b) {
    if (a.thrown != b.thrown) return false;
    if (!a.thrown && (a.it != b.it || a.res.v != b.res.v)) return false;
    if (a.x.size() != b.x.size()) return false;
    for (size_t i = 0; i < a.x.size(); ++i) if (a.x[i].v != b.x[i].v || a.x[i].poison != b.x[i].poison) return false;
    return true;
}

inline Prec make_prec(const CallData &d, std::shared_ptr<Crs> A) {
    Prec P; P.kind = d.pk; P.A = A;
    if (d.pk == 1) P.d = std::make_shared<NVec>(d.pd);
    if (d.pk == 2) P.M = d.PM.crs();
    return P;
}

// run ONE call on the given solver object (the real code)
template <class Solver>
inline Out call(const Solver &S, const CallData &d) {
    auto A = d.A.crs();
    Prec P = make_prec(d, A);
    NVec F(d.f), X(d.x0);
    Out o;
    try {
        size_t it; Q res;
        std::tie(it, res) = S(*A, P, F, X);
        o.it = (long)it; o.res = res;
    } catch (const std::runtime_error&) {
        o.thrown = true;
    }
    o.x.assign(X.data(), X.data() + X.size());
    // rhs and system matrix are never modified
    for (size_t i = 0; i < d.f.size(); ++i) if (F[i].v != d.f[i].v) o.inputs_untouched = false;
    for (size_t j = 0; j < d.A.val.size(); ++j) if (A->val[j].v != d.A.val[j].v || A->col[j] != d.A.col[j]) o.inputs_untouched = false;
    for (long i = 0; i <= d.A.n; ++i) if (A->ptr[i] != d.A.ptr[i]) o.inputs_untouched = false;
    return o;
}
// ------------------------------------------------------------------ exact dense helpers for the oracles
inline Q dot(const std::vector<Q> &a, const std::vector<Q> &b) { Q s(0); for (size_t i = 0; i < a.size(); ++i) s += a[i] * b[i]; return s; }
inline Q nrm(const std::vector<Q> &v) { return vq::sqrt(vq::abs(dot(v, v))); }
inline std::vector<Q> resid(const Dense &A, const std::vector<Q> &f, const std::vector<Q> &x) { std::vector<Q> r = dmv(A, x); for (size_t i = 0; i < r.size(); ++i) r[i] = f[i] - r[i]; return r; }
inline Q mach_eps() { return Q::frac(1, 1L << 51); }          // 2 * 2^-52 * 1
// rank of the column set (Gaussian elimination on a copy); columns given as vectors
inline long rank_of(std::vector<std::vector<Q>> cols) {
    long rk = 0; if (cols.empty()) return 0; size_t n = cols[0].size();
    // row-reduce the matrix whose rows are the given vectors
    std::vector<std::vector<Q>> R = cols; size_t m = R.size(); size_t row = 0;
    for (size_t col = 0; col < n && row < m; ++col) {
        size_t piv = row; while (piv < m && R[piv][col] == 0) ++piv;
        if (piv == m) continue;
        std::swap(R[piv], R[row]);
        for (size_t i = row + 1; i < m; ++i) if (R[i][col] != 0) { Q fct = R[i][col] / R[row][col]; for (size_t j = col; j < n; ++j) R[i][j] -= fct * R[row][j]; }
        ++row; ++rk;
    }
    return rk;
}
inline bool dinv(const Dense &A, Dense &Inv) {
    size_t n = A.size(); Dense W(n, std::vector<Q>(2 * n));
    for (size_t i = 0; i < n; ++i) { for (size_t j = 0; j < n; ++j) W[i][j] = A[i][j]; W[i][n + i] = Q(1); }
    for (size_t c = 0; c < n; ++c) {
        size_t p = c; while (p < n && W[p][c] == 0) ++p; if (p == n) return false;
        std::swap(W[p], W[c]); Q pv = W[c][c]; for (size_t j = 0; j < 2 * n; ++j) W[c][j] /= pv;
        for (size_t i = 0; i < n; ++i) if (i != c && W[i][c] != 0) { Q fct = W[i][c]; for (size_t j = 0; j < 2 * n; ++j) W[i][j] -= fct * W[c][j]; }
    }
    Inv.assign(n, std::vector<Q>(n)); for (size_t i = 0; i < n; ++i) for (size_t j = 0; j < n; ++j) Inv[i][j] = W[i][n + j];
    return true;
}
inline bool is_identity(const Dense &D) { for (size_t i = 0; i < D.size(); ++i) for (size_t j = 0; j < D.size(); ++j) if (D[i][j] != (i == j ? Q(1) : Q(0))) return false; return true; }
inline bool dsym(const Dense &D) { for (size_t i = 0; i < D.size(); ++i) for (size_t j = 0; j < i; ++j) if (D[i][j] != D[j][i]) return false; return true; }
// SPD test by exact Cholesky-free elimination: all leading pivots of symmetric D positive
inline bool dspd(Dense D) {
    if (!dsym(D)) return false; size_t n = D.size();
    for (size_t c = 0; c < n; ++c) { if (!(D[c][c] > 0)) return false; for (size_t i = c + 1; i < n; ++i) { Q fct = D[i][c] / D[c][c]; for (size_t j = c; j < n; ++j) D[i][j] -= fct * D[c][j]; } }
    return true;
}

// ------------------------------------------------------------------ generators
inline Mat dense_to_mat(const Dense &D, bool keep_zeros = false) {
    std::vector<std::vector<std::pair<long,Q>>> rows(D.size());
    for (size_t i = 0; i < D.size(); ++i) for (size_t j = 0; j < D[i].size(); ++j) if (keep_zeros || D[i][j] != 0) rows[i].push_back({(long)j, D[i][j]});
    return from_rows((long)D.size(), D.empty() ? 0 : (long)D[0].size(), rows);
}
inline Mat gen_generic(Rng &rng, long n) {         // generic, usually nonsingular, non-symmetric
    Mat A = gen_sparse(rng, n, n, (int)rng.range(30, 80));
    auto rows = to_rows(A);
    for (long i = 0; i < n; ++i) { bool has = false; for (auto &cv : rows[i]) if (cv.first == i) { has = true; cv.second += Q(rng.range(3, 9)); } if (!has) rows[i].push_back({i, Q(rng.range(3, 9))}); }
    return from_rows(n, n, rows);
}
inline Mat gen_matrix(Rng &rng, long n, std::string &fam) {
    if (n == 0) { fam = "empty"; return from_rows(0, 0, {}); }
    int k = (int)rng.range(0, 19);
    if (k < 7) { fam = "spd"; return gen_spd(rng, n); }
    if (k < 11) { fam = "convdiff"; return gen_convdiff(rng, n); }
    if (k < 15) { fam = "generic"; return gen_generic(rng, n); }
    if (k == 15) { fam = "zero"; return from_rows(n, n, std::vector<std::vector<std::pair<long,Q>>>(n)); }
    if (k == 16) { fam = "skew"; Dense D(n, std::vector<Q>(n)); for (long i = 0; i < n; ++i) for (long j = i + 1; j < n; ++j) if (rng.coin()) { Q v = rng.rat_nz(3); D[i][j] = v; D[j][i] = -v; } return dense_to_mat(D); }
    if (k == 17) { fam = "singular"; Mat A = gen_generic(rng, n); auto rows = to_rows(A); if (n >= 2) rows[n - 1] = rows[0]; return from_rows(n, n, rows); }
    if (k == 18) { fam = "unsorted"; return unsort(rng, gen_spd(rng, n), rng.coin()); }
    fam = "identity"; Dense D(n, std::vector<Q>(n)); for (long i = 0; i < n; ++i) D[i][i] = Q(1); return dense_to_mat(D);
}
inline void put_prec(Rng &rng, Line &l, const Mat &A) {
    long n = A.n; int k = (int)rng.range(0, 9);
    if (n == 0) { if (k < 3) l << "id"; else if (k < 6) l << "diag" << std::vector<Q>(); else l << "mat" << from_rows(0, 0, {}); return; }
    Dense D = dense(A);
    if (k < 3) { l << "id"; return; }
    if (k < 5) {                                   // Jacobi: 1 / a_ii (0 where the diagonal is zero: total division)
        std::vector<Q> d(n); for (long i = 0; i < n; ++i) d[i] = Q(1) / D[i][i]; l << "diag" << d; return; }
    if (k == 5) { std::vector<Q> d(n); for (long i = 0; i < n; ++i) d[i] = rng.rat(4); l << "diag" << d; return; }
    if (k == 6) { Dense I; if (dinv(D, I)) { l << "mat" << dense_to_mat(I); return; } }     // exact inverse
    if (k == 7) {                                  // symmetric positive definite M (another M-matrix), valid for CG
        l << "mat" << gen_spd(rng, n, 0); return; }
    // arbitrary sparse linear map
    l << "mat" << gen_sparse(rng, n, n, (int)rng.range(20, 70));
}
inline std::vector<Q> gen_rhs(Rng &rng, long n, std::string &kind) {
    int k = (int)rng.range(0, 15);
    if (k == 0) { kind = "zero"; return std::vector<Q>(n, Q(0)); }
    if (k == 1) { kind = "tiny"; std::vector<Q> f(n, Q(0)); if (n) f[rng.range(0, n - 1)] = Q::frac(rng.coin() ? 1 : -3, 1L << 60); return f; }
    kind = "rand"; return gen_vec(rng, n, rng.coin());
}
inline std::vector<Q> gen_x0(Rng &rng, const Mat &A, const std::vector<Q> &f) {
    long n = A.n; int k = (int)rng.range(0, 9);
    if (k < 4) return std::vector<Q>(n, Q(0));
    if (k == 4) { Dense I; if (dinv(dense(A), I)) return dmv(I, f); }                       // already converged guess
    return gen_vec(rng, n);
}
inline Q gen_tol(Rng &rng) {
    static const std::vector<Q> tols = { Q(0), Q(0), Q::frac(1, 100000000), Q::frac(1, 100000000), Q::frac(1, 100000000), Q::frac(1, 1000), Q::frac(1, 1000), Q::frac(1, 10), Q::frac(1, 2), Q(10) };
    return rng.pick(tols);
}
inline Q gen_abstol(Rng &rng) {
    static const std::vector<Q> v = { Q(0), Q(0), Q(0), Q(0), Q(0), Q::frac(1, 1000000), Q::frac(1, 4), Q(3) };
    return rng.pick(v);
}
inline void put_call(Rng &rng, Line &l, long n) {
    std::string fam, kind; Mat A = gen_matrix(rng, n, fam);
    n = A.n;
    l << A; put_prec(rng, l, A);
    std::vector<Q> f = gen_rhs(rng, n, kind);
    l << f << gen_x0(rng, A, f);
}

} // namespace vsolv
