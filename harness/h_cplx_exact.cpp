// C05 / C01 / C13 harness: the REAL amgcl::solver::{cg,bicgstab,richardson,gmres,fgmres,lgmres,idrs,bicgstabl}
// <builtin<std::complex<Q>>> at the EXACT Gaussian rationals (harness/cq.hpp), called through operator()(A, P, rhs, x).
//
// Ops (the same text is fed to the Lean models run at the carrier CRat, lean/Amgcl/Driver/SolversC.lean):
//   cxs_cg         maxiter tol abstol                 A PREC f x0
//   cxs_bicgstab   side maxiter tol abstol            A PREC f x0
//   cxs_richardson damping maxiter tol abstol         A PREC f x0
//   cxs_gmres      side M maxiter tol abstol          A PREC f x0
//   cxs_fgmres     M maxiter tol abstol               A PREC f x0
//   cxs_lgmres     side M K maxiter tol abstol        A PREC f x0
//   cxs_bicgstabl  side L delta convex maxiter tol abstol   A PREC f x0
//   cxs_idrs       s omega smoothing replacement maxiter tol abstol   A PREC f x0 RAW
// RAW = the s REAL random vectors (each `n c_1 .. c_n`) the constructor of idrs draws with one thread (mt19937(0), uniform(-1,1));
// the shadow vector entries are math::constant<complex>(c) = (c, c).  The generator always writes the native stream and the real
// object is used untouched (OMP_NUM_THREADS = 1).
// tol, abstol, damping: non-negative REAL rationals (scalar_type = Q); every other number is a Gaussian rational `re im`;
// A: complex CRS `n m` then per row `k (col re im)^k`; PREC = id | diag <cvec> | mat <complex CRS>; vectors `n (re im)^n`.
// Result: "ok <iters> <res> <n> (re im)^n" or "precondition <x>".
//
// std::sqrt(std::complex<Q>) (gmres / fgmres / lgmres / idrs: norm(x) = std::abs(sqrt(inner_product(x, x))), and the
// argument of generate_plane_rotation) is libstdc++'s generic __complex_sqrt spelled out for Q below (the generic template
// does not compile for Q for the reason given in cq.hpp); the Lean driver evaluates the same function (csqrt).
//
// Implementation-side oracles (exact arithmetic, independent of the Lean model):
//   C01  reported residual == norm(f - A x)/norm(f) (left: norm(P(f - A x))/norm(f)) recomputed densely from the returned x
//        with the norm formula of the solver (cg/bicgstab/richardson: rsqrt(|<r,r>|); the others: |csqrt(<r,r>)|); it <= maxiter
//   C05  CG on Hermitian positive definite A with a positive real diagonal (or identity) preconditioner, and BiCGStab (both
//        sides) with tol = abstol = 0: x_it == the textbook recurrence with Hermitian inner products y^H x evaluated here;
//        Richardson: x == it-fold x + w P(f - A x);
//        IDR(s) (omega = 0, no smoothing): the (s+1)j-th iteration is x += om P r with om a positive real multiple of
//        t^H r / t^H t, t = A P r, r = f - A x of the run with maxiter - 1 (the residual-minimising direction; the modulus
//        carries the inexact root of norm(t) and is not compared)
#include "cq.hpp"
namespace std {
template <> inline complex<vq::Q> sqrt<vq::Q>(const complex<vq::Q> &z) {
    vq::Q x = z.real(), y = z.imag();
    if (x == vq::Q(0)) {
        vq::Q t = vq::sqrt(vq::abs(y) / vq::Q(2));
        return complex<vq::Q>(t, y < vq::Q(0) ? -t : t);
    } else {
        vq::Q t = vq::sqrt(vq::Q(2) * (std::abs(z) + vq::abs(x)));
        vq::Q u = t / vq::Q(2);
        return x > vq::Q(0) ? complex<vq::Q>(u, y / t) : complex<vq::Q>(vq::abs(y) / t, y < vq::Q(0) ? -u : u);
    }
}
}
#include "gen.hpp"
#include <amgcl/value_type/complex.hpp>
#include <amgcl/solver/cg.hpp>
#include <amgcl/solver/bicgstab.hpp>
#include <amgcl/solver/richardson.hpp>
#include <amgcl/solver/gmres.hpp>
#include <amgcl/solver/fgmres.hpp>
#include <amgcl/solver/lgmres.hpp>
#include <amgcl/solver/bicgstabl.hpp>
#include <random>
#include <amgcl/solver/idrs.hpp>
#include <tuple>
using namespace vh;

typedef std::complex<Q> CQ;
typedef amgcl::backend::builtin<CQ> CB;
typedef amgcl::backend::crs<CQ, ptrdiff_t, ptrdiff_t> CCrs;
typedef amgcl::backend::numa_vector<CQ> CVec;
typedef std::vector<CQ> cvec;
typedef std::vector<cvec> CDense;

struct CMat { long n = 0, m = 0; std::vector<ptrdiff_t> ptr, col; std::vector<CQ> val;
    std::shared_ptr<CCrs> crs() const { return std::make_shared<CCrs>((size_t)n, (size_t)m, ptr, col, val); } };
static CQ pcq(Cur &c) { Q a = c.rat(); Q b = c.rat(); return CQ(a, b); }
static cvec pcvec(Cur &c) { long n = c.nat(); if (n < 0) throw bad_input("n"); cvec v(n); for (auto &x : v) x = pcq(c); return v; }
static CMat pcmat(Cur &c) {
    CMat M; M.n = c.nat(); M.m = c.nat(); if (M.n < 0 || M.m < 0) throw bad_input("n"); M.ptr.push_back(0);
    for (long r = 0; r < M.n; ++r) { long k = c.nat(); if (k < 0) throw bad_input("k"); for (long j = 0; j < k; ++j) { long cc = c.nat(); if (cc < 0 || cc >= M.m) throw bad_input("col"); M.col.push_back(cc); M.val.push_back(pcq(c)); } M.ptr.push_back((ptrdiff_t)M.col.size()); }
    return M;
}
static CDense cdense(const CMat &A) { CDense D(A.n, cvec(A.m)); for (long i = 0; i < A.n; ++i) for (auto j = A.ptr[i]; j < A.ptr[i+1]; ++j) D[i][A.col[j]] += A.val[j]; return D; }
static cvec cmv(const CDense &A, const cvec &x) { cvec y(A.size()); for (size_t i = 0; i < A.size(); ++i) for (size_t j = 0; j < x.size(); ++j) y[i] += A[i][j] * x[j]; return y; }
static Line& operator<<(Line &l, const CQ &z) { l << z.real() << z.imag(); return l; }
static Line& putcv(Line &l, const cvec &v) { l << v.size(); for (auto &z : v) l << z; return l; }
static Line& putcm(Line &l, const CMat &A) { l << A.n << A.m; for (long i = 0; i < A.n; ++i) { l << (long)(A.ptr[i+1] - A.ptr[i]); for (auto j = A.ptr[i]; j < A.ptr[i+1]; ++j) { l << (long)A.col[j]; l << A.val[j]; } } return l; }
static CMat cfrom_dense(const CDense &D) { CMat M; M.n = (long)D.size(); M.m = M.n; M.ptr.push_back(0); for (auto &r : D) { for (size_t j = 0; j < r.size(); ++j) if (!(r[j] == CQ())) { M.col.push_back((ptrdiff_t)j); M.val.push_back(r[j]); } M.ptr.push_back((ptrdiff_t)M.col.size()); } return M; }
static bool iszero(const CQ &z) { return z.real().v == 0 && z.imag().v == 0; }
static bool ceq(const CQ &a, const CQ &b) { return a.real().v == b.real().v && a.imag().v == b.imag().v; }
// y^H x  (amgcl: inner_product(x, y))
static CQ cip(const cvec &x, const cvec &y) { CQ s; for (size_t i = 0; i < x.size(); ++i) s += x[i] * std::conj(y[i]); return s; }
static Q nrm1(const cvec &v) { return vq::sqrt(std::abs(cip(v, v))); }           // sqrt(math::norm(inner_product(x, x)))
static Q nrmA(const cvec &v) { return std::abs(std::sqrt(cip(v, v))); }          // std::abs(sqrt(inner_product(x, x)))
static Q mach_eps() { return Q::frac(1, 1L << 51); }

struct CPrec {
    typedef CB backend_type; typedef CB::matrix matrix;
    int kind = 0; std::shared_ptr<CVec> d; std::shared_ptr<CCrs> M, A;
    template <class V1, class V2> void apply(const V1 &rhs, V2 &&x) const {
        if (kind == 0) amgcl::backend::copy(rhs, x);
        else if (kind == 1) amgcl::backend::vmul(CQ(Q(1)), *d, rhs, CQ(Q(0)), x);
        else amgcl::backend::spmv(CQ(Q(1)), *M, rhs, CQ(Q(0)), x);
    }
    const matrix& system_matrix() const { return *A; }
};
struct CCall { CMat A; int pk = 0; cvec pd; CMat PM; cvec f, x0;
    long n() const { return A.n; }
    CDense pdense() const { long N = A.n; CDense D(N, cvec(N)); if (pk == 0) for (long i = 0; i < N; ++i) D[i][i] = CQ(Q(1)); else if (pk == 1) for (long i = 0; i < N; ++i) D[i][i] = pd[i]; else D = cdense(PM); return D; } };
static CCall parse_call(Cur &c) {
    CCall d; d.A = pcmat(c); const std::string &k = c.tok();
    if (k == "id") d.pk = 0; else if (k == "diag") { d.pk = 1; d.pd = pcvec(c); } else if (k == "mat") { d.pk = 2; d.PM = pcmat(c); } else throw bad_input("prec");
    d.f = pcvec(c); d.x0 = pcvec(c);
    long n = d.A.n;
    if (d.A.n != d.A.m || n < 1) throw bad_input("A");
    if ((long)d.f.size() != n || (long)d.x0.size() != n) throw bad_input("vec");
    if (d.pk == 1 && (long)d.pd.size() != n) throw bad_input("diag");
    if (d.pk == 2 && (d.PM.n != n || d.PM.m != n)) throw bad_input("M");
    return d;
}
static long pnat(Cur &c) { const std::string &s = c.tok(); if (s.empty()) throw bad_input("nat"); for (char ch : s) if (ch < '0' || ch > '9') throw bad_input("nat"); return atol(s.c_str()); }
static Q pnonneg(Cur &c) { Q q = c.rat(); if (q.poison || q.v < 0) throw bad_input("negative"); return q; }
static bool pbool(Cur &c) { const std::string &s = c.tok(); if (s == "0") return false; if (s == "1") return true; throw bad_input("bool"); }
static bool pside(Cur &c) { const std::string &s = c.tok(); if (s == "left") return true; if (s == "right") return false; throw bad_input("side"); }

struct Out { bool thrown = false; long it = 0; Q res; cvec x; };
static std::string show(const Out &o) { Line l; if (o.thrown) l << "precondition"; else l << "ok" << o.it << o.res; putcv(l, o.x); return l.get(); }

template <class Solver>
static Out call(const Solver &S, const CCall &d) {
    auto A = d.A.crs(); CPrec P; P.kind = d.pk; P.A = A;
    if (d.pk == 1) P.d = std::make_shared<CVec>(d.pd);
    if (d.pk == 2) P.M = d.PM.crs();
    CVec F(d.f), X(d.x0); Out o;
    try { size_t it; Q res; std::tie(it, res) = S(*A, P, F, X); o.it = (long)it; o.res = res; }
    catch (const std::runtime_error&) { o.thrown = true; }
    o.x.assign(X.data(), X.data() + X.size());
    return o;
}

typedef amgcl::solver::cg<CB> CG;
typedef amgcl::solver::bicgstab<CB> BiCGStab;
typedef amgcl::solver::richardson<CB> Richardson;
typedef amgcl::solver::gmres<CB> GMRES;
typedef amgcl::solver::fgmres<CB> FGMRES;
typedef amgcl::solver::idrs<CB> IDRS;
typedef amgcl::solver::lgmres<CB> LGMRES;
typedef amgcl::solver::bicgstabl<CB> BiCGStabL;

struct Prm { int solver = 0; bool left = false, smoothing = false, replacement = false, convex = true; long maxiter = 0, M = 1, K = 0, s = 1, L = 1; Q tol, abstol, damping = Q(1), omega, delta; };
// 0 cg, 1 bicgstab, 2 richardson, 3 gmres, 4 fgmres, 5 idrs, 6 lgmres, 7 bicgstabl
template <class P> static void common(P &q, const Prm &p) { q.maxiter = p.maxiter; q.tol = p.tol; q.abstol = p.abstol; q.ns_search = false; q.verbose = false; }
static Out run(const Prm &p, const CCall &d) {
    auto sd = p.left ? amgcl::preconditioner::side::left : amgcl::preconditioner::side::right;
    switch (p.solver) {
        case 0: { CG::params q; common(q, p); CG S(d.n(), q); return call(S, d); }
        case 1: { BiCGStab::params q; common(q, p); q.pside = sd; q.check_after = false; BiCGStab S(d.n(), q); return call(S, d); }
        case 2: { Richardson::params q; common(q, p); q.damping = p.damping; Richardson S(d.n(), q); return call(S, d); }
        case 3: { GMRES::params q; common(q, p); q.pside = sd; q.M = (unsigned)p.M; GMRES S(d.n(), q); return call(S, d); }
        case 4: { FGMRES::params q; common(q, p); q.M = (unsigned)p.M; FGMRES S(d.n(), q); return call(S, d); }
        case 5: { IDRS::params q; common(q, p); q.s = (unsigned)p.s; q.omega = p.omega; q.smoothing = p.smoothing; q.replacement = p.replacement; IDRS S(d.n(), q); return call(S, d); }
        case 7: { BiCGStabL::params q; common(q, p); q.pside = sd; q.L = (int)p.L; q.delta = p.delta; q.convex = p.convex; BiCGStabL S(d.n(), q); return call(S, d); }
        default: { LGMRES::params q; common(q, p); q.pside = sd; q.M = (unsigned)p.M; q.K = (unsigned)p.K; q.always_reset = true; LGMRES S(d.n(), q); return call(S, d); }
    }
}
static const char *sname(int s) { static const char *n[] = {"cg", "bicgstab", "richardson", "gmres", "fgmres", "idrs", "lgmres", "bicgstabl"}; return n[s]; }

static bool hermitian(const CDense &D) { for (size_t i = 0; i < D.size(); ++i) for (size_t j = 0; j <= i; ++j) if (!ceq(D[i][j], std::conj(D[j][i]))) return false; return true; }
// Hermitian, positive real diagonal, strictly diagonally dominant in the 1-norm of (re, im)  =>  positive definite
static bool hpd_dd(const CDense &D) {
    if (!hermitian(D)) return false;
    for (size_t i = 0; i < D.size(); ++i) { Q s(0); for (size_t j = 0; j < D.size(); ++j) if (j != i) s += vq::abs(D[i][j].real()) + vq::abs(D[i][j].imag()); if (!(D[i][i].real() > s)) return false; }
    return true;
}
static cvec axpy(const CQ &a, const cvec &x, const cvec &y) { cvec r(y); for (size_t i = 0; i < x.size(); ++i) r[i] += a * x[i]; return r; }
static cvec resid(const CDense &A, const cvec &f, const cvec &x) { cvec r = cmv(A, x); for (size_t i = 0; i < r.size(); ++i) r[i] = f[i] - r[i]; return r; }
static bool same(const cvec &a, const cvec &b) { for (size_t i = 0; i < a.size(); ++i) if (!ceq(a[i], b[i])) return false; return true; }

static void oracle(const Prm &p, const CCall &d, const Out &o, Result &r) {
    const long n = d.n(); CDense A = cdense(d.A), PD = d.pdense();
    const bool normA = p.solver >= 3 && p.solver <= 6;      // gmres, fgmres, idrs, lgmres: std::abs(sqrt(<x,x>)); the others: sqrt(math::norm(<x,x>))
    Q nf = normA ? nrmA(d.f) : nrm1(d.f);
    if (nf < mach_eps()) { r.tag("tiny_rhs"); return; }
    if (o.thrown) { r.tag("precondition"); if (p.solver != 1 && p.solver != 5 && p.solver != 7) r.fail("only BiCGStab / IDR(s) / BiCGStab(L) have preconditions"); return; }
    if (o.it > p.maxiter + (p.solver == 7 ? p.L - 1 : 0)) r.fail("iters > maxiter");
    if (p.solver == 5 && p.smoothing) { r.tag("idrs_smoothed_residual_not_compared"); return; }
    cvec tr = resid(A, d.f, o.x);
    if ((p.solver == 1 || p.solver == 3 || p.solver == 6 || p.solver == 7) && p.left) tr = cmv(PD, tr);
    Q truth = (normA ? nrmA(tr) : nrm1(tr)) / nf;
    if (o.res.v != truth.v) r.fail("reported residual != recomputed true residual of the returned x");
    const bool tol0 = p.tol.v == 0 && p.abstol.v == 0;
    if (p.solver == 2) {                                   // Richardson closed form
        cvec x = d.x0;
        for (long k = 0; k < o.it; ++k) x = axpy(CQ(p.damping), cmv(PD, resid(A, d.f, x)), x);
        if (!same(x, o.x)) r.fail("richardson: x != it-fold iterate of x + w P(f - A x)");
        r.tag("richardson_closed_form");
    }
    if (p.solver == 0 && tol0 && o.it >= 1 && hpd_dd(A) && hpd_dd(PD)) {       // textbook PCG, Hermitian inner products
        cvec x = d.x0, rr = resid(A, d.f, x), z = cmv(PD, rr), pp = z; bool okr = true;
        CQ rz = cip(rr, z);                                                      // z^H r
        for (long k = 0; k < o.it && okr; ++k) {
            cvec q = cmv(A, pp); CQ den = cip(q, pp);                            // p^H A p
            if (iszero(den) || iszero(rz)) { okr = false; break; }
            CQ alpha = rz / den; x = axpy(alpha, pp, x); rr = axpy(-alpha, q, rr);
            z = cmv(PD, rr); CQ rz1 = cip(rr, z); CQ beta = rz1 / rz; rz = rz1;
            cvec np = z; for (long i = 0; i < n; ++i) np[i] += beta * pp[i]; pp = np;
        }
        if (okr) { r.tag("cg_textbook"); if (!same(x, o.x)) r.fail("cg: x_k != textbook preconditioned CG recurrence (Hermitian inner products)"); }
    }
    if (p.solver == 1 && tol0 && o.it >= 1) {                                    // textbook BiCGStab, both sides
        auto T = [&](const cvec &v) { return p.left ? cmv(PD, cmv(A, v)) : cmv(A, cmv(PD, v)); };
        auto U = [&](const cvec &v) { return p.left ? v : cmv(PD, v); };
        cvec x = d.x0, rr = resid(A, d.f, x); if (p.left) rr = cmv(PD, rr);
        cvec rh = rr, pp, v; CQ rho_old, alpha, omega; bool okr = true;
        for (long k = 0; k < o.it && okr; ++k) {
            CQ rho = cip(rr, rh);                                                // rh^H r
            if (k == 0) pp = rr; else { if (iszero(rho_old) || iszero(omega)) { okr = false; break; } CQ beta = (rho / rho_old) * (alpha / omega); cvec np = rr; for (long i = 0; i < n; ++i) np[i] += beta * (pp[i] - omega * v[i]); pp = np; }
            v = T(pp); CQ den = cip(v, rh);                                      // rh^H v
            if (iszero(den)) { okr = false; break; }
            alpha = rho / den; cvec s = axpy(-alpha, v, rr); x = axpy(alpha, U(pp), x);
            if (iszero(cip(s, s))) { okr = (k + 1 == o.it); rr = s; break; }
            cvec t = T(s); CQ tt = cip(t, t); if (iszero(tt)) { okr = false; break; }
            omega = cip(s, t) / tt;                                              // t^H s / t^H t
            if (iszero(omega)) { okr = false; break; }
            x = axpy(omega, U(s), x); rr = axpy(-omega, t, s); rho_old = rho;
        }
        if (okr) { r.tag("bicgstab_textbook"); if (!same(x, o.x)) r.fail("bicgstab: x_k != textbook BiCGStab recurrence (alpha = rh^H r / rh^H v, omega = t^H s / t^H t)"); }
    }
    if (p.solver == 5 && p.omega.v == 0 && !p.smoothing && tol0 && o.it == p.maxiter && p.maxiter >= 1 && p.maxiter % (p.s + 1) == 0) {   // the om step is residual-minimising
        Prm p1 = p; p1.maxiter = p.maxiter - 1; Out o1 = run(p1, d);
        if (!o1.thrown && o1.it == p1.maxiter) {
            cvec r0 = resid(A, d.f, o1.x), v = cmv(PD, r0), t = cmv(A, v), r1 = resid(A, d.f, o.x);
            // x1 - x0 = om v for one scalar om: (x1 - x0)_i v_j == (x1 - x0)_j v_i
            cvec dx(n); for (long i = 0; i < n; ++i) dx[i] = o.x[i] - o1.x[i];
            bool par = true; for (long i = 0; i < n && par; ++i) for (long j = 0; j < i; ++j) if (!ceq(dx[i] * v[j], dx[j] * v[i])) { par = false; break; }
            if (!par) r.fail("idrs: the (s+1)j-th iteration is not x += om P r");
            else {
                // om = ts / (norm_t * norm_t) with norm_t = |csqrt(<t,t>)| (an inexact root at Q): om must be a POSITIVE REAL multiple
                // of the residual-minimising value t^H r / t^H t.  om is read off r1 = r0 - om t:  om = (t^H r0 - t^H r1) / t^H t
                CQ ts = cip(r0, t), tt = cip(t, t);
                if (!iszero(tt) && !iszero(ts)) {
                    CQ om = (ts - cip(r1, t)) / tt, w = om * std::conj(ts);
                    if (w.imag().v != 0 || !(w.real().v > 0)) r.fail("idrs: om of the dimension-reduction step is not a positive real multiple of t^H r / t^H t (conjugated?)");
                    r.tag("idrs_om_minres");
                    if (ts.imag().v != 0 && ts.real().v != 0) r.tag("idrs_om_complex");
                }
            }
        }
    }
}

static Result execute(const Toks &t) {
    Cur c(t); const std::string &op = t[0]; Result r; Prm p;
    if (op == "cxs_cg") p.solver = 0; else if (op == "cxs_bicgstab") p.solver = 1; else if (op == "cxs_richardson") p.solver = 2;
    else if (op == "cxs_gmres") p.solver = 3; else if (op == "cxs_fgmres") p.solver = 4; else if (op == "cxs_idrs") p.solver = 5; else if (op == "cxs_lgmres") p.solver = 6; else if (op == "cxs_bicgstabl") p.solver = 7;
    else { r.out = "bad-op"; return r; }
    if (p.solver == 1 || p.solver == 3 || p.solver == 6 || p.solver == 7) p.left = pside(c);
    if (p.solver == 7) { p.L = pnat(c); if (p.L < 1) throw bad_input("L"); p.delta = pnonneg(c); p.convex = pbool(c); }
    if (p.solver == 2) p.damping = pnonneg(c);
    if (p.solver == 3 || p.solver == 4 || p.solver == 6) { p.M = pnat(c); if (p.M < 1) throw bad_input("M"); }
    if (p.solver == 6) p.K = pnat(c);
    if (p.solver == 5) { p.s = pnat(c); if (p.s < 1) throw bad_input("s"); p.omega = pnonneg(c); p.smoothing = pbool(c); p.replacement = pbool(c); }
    p.maxiter = pnat(c); p.tol = pnonneg(c); p.abstol = pnonneg(c);
    CCall d = parse_call(c);
    if (p.solver == 5) { for (long j = 0; j < p.s; ++j) { std::vector<Q> raw = c.vec(); if ((long)raw.size() != d.n()) throw bad_input("raw"); } }
    c.expect_end();
    if (p.solver == 5 && p.s > d.n()) throw bad_input("s > n");
    Out o = run(p, d);
    oracle(p, d, o, r);
    r.out = show(o);
    bool cplx = false; for (auto &z : d.A.val) if (z.imag().v != 0) cplx = true;
    r.nontrivial = !o.thrown && o.it >= 2 && cplx;
    r.tag(sname(p.solver)); if (p.solver == 1 || p.solver == 3 || p.solver == 6 || p.solver == 7) r.tag(p.left ? "left" : "right");
    if (p.solver == 7) { r.tag("L" + std::to_string(p.L)); r.tag(p.convex ? "convex" : "non_convex"); if (p.delta.v != 0) r.tag("delta_nz"); }
    if (p.solver == 5) { if (p.smoothing) r.tag("smoothing"); if (p.replacement) r.tag("replacement"); if (p.omega.v != 0) r.tag("omega_nz"); }
    if (!o.thrown) r.tag("it" + std::to_string(o.it));
    r.tag(d.pk == 0 ? "prec_id" : d.pk == 1 ? "prec_diag" : "prec_mat");
    r.tag(hermitian(cdense(d.A)) ? "hermitian" : "non_hermitian");
    bool x0nz = false; for (auto &v : d.x0) if (!iszero(v)) x0nz = true; if (x0nz) r.tag("x0_nonzero");
    return r;
}

// ------------------------------------------------------------------ generators
static CQ gq(Rng &rng, long pm = 3) { return CQ(Q::frac(rng.range(-pm, pm), rng.range(1, 2)), Q::frac(rng.range(-pm, pm), rng.range(1, 2))); }
static CQ gq_nz(Rng &rng, long pm = 3) { for (;;) { CQ z = gq(rng, pm); if (!iszero(z)) return z; } }
static cvec gcv(Rng &rng, long n) { cvec v(n); for (auto &z : v) z = gq(rng); return v; }
static CDense gen_herm(Rng &rng, long n) {
    CDense D(n, cvec(n));
    for (long i = 0; i < n; ++i) for (long j = 0; j < i; ++j) if (rng.coin(2, 3)) { CQ z = gq(rng, 2); D[i][j] = z; D[j][i] = std::conj(z); }
    for (long i = 0; i < n; ++i) { Q s(0); for (long j = 0; j < n; ++j) if (j != i) s += vq::abs(D[i][j].real()) + vq::abs(D[i][j].imag()); D[i][i] = CQ(s + Q::frac(rng.range(1, 4), 2), Q(0)); }
    return D;
}
static CDense gen_general(Rng &rng, long n) {
    CDense D(n, cvec(n));
    for (long i = 0; i < n; ++i) for (long j = 0; j < n; ++j) if (i != j && rng.coin(1, 2)) D[i][j] = gq(rng, 2);
    for (long i = 0; i < n; ++i) { CQ z = gq_nz(rng, 2); D[i][i] = z * CQ(Q(rng.range(2, 4)), Q(0)); }
    return D;
}
static CDense gen_csym(Rng &rng, long n) {            // complex-symmetric shifted 1-D Laplacian (Helmholtz-like)
    CDense D(n, cvec(n)); CQ sh = gq_nz(rng, 2);
    for (long i = 0; i < n; ++i) { D[i][i] = CQ(Q(2), Q(0)) + sh; if (i + 1 < n) { D[i][i+1] = CQ(Q(-1), Q(0)); D[i+1][i] = CQ(Q(-1), Q(0)); } }
    return D;
}
static void put_case(Rng &rng, Line &l, int solver, long n) {
    CDense D; int fam = solver == 0 ? 0 : (int)rng.range(0, 3);
    if (fam == 0) D = gen_herm(rng, n); else if (fam == 3) D = gen_csym(rng, n); else D = gen_general(rng, n);
    putcm(l, cfrom_dense(D));
    int k = (int)rng.range(0, 5);
    if (k < 2) l << "id";
    else if (k < 4) { cvec d(n); for (long i = 0; i < n; ++i) d[i] = (solver == 0) ? CQ(Q(1) / D[i][i].real(), Q(0)) : (k == 2 ? CQ(Q(1)) / D[i][i] : gq_nz(rng, 2)); l << "diag"; putcv(l, d); }
    else { CDense M = (solver == 0) ? gen_herm(rng, n) : gen_general(rng, n); l << "mat"; putcm(l, cfrom_dense(M)); }
    putcv(l, gcv(rng, n));
    if (rng.coin()) putcv(l, cvec(n)); else putcv(l, gcv(rng, n));
}
static void put_tols(Rng &rng, Line &l) {
    static const std::vector<Q> tols = { Q(0), Q(0), Q(0), Q::frac(1, 100000000), Q::frac(1, 10) };
    static const std::vector<Q> abst = { Q(0), Q(0), Q(0), Q::frac(1, 4) };
    l << rng.pick(tols) << rng.pick(abst);
}

static void generate(Rng &rng, const Opts &o, std::vector<std::string> &lines) {
    long N = o.cases > 0 ? o.cases : (o.thorough() ? 900 : 150);
    // the 2x2 inputs of the counterexample theorems of Properties/C05g.lean
    lines.push_back("cxs_bicgstab right 2 0 0 2 2 2 0 2 0 1 0 1 2 0 1 0 1 1 1 id 2 1 0 0 0 2 0 0 0 0");    // bicgstab_asfound_counterexample
    lines.push_back("cxs_gmres right 2 2 0 0 2 2 2 0 2 0 1 0 1 2 0 1 0 1 1 1 id 2 1 0 0 0 2 0 0 0 0");
    // malformed stream: both sides must answer bad-input
    lines.push_back("cxs_cg 2 0 0 2 2 1 0 1 0 1 1 1 0 id 2 1 0 1 0 2 0 0 0");                    // half a complex number
    lines.push_back("cxs_cg 2 -1 0 1 1 1 0 1 0 id 1 1 0 1 0 0");                                 // negative tolerance
    lines.push_back("cxs_cg 2 0 0 1 2 1 0 1 0 id 1 1 0 1 0 0");                                  // non-square
    lines.push_back("cxs_cg 2 0 0 1 1 1 3 1 0 id 1 1 0 1 0 0");                                  // column out of range
    lines.push_back("cxs_bicgstab up 2 0 0 1 1 1 0 1 0 id 1 1 0 1 0 0");                         // bad side
    lines.push_back("cxs_gmres right 0 2 0 0 1 1 1 0 1 0 id 1 1 0 1 0 0");                       // M = 0
    lines.push_back("cxs_fgmres 1 2 0 0 1 1 1 0 1 0 diag 2 1 0 1 0 1 1 0 1 0 0");                // diag of wrong size
    lines.push_back("cxs_richardson 1 2 0 0 1 1 1 0 1 0 id 1 1 0 1 0 0 7");                      // trailing token
    lines.push_back("cxs_cg 2 0 0 0 0 id 0 0");                                                  // n = 0
    lines.push_back("cxs_idrs 1 0 0 0 2 0 0 2 2 1 0 1 0 1 1 1 0 id 2 1 0 1 0 2 0 0 0 0 1 1/2");              // raw vector of wrong size
    lines.push_back("cxs_idrs 3 0 0 0 2 0 0 2 2 1 0 1 0 1 1 1 0 id 2 1 0 1 0 2 0 0 0 0 2 1 1 2 1 1 2 1 1");  // s > n
    lines.push_back("cxs_lgmres left 0 1 2 0 0 1 1 1 0 1 0 id 1 1 0 1 0 0");                     // M = 0
    lines.push_back("cxs_bicgstabl left 0 0 1 2 0 0 1 1 1 0 1 0 id 1 1 0 1 0 0");                // L = 0
    const long nmax = o.thorough() ? 8 : 6;
    for (long k = 0; k < N; ++k) {
        Line l; int which = (int)rng.range(0, 18); long n = rng.range(1, nmax);
        if (which < 3) { l << "cxs_cg" << rng.range(0, 4); put_tols(rng, l); put_case(rng, l, 0, n); }
        else if (which < 6) { l << "cxs_bicgstab" << (rng.coin() ? "left" : "right") << rng.range(0, 4); put_tols(rng, l); put_case(rng, l, 1, n); }
        else if (which < 7) { static const std::vector<Q> w = { Q(1), Q::frac(1, 2), Q::frac(3, 4), Q::frac(5, 4) }; l << "cxs_richardson" << rng.pick(w) << rng.range(0, 4); put_tols(rng, l); put_case(rng, l, 2, n); }
        else if (which < 10) { if (n > 5) n = 5; l << "cxs_gmres" << (rng.coin() ? "left" : "right") << rng.range(1, 4) << rng.range(0, 4); put_tols(rng, l); put_case(rng, l, 3, n); }
        else if (which < 12) { if (n > 5) n = 5; l << "cxs_fgmres" << rng.range(1, 4) << rng.range(0, 4); put_tols(rng, l); put_case(rng, l, 4, n); }
        else if (which < 13) { if (n > 5) n = 5; l << "cxs_lgmres" << (rng.coin() ? "left" : "right") << rng.range(1, 3) << rng.range(0, 2) << rng.range(0, 4); put_tols(rng, l); put_case(rng, l, 6, n); }
        else if (which >= 15) { if (n > 5) n = 5; static const std::vector<Q> dl = { Q(0), Q(0), Q::frac(1, 100), Q::frac(1, 2) }; long L = rng.range(1, 3);
            l << "cxs_bicgstabl" << (rng.coin() ? "left" : "right") << L << rng.pick(dl) << rng.coin(2, 3) << rng.range(0, 2) * L + rng.range(0, 1); put_tols(rng, l); put_case(rng, l, 7, n); }
        else { if (n > 5) n = 5; if (n < 2) n = 2; long s = rng.range(1, std::min<long>(2, n)); static const std::vector<Q> om = { Q(0), Q(0), Q::frac(7, 10), Q::frac(9, 10) };
            bool plain = rng.coin(); l << "cxs_idrs" << s << (plain ? Q(0) : rng.pick(om)) << (plain ? false : rng.coin(1, 3)) << (plain ? false : rng.coin(1, 3));
            if (plain) { l << (s + 1) * rng.range(1, 2) << Q(0) << Q(0); } else { l << rng.range(0, 5); put_tols(rng, l); }
            put_case(rng, l, 5, n);
            std::mt19937 g(0); std::uniform_real_distribution<Q> rnd(-1, 1);
            for (long j = 0; j < s; ++j) { std::vector<Q> raw(n); for (long i = 0; i < n; ++i) raw[i] = rnd(g); l << raw; } }
        lines.push_back(l.get());
    }
}

VH_MAIN(generate, execute)
