// C09 harness: the level schedules of parallel Gauss-Seidel (gauss_seidel.hpp: parallel_sweep) and of the ILU
// triangular solves (detail/ilu_solve.hpp: sptr_solve), driven through the REAL constructors / sweep / solve at the
// exact rational type Q.  Needs the add-only hook repo_patches/hook_sched_access.patch (friend ::amgcl_verif::access).
//
// Ops (the same text is fed to the Lean model, Amgcl/Driver/Schedule.lean):
//   sched_gs  fwd nt A rhs x             tables of parallel_sweep<fwd> built with nt threads + x after the sweep.  Result
//                                        line: `nt N` then per thread `t K beg end ... o <ord> p <ptr> c <col> v <val>`
//                                        (`d <D>` in addition for the upper ILU solve) — the complete thread-specific
//                                        storage of step 4, compared token by token with Model/ScheduleLocal.lean
//   sched_gs_asis fwd nt A rhs x         the same op; the model side uses the level loop of the UNPATCHED tree.  Only
//                                        generated when the tree under test still has that loop (probe_variant), to tie
//                                        the as-is model (counterexample theorems) to the as-is code
//   sched_ilu lower nt A D x             tables of sptr_solve<lower> + x after solve (A strictly triangular)
//   gs_apply  nt which A rhs x           gauss_seidel<builtin<Q>> object: which = 0 apply_pre, 1 apply_post, 2 apply
//   ilu_solve nt L U D x                 ilu_solve<builtin<Q>> object (lower then upper solve)
//   ilu0_threads nt A f                  ilu0<builtin<Q>>::apply with nt threads vs 1 thread: "same" | "differs"
//   sched_exh[_asis] fwd nt n lo hi      all n x n patterns with full diagonal, off-diagonal bit masks lo..hi-1:
//                                        "<#patterns with an intra-level conflict> <checksum of the level vectors>"
//   sched_exh_ilu lower nt n lo hi       the same for strictly triangular patterns
//   sched_gershgorin scale nt A          spectral_radius<scale>(A, 0) with nt threads
// Oracles (implementation side, exact, independent of the Lean model):
//   * the dumped tables partition the rows; every level is cut into consecutive chunks, rows increasing
//   * no row shares a level with a row whose unknown it reads; dependencies point to lower levels
//   * the dumped schedule executed by the harness itself in reverse-thread and round-robin order == serial sweep
//   * the real multi-threaded sweep/solve == serial sweep/solve; results for nt threads == results for 1 thread
#include "gen.hpp"
#include <amgcl/backend/builtin.hpp>
#include <amgcl/relaxation/gauss_seidel.hpp>
#include <amgcl/relaxation/detail/ilu_solve.hpp>
#include <amgcl/relaxation/ilu0.hpp>
#include <omp.h>
#include <unistd.h>
using namespace vh;

typedef amgcl::backend::builtin<Q> Backend;
typedef amgcl::relaxation::gauss_seidel<Backend> GS;
typedef amgcl::relaxation::detail::ilu_solve<Backend> ILU;

namespace amgcl_verif {
struct access {
    template <bool fwd, class M> static auto make_sweep(const M &A) {
        return std::make_shared<typename GS::template parallel_sweep<fwd>>(A);
    }
    template <bool lower, class M> static auto make_sptr(const M &A, const Q *D) {
        return std::make_shared<typename ILU::template sptr_solve<lower>>(A, D);
    }
    template <class M, class V1, class V2> static void serial_sweep(const M &A, const V1 &rhs, V2 &x, bool fwd) {
        GS::serial_sweep(A, rhs, x, fwd);
    }
    static bool is_serial(const GS &g) { return g.is_serial; }
    static auto fwd(const GS &g) { return g.forward; }
    static auto bwd(const GS &g) { return g.backward; }
    static auto lower(const ILU &s) { return s.lower; }
    static auto upper(const ILU &s) { return s.upper; }
};
}
using amgcl_verif::access;

// ------------------------------------------------------------------ dumped tables
struct Tables {
    int nt = 0;
    std::vector<std::vector<std::pair<long,long>>> tasks;
    std::vector<std::vector<long>> ptr, col, ord;
    std::vector<std::vector<Q>> val, D;
};
template <bool hasD, class PS> static Tables dump(const PS &ps) {
    Tables T; T.nt = ps.nthreads;
    T.tasks.resize(T.nt); T.ptr.resize(T.nt); T.col.resize(T.nt); T.ord.resize(T.nt); T.val.resize(T.nt); T.D.resize(T.nt);
    for (int t = 0; t < T.nt; ++t) {
        for (auto &k : ps.tasks[t]) T.tasks[t].push_back({(long)k.beg, (long)k.end});
        T.ptr[t].assign(ps.ptr[t].begin(), ps.ptr[t].end());
        T.col[t].assign(ps.col[t].begin(), ps.col[t].end());
        T.ord[t].assign(ps.ord[t].begin(), ps.ord[t].end());
        T.val[t].assign(ps.val[t].begin(), ps.val[t].end());
        if constexpr (hasD) { if ((int)ps.D.size() == T.nt) T.D[t].assign(ps.D[t].begin(), ps.D[t].end()); }
    }
    return T;
}
// the complete thread-specific storage, exactly as the constructor left it (compared token by token with the tables
// the Lean model of steps 1-4 computes: task ranges in thread-local row numbers, ord, ptr, col, val and, for the upper
// ILU solve, D)
static void print_tables(Line &l, const Tables &T, bool hasD) {
    l << "nt" << T.nt;
    for (int t = 0; t < T.nt; ++t) {
        l << "t" << T.tasks[t].size();
        for (auto &k : T.tasks[t]) { l << k.first; l << k.second; }
        l << "o" << T.ord[t] << "p" << T.ptr[t] << "c" << T.col[t] << "v" << T.val[t];
        if (hasD) l << "d" << T.D[t];
    }
}

enum Kind { KGS, KLOWER, KUPPER };
// one row update on the dumped thread-local tables (same arithmetic as the body of sweep / solve)
static void row_update(const Tables &T, Kind kind, int tid, long r, const std::vector<Q> &rhs, std::vector<Q> &x) {
    long i = T.ord[tid][r], beg = T.ptr[tid][r], end = T.ptr[tid][r+1];
    if (kind == KGS) {
        Q D(1), X = rhs[i];
        for (long j = beg; j < end; ++j) { long c = T.col[tid][j]; Q v = T.val[tid][j]; if (c == i) D = v; else X -= v * x[c]; }
        x[i] = (Q(1) / D) * X;
    } else {
        Q X(0);
        for (long j = beg; j < end; ++j) X += T.val[tid][j] * x[T.col[tid][j]];
        if (kind == KLOWER) x[i] -= X; else x[i] = T.D[tid][r] * (x[i] - X);
    }
}
typedef std::vector<std::pair<int,long>> Sched;   // (tid, local row)
// the barrier after every task is honoured; inside a level the order of threads is adversarial
static Sched reverse_thread(const Tables &T) {
    Sched s; size_t nlev = T.nt ? T.tasks[0].size() : 0;
    for (size_t l = 0; l < nlev; ++l) for (int t = T.nt - 1; t >= 0; --t)
        for (long r = T.tasks[t][l].first; r < T.tasks[t][l].second; ++r) s.push_back({t, r});
    return s;
}
static Sched thread_order(const Tables &T) {     // adversarial for the backward sweep (serial order is decreasing)
    Sched s; size_t nlev = T.nt ? T.tasks[0].size() : 0;
    for (size_t l = 0; l < nlev; ++l) for (int t = 0; t < T.nt; ++t)
        for (long r = T.tasks[t][l].first; r < T.tasks[t][l].second; ++r) s.push_back({t, r});
    return s;
}
static Sched round_robin(const Tables &T) {
    Sched s; size_t nlev = T.nt ? T.tasks[0].size() : 0;
    for (size_t l = 0; l < nlev; ++l) {
        std::vector<long> cur(T.nt); for (int t = 0; t < T.nt; ++t) cur[t] = T.tasks[t][l].first;
        for (bool any = true; any;) { any = false;
            for (int t = T.nt - 1; t >= 0; --t) if (cur[t] < T.tasks[t][l].second) { s.push_back({t, cur[t]++}); any = true; } }
    }
    return s;
}
static std::string sched_str(const Tables &T, const Sched &s) {
    std::string r = "["; for (auto &p : s) { if (r.size() > 1) r += ' '; r += std::to_string(T.ord[p.first][p.second]); } return r + "]";
}
static std::vector<Q> run_sched(const Tables &T, Kind kind, const Sched &s, const std::vector<Q> &rhs, std::vector<Q> x) {
    for (auto &p : s) row_update(T, kind, p.first, p.second, rhs, x);
    return x;
}
static bool eqv(const std::vector<Q> &a, const std::vector<Q> &b) {
    if (a.size() != b.size()) return false;
    for (size_t i = 0; i < a.size(); ++i) if (a[i].v != b[i].v) return false;
    return true;
}
static std::vector<Q> tovec(const NVec &v) { std::vector<Q> r(v.size()); for (size_t i = 0; i < r.size(); ++i) r[i] = v[i]; return r; }

// structural oracle; fills level[] (index of the task that contains the row); returns "" or the reason
static std::string check_tables(const Tables &T, const Mat &A, Kind kind, bool fwd, int nt_requested, std::vector<long> &level, bool &conflict) {
    long n = A.n; conflict = false; level.assign(n, -1);
    if (T.nt != nt_requested) return "nthreads != omp_get_max_threads()";
    size_t nlev = T.tasks[0].size();
    std::vector<long> seen(n, 0);
    for (int t = 0; t < T.nt; ++t) {
        if (T.tasks[t].size() != nlev) return "threads have different numbers of tasks";
        long pos = 0;
        for (size_t l = 0; l < nlev; ++l) {
            if (T.tasks[t][l].first != pos || T.tasks[t][l].second < pos) return "task ranges of a thread are not consecutive";
            pos = T.tasks[t][l].second;
            for (long r = T.tasks[t][l].first; r < T.tasks[t][l].second; ++r) {
                if (r >= (long)T.ord[t].size()) return "task range outside ord";
                long i = T.ord[t][r]; if (i < 0 || i >= n) return "row out of range";
                ++seen[i]; level[i] = (long)l;
            }
        }
        if (pos != (long)T.ord[t].size() || T.ptr[t].size() != T.ord[t].size() + 1) return "ord/ptr size";
        for (size_t r = 0; r < T.ord[t].size(); ++r) {       // the thread-local copy of the matrix rows
            long i = T.ord[t][r];
            if (T.ptr[t][r+1] - T.ptr[t][r] != A.ptr[i+1] - A.ptr[i]) return "thread-local row length";
            for (long j = 0; j < A.ptr[i+1] - A.ptr[i]; ++j)
                if (T.col[t][T.ptr[t][r] + j] != A.col[A.ptr[i] + j] || T.val[t][T.ptr[t][r] + j].v != A.val[A.ptr[i] + j].v) return "thread-local row copy differs";
        }
    }
    for (long i = 0; i < n; ++i) if (seen[i] != 1) return "tasks do not partition the rows (row " + std::to_string(i) + " occurs " + std::to_string(seen[i]) + " times)";
    // every level: concatenation over tid = rows of that level, increasing; chunk formula
    for (size_t l = 0; l < nlev; ++l) {
        long prev = -1, m = 0;
        for (int t = 0; t < T.nt; ++t) m += T.tasks[t][l].second - T.tasks[t][l].first;
        if (m == 0) return "empty level";
        long chunk = (m + T.nt - 1) / T.nt;
        for (int t = 0; t < T.nt; ++t) {
            long b = std::min<long>(t * chunk, m), e = std::min<long>(b + chunk, m);
            if (T.tasks[t][l].second - T.tasks[t][l].first != e - b) return "chunk sizes do not follow (lev_size + nthreads - 1) / nthreads";
            for (long r = T.tasks[t][l].first; r < T.tasks[t][l].second; ++r) { if (T.ord[t][r] <= prev) return "rows of a level not increasing over threads"; prev = T.ord[t][r]; }
        }
    }
    // dependencies
    for (long i = 0; i < n; ++i) for (auto j = A.ptr[i]; j < A.ptr[i+1]; ++j) {
        long c = A.col[j]; if (c == i) continue;
        bool c_first = fwd ? c < i : c > i;     // serial order
        if (level[c] == level[i]) { conflict = true; return "rows " + std::to_string(i) + " and " + std::to_string(c) + " are both in level " + std::to_string(level[i]) + " although row " + std::to_string(i) + " reads x[" + std::to_string(c) + "]"; }
        if (c_first != (level[c] < level[i])) { conflict = true; return "row " + std::to_string(i) + " reads x[" + std::to_string(c) + "] but the levels order them against the serial sweep"; }
    }
    (void)kind;
    return "";
}

static void set_threads(long nt) { omp_set_dynamic(0); omp_set_num_threads((int)nt); }
static void check_nt(long nt) { if (nt < 1 || nt > 64) throw bad_input("nt"); }
static void check_square(const Mat &A) {
    if (A.n != A.m) throw bad_input("square");
    for (auto c : A.col) if (c < 0 || c >= A.n) throw bad_input("col");
}
static bool structurally_symmetric(const Mat &A) {
    std::set<std::pair<long,long>> s; for (long i = 0; i < A.n; ++i) for (auto j = A.ptr[i]; j < A.ptr[i+1]; ++j) s.insert({i, A.col[j]});
    for (auto &p : s) if (!s.count({p.second, p.first})) return false; return true;
}

// real-thread stress in double (a race on GMP numbers would be a memory error, a race on doubles is observable)
template <bool fwd> static int stress_double(const Mat &A, const std::vector<Q> &rhs, const std::vector<Q> &x0, int reps) {
    typedef amgcl::backend::builtin<double> BD; typedef amgcl::relaxation::gauss_seidel<BD> GD;
    std::vector<ptrdiff_t> ptr(A.ptr), col(A.col); std::vector<double> val(A.val.size());
    for (size_t i = 0; i < val.size(); ++i) val[i] = (double)A.val[i];
    amgcl::backend::crs<double> Ad((size_t)A.n, (size_t)A.n, ptr, col, val);
    std::vector<double> f(A.n), x(A.n), ref(A.n);
    for (long i = 0; i < A.n; ++i) { f[i] = (double)rhs[i]; ref[i] = (double)x0[i]; }
    // serial reference in double (same loop as serial_sweep)
    for (long k = 0; k < A.n; ++k) { long i = fwd ? k : A.n - 1 - k; double D = 1, X = f[i];
        for (auto j = A.ptr[i]; j < A.ptr[i+1]; ++j) { if (A.col[j] == i) D = val[j]; else X -= val[j] * ref[A.col[j]]; } ref[i] = (1 / D) * X; }
    GD::params prm; prm.serial = false; BD::params bprm;
    GD gs(Ad, prm, bprm);
    int differ = 0;
    amgcl::backend::numa_vector<double> F(f), T(A.n);
    for (int r = 0; r < reps; ++r) {
        amgcl::backend::numa_vector<double> X(A.n); for (long i = 0; i < A.n; ++i) X[i] = (double)x0[i];
        if (fwd) gs.apply_pre(Ad, F, X, T); else gs.apply_post(Ad, F, X, T);
        for (long i = 0; i < A.n; ++i) if (X[i] != ref[i]) { ++differ; break; }
    }
    return differ;
}

// ------------------------------------------------------------------ sched_gs / sched_ilu
template <bool fwd> static Result do_sched_gs(long variant, long nt, const Mat &A, const std::vector<Q> &rhs, const std::vector<Q> &x0) {
    Result r; auto Ac = A.crs();
    set_threads(nt);
    auto ps = access::make_sweep<fwd>(*Ac);
    Tables T = dump<false>(*ps);
    std::vector<long> level; bool conflict = false;
    std::string why = check_tables(T, A, KGS, fwd, (int)nt, level, conflict);
    // serial reference: the real serial_sweep
    NVec F = nvec(rhs), Xs = nvec(x0);
    access::serial_sweep(*Ac, F, Xs, fwd);
    std::vector<Q> ref = tovec(Xs);
    Sched s1 = reverse_thread(T), s2 = round_robin(T), s3 = thread_order(T);
    std::vector<Q> a1 = run_sched(T, KGS, s1, rhs, x0), a2 = run_sched(T, KGS, s2, rhs, x0), a3 = run_sched(T, KGS, s3, rhs, x0);
    std::string pre = std::string("gauss_seidel parallel_sweep<") + (fwd ? "forward" : "backward") + "> nt=" + std::to_string(nt) + ": ";
    std::vector<Q> out;
    if (!why.empty() && !conflict) r.fail(pre + why);
    if (!eqv(a1, ref)) r.fail(pre + "dumped schedule executed in reverse thread order " + sched_str(T, s1) + " differs from the serial sweep; " + why);
    if (!eqv(a2, ref)) r.fail(pre + "dumped schedule executed round-robin " + sched_str(T, s2) + " differs from the serial sweep; " + why);
    if (!eqv(a3, ref)) r.fail(pre + "dumped schedule executed in thread order " + sched_str(T, s3) + " differs from the serial sweep; " + why);
    if (conflict) {
        // do not race on GMP numbers: reproduce with real threads in double instead
        static int stress_runs = 0;      // a handful of real-thread reproductions per process is enough
        std::string st;
        if (stress_runs++ < 6) { int d = stress_double<fwd>(A, rhs, x0, 200); st = "; real threads, double: " + std::to_string(d) + "/200 runs differ from the serial sweep"; }
        if (r.ok) r.fail(pre + why + " (these values hide it under the three adversarial orders)" + st); else r.why += st;
        out = a1;
    } else {
        NVec X = nvec(x0);
        ps->sweep(F, X);
        out = tovec(X);
        if (!eqv(out, ref)) r.fail(pre + "real multi-threaded sweep differs from the serial sweep");
    }
    set_threads(1);
    Line l; print_tables(l, T, false); l << "x" << out;
    r.out = l.get();
    r.nontrivial = A.n >= 2 && A.col.size() > (size_t)A.n;
    r.tag(fwd ? "gs_fwd" : "gs_bwd").tag("nt" + std::to_string(nt)).tag(structurally_symmetric(A) ? "symm" : "nonsymm");
    if (T.nt && T.tasks[0].size() > 1) r.tag("multilevel");
    if (variant) r.tag("asis_model");
    return r;
}

template <bool lower> static Result do_sched_ilu(long nt, const Mat &A, const std::vector<Q> &D, const std::vector<Q> &x0) {
    Result r; auto Ac = A.crs();
    set_threads(nt);
    auto ps = access::make_sptr<lower>(*Ac, D.data());
    Tables T = dump<true>(*ps);
    std::vector<long> level; bool conflict = false;
    std::string why = check_tables(T, A, lower ? KLOWER : KUPPER, lower, (int)nt, level, conflict);
    if (!lower) for (int t = 0; t < T.nt; ++t) { if (T.D[t].size() != T.ord[t].size()) { why = "D size"; break; } for (size_t k = 0; k < T.ord[t].size(); ++k) if (T.D[t][k].v != D[T.ord[t][k]].v) why = "thread-local D differs"; }
    // serial reference: own triangular loop (serial_solve of the class is exercised by op ilu_solve)
    std::vector<Q> ref = x0;
    for (long k = 0; k < A.n; ++k) { long i = lower ? k : A.n - 1 - k;
        for (auto j = A.ptr[i]; j < A.ptr[i+1]; ++j) ref[i] -= A.val[j] * ref[A.col[j]];
        if (!lower) ref[i] = D[i] * ref[i]; }
    Kind kind = lower ? KLOWER : KUPPER;
    Sched s1 = reverse_thread(T), s2 = round_robin(T), s3 = thread_order(T);
    std::vector<Q> a1 = run_sched(T, kind, s1, x0, x0), a2 = run_sched(T, kind, s2, x0, x0), a3 = run_sched(T, kind, s3, x0, x0);
    std::string pre = std::string("ilu_solve sptr_solve<") + (lower ? "lower" : "upper") + "> nt=" + std::to_string(nt) + ": ";
    if (!why.empty()) r.fail(pre + why);
    if (!eqv(a1, ref)) r.fail(pre + "dumped schedule executed in reverse thread order " + sched_str(T, s1) + " differs from the serial solve");
    if (!eqv(a2, ref)) r.fail(pre + "dumped schedule executed round-robin " + sched_str(T, s2) + " differs from the serial solve");
    if (!eqv(a3, ref)) r.fail(pre + "dumped schedule executed in thread order " + sched_str(T, s3) + " differs from the serial solve");
    std::vector<Q> out;
    if (conflict) out = a1;
    else { NVec X = nvec(x0); ps->solve(X); out = tovec(X); if (!eqv(out, ref)) r.fail(pre + "real multi-threaded solve differs from the serial solve"); }
    set_threads(1);
    Line l; print_tables(l, T, !lower); l << "x" << out;
    r.out = l.get();
    r.nontrivial = A.col.size() > 0;
    r.tag(lower ? "ilu_lower" : "ilu_upper").tag("nt" + std::to_string(nt));
    if (T.nt && T.tasks[0].size() > 1) r.tag("multilevel");
    return r;
}

static bool strictly_tri(const Mat &A, bool lower) {
    for (long i = 0; i < A.n; ++i) for (auto j = A.ptr[i]; j < A.ptr[i+1]; ++j) if (lower ? !(A.col[j] < i) : !(A.col[j] > i)) return false;
    return true;
}

// ------------------------------------------------------------------ exhaustive batches
static Q exh_val(long n, long i, long j) {
    if (i == j) return Q(i + 2);
    Q v = Q::frac(((i * 7 + j * 3) % 5) + 1, ((i + 2 * j) % 3) + 1);
    return ((i + j) % 2) ? -v : v;
    (void)n;
}
// off-diagonal positions in row-major order; bit k of code <-> k-th position
static Mat exh_pattern(long n, long code, int tri /*0 full, 1 strictly lower, 2 strictly upper*/) {
    std::vector<std::vector<std::pair<long,Q>>> rows(n); long k = 0;
    for (long i = 0; i < n; ++i) for (long j = 0; j < n; ++j) {
        if (i == j) { if (tri == 0) rows[i].push_back({j, exh_val(n, i, j)}); continue; }
        if (tri == 1 && !(j < i)) continue;
        if (tri == 2 && !(j > i)) continue;
        if ((code >> k) & 1) rows[i].push_back({j, exh_val(n, i, j)});
        ++k;
    }
    return from_rows(n, n, rows);
}
static long exh_bits(long n, int tri) { return tri == 0 ? n * (n - 1) : n * (n - 1) / 2; }

template <bool fwd, int tri> static Result do_exh(long nt, long n, long lo, long hi) {
    Result r; long bad = 0; unsigned long long sum = 0;
    std::vector<Q> rhs(n), x0(n), D(n);
    for (long i = 0; i < n; ++i) { rhs[i] = Q(i + 1); x0[i] = Q((i * 5) % 7 - 3); D[i] = Q::frac(1, i + 2); }
    set_threads(nt);
    long multilevel = 0;
    for (long code = lo; code < hi; ++code) {
        Mat A = exh_pattern(n, code, tri); auto Ac = A.crs();
        Tables T; Kind kind;
        if (tri == 0) { auto ps = access::make_sweep<fwd>(*Ac); T = dump<false>(*ps); kind = KGS; }
        else { auto ps = access::make_sptr<fwd>(*Ac, D.data()); T = dump<true>(*ps); kind = fwd ? KLOWER : KUPPER; }
        std::vector<long> level; bool conflict = false;
        std::string why = check_tables(T, A, kind, fwd, (int)nt, level, conflict);
        std::vector<Q> ref = x0;
        if (tri == 0) { NVec F = nvec(rhs), Xs = nvec(x0); access::serial_sweep(*Ac, F, Xs, fwd); ref = tovec(Xs); }
        else for (long k = 0; k < n; ++k) { long i = fwd ? k : n - 1 - k;
            for (auto j = A.ptr[i]; j < A.ptr[i+1]; ++j) ref[i] -= A.val[j] * ref[A.col[j]];
            if (!fwd) ref[i] = D[i] * ref[i]; }
        Sched s1 = reverse_thread(T), s2 = round_robin(T), s3 = thread_order(T);
        const std::vector<Q> &rr = tri == 0 ? rhs : x0;
        bool e1 = eqv(run_sched(T, kind, s1, rr, x0), ref), e2 = eqv(run_sched(T, kind, s2, rr, x0), ref), e3 = eqv(run_sched(T, kind, s3, rr, x0), ref);
        if (!why.empty() || !e1 || !e2 || !e3) {
            ++bad;
            if (r.ok) {
                Line l; l << (tri == 0 ? "sched_gs" : "sched_ilu"); l << fwd << nt << A; if (tri == 0) l << rhs; else l << D; l << x0;
                r.fail(std::string(tri == 0 ? "gauss_seidel parallel_sweep" : "ilu_solve sptr_solve") + (fwd ? "<forward/lower>" : "<backward/upper>") + " nt=" + std::to_string(nt) +
                       " pattern code " + std::to_string(code) + ": " + (why.empty() ? std::string("schedule differs from serial") : why) +
                       (!e1 ? "; reverse-thread schedule " + sched_str(T, s1) + " differs from the serial sweep" : "") +
                       (!e2 ? "; round-robin schedule " + sched_str(T, s2) + " differs from the serial sweep" : "") +
                       (!e3 ? "; thread-order schedule " + sched_str(T, s3) + " differs from the serial sweep" : "") +
                       "; single-case op: " + l.get());
            }
        }
        unsigned long long s = 0; for (long i = 0; i < n; ++i) s += (unsigned long long)(level[i] + 1) * (i + 1);
        sum += s * (unsigned long long)(code + 1);
        if (T.nt && T.tasks[0].size() > 1) ++multilevel;
    }
    set_threads(1);
    Line l; l << bad << std::to_string(sum);
    r.out = l.get();
    r.nontrivial = hi - lo > 1 && multilevel > 0;
    r.tag(tri == 0 ? "exh_gs" : "exh_ilu").tag("n" + std::to_string(n)).tag("nt" + std::to_string(nt));
    return r;
}

// ------------------------------------------------------------------ execute
static Result execute(const Toks &t) {
    Cur c(t);
    const std::string &op = t[0];
    Result r;
    if (op == "sched_gs" || op == "sched_gs_asis") {
        long variant = op == "sched_gs" ? 0 : 1, fwd = c.nat(), nt = c.nat(); Mat A = c.mat(); auto rhs = c.vec(); auto x = c.vec(); c.expect_end();
        check_nt(nt); check_square(A); if (fwd < 0 || fwd > 1) throw bad_input("flag");
        if ((long)rhs.size() != A.n || (long)x.size() != A.n) throw bad_input("shape");
        r = fwd ? do_sched_gs<true>(variant, nt, A, rhs, x) : do_sched_gs<false>(variant, nt, A, rhs, x);
    } else if (op == "sched_ilu") {
        long lower = c.nat(), nt = c.nat(); Mat A = c.mat(); auto D = c.vec(); auto x = c.vec(); c.expect_end();
        check_nt(nt); check_square(A); if (lower < 0 || lower > 1) throw bad_input("flag");
        if ((long)D.size() != A.n || (long)x.size() != A.n || !strictly_tri(A, lower)) throw bad_input("shape");
        r = lower ? do_sched_ilu<true>(nt, A, D, x) : do_sched_ilu<false>(nt, A, D, x);
    } else if (op == "gs_apply") {
        long nt = c.nat(), which = c.nat(); Mat A = c.mat(); auto rhs = c.vec(); auto x0 = c.vec(); c.expect_end();
        check_nt(nt); check_square(A); if (which < 0 || which > 2) throw bad_input("flag");
        if ((long)rhs.size() != A.n || (long)x0.size() != A.n) throw bad_input("shape");
        auto Ac = A.crs(); NVec F = nvec(rhs), tmp(A.n);
        GS::params prm; Backend::params bprm;
        auto run = [&](const GS &gs, NVec &X) { if (which == 0) gs.apply_pre(*Ac, F, X, tmp); else if (which == 1) gs.apply_post(*Ac, F, X, tmp); else gs.apply(*Ac, F, X); };
        set_threads(1); GS gs1(*Ac, prm, bprm); NVec X1 = nvec(x0); run(gs1, X1);
        if (!access::is_serial(gs1)) r.fail("1 thread does not select the serial sweep");
        set_threads(nt); GS gs(*Ac, prm, bprm);
        if (access::is_serial(gs) != (nt < 4)) r.fail("serial fallback is not `nthreads < 4`");
        std::vector<Q> out;
        bool safe = true; std::string why;
        if (!access::is_serial(gs)) {     // never race on GMP numbers: look at the schedule first
            std::vector<long> level; bool conflict;
            why = check_tables(dump<false>(*access::fwd(gs)), A, KGS, true, (int)nt, level, conflict); if (!why.empty() && which != 1) safe = false;
            std::string w2 = check_tables(dump<false>(*access::bwd(gs)), A, KGS, false, (int)nt, level, conflict); if (!w2.empty() && which != 0) { safe = false; if (why.empty()) why = w2; }
        }
        if (safe) { NVec X = nvec(x0); run(gs, X); out = tovec(X); if (!eqv(out, tovec(X1))) r.fail("gauss_seidel with " + std::to_string(nt) + " threads differs from 1 thread"); }
        else { out = tovec(X1); r.fail("gauss_seidel nt=" + std::to_string(nt) + ": " + why + " (real-thread run skipped)"); }
        set_threads(1);
        r.out = (Line() << out).get();
        r.nontrivial = A.n >= 2 && A.col.size() > (size_t)A.n;
        r.tag(which == 0 ? "gs_pre" : which == 1 ? "gs_post" : "gs_apply").tag("nt" + std::to_string(nt)).tag(nt < 4 ? "serial" : "parallel");
    } else if (op == "ilu_solve") {
        long nt = c.nat(); Mat L = c.mat(), U = c.mat(); auto D = c.vec(); auto x0 = c.vec(); c.expect_end();
        check_nt(nt); check_square(L); check_square(U);
        if (L.n != U.n || (long)D.size() != L.n || (long)x0.size() != L.n || !strictly_tri(L, true) || !strictly_tri(U, false)) throw bad_input("shape");
        auto run = [&](long k, bool &serial) {
            set_threads(k);
            ILU::params prm; serial = prm.serial;
            auto Dp = std::make_shared<NVec>(D);
            ILU S(L.crs(), U.crs(), Dp, prm);
            NVec X = nvec(x0); S.solve(X); return tovec(X);
        };
        bool s1, sn; std::vector<Q> ref = run(1, s1), out = run(nt, sn);
        set_threads(1);
        if (!s1) r.fail("1 thread does not select the serial solve");
        if (sn != (nt < 4)) r.fail("serial fallback is not `nthreads < 4`");
        if (!eqv(out, ref)) r.fail("ilu_solve with " + std::to_string(nt) + " threads differs from 1 thread");
        r.out = (Line() << out).get();
        r.nontrivial = L.col.size() + U.col.size() > 0;
        r.tag("ilu_solve").tag("nt" + std::to_string(nt)).tag(nt < 4 ? "serial" : "parallel");
    } else if (op == "ilu0_threads") {
        long nt = c.nat(); Mat A = c.mat(); auto f = c.vec(); c.expect_end();
        check_nt(nt); check_square(A); if ((long)f.size() != A.n) throw bad_input("shape");
        for (long i = 0; i < A.n; ++i) { bool d = false; for (auto j = A.ptr[i]; j + 1 < A.ptr[i+1]; ++j) if (!(A.col[j] < A.col[j+1])) throw bad_input("sorted");
            for (auto j = A.ptr[i]; j < A.ptr[i+1]; ++j) if (A.col[j] == i && A.val[j] != 0) d = true; if (!d) throw bad_input("diag"); }
        typedef amgcl::relaxation::ilu0<Backend> I0;
        auto run = [&](long k) -> std::pair<bool, std::vector<Q>> {
            set_threads(k);
            try { I0::params prm; Backend::params bprm; auto Ac = A.crs(); I0 P(*Ac, prm, bprm); NVec F = nvec(f), X(A.n); P.apply(*Ac, F, X); return {true, tovec(X)}; }
            catch (const std::exception &) { return {false, {}}; }
        };
        auto a = run(1), b = run(nt); set_threads(1);
        bool same = a.first == b.first && (!a.first || eqv(a.second, b.second));
        if (!same) r.fail("ilu0 apply with " + std::to_string(nt) + " threads differs from 1 thread");
        r.out = same ? "same" : "differs";
        r.nontrivial = a.first && A.col.size() > (size_t)A.n; r.tag("ilu0").tag("nt" + std::to_string(nt)); if (!a.first) r.tag("zero_pivot");
    } else if (op == "sched_exh" || op == "sched_exh_asis" || op == "sched_exh_ilu") {
        bool gs = op != "sched_exh_ilu";
        long fwd = c.nat(), nt = c.nat(), n = c.nat(), lo = c.nat(), hi = c.nat(); c.expect_end();
        check_nt(nt); if (fwd < 0 || fwd > 1 || n < 0 || n > 6) throw bad_input("flag");
        long bits = exh_bits(n, gs ? 0 : 1); if (bits > 30 || lo < 0 || hi < lo || hi > (1L << bits)) throw bad_input("range");
        if (gs) r = fwd ? do_exh<true, 0>(nt, n, lo, hi) : do_exh<false, 0>(nt, n, lo, hi);
        else r = fwd ? do_exh<true, 1>(nt, n, lo, hi) : do_exh<false, 2>(nt, n, lo, hi);
    } else if (op == "sched_gershgorin") {
        long scale = c.nat(), nt = c.nat(); Mat A = c.mat(); c.expect_end();
        check_nt(nt); check_square(A); if (scale < 0 || scale > 1) throw bad_input("flag");
        if (scale) for (long i = 0; i < A.n; ++i) { bool d = false; for (auto j = A.ptr[i]; j < A.ptr[i+1]; ++j) if (A.col[j] == i) d = true; if (!d) throw bad_input("diag"); }
        auto Ac = A.crs();
        auto run = [&](long k) { set_threads(k); return scale ? amgcl::backend::spectral_radius<true>(*Ac, 0) : amgcl::backend::spectral_radius<false>(*Ac, 0); };
        Q a = run(1), b = run(nt); set_threads(1);
        if (a.v != b.v) r.fail("Gershgorin bound with " + std::to_string(nt) + " threads differs from 1 thread");
        // dense recomputation
        Q ref(0); for (long i = 0; i < A.n; ++i) { Q s(0), d(1); for (auto j = A.ptr[i]; j < A.ptr[i+1]; ++j) { s += abs(A.val[j]); if (A.col[j] == i) d = A.val[j]; } if (scale) s *= abs(Q(1) / d); if (s > ref) ref = s; }
        if (b.v != ref.v) r.fail("Gershgorin bound != max_i sum_j |a_ij| (/|a_ii|)");
        r.out = (Line() << b).get(); r.nontrivial = A.col.size() > 1; r.tag(scale ? "gersh_scaled" : "gersh").tag("nt" + std::to_string(nt));
    } else {
        r.out = "bad-op";
    }
    return r;
}

// ------------------------------------------------------------------ generate
// which level loop does the tree under test have?  2x2 upper triangular pattern: the unpatched loop puts both
// rows in level 0, the repaired loop does not.
static long probe_variant() {
    Mat A = from_rows(2, 2, {{{0, Q(1)}, {1, Q(1)}}, {{1, Q(1)}}});
    set_threads(4); auto Ac = A.crs(); auto ps = access::make_sweep<true>(*Ac); set_threads(1);
    return ps->tasks[0].size() == 1 ? 1 : 0;
}

static Mat gen_gs_matrix(Rng &rng, long n, int kind) {
    // kind 0 structurally symmetric, 1 arbitrary non-symmetric, 2 upper/lower bidiagonal-ish, 3 SPD M-matrix, 4 convection-diffusion
    if (kind == 3 && n >= 2) return gen_spd(rng, n);
    if (kind == 4 && n >= 2) return gen_convdiff(rng, n);
    std::vector<std::vector<std::pair<long,Q>>> rows(n);
    int dens = (int)rng.range(3, 45);
    for (long i = 0; i < n; ++i) {
        if (!rng.coin(1, 12)) rows[i].push_back({i, rng.rat_nz(6) + Q(rng.coin() ? 7 : -7)});     // a few rows without diagonal
        for (long j = 0; j < n; ++j) if (j != i) {
            bool on;
            if (kind == 0) { if (j < i) continue; on = rng.range(0, 99) < dens; if (on) { rows[i].push_back({j, rng.rat_nz(5)}); rows[j].push_back({i, rng.rat_nz(5)}); } continue; }
            else if (kind == 2) on = (j == i + 1 || (rng.coin(1, 10) && j > i));
            else on = rng.range(0, 99) < dens;
            if (on) rows[i].push_back({j, rng.rat_nz(5)});
        }
    }
    if (kind == 2 && rng.coin()) { // mirror to lower
        std::vector<std::vector<std::pair<long,Q>>> r2(n);
        for (long i = 0; i < n; ++i) for (auto &cv : rows[i]) r2[n - 1 - i].push_back({n - 1 - cv.first, cv.second});
        rows = r2;
    }
    for (auto &r : rows) std::sort(r.begin(), r.end(), [](const std::pair<long,Q> &a, const std::pair<long,Q> &b) { return a.first < b.first; });
    Mat A = from_rows(n, n, rows);
    if (rng.coin(1, 4)) A = unsort(rng, A, rng.coin(1, 3));
    return A;
}
static Mat gen_tri(Rng &rng, long n, bool lower, int dens) {
    std::vector<std::vector<std::pair<long,Q>>> rows(n);
    for (long i = 0; i < n; ++i) for (long j = 0; j < n; ++j) if ((lower ? j < i : j > i) && rng.range(0, 99) < dens) rows[i].push_back({j, rng.rat_nz(4)});
    Mat A = from_rows(n, n, rows);
    if (rng.coin(1, 4)) A = unsort(rng, A, rng.coin(1, 3));
    return A;
}

static void generate(Rng &rng, const Opts &o, std::vector<std::string> &lines) {
    const long variant = probe_variant();
    // Gauss-Seidel ops: always against the main (repaired) model; on a tree that still has the unpatched level loop
    // additionally against the as-is model
    auto gs_op = [&](const char *name, const std::string &rest) {
        lines.push_back(std::string(name) + " " + rest);
        if (variant == 1) lines.push_back(std::string(name) + "_asis " + rest);
    };
    static const std::vector<long> NTS = { 4, 5, 8, 16, 17, 24, 32 };
    static const std::vector<long> NTS_ALL = { 1, 2, 3, 4, 5, 8, 16, 17, 24, 32 };
    const bool th = o.thorough();
#ifdef SCHED_EXH_ONLY
    // second build of this file (no sanitizers, -O2): the large exhaustive enumerations
    for (long fwd = 0; fwd < 2; ++fwd) {
        if (th) {
            // every 5x5 pattern: forward with 4 threads (a 5-row level is cut 2+2+1+0), backward with 5 threads
            // (one row per thread); the two other combinations on a quarter of the patterns
            const long shards = 16, tot = 1L << 20;
            for (long nt : std::vector<long>{4, 5}) for (long s = 0; s < shards; ++s) {
                bool full = (fwd == 1) == (nt == 4);
                if (!full && (s + o.seed) % 4 != 0) continue;
                Line l; l << fwd << nt << 5L << s * (tot / shards) << (s + 1) * (tot / shards); gs_op("sched_exh", l.get());
            }
            for (long nt : NTS) { Line l; l << fwd << nt << 4L << 0L << (1L << 12); gs_op("sched_exh", l.get()); }
            for (long nt : std::vector<long>{4, 5, 17}) { Line l; l << "sched_exh_ilu" << fwd << nt << 6L << 0L << (1L << 15); lines.push_back(l.get()); }
        } else {
            for (long nt : std::vector<long>{4, 5, 8, 17}) { Line l; l << fwd << nt << 4L << 0L << (1L << 12); gs_op("sched_exh", l.get()); }
            { long s = rng.range(0, 254); Line l; l << fwd << (fwd ? 4L : 5L) << 5L << (s << 12) << ((s + 1) << 12); gs_op("sched_exh", l.get()); }
            { Line l; l << "sched_exh_ilu" << fwd << 5L << 6L << 0L << (1L << 15); lines.push_back(l.get()); }
        }
    }
    (void)NTS_ALL;
    return;
#endif
    // 1. exhaustive patterns: single-case ops up to 3x3 for every thread count, batches for 4x4 (quick) / 5x5 (thorough)
    for (long n = 0; n <= 3; ++n) for (long code = 0; code < (1L << exh_bits(n, 0)); ++code) for (long fwd = 0; fwd < 2; ++fwd) {
        Mat A = exh_pattern(n, code, 0); std::vector<Q> rhs(n), x(n); for (long i = 0; i < n; ++i) { rhs[i] = Q(i + 1); x[i] = Q((i * 5) % 7 - 3); }
        Line l; l << fwd << ((n == 3 && !th) ? rng.pick(NTS) : NTS[(code + fwd) % NTS.size()]) << A << rhs << x; gs_op("sched_gs", l.get());
    }
    for (long fwd = 0; fwd < 2; ++fwd) {
        { Line l; l << fwd << (fwd ? 4L : 5L) << 4L << 0L << (1L << 12); gs_op("sched_exh", l.get()); }      // (the other thread counts: h_sched_exh)
        { Line l; l << fwd << rng.pick(NTS) << 3L << 0L << (1L << 6); gs_op("sched_exh", l.get()); }
        for (long nt : std::vector<long>{4, 8}) { Line l; l << "sched_exh_ilu" << fwd << nt << 5L << 0L << (1L << 10); lines.push_back(l.get()); }
    }
    // 2. random cases
    long N = o.cases > 0 ? o.cases : (th ? 3000 : 260);
    for (long k = 0; k < N; ++k) {
        int which = (int)rng.range(0, 9);
        long n = rng.coin(1, 8) ? rng.range(0, 3) : rng.range(2, th ? 40 : 24);
        Line l;
        if (which <= 2) {
            Mat A = gen_gs_matrix(rng, n, (int)rng.range(0, 4));
            l << rng.range(0, 1) << rng.pick(NTS) << A << gen_vec(rng, A.n) << gen_vec(rng, A.n);
            gs_op("sched_gs", l.get()); continue;
        } else if (which <= 4) {
            long lower = rng.range(0, 1); Mat A = gen_tri(rng, n, lower, (int)rng.range(0, 50));
            std::vector<Q> D(n); for (auto &d : D) d = rng.rat_nz(5);
            l << "sched_ilu" << lower << rng.pick(NTS) << A << D << gen_vec(rng, n);
        } else if (which <= 6) {
            Mat A = gen_gs_matrix(rng, n, (int)rng.range(0, 4));
            l << "gs_apply" << rng.pick(NTS_ALL) << rng.range(0, 2) << A << gen_vec(rng, A.n) << gen_vec(rng, A.n);
        } else if (which == 7) {
            int dens = (int)rng.range(0, 50); Mat L = gen_tri(rng, n, true, dens), U = gen_tri(rng, n, false, dens);
            std::vector<Q> D(n); for (auto &d : D) d = rng.rat_nz(5);
            l << "ilu_solve" << rng.pick(NTS_ALL) << L << U << D << gen_vec(rng, n);
        } else if (which == 8) {
            long m = std::max<long>(n, 2); Mat A = rng.coin() ? gen_spd(rng, std::min<long>(m, 16)) : gen_convdiff(rng, std::min<long>(m, 16));
            l << "ilu0_threads" << rng.pick(NTS_ALL) << A << gen_vec(rng, A.n);
        } else {
            long scale = rng.range(0, 1); Mat A = scale ? gen_spd(rng, std::max<long>(n, 2)) : gen_sparse(rng, n, n, (int)rng.range(0, 50));
            l << "sched_gershgorin" << scale << rng.pick(NTS_ALL) << A;
        }
        lines.push_back(l.get());
    }
    // 3. malformed stream: both sides must answer bad-input
    lines.push_back("sched_gs 1 4 2 2 1 0 1 1 5 1 2 1 1 2 0 0");            // column 5 in a 2x2 matrix
    lines.push_back("sched_gs 1 0 1 1 1 0 1 1 1 1 0");                        // nt = 0
    lines.push_back("sched_gs 1 4 2 2 1 0 1 1 1 1 1 1 2 0 0");               // rhs too short
    lines.push_back("sched_ilu 1 4 2 2 1 1 1 0 2 1 1 2 0 0");                // entry above the diagonal in L
    lines.push_back("ilu_solve 4 2 2 0 1 0 1 2 2 1 0 1 0 2 1 1 2 0 0");      // U has an entry below the diagonal
    lines.push_back("gs_apply 4 3 1 1 1 0 1 1 1 1 0");                        // which = 3
    lines.push_back("sched_exh 1 4 4 0 5000");                              // range beyond 2^12
}

// Performance only (results do not depend on it): on a machine that is already oversubscribed, spinning OpenMP
// threads make every parallel region wait for a full scheduler round; libgomp reads its environment before
// main(), so re-exec once with a passive wait policy when the 1-minute load exceeds the number of CPUs.
int main(int argc, char **argv) {
    if (!getenv("VH_SCHED_REEXEC")) {
        setenv("VH_SCHED_REEXEC", "1", 1);
        double load = 0; if (FILE *f = fopen("/proc/loadavg", "r")) { if (fscanf(f, "%lf", &load) != 1) load = 0; fclose(f); }
        long ncpu = sysconf(_SC_NPROCESSORS_ONLN);
        if (load > 0.9 * (double)ncpu && !getenv("OMP_WAIT_POLICY")) {
            setenv("OMP_WAIT_POLICY", "passive", 1);
            execv("/proc/self/exe", argv);
        }
    }
    return vh::harness_main(argc, argv, generate, execute);
}
