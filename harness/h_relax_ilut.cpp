// C06 harness for ILUT: the REAL amgcl::relaxation::ilut<builtin<Q>> (exact rationals) against the model of ilut.hpp as
// written (lean/Amgcl/Model/RelaxIlut.lean, driver lean/Amgcl/Driver/RelaxIlut.lean).  Serial (1 OpenMP thread).
//
// Ops:
//   relax_ilut_factors p tau A              observable factors `L U D` (read through apply() on unit vectors: B^-1 column by
//                                           column, exact dense inverse, unique Doolittle split), `singular`, or `tie`
//   relax_ilut_pre|post p tau w A f x tmp   one sweep: `x' tmp'`
//   relax_ilut_apply p tau A f              `x'`
//   relax_ilut_drops p tau A                number of entries the run discards (the model's ghost record against the count of
//                                           the dense recurrence below; the oracle ties that recurrence to the real class)
// p = ilut::params::p (fill factor, scalar_type = Q: lp = trunc(lenL * p) exactly), tau = ilut::params::tau, w = damping.
//
// `tie`: std::nth_element in sparse_vector::move_to is asked to cut between entries of equal magnitude; which one survives is
// implementation-defined, so neither side predicts it.  The harness recognises the situation with its own dense recurrence (below)
// and answers `tie` (the real constructor is still run, for the sanitizers); the model recognises it independently.
//
// Implementation-side oracles (independent of the Lean model, exact, dense):
//   * dense_ilut: the algorithm written from its description (copy the row, last duplicate wins; tol = tau * sum|a_ij| / (lenL+lenU);
//     eliminate columns < i in increasing order, a multiplier <= tol is not applied; keep the diagonal, the lp largest lower and
//     the up-1 largest upper entries above tol).  The real factors must equal its factors.
//   * residual identity: (I+L)(D^-1+U) + R = A_eff entrywise, R = the discarded part collected by dense_ilut
//     (skipped multiplier l_c: l_c * pivot_c at column c; multiplier cut by lp: l_c * (pivot_c e_c + U_c); upper entries: themselves),
//     with the REAL factors on the left.
//   * sweep: (I+L)(D^-1+U) tmp' = f - A x and x' - x = w tmp' with the real factors; f = A x is a fixed point; scratch independence.
//   * nothing discarded (always for tau = 0 and p >= n): the factors are the exact LU factors of A_eff; without duplicates and
//     with w = 1 one sweep from any x returns the exact solution: A x' = f.
#include "gen.hpp"
#include <amgcl/relaxation/ilut.hpp>
#ifdef _OPENMP
#include <omp.h>
#endif
using namespace vh;

typedef amgcl::backend::builtin<Q> Backend;
typedef Backend::params BPrm;
typedef std::vector<Q> QV;
typedef amgcl::relaxation::ilut<Backend> Ilut;
typedef std::vector<std::vector<std::pair<long,Q>>> Rows;

static QV tovec(const NVec &v) { QV r(v.size()); for (size_t i = 0; i < v.size(); ++i) r[i] = v[i]; return r; }
static bool qeq(const Q &a, const Q &b) { return a.poison == b.poison && (a.poison || a.v == b.v); }
static bool veq(const QV &a, const QV &b) { if (a.size() != b.size()) return false; for (size_t i = 0; i < a.size(); ++i) if (!qeq(a[i], b[i])) return false; return true; }
static bool has_poison(const QV &v) { for (auto &x : v) if (x.poison) return true; return false; }
static QV vsub(const QV &a, const QV &b) { QV r(a.size()); for (size_t i = 0; i < a.size(); ++i) r[i] = a[i] - b[i]; return r; }
static QV vscale(const Q &a, const QV &b) { QV r(b.size()); for (size_t i = 0; i < b.size(); ++i) r[i] = a * b[i]; return r; }
static Q qabs(const Q &a) { return a.v < 0 ? -a : a; }
static bool square_wf(const Mat &A) { std::string why; auto Ac = A.crs(); return A.n == A.m && crs_wf(*Ac, why); }
static bool has_diag(const Mat &A) { for (long i = 0; i < A.n; ++i) { bool d = false; for (auto j = A.ptr[i]; j < A.ptr[i+1]; ++j) if (A.col[j] == i) d = true; if (!d) return false; } return true; }
static bool nodup(const Mat &A) { auto Ac = A.crs(); return crs_nodup(*Ac); }
static bool sorted(const Mat &A) { auto Ac = A.crs(); return crs_sorted_nodup(*Ac); }

static bool dinv(Dense M, Dense &R) {
    size_t n = M.size(); R.assign(n, QV(n)); for (size_t i = 0; i < n; ++i) R[i][i] = Q(1);
    for (size_t c = 0; c < n; ++c) {
        size_t p = c; while (p < n && M[p][c] == 0) ++p; if (p == n) return false;
        std::swap(M[p], M[c]); std::swap(R[p], R[c]);
        Q d = Q(1) / M[c][c];
        for (size_t j = 0; j < n; ++j) { M[c][j] *= d; R[c][j] *= d; }
        for (size_t i = 0; i < n; ++i) if (i != c && M[i][c] != 0) { Q m = M[i][c]; for (size_t j = 0; j < n; ++j) { M[i][j] -= m * M[c][j]; R[i][j] -= m * R[c][j]; } }
    }
    return true;
}
struct Factors { Mat L, U; QV D; };
static bool lu_split(const Dense &B, Factors &F) {
    size_t n = B.size(); Dense L(n, QV(n)), U(n, QV(n));
    for (size_t i = 0; i < n; ++i) {
        for (size_t j = 0; j < i; ++j) { Q s = B[i][j]; for (size_t k = 0; k < j; ++k) s -= L[i][k] * U[k][j]; if (U[j][j] == 0) return false; L[i][j] = s / U[j][j]; }
        for (size_t j = i; j < n; ++j) { Q s = B[i][j]; for (size_t k = 0; k < i; ++k) s -= L[i][k] * U[k][j]; U[i][j] = s; }
        if (U[i][i] == 0) return false;
    }
    Rows lr(n), ur(n); F.D.assign(n, Q(0));
    for (size_t i = 0; i < n; ++i) { F.D[i] = Q(1) / U[i][i]; for (size_t j = 0; j < n; ++j) { if (j < i && L[i][j] != 0) lr[i].push_back({(long)j, L[i][j]}); if (j > i && U[i][j] != 0) ur[i].push_back({(long)j, U[i][j]}); } }
    F.L = from_rows(n, n, lr); F.U = from_rows(n, n, ur);
    return true;
}
static Dense lu_product(const Factors &F) {
    size_t n = F.D.size(); Dense L = dense(F.L), U = dense(F.U);
    for (size_t i = 0; i < n; ++i) { L[i][i] = Q(1); U[i][i] = Q(1) / F.D[i]; }
    return dmul(L, U);
}
template <class R> static bool read_factors(R &relax, const Crs &A, Factors &F) {
    size_t n = A.nrows; Dense Binv(n, QV(n)), B;
    for (size_t j = 0; j < n; ++j) { NVec e(n), y(n); for (size_t i = 0; i < n; ++i) { e[i] = Q(i == j ? 1 : 0); y[i] = Q::poisoned(); } relax.apply(A, e, y); for (size_t i = 0; i < n; ++i) { if (y[i].poison) return false; Binv[i][j] = y[i]; } }
    return dinv(Binv, B) && lu_split(B, F);
}
static bool mat_eq(const Mat &a, const Mat &b) { if (a.n != b.n || a.m != b.m || a.ptr != b.ptr || a.col != b.col || a.val.size() != b.val.size()) return false; for (size_t i = 0; i < a.val.size(); ++i) if (!qeq(a.val[i], b.val[i])) return false; return true; }
static bool factors_eq(const Factors &a, const Factors &b) { return mat_eq(a.L, b.L) && mat_eq(a.U, b.U) && veq(a.D, b.D); }

// the matrix the constructor sees: a column stored twice keeps its LAST value (w[col] = val overwrites)
static Dense dense_last(const Mat &A) { Dense D(A.n, QV(A.n)); for (long i = 0; i < A.n; ++i) for (auto j = A.ptr[i]; j < A.ptr[i+1]; ++j) D[i][A.col[j]] = A.val[j]; return D; }

// ------------------------------------------------------------------ dense reference recurrence (from the description of ILUT(p, tau))
struct RefStat { long skipped = 0, cutL = 0, tolU = 0, cutU = 0; long total() const { return skipped + cutL + tolU + cutU; } };
enum RefOut { REF_OK, REF_TIE, REF_NODIAG };
// keep the cnt largest magnitudes (all if there are at most cnt); false = the cut separates two equal magnitudes
static bool select_largest(const std::vector<std::pair<long,Q>> &cands, long cnt, std::vector<std::pair<long,Q>> &kept) {
    kept.clear();
    if ((long)cands.size() <= cnt) { kept = cands; return true; }
    std::vector<Q> mags; for (auto &e : cands) mags.push_back(qabs(e.second));
    std::sort(mags.begin(), mags.end(), [](const Q &a, const Q &b) { return b < a; });
    if (cnt > 0 && mags[cnt - 1].v == mags[cnt].v) return false;
    if (cnt > 0) for (auto &e : cands) if (qabs(e.second) >= mags[cnt - 1]) kept.push_back(e);
    return true;
}
static RefOut dense_ilut(const Mat &A, const Q &p, const Q &tau, Factors &F, Dense &R, RefStat &st) {
    long n = A.n; Rows lr(n), ur(n); QV Dinv(n), piv(n); R.assign(n, QV(n));
    for (long i = 0; i < n; ++i) {
        QV w(n); std::vector<char> has(n, 0); Q tol(0); long lenL = 0, lenU = 0;
        for (auto j = A.ptr[i]; j < A.ptr[i+1]; ++j) { long c = A.col[j]; w[c] = A.val[j]; has[c] = 1; tol += qabs(A.val[j]); if (c < i) ++lenL; if (c > i) ++lenU; }
        tol = (lenL + lenU == 0) ? Q(0) : tol * tau / Q(lenL + lenU);
        for (long c = 0; c < i; ++c) if (has[c]) { w[c] = w[c] * Dinv[c]; if (qabs(w[c]) > tol) for (auto &e : ur[c]) { has[e.first] = 1; w[e.first] -= w[c] * e.second; } }
        if (!has[i]) return REF_NODIAG;
        long lp = (long)(int)(Q(lenL) * p), up = (long)(int)(Q(lenU) * p);
        std::vector<std::pair<long,Q>> candL, candU, keptL, keptU;
        for (long c = 0; c < n; ++c) if (has[c] && c != i) {
            if (qabs(w[c]) > tol) (c < i ? candL : candU).push_back({c, w[c]});
            else if (c < i) { ++st.skipped; R[i][c] += w[c] * piv[c]; }
            else { ++st.tolU; R[i][c] += w[c]; }
        }
        if (!select_largest(candL, lp, keptL) || !select_largest(candU, up > 0 ? up - 1 : 0, keptU)) return REF_TIE;
        for (auto &e : candL) { bool k = false; for (auto &f : keptL) if (f.first == e.first) k = true; if (!k) { ++st.cutL; R[i][e.first] += e.second * piv[e.first]; for (auto &u : ur[e.first]) R[i][u.first] += e.second * u.second; } }
        for (auto &e : candU) { bool k = false; for (auto &f : keptU) if (f.first == e.first) k = true; if (!k) { ++st.cutU; R[i][e.first] += e.second; } }
        lr[i] = keptL; ur[i] = keptU; piv[i] = w[i]; Dinv[i] = Q(1) / w[i];
    }
    F.L = from_rows(n, n, lr); F.U = from_rows(n, n, ur); F.D = Dinv; return REF_OK;
}

template <class R> static void run_sweep(R &relax, const Crs &A, const QV &f, QV &x, QV &t, bool pre) {
    NVec F = nvec(f), X = nvec(x), T = nvec(t);
    if (pre) relax.apply_pre(A, F, X, T); else relax.apply_post(A, F, X, T);
    x = tovec(X); t = tovec(T);
}
template <class R> static QV run_apply(R &relax, const Crs &A, const QV &f) {
    NVec F = nvec(f), X(f.size()); for (size_t i = 0; i < f.size(); ++i) X[i] = Q::poisoned();
    relax.apply(A, F, X); return tovec(X);
}

// ------------------------------------------------------------------ one op
static Result execute(const Toks &t) {
#ifdef _OPENMP
    omp_set_num_threads(1);
#endif
    Cur c(t); const std::string &op = t[0]; Result r; BPrm bprm;
    bool fac = op == "relax_ilut_factors", drp = op == "relax_ilut_drops", app = op == "relax_ilut_apply", pre = op == "relax_ilut_pre", post = op == "relax_ilut_post";
    if (!(fac || drp || app || pre || post)) { r.out = "bad-op"; return r; }
    Q p = c.rat(), tau = c.rat(), w(1); Mat Am; QV f, x, tmp;
    if (pre || post) w = c.rat();
    Am = c.mat(); if (app || pre || post) f = c.vec(); if (pre || post) { x = c.vec(); tmp = c.vec(); } c.expect_end();
    if (!square_wf(Am) || !has_diag(Am)) throw bad_input("structure");
    if (p.poison || tau.poison || p < 0 || tau < 0 || p > 1000) throw bad_input("params");
    long n = Am.n;
    if ((app || pre || post) && (long)f.size() != n) throw bad_input("shape");
    if ((pre || post) && ((long)x.size() != n || (long)tmp.size() != n)) throw bad_input("shape");
    bool nd = nodup(Am);
    if (n == 1) r.tag("n1"); if (!sorted(Am)) r.tag(nd ? "unsorted" : "dups");
    r.nontrivial = n > 1 && Am.col.size() > (size_t)n;
    if (tau == 0) r.tag("tau0");

    Factors Ref; Dense Rm; RefStat st; RefOut ro = dense_ilut(Am, p, tau, Ref, Rm, st);
    auto A = Am.crs(); Ilut::params prm; prm.p = p; prm.tau = tau; prm.damping = w;
    Ilut relax(*A, prm, bprm);                                  // the real constructor, always
    if (ro == REF_NODIAG) throw bad_input("no diagonal slot");  // cannot happen: A stores its diagonals
    if (ro == REF_TIE) { r.out = "tie"; r.tag("ilut_tie"); return r; }
    if (st.skipped) r.tag("ilut_skipped"); if (st.cutL) r.tag("ilut_cutL"); if (st.tolU) r.tag("ilut_tolU"); if (st.cutU) r.tag("ilut_cutU");
    if (st.total() == 0) r.tag("ilut_nodrop"); else r.tag("ilut_dropped");
    bool refsing = false; for (auto &d : Ref.D) if (d == 0) refsing = true;

    Factors F; bool okF = read_factors(relax, *A, F);
    if (okF == refsing) r.fail(okF ? "ilut: the operator is regular but the reference recurrence has a zero pivot" : "ilut: apply() is not the inverse of a unit-lower times upper product although the reference pivots are non-zero");
    Dense Aeff = dense_last(Am), D = dense(Am);
    if (okF) {
        if (!factors_eq(Ref, F)) r.fail("ilut: factors differ from the dense reference recurrence of ILUT(p, tau) as written");
        Dense B = lu_product(F); bool ident = true, exact = true;
        for (long i = 0; i < n; ++i) for (long j = 0; j < n; ++j) { if ((B[i][j] + Rm[i][j]).v != Aeff[i][j].v) ident = false; if (B[i][j].v != Aeff[i][j].v) exact = false; }
        if (!ident) r.fail("ilut: (I+L)(D^-1+U) + R != A with R the discarded part");
        if (st.total() == 0 && !exact) r.fail("ilut: nothing was discarded but the factors are not the exact LU factors");
        if (exact) r.tag("ilut_exact");
    } else r.tag("ilut_singular");

    if (fac) { if (!okF) r.out = "singular"; else { Line lo; lo << F.L << F.U << F.D; r.out = lo.get(); } r.tag("ilut_factors"); }
    else if (drp) { r.out = std::to_string(st.total()); r.tag("ilut_drops"); }
    else if (app) {
        QV y = run_apply(relax, *A, f); if (okF && !veq(dmv(lu_product(F), y), f)) r.fail("ilut apply: (I+L)(D^-1+U) y != f");
        if (okF && st.total() == 0 && !veq(dmv(Aeff, y), f)) r.fail("ilut apply: nothing discarded but A y != f");
        r.out = (Line() << y).get(); r.tag("ilut_apply");
    } else {
        QV x1 = x, t1 = tmp; run_sweep(relax, *A, f, x1, t1, pre);
        QV xp = x, tp(n, Q::poisoned()); run_sweep(relax, *A, f, xp, tp, pre);
        if (!veq(xp, x1)) r.fail("new iterate depends on the incoming scratch vector"); if (has_poison(xp)) r.fail("poisoned scratch leaked into the iterate");
        QV Ax = dmv(D, x), res = vsub(f, Ax);
        if (veq(Ax, f)) { r.tag("fixedpoint"); if (!veq(x1, x)) r.fail("A x = f but the sweep moved x"); }
        if (okF && !veq(dmv(lu_product(F), t1), res)) r.fail("ilut sweep: (I+L)(D^-1+U) tmp != f - A x");
        if (!veq(vsub(x1, x), vscale(w, t1))) r.fail("ilut sweep: x' - x != damping * tmp");
        if (okF && st.total() == 0 && nd && w == 1) { r.tag("ilut_onestep"); if (!veq(dmv(D, x1), f)) r.fail("ilut sweep: nothing discarded, damping 1, but A x' != f"); }
        r.out = (Line() << x1 << t1).get(); r.tag(pre ? "ilut_pre" : "ilut_post");
    }
    return r;
}

// ------------------------------------------------------------------ generators
static Mat gen_dd(Rng &rng, long n, int dens, bool integer = false) {
    Mat S = gen_sparse(rng, n, n, dens, integer); auto rows = to_rows(S);
    for (long i = 0; i < n; ++i) { Q s(0); std::vector<std::pair<long,Q>> nr; for (auto &cv : rows[i]) if (cv.first != i) { s += qabs(cv.second); nr.push_back(cv); } Q d = s + Q::frac(rng.range(1, 4), integer ? 1 : 2); if (rng.coin(1, 4)) d = -d; nr.push_back({i, d}); std::sort(nr.begin(), nr.end(), [](auto &a, auto &b) { return a.first < b.first; }); rows[i] = nr; }
    return from_rows(n, n, rows);
}
static Mat gen_tridiag(Rng &rng, long n) {
    Rows rows(n);
    for (long i = 0; i < n; ++i) { Q a = i > 0 && !rng.coin(1, 8) ? rng.rat_nz(4) : Q(0), b = i + 1 < n && !rng.coin(1, 8) ? rng.rat_nz(4) : Q(0); if (a != 0) rows[i].push_back({i - 1, a}); rows[i].push_back({i, qabs(a) + qabs(b) + Q::frac(rng.range(1, 4), 2)}); if (b != 0) rows[i].push_back({i + 1, b}); }
    return from_rows(n, n, rows);
}
static Mat gen_arrow(Rng &rng, long n) {
    Rows rows(n);
    for (long i = 0; i + 1 < n; ++i) { Q b = rng.coin(3, 4) ? rng.rat_nz(4) : Q(0); rows[i].push_back({i, qabs(b) + Q::frac(rng.range(1, 4), 2)}); if (b != 0) rows[i].push_back({n - 1, b}); }
    if (n > 0) { Q s(0); for (long j = 0; j + 1 < n; ++j) if (rng.coin(3, 4)) { Q v = rng.rat_nz(4); s += qabs(v); rows[n-1].push_back({j, v}); } rows[n-1].push_back({n - 1, s + Q(1)}); }
    return from_rows(n, n, rows);
}
static Mat gen_general(Rng &rng, long n, int dens, bool integer) {
    Mat S = gen_sparse(rng, n, n, dens, integer); auto rows = to_rows(S);
    for (long i = 0; i < n; ++i) { bool d = false; for (auto &cv : rows[i]) if (cv.first == i) d = true; if (!d) { rows[i].push_back({i, integer ? Q(rng.range(1, 3)) : rng.rat_nz(5)}); std::sort(rows[i].begin(), rows[i].end(), [](auto &a, auto &b) { return a.first < b.first; }); } }
    return from_rows(n, n, rows);
}
static Mat lone_rows(Rng &rng, const Mat &A) { auto rows = to_rows(A); for (long i = 0; i < A.n; ++i) if (rng.coin(1, 3)) { std::vector<std::pair<long,Q>> nr; for (auto &cv : rows[i]) if (cv.first == i) nr.push_back(cv); rows[i] = nr; } return from_rows(A.n, A.m, rows); }
static Mat gen_matrix(Rng &rng, long n, int family) {
    switch (family) {
        case 0: return gen_spd(rng, n);
        case 1: return gen_convdiff(rng, n);
        case 2: return gen_dd(rng, n, (int)rng.range(15, 70));
        case 3: return gen_tridiag(rng, n);
        case 4: return gen_arrow(rng, n);
        case 5: return lone_rows(rng, gen_dd(rng, n, (int)rng.range(20, 60)));
        case 6: return gen_general(rng, n, (int)rng.range(15, 60), false);
        default: return gen_general(rng, n, (int)rng.range(20, 70), true);
    }
}
// make the magnitudes of the stored entries pairwise distinct inside every row (off-diagonal entries are nudged)
static Mat distinct_magnitudes(const Mat &A) {
    auto rows = to_rows(A);
    for (long i = 0; i < A.n; ++i) { auto &r = rows[i]; long bump = 0;
        for (size_t a = 0; a < r.size(); ++a) { if (r[a].first == i) continue; bool again = true; while (again) { again = false; for (size_t b = 0; b < r.size(); ++b) if (b != a && (b < a || r[b].first == i) && qabs(r[b].second).v == qabs(r[a].second).v) { ++bump; r[a].second = r[a].second + (r[a].second.v < 0 ? Q::frac(-bump, 101) : Q::frac(bump, 101)); if (r[a].second == 0) r[a].second = Q::frac(bump, 103); again = true; break; } } } }
    return from_rows(A.n, A.m, rows);
}
static bool is_tie(const Mat &A, const Q &p, const Q &tau) { Factors F; Dense R; RefStat st; return dense_ilut(A, p, tau, F, R, st) == REF_TIE; }

static void generate(Rng &rng, const Opts &o, std::vector<std::string> &lines) {
#ifdef _OPENMP
    omp_set_num_threads(1);
#endif
    long N = o.cases > 0 ? o.cases : (o.thorough() ? 6000 : 420);
    const long nmax = o.thorough() ? 12 : 8;
    const std::vector<Q> omegas = { Q(1), Q(1), Q::frac(18, 25), Q::frac(2, 3), Q(0), Q::frac(-1, 3) };
    const std::vector<Q> ps = { Q(0), Q::frac(1, 2), Q::frac(2, 3), Q(1), Q::frac(5, 4), Q::frac(3, 2), Q(2), Q(2), Q::frac(5, 2), Q(3), Q::frac(1, 10), Q::frac(11, 10) };
    const std::vector<Q> taus = { Q(0), Q(0), Q::frac(1, 100), Q::frac(1, 100), Q::frac(1, 20), Q::frac(1, 10), Q::frac(1, 4), Q::frac(1, 2), Q(1), Q(3) };
    auto emit = [&](const Q &p, const Q &tau, const Mat &A, int sub) {
        long n = A.n; QV x = gen_vec(rng, n), f = rng.coin(1, 4) ? dmv(dense(A), x) : gen_vec(rng, n), tmp = gen_vec(rng, n); Line l;
        if (sub <= 2) l << "relax_ilut_factors" << p << tau << A;
        else if (sub <= 4) l << (sub == 3 ? "relax_ilut_pre" : "relax_ilut_post") << p << tau << rng.pick(omegas) << A << f << x << tmp;
        else if (sub == 5) l << "relax_ilut_apply" << p << tau << A << f;
        else l << "relax_ilut_drops" << p << tau << A;
        lines.push_back(l.get());
    };
    for (long k = 0; k < N; ++k) {
        int stream = (int)rng.range(0, 11);
        long n = rng.coin(1, 14) ? 1 : rng.range(2, nmax);
        Mat A = gen_matrix(rng, n, (int)rng.range(0, 7)); n = A.n;
        Q p = rng.pick(ps), tau = rng.pick(taus);
        if (stream <= 1) {                       // nothing is cut and nothing is below tol: exact LU, one sweep solves
            tau = Q(0); p = Q(n + rng.range(0, 2));
            if (rng.coin(1, 4)) A = unsort(rng, A, false);
        } else if (stream <= 5) {                // rows with pairwise distinct magnitudes: the selection is a function of the multiset
            A = distinct_magnitudes(A);
            for (int tries = 0; tries < 6 && is_tie(A, p, tau); ++tries) { A = distinct_magnitudes(gen_matrix(rng, n, (int)rng.range(0, 7))); n = A.n; }
            if (rng.coin(1, 5)) A = unsort(rng, A, false);
        } else if (stream <= 7) {                // as generated (equal magnitudes are frequent: SPD M-matrices, small integers): many ties
            if (rng.coin(1, 4)) A = unsort(rng, A, rng.coin(1, 2));
        } else if (stream == 10) {               // off-diagonals +-1, small p: the cut falls inside groups of equal magnitude (`tie` on both sides)
            n = rng.range(3, nmax); A = gen_dd(rng, n, (int)rng.range(40, 80), true); auto rows = to_rows(A);
            for (long i = 0; i < n; ++i) for (auto &cv : rows[i]) if (cv.first != i) cv.second = Q(rng.coin() ? 1 : -1);
            A = from_rows(n, n, rows); p = rng.pick(std::vector<Q>{ Q::frac(1, 2), Q::frac(2, 3), Q(1), Q(2) }); tau = rng.pick(std::vector<Q>{ Q(0), Q::frac(1, 100) });
        } else if (stream == 11) {               // entries exactly AT the threshold: k off-diagonals of magnitude v, diagonal k*v, tau = 1/2 => tol = v
            n = rng.range(2, nmax); Mat S = gen_sparse(rng, n, n, (int)rng.range(30, 80)); auto rows = to_rows(S); Rows nr(n);
            for (long i = 0; i < n; ++i) { Q v = Q::frac(rng.range(1, 5), rng.range(1, 3)); long k = 0; for (auto &cv : rows[i]) if (cv.first != i) ++k;
                for (auto &cv : rows[i]) if (cv.first != i) nr[i].push_back({cv.first, rng.coin() ? v : -v}); nr[i].push_back({i, k > 0 ? Q(k) * v : v}); std::sort(nr[i].begin(), nr[i].end(), [](auto &a, auto &b) { return a.first < b.first; }); }
            A = from_rows(n, n, nr); p = rng.pick(std::vector<Q>{ Q(1), Q(2), Q(3) }); tau = Q::frac(1, 2);
        } else {                                 // dense-ish rows, small p: the fill limits cut a lot
            n = rng.range(3, nmax); A = distinct_magnitudes(gen_dd(rng, n, (int)rng.range(50, 90))); p = rng.pick(std::vector<Q>{ Q::frac(1, 2), Q::frac(2, 3), Q(1), Q::frac(5, 4) }); tau = rng.pick(std::vector<Q>{ Q(0), Q::frac(1, 100), Q::frac(1, 20) });
            for (int tries = 0; tries < 6 && is_tie(A, p, tau); ++tries) A = distinct_magnitudes(gen_dd(rng, n, (int)rng.range(50, 90)));
        }
        emit(p, tau, A, (int)rng.range(0, 6));
    }
    // malformed stream: both sides must answer bad-input
    lines.push_back("relax_ilut_factors 2 0 2 2 1 1 1 1 1 1");                        // row 0 stores no diagonal
    lines.push_back("relax_ilut_factors 2 0 2 3 1 0 1 1 1 1");                        // not square
    lines.push_back("relax_ilut_factors -1 0 1 1 1 0 1");                             // negative fill factor
    lines.push_back("relax_ilut_factors 2 -1/2 1 1 1 0 1");                           // negative threshold
    lines.push_back("relax_ilut_apply 2 0 2 2 1 0 1 1 1 1 1 5");                      // vector size does not fit
    lines.push_back("relax_ilut_pre 2 0 1 2 2 1 0 1 1 5 1 2 1 1 2 1 1 2 0 0");        // column 5 in a 2x2 matrix
    lines.push_back("relax_ilut_drops 2 0 2 2 1 0 1");                                // truncated
}

VH_MAIN(generate, execute)
