// C18 harness: preconditioner::cpr_drs (CPR with dynamic row-sum weights) at the exact type Q.
// The real class is instantiated with the RECORDING inner preconditioners of h_composite.cpp (they log the matrix they
// are constructed with and compute "multiply by the dense matrix of the op line" / point Jacobi), private members are
// read through -fno-access-control.
//
// Ops (dense matrices `r c v11 .. vrc`, row-major; W = `weights`, size 0 = not set):
//   cpr_drs       nt ctor B active_rows eps_dd eps_ps W K skind Smat Pmat f
//   cpr_drs_upd   nt ctor B active_rows eps_dd eps_ps W K skind Smat Pmat f upd K2
//   cpr_drsb      nt ctor B active_rows eps_dd eps_ps W Kb skind Smat Pmat f        (Kb: CRS of row-major BxB blocks)
//   cpr_drsb_upd  nt ctor B active_rows eps_dd eps_ps W Kb skind Smat Pmat f upd Kb2
// nt: OpenMP threads (the scratch vectors a_dia/a_off/a_top of first_scalar_pass are per thread and reused over the
// block rows a thread handles); ctor 0: shared_ptr constructor (rows must be sorted), 1: generic constructor (copy +
// sort_rows).  eps_dd, eps_ps and the weights are `double` in the code: the op line carries exact binary64 values
// (anything else is bad-input) and the harness converts them to double exactly.
//
// Oracles (independent of the Lean model, from the dense matrix): the DRS criteria evaluated entry by entry
//   a_dia[i] = K(ip*B+i, ip*B),  a_off[i] = sum_{jp != ip} |K(ip*B+i, jp*B)|,  a_top[c] = sum_jp |K(ip*B, jp*B+c)|
//   w_i = (W ? W[ip*B+i] : 1), and 0 if i > 0 and (a_dia[i] < eps_dd*a_off[i] or a_top[i] < eps_ps*|a_dia[0]|)
// Fpp = these weights, App(ip,jp) = sum_i w_i K(ip*B+i, jp*B) on the pattern of the non-empty active blocks, Scatter =
// injection, x = S f + Scatter P Fpp (f - A S f), block input == scalar input on the expanded matrix, partial_update
// with an unchanged matrix = no-op, with a new matrix = formula with the updated S, A, Fpp and the OLD App.
#include "gen.hpp"
#include <amgcl/backend/builtin.hpp>
#include <amgcl/value_type/static_matrix.hpp>
#include <amgcl/preconditioner/cpr_drs.hpp>
#ifdef _OPENMP
#include <omp.h>
#endif
using namespace vh;

typedef amgcl::backend::builtin<Q> BE;

// ------------------------------------------------------------------------------------------------ dense helpers
struct DM {
    long r = 0, c = 0; Dense d;
    DM() {}
    DM(long r, long c) : r(r), c(c), d(r, std::vector<Q>(c)) {}
    Q& operator()(long i, long j) { return d[i][j]; }
    const Q& operator()(long i, long j) const { return d[i][j]; }
};
static DM dident(long n) { DM I(n, n); for (long i = 0; i < n; ++i) I(i, i) = Q(1); return I; }
static bool deq(const DM &A, const DM &B) {
    if (A.r != B.r || A.c != B.c) return false;
    for (long i = 0; i < A.r; ++i) for (long j = 0; j < A.c; ++j) if (A(i, j).poison || B(i, j).poison || A(i, j).v != B(i, j).v) return false;
    return true;
}
static std::vector<Q> dmv(const DM &A, const std::vector<Q> &x) {
    std::vector<Q> y(A.r); for (long i = 0; i < A.r; ++i) for (long j = 0; j < A.c; ++j) y[i] += A(i, j) * x[j]; return y;
}
static bool veq(const std::vector<Q> &a, const std::vector<Q> &b) {
    if (a.size() != b.size()) return false;
    for (size_t i = 0; i < a.size(); ++i) if (a[i].poison || b[i].poison || a[i].v != b[i].v) return false;
    return true;
}
static bool dinverse(const DM &A, DM &inv) {
    long n = A.r; if (A.c != n) return false;
    DM M = A; inv = dident(n);
    for (long k = 0; k < n; ++k) {
        long p = -1; for (long i = k; i < n; ++i) if (M(i, k) != 0) { p = i; break; }
        if (p < 0) return false;
        std::swap(M.d[p], M.d[k]); std::swap(inv.d[p], inv.d[k]);
        Q piv = M(k, k);
        for (long j = 0; j < n; ++j) { M(k, j) /= piv; inv(k, j) /= piv; }
        for (long i = 0; i < n; ++i) if (i != k && M(i, k) != 0) { Q f = M(i, k); for (long j = 0; j < n; ++j) { M(i, j) -= f * M(k, j); inv(i, j) -= f * inv(k, j); } }
    }
    return true;
}
template <class M> static DM ddense(const M &A) { DM D(A.nrows, A.ncols); for (size_t i = 0; i < A.nrows; ++i) for (auto j = A.ptr[i]; j < A.ptr[i+1]; ++j) D(i, A.col[j]) += A.val[j]; return D; }
static DM ddense(const Mat &A) { DM D(A.n, A.m); for (long i = 0; i < A.n; ++i) for (auto j = A.ptr[i]; j < A.ptr[i+1]; ++j) D(i, A.col[j]) += A.val[j]; return D; }
static DM parse_dense(Cur &c) {
    long r = c.nat(), cc = c.nat(); if (r < 0 || cc < 0 || r > 4096 || cc > 4096) throw bad_input("dense");
    DM M(r, cc); for (long i = 0; i < r; ++i) for (long j = 0; j < cc; ++j) M(i, j) = c.rat(); return M;
}
static Line& operator<<(Line &l, const DM &M) { l << M.r << M.c; for (long i = 0; i < M.r; ++i) for (long j = 0; j < M.c; ++j) l << M(i, j); return l; }
static std::vector<Q> vecof(const NVec &v) { std::vector<Q> r(v.size()); for (size_t i = 0; i < v.size(); ++i) r[i] = v[i]; return r; }
static bool has_poison(const std::vector<Q> &v) { for (auto &x : v) if (x.poison) return true; return false; }
static void poison(NVec &v) { for (size_t i = 0; i < v.size(); ++i) v[i] = Q::poisoned(); }

static inline Q comp(const Q &x, int) { return x; }
static inline Q& comp(Q &x, int) { return x; }
template <int B> static inline Q comp(const amgcl::static_matrix<Q,B,1> &x, int r) { return x(r); }
template <int B> static inline Q& comp(amgcl::static_matrix<Q,B,1> &x, int r) { return x(r); }

// PPrecond / SPrecond (as in h_composite.cpp)
template <class Backend>
struct InnerPrecond {
    typedef Backend backend_type; typedef typename Backend::matrix matrix; typedef typename Backend::vector vector;
    typedef typename Backend::value_type value_type; typedef typename Backend::params backend_params;
    typedef typename amgcl::backend::builtin<value_type>::matrix build_matrix;
    static const int B = amgcl::math::static_rows<value_type>::value;
    struct params {
        int kind = 0;                 // 0: x = M rhs (dense matrix of the op line), 1: point Jacobi of the matrix it is built with
        const DM *M = nullptr;
        std::vector<std::shared_ptr<build_matrix>> *built = nullptr;
    } prm;
    std::shared_ptr<build_matrix> A;
    InnerPrecond(std::shared_ptr<build_matrix> A_, const params &p = params(), const backend_params& = backend_params()) : prm(p), A(A_) { if (prm.built) prm.built->push_back(A); }
    template <class Matrix>
    InnerPrecond(const Matrix &A_, const params &p = params(), const backend_params& = backend_params()) : prm(p), A(std::make_shared<build_matrix>(A_)) { if (prm.built) prm.built->push_back(A); }
    static Q diag_of(const Q &v, int) { return v; }
    template <int BB> static Q diag_of(const amgcl::static_matrix<Q,BB,BB> &v, int r) { return v(r, r); }
    template <class V1, class V2> void apply(const V1 &rhs, V2 &&x) const {
        const long n = (long)A->nrows;
        std::vector<Q> y(n * B);
        if (prm.kind == 1) {
            for (long i = 0; i < n; ++i) for (int r = 0; r < B; ++r) {
                Q d(0); for (auto j = A->ptr[i]; j < A->ptr[i+1]; ++j) if (A->col[j] == i) d += diag_of(A->val[j], r);
                y[i * B + r] = comp(rhs[i], r) / d;
            }
        } else {
            const DM &M = *prm.M;
            for (long i = 0; i < M.r; ++i) for (long j = 0; j < M.c; ++j) y[i] += M(i, j) * comp(rhs[j / B], (int)(j % B));
        }
        for (long i = 0; i < n; ++i) for (int r = 0; r < B; ++r) comp(x[i], r) = y[i * B + r];
    }
    const matrix& system_matrix() const { return *A; }
    std::shared_ptr<matrix> system_matrix_ptr() const { return A; }
};

// ------------------------------------------------------------------------------------------------ block matrices
template <int B> struct BlkT { typedef amgcl::static_matrix<Q,B,B> val; typedef amgcl::static_matrix<Q,B,1> rhs; typedef amgcl::backend::builtin<val> backend; typedef amgcl::backend::crs<val> crs; };

struct BlkMat { long n = 0, m = 0, B = 0; std::vector<ptrdiff_t> ptr, col; std::vector<std::vector<Q>> val; };   // blocks row-major
static BlkMat parse_blk(Cur &c, long B) {
    BlkMat M; M.B = B; M.n = c.nat(); M.m = c.nat(); if (M.n < 0 || M.m < 0) throw bad_input("n"); M.ptr.push_back(0);
    for (long r = 0; r < M.n; ++r) { long k = c.nat(); if (k < 0) throw bad_input("k"); for (long j = 0; j < k; ++j) { M.col.push_back(c.nat()); std::vector<Q> v(B * B); for (auto &x : v) x = c.rat(); M.val.push_back(v); } M.ptr.push_back((ptrdiff_t)M.col.size()); }
    return M;
}
static Line& operator<<(Line &l, const BlkMat &A) {
    l << A.n << A.m;
    for (long i = 0; i < A.n; ++i) { l << (long)(A.ptr[i+1] - A.ptr[i]); for (auto j = A.ptr[i]; j < A.ptr[i+1]; ++j) { l << (long)A.col[j]; for (auto &x : A.val[j]) l << x; } }
    return l;
}
static bool blk_nodup(const BlkMat &A) {
    if (A.n != A.m) return false;
    for (long i = 0; i < A.n; ++i) { std::set<long> seen; for (auto j = A.ptr[i]; j < A.ptr[i+1]; ++j) { if (A.col[j] < 0 || A.col[j] >= A.m) return false; if (!seen.insert(A.col[j]).second) return false; } }
    return true;
}
static BlkMat blk_sorted(const BlkMat &A) {
    BlkMat R; R.B = A.B; R.n = A.n; R.m = A.m; R.ptr.push_back(0);
    for (long i = 0; i < A.n; ++i) { std::vector<std::pair<long,long>> o; for (auto j = A.ptr[i]; j < A.ptr[i+1]; ++j) o.push_back({(long)A.col[j], (long)j}); std::sort(o.begin(), o.end()); for (auto &q : o) { R.col.push_back(q.first); R.val.push_back(A.val[q.second]); } R.ptr.push_back((ptrdiff_t)R.col.size()); }
    return R;
}
static bool blk_ok(const BlkMat &A) {   // square, columns in range, strictly increasing columns
    if (A.n != A.m) return false;
    for (long i = 0; i < A.n; ++i) for (auto j = A.ptr[i]; j < A.ptr[i+1]; ++j) { if (A.col[j] < 0 || A.col[j] >= A.m) return false; if (j > A.ptr[i] && !(A.col[j-1] < A.col[j])) return false; }
    return true;
}
static void blk_shuffle(Rng &rng, BlkMat &A) {
    for (long i = 0; i < A.n; ++i) for (ptrdiff_t a = A.ptr[i+1] - 1; a > A.ptr[i]; --a) { ptrdiff_t b = A.ptr[i] + (ptrdiff_t)(rng.next() % (uint64_t)(a - A.ptr[i] + 1)); std::swap(A.col[a], A.col[b]); std::swap(A.val[a], A.val[b]); }
}
// the block matrix as a scalar matrix (explicit zeros kept)
static Mat expand(const BlkMat &A) {
    long B = A.B; std::vector<std::vector<std::pair<long,Q>>> rows(A.n * B);
    for (long i = 0; i < A.n; ++i) for (long r = 0; r < B; ++r) for (auto j = A.ptr[i]; j < A.ptr[i+1]; ++j) for (long s = 0; s < B; ++s) rows[i * B + r].push_back({(long)A.col[j] * B + s, A.val[j][r * B + s]});
    return from_rows(A.n * B, A.m * B, rows);
}
template <int B> static std::shared_ptr<typename BlkT<B>::crs> to_crs(const BlkMat &A) {
    std::vector<typename BlkT<B>::val> v(A.val.size());
    for (size_t k = 0; k < A.val.size(); ++k) for (int r = 0; r < B; ++r) for (int s = 0; s < B; ++s) v[k](r, s) = A.val[k][r * B + s];
    return std::make_shared<typename BlkT<B>::crs>((size_t)A.n, (size_t)A.m, A.ptr, A.col, v);
}
static Mat mat_sorted(const Mat &A) {
    auto rows = to_rows(A);
    for (auto &q : rows) std::sort(q.begin(), q.end(), [](const std::pair<long,Q> &a, const std::pair<long,Q> &b) { return a.first < b.first; });
    return from_rows(A.n, A.m, rows);
}
static bool mat_same(const Mat &A, const Mat &B) {
    if (A.n != B.n || A.m != B.m || A.ptr != B.ptr || A.col != B.col) return false;
    for (size_t k = 0; k < A.val.size(); ++k) if (A.val[k].v != B.val[k].v) return false;
    return true;
}

// ------------------------------------------------------------------------------------------------ doubles
// +-m / 2^k with m < 2^53, k <= 1074: exactly a binary64 (the same rule as Driver/CompositeDrs.lean `isF64`)
static bool is_f64(const Q &q) {
    if (q.poison) return false;
    const mpz_class &num = q.v.get_num(), &den = q.v.get_den();
    if (mpz_popcount(den.get_mpz_t()) != 1 || mpz_sizeinbase(den.get_mpz_t(), 2) - 1 > 1074) return false;
    return num == 0 || mpz_sizeinbase(num.get_mpz_t(), 2) <= 53;
}
static double to_double(const Q &q) { double d = q.v.get_d(); if (!(Q(d).v == q.v)) throw std::logic_error("harness: inexact double conversion"); return d; }

// ------------------------------------------------------------------------------------------------ running the real code
struct DrsIn { long nt, ctor, B, act; Q edd, eps; std::vector<Q> W; long skind; DM Sm, Pm; std::vector<Q> f; };
struct DrsOut { bool precond = false; long np = 0; std::shared_ptr<Crs> Fpp, Scatter, App; std::vector<long> appptr; std::vector<Q> x, x0; std::shared_ptr<Crs> Fpp2; bool precond2 = false; };

static std::vector<long> ptr_of(const Crs &C) { return std::vector<long>(C.ptr, C.ptr + C.nrows + 1); }
static void set_threads(long nt) {
#ifdef _OPENMP
    omp_set_num_threads((int)nt);
#else
    (void)nt;
#endif
}
template <class PRM> static void fill_params(PRM &prm, const DrsIn &in) {
    prm.active_rows = (size_t)in.act; prm.eps_dd = to_double(in.edd); prm.eps_ps = to_double(in.eps);
    prm.weights.clear(); for (auto &w : in.W) prm.weights.push_back(to_double(w));
}

static DrsOut run_scalar(const Mat &K, const DrsIn &in, bool do_upd = false, bool upd = false, const Mat *K2 = nullptr) {
    typedef InnerPrecond<BE> IP; typedef amgcl::preconditioner::cpr_drs<IP, IP> DRS;
    DrsOut o; long n = K.n;
    std::vector<std::shared_ptr<Crs>> pbuilt, sbuilt;
    DRS::params prm; prm.block_size = (int)in.B; fill_params(prm, in);
    prm.pprecond.kind = 0; prm.pprecond.M = &in.Pm; prm.pprecond.built = &pbuilt;
    prm.sprecond.kind = (int)in.skind; prm.sprecond.M = &in.Sm; prm.sprecond.built = &sbuilt;
    set_threads(in.nt);
    std::unique_ptr<DRS> P;
    try { if (in.ctor == 0) P.reset(new DRS(K.crs(), prm)); else P.reset(new DRS(*K.crs(), prm)); }
    catch (const std::runtime_error&) { set_threads(1); o.precond = true; return o; }
    o.np = (long)P->np; o.Fpp = P->Fpp; o.Scatter = P->Scatter; o.App = pbuilt.at(0); o.appptr = ptr_of(*o.App);
    NVec F(in.f);
    { NVec X(n); poison(X); poison(*P->rs); poison(*P->rp); poison(*P->xp); P->apply(F, X); o.x = vecof(X); }
    if (do_upd) {
        o.x0 = o.x;
        P->partial_update(*K2->crs(), upd);
        o.Fpp2 = P->Fpp;
        NVec X(n); poison(X); poison(*P->rs); poison(*P->rp); poison(*P->xp); P->apply(F, X); o.x = vecof(X);
    }
    set_threads(1);
    return o;
}
template <int B>
static DrsOut run_block(const BlkMat &K, const DrsIn &in, bool do_upd = false, bool upd = false, const BlkMat *K2 = nullptr) {
    typedef InnerPrecond<BE> IPP; typedef InnerPrecond<typename BlkT<B>::backend> IPS; typedef amgcl::preconditioner::cpr_drs<IPP, IPS> DRS;
    typedef amgcl::backend::numa_vector<typename BlkT<B>::rhs> BVec;
    DrsOut o; long n = K.n;
    std::vector<std::shared_ptr<Crs>> pbuilt; std::vector<std::shared_ptr<typename BlkT<B>::crs>> sbuilt;
    typename DRS::params prm; fill_params(prm, in);
    prm.pprecond.kind = 0; prm.pprecond.M = &in.Pm; prm.pprecond.built = &pbuilt;
    prm.sprecond.kind = (int)in.skind; prm.sprecond.M = &in.Sm; prm.sprecond.built = &sbuilt;
    if (prm.block_size != B) throw std::logic_error("harness: default block_size of block-valued cpr_drs");
    set_threads(in.nt);
    std::unique_ptr<DRS> P;
    try { if (in.ctor == 0) P.reset(new DRS(to_crs<B>(K), prm)); else P.reset(new DRS(*to_crs<B>(K), prm)); }
    catch (const std::runtime_error&) { set_threads(1); o.precond = true; return o; }
    o.np = (long)P->np; o.Fpp = P->Fpp; o.Scatter = P->Scatter; o.App = pbuilt.at(0); o.appptr = ptr_of(*o.App);
    BVec F(n), X(n);
    auto fill = [&]() { for (long i = 0; i < n; ++i) for (int r = 0; r < B; ++r) { F[i](r) = in.f[i * B + r]; X[i](r) = Q::poisoned(); } for (size_t i = 0; i < P->rs->size(); ++i) for (int r = 0; r < B; ++r) (*P->rs)[i](r) = Q::poisoned(); poison(*P->rp); poison(*P->xp); };
    auto grab = [&]() { std::vector<Q> x(n * B); for (long i = 0; i < n; ++i) for (int r = 0; r < B; ++r) x[i * B + r] = X[i](r); return x; };
    fill(); P->apply(F, X); o.x = grab();
    if (do_upd) {
        o.x0 = o.x;
        try { P->partial_update(*to_crs<B>(*K2), upd); } catch (const std::runtime_error&) { set_threads(1); o.precond2 = true; return o; }
        o.Fpp2 = P->Fpp;
        fill(); P->apply(F, X); o.x = grab();
    }
    set_threads(1);
    return o;
}
static DrsOut run_block_any(const BlkMat &K, const DrsIn &in, bool do_upd = false, bool upd = false, const BlkMat *K2 = nullptr) {
    switch (K.B) { case 2: return run_block<2>(K, in, do_upd, upd, K2); case 3: return run_block<3>(K, in, do_upd, upd, K2); case 4: return run_block<4>(K, in, do_upd, upd, K2); }
    throw bad_input("B");
}
static Line& put_state(Line &l, const DrsOut &o) { l << "np" << o.np << "Fpp" << *o.Fpp << "Scatter" << *o.Scatter << "App" << o.appptr << *o.App; return l; }

// ------------------------------------------------------------------------------------------------ oracles
static std::vector<Q> apply_S(const DM &Kd, const DrsIn &in, const std::vector<Q> &f) {
    if (in.skind == 1) { std::vector<Q> y(f.size()); for (size_t i = 0; i < f.size(); ++i) y[i] = f[i] / Kd(i, i); return y; }
    return dmv(in.Sm, f);
}
struct WStat { long on = 0, off_dd = 0, off_ps = 0, tie = 0; };
// the DRS weights straight from the dense matrix; N = active scalar rows; W is np x ncols
static DM drs_weights(const DM &Kd, const DrsIn &in, long N, long ncols, WStat *st = nullptr) {
    long B = in.B, np = N / B; DM W(np, ncols);
    for (long ip = 0; ip < np; ++ip) {
        std::vector<Q> a_dia(B), a_off(B), a_top(B);
        for (long i = 0; i < B; ++i) { a_dia[i] = Kd(ip * B + i, ip * B); for (long jp = 0; jp < np; ++jp) if (jp != ip) a_off[i] += abs(Kd(ip * B + i, jp * B)); }
        for (long c = 0; c < B; ++c) for (long jp = 0; jp < np; ++jp) a_top[c] += abs(Kd(ip * B, jp * B + c));
        for (long i = 0; i < B; ++i) {
            Q w = in.W.empty() ? Q(1) : in.W[ip * B + i];
            if (i > 0) {
                Q l1 = in.edd * a_off[i], l2 = in.eps * abs(a_dia[0]);
                bool dd = a_dia[i] < l1, ps = a_top[i] < l2;
                if (dd || ps) w = Q(0);
                if (st) { if (dd) st->off_dd++; if (ps) st->off_ps++; if (!dd && !ps) st->on++; if (a_dia[i].v == l1.v || a_top[i].v == l2.v) st->tie++; }
            }
            W(ip, ip * B + i) = w;
        }
    }
    return W;
}
// Kd = the (expanded, sorted) scalar matrix, Ks its sparse form (pattern of App), N = active scalar rows
static void drs_oracles(Result &r, const Mat &Ks, const DM &Kd, const DrsIn &in, long N, long fcols, const DrsOut &o, const std::string &tag) {
    long B = in.B, n = Kd.r, np = N / B; std::string why;
    if (o.np != np) { r.fail("np"); return; }
    if (has_poison(o.x)) r.fail("scratch contents leaked into the result (poison)");
    if (!crs_wf(*o.Fpp, why) || !crs_wf(*o.Scatter, why)) { r.fail("Fpp/Scatter: " + why); return; }
    if (!crs_wf(*o.App, why)) { r.fail(tag + "App: " + why); return; }
    WStat st; DM W = drs_weights(Kd, in, N, fcols, &st);
    DM Fd = ddense(*o.Fpp);
    if (Fd.r != np || Fd.c != fcols || !deq(Fd, W)) r.fail(tag + "Fpp != dynamic-row-sum weights recomputed from the dense matrix (eps_dd = " + in.edd.str() + ", eps_ps = " + in.eps.str() + ")");
    for (long ip = 0; ip < np && ip < (long)o.Fpp->nrows; ++ip) if (o.Fpp->ptr[ip+1] - o.Fpp->ptr[ip] != B) r.fail("Fpp row width != block_size");
    DM Ad(np, np); for (long ip = 0; ip < np; ++ip) for (long jp = 0; jp < np; ++jp) for (long i = 0; i < B; ++i) Ad(ip, jp) += W(ip, ip * B + i) * Kd(ip * B + i, jp * B);
    if (!deq(ddense(*o.App), Ad)) r.fail(tag + "App != sum_i w_i A(ip*B+i, jp*B)");
    if (!crs_sorted_nodup(*o.App)) r.fail("App rows not sorted / duplicate columns");
    // pattern of App: the non-empty active blocks of the block row
    for (long ip = 0; ip < np && ip < (long)o.App->nrows; ++ip) {
        std::set<long> ex, got; for (long i = 0; i < B; ++i) for (auto j = Ks.ptr[ip*B+i]; j < Ks.ptr[ip*B+i+1]; ++j) if (Ks.col[j] < N) ex.insert(Ks.col[j] / B);
        for (auto j = o.App->ptr[ip]; j < o.App->ptr[ip+1]; ++j) got.insert(o.App->col[j]);
        if (ex != got) r.fail(tag + "pattern of App != non-empty active blocks");
    }
    DM Sc = ddense(*o.Scatter); bool scok = Sc.c == np;
    for (long i = 0; scok && i < Sc.r; ++i) for (long j = 0; j < np; ++j) if (Sc(i, j).v != ((i == j * B) ? 1 : 0)) scok = false;
    if (!scok) r.fail("Scatter is not the injection of the pressure unknowns");
    std::vector<Q> x = apply_S(Kd, in, in.f), ax = dmv(Kd, x), rs(n);
    for (long i = 0; i < n; ++i) rs[i] = in.f[i] - ax[i];
    std::vector<Q> rp(np); for (long ip = 0; ip < np; ++ip) for (long j = 0; j < N; ++j) rp[ip] += W(ip, j) * rs[j];
    std::vector<Q> xp = dmv(in.Pm, rp);
    for (long ip = 0; ip < np; ++ip) x[ip * B] += xp[ip];
    if (!veq(o.x0.empty() ? o.x : o.x0, x)) r.fail(tag + "apply != S f + Scatter P Fpp (f - A S f)");
    if (st.off_dd) r.tag("w_off_dd"); if (st.off_ps) r.tag("w_off_ps"); if (st.on) r.tag("w_on"); if (st.tie) r.tag("w_tie");
    if (st.off_dd + st.off_ps > 0 && st.on > 0) r.tag("w_mixed");
    if (in.edd == 0 && in.eps == 0) r.tag("eps_zero"); if (in.edd < 0 || in.eps < 0) r.tag("eps_negative");
    if (!in.W.empty()) r.tag("user_weights");
}
// apply after a partial update with a NEW matrix: S and A from K2, Fpp from K2 iff upd, App / P from the constructor
static void upd_oracle(Result &r, const DM &K2d, const DrsIn &in, long N, long fcols, bool upd, const DrsOut &o) {
    long B = in.B, n = K2d.r, np = N / B;
    std::vector<Q> x = apply_S(K2d, in, in.f), ax = dmv(K2d, x), rs(n); for (long i = 0; i < n; ++i) rs[i] = in.f[i] - ax[i];
    DM Fd = ddense(upd ? *o.Fpp2 : *o.Fpp);
    if (upd && !deq(Fd, drs_weights(K2d, in, N, fcols))) r.fail("Fpp after partial_update != dynamic-row-sum weights of the new matrix");
    std::vector<Q> rp(np); for (long ip = 0; ip < np; ++ip) for (long j = 0; j < N; ++j) rp[ip] += Fd(ip, j) * rs[j];
    std::vector<Q> xp = dmv(in.Pm, rp);
    for (long ip = 0; ip < np; ++ip) x[ip * B] += xp[ip];
    if (!veq(o.x, x)) r.fail("apply after partial_update != formula with the updated S, A, Fpp");
}

static void parse_hdr(Cur &c, DrsIn &in) {
    in.nt = c.nat(); in.ctor = c.nat(); in.B = c.nat(); in.act = c.nat(); in.edd = c.rat(); in.eps = c.rat(); in.W = c.vec();
    if (in.nt < 1 || in.nt > 64 || in.ctor < 0 || in.ctor > 1 || !is_f64(in.edd) || !is_f64(in.eps)) throw bad_input("hdr");
    for (auto &w : in.W) if (!is_f64(w)) throw bad_input("weights");
}
static void parse_tail(Cur &c, DrsIn &in) { in.skind = c.nat(); in.Sm = parse_dense(c); in.Pm = parse_dense(c); in.f = c.vec(); if (in.skind < 0 || in.skind > 1) throw bad_input("skind"); }
static void common_tags(Result &r, const DrsIn &in, long n) {
    r.tag("B" + std::to_string(in.B)); if (in.act && in.act < n) r.tag("active_rows"); r.tag(in.skind ? "S_jacobi" : "S_dense");
    r.tag("nt" + std::to_string(in.nt)); r.tag(in.ctor ? "ctor_copy_sort" : "ctor_shared_ptr");
}

static Result exec_scalar(Cur &c, bool with_upd) {
    Result r; DrsIn in; parse_hdr(c, in); Mat K = c.mat(); parse_tail(c, in);
    bool upd = false; Mat K2;
    if (with_upd) { long u = c.nat(); if (u < 0 || u > 1) throw bad_input("upd"); upd = u; K2 = c.mat(); }
    c.expect_end();
    std::string why; long n = K.n, N = in.act ? in.act : n;
    if (!crs_wf(*K.crs(), why) || K.n != K.m || !(in.ctor == 0 ? crs_sorted_nodup(*K.crs()) : crs_nodup(*K.crs())) || in.B < 1 || in.act < 0 || N > n || N % in.B != 0 || (long)in.f.size() != n ||
        !(in.skind == 1 || (in.Sm.r == n && in.Sm.c == n)) || in.Pm.r != N / in.B || in.Pm.c != N / in.B) throw bad_input("shape");
    if (with_upd && (!crs_wf(*K2.crs(), why) || K2.n != K2.m || !crs_nodup(*K2.crs()) || K2.n != n)) throw bad_input("shape2");
    if (!crs_sorted_nodup(*K.crs())) r.tag("unsorted_input");
    Mat Ks = mat_sorted(K); DM Kd = ddense(Ks);
    DrsOut o = run_scalar(K, in, with_upd, upd, with_upd ? &K2 : nullptr);
    bool wbad = !in.W.empty() && (long)in.W.size() != N;
    if (o.precond) { r.out = "precondition"; r.tag("drs_precondition"); if (!wbad) r.fail("constructor threw although weights.size() matches"); return r; }
    if (wbad) r.fail("constructor accepted weights of the wrong size");
    drs_oracles(r, Ks, Kd, in, N, n, o, "");
    Line l;
    if (!with_upd) put_state(l, o) << "x" << o.x;
    else {
        l << "x0" << o.x0 << "Fpp" << *o.Fpp2 << "x" << o.x;
        Mat K2s = mat_sorted(K2); if (!crs_sorted_nodup(*K2.crs())) r.tag("upd_unsorted_input");
        if (mat_same(Ks, K2s)) { r.tag("upd_same_matrix"); if (!veq(o.x, o.x0)) r.fail("partial_update with an unchanged matrix changed the action"); if ((Line() << *o.Fpp2).get() != (Line() << *o.Fpp).get()) r.fail("partial_update with an unchanged matrix changed Fpp"); }
        else { r.tag("upd_new_matrix"); upd_oracle(r, ddense(K2s), in, N, n, upd, o); }
        r.tag(upd ? "upd_transfer" : "upd_keep_transfer");
    }
    r.out = l.get();
    r.nontrivial = N / in.B >= 2 && in.B >= 2 && K.col.size() > (size_t)n;
    r.tag("drs_scalar"); common_tags(r, in, n);
    return r;
}

static Result exec_block(Cur &c, bool with_upd) {
    Result r; DrsIn in; parse_hdr(c, in); if (in.B < 1 || in.B > 4) throw bad_input("B");
    BlkMat K = parse_blk(c, in.B); parse_tail(c, in);
    bool upd = false; BlkMat K2;
    if (with_upd) { long u = c.nat(); if (u < 0 || u > 1) throw bad_input("upd"); upd = u; K2 = parse_blk(c, in.B); }
    c.expect_end();
    long B = in.B, n = K.n, N = in.act ? in.act : n;
    if (B < 2 || !(in.ctor == 0 ? blk_ok(K) : blk_nodup(K)) || in.act < 0 || N > n || (long)in.f.size() != n * B || !(in.skind == 1 || (in.Sm.r == n * B && in.Sm.c == n * B)) || in.Pm.r != N || in.Pm.c != N) throw bad_input("shape");
    if (with_upd && (!blk_nodup(K2) || K2.n != n)) throw bad_input("shape2");
    if (!blk_ok(K)) r.tag("unsorted_input");
    BlkMat Kb = blk_sorted(K); Mat Ks = expand(Kb); DM Kd = ddense(Ks);
    DrsOut o = run_block_any(K, in, with_upd, upd, with_upd ? &K2 : nullptr);
    bool wbad = !in.W.empty() && (long)in.W.size() != N * B;
    if (o.precond || o.precond2) { r.out = "precondition"; r.tag("drs_precondition"); if (!wbad) r.fail("precondition thrown although weights.size() matches"); return r; }
    if (wbad) r.fail("constructor accepted weights of the wrong size");
    bool couples = false; for (long i = 0; i < N; ++i) for (auto j = K.ptr[i]; j < K.ptr[i+1]; ++j) if (K.col[j] >= N) couples = true;
    if (couples) r.tag("block_active_coupling");
    drs_oracles(r, Ks, Kd, in, N * B, N * B, o, "");
    Line l;
    if (!with_upd) {
        // the scalar form on the expanded matrix with run-time block_size B: identical weights, App, Scatter rows, action
        DrsIn ins = in; ins.act = in.act * B; ins.ctor = 0;
        DrsOut os = run_scalar(Ks, ins);
        bool eq = !os.precond && os.np == o.np && (Line() << *os.App).get() == (Line() << *o.App).get() && os.appptr == o.appptr && veq(os.x, o.x) && os.Scatter->ncols == o.Scatter->ncols && os.Fpp->nrows == o.Fpp->nrows;
        auto row = [&](const Crs &S, size_t i) { std::vector<std::pair<long,std::string>> v; if (i < S.nrows) for (auto j = S.ptr[i]; j < S.ptr[i+1]; ++j) v.push_back({(long)S.col[j], S.val[j].str()}); return v; };
        for (size_t i = 0; eq && i < std::max(os.Scatter->nrows, o.Scatter->nrows); ++i) if (row(*os.Scatter, i) != row(*o.Scatter, i)) eq = false;
        for (size_t i = 0; eq && i < o.Fpp->nrows; ++i) if (row(*os.Fpp, i) != row(*o.Fpp, i)) eq = false;
        if (!eq) r.fail("block input and scalar input with block_size b differ");
        put_state(l, o) << "x" << o.x << "eq" << eq;
    } else {
        l << "x0" << o.x0 << "Fpp" << *o.Fpp2 << "x" << o.x;
        BlkMat K2s = blk_sorted(K2); if (!blk_ok(K2)) r.tag("upd_unsorted_input");
        Mat K2x = expand(K2s);
        if (mat_same(Ks, K2x)) { r.tag("upd_same_matrix"); if (!veq(o.x, o.x0)) r.fail("partial_update with an unchanged matrix changed the action"); if ((Line() << *o.Fpp2).get() != (Line() << *o.Fpp).get()) r.fail("partial_update with an unchanged matrix changed Fpp"); }
        else { r.tag("upd_new_matrix"); upd_oracle(r, ddense(K2x), in, N * B, N * B, upd, o); }
        r.tag(upd ? "upd_transfer" : "upd_keep_transfer");
    }
    r.out = l.get();
    r.nontrivial = N >= 2 && K.col.size() > (size_t)n;
    r.tag("drs_block"); common_tags(r, in, n);
    return r;
}

static Result execute(const Toks &t) {
    Cur c(t); const std::string &op = t[0];
    if (op == "cpr_drs") return exec_scalar(c, false);
    if (op == "cpr_drs_upd") return exec_scalar(c, true);
    if (op == "cpr_drsb") return exec_block(c, false);
    if (op == "cpr_drsb_upd") return exec_block(c, true);
    return Result("bad-op");
}

// ------------------------------------------------------------------------------------------------ generators
static DM rand_dense(Rng &rng, long r, long c) { DM M(r, c); for (long i = 0; i < r; ++i) for (long j = 0; j < c; ++j) M(i, j) = rng.coin(2, 3) ? rng.rat(4) : Q(0); return M; }

// thresholds: the defaults 0.2 / 0.02 (as the doubles they are), 0, dyadic values that make ties likely on the small
// rational data, large values that switch everything off, occasionally negative ones
static Q gen_eps(Rng &rng, bool dd) {
    int k = (int)rng.range(0, 11);
    switch (k) {
        case 0: return Q(dd ? 0.2 : 0.02);
        case 1: case 2: return Q(0);
        case 3: return Q::frac(1, 2);
        case 4: return Q::frac(1, 4);
        case 5: return Q(1);
        case 6: return Q(2);
        case 7: return Q::frac(3, 4);
        case 8: return Q::frac(1, 8);
        case 9: return Q(rng.range(3, 12));
        case 10: return Q::frac(rng.range(1, 31), 16);
        default: return Q::frac(-rng.range(1, 8), 4);
    }
}
static Q gen_weight(Rng &rng) { int k = (int)rng.range(0, 5); return k == 0 ? Q(0) : k == 1 ? Q(1) : k == 2 ? Q(0.1) : Q::frac(rng.range(-12, 12), 1L << rng.range(0, 3)); }

// scalar matrix with nb active block rows of size B (+ extra inactive rows); first-column entries (the ones the DRS
// criteria read) present / absent / zero / negative; afterwards some rows are adjusted to sit EXACTLY on a threshold
static Mat gen_drs_scalar(Rng &rng, long B, long nb, long extra, const Q &edd, const Q &eps) {
    long N = nb * B, n = N + extra; std::vector<std::map<long,Q>> r(n);
    int dens = (int)rng.range(30, 80);
    for (long ib = 0; ib < nb; ++ib) for (long jb = 0; jb < nb; ++jb) {
        if (ib != jb && !rng.coin(3, 5)) continue;
        for (long a = 0; a < B; ++a) for (long b = 0; b < B; ++b) {
            if (ib == jb && a == b) { if (!rng.coin(1, 8)) r[ib*B+a][jb*B+b] = rng.coin(1, 6) ? -abs(rng.rat_nz(5)) : abs(rng.rat_nz(5)) + Q(rng.range(0, 3)); else if (rng.coin()) r[ib*B+a][jb*B+b] = Q(0); continue; }
            if (rng.range(0, 99) < dens) r[ib*B+a][jb*B+b] = rng.coin(1, 10) ? Q(0) : rng.rat(4);
        }
    }
    for (long i = 0; i < n; ++i) for (long j = 0; j < n; ++j) if ((i >= N || j >= N) && rng.coin(1, 4)) r[i][j] = rng.rat_nz(3);
    for (long i = N; i < n; ++i) r[i][i] = Q(rng.range(3, 9));
    // ties: a_dia[i] == eps_dd * a_off[i]  resp.  a_top[i] == eps_ps * |a_dia[0]|
    for (long ib = 0; ib < nb; ++ib) for (long i = 1; i < B; ++i) {
        if (rng.coin(1, 4)) { Q off(0); for (long jb = 0; jb < nb; ++jb) if (jb != ib && r[ib*B+i].count(jb*B)) off += abs(r[ib*B+i][jb*B]); r[ib*B+i][ib*B] = edd * off; }
        if (rng.coin(1, 5)) {
            Q rest(0); for (long jb = 0; jb < nb; ++jb) if (jb != ib && r[ib*B].count(jb*B+i)) rest += abs(r[ib*B][jb*B+i]);
            Q d0 = r[ib*B].count(ib*B) ? abs(r[ib*B][ib*B]) : Q(0), want = eps * d0 - rest;
            if (want >= 0) r[ib*B][ib*B+i] = rng.coin() ? want : -want;
        }
    }
    std::vector<std::vector<std::pair<long,Q>>> rows(n);
    for (long i = 0; i < n; ++i) for (auto &cv : r[i]) rows[i].push_back({cv.first, cv.second});
    return from_rows(n, n, rows);
}
static BlkMat gen_drs_block(Rng &rng, long B, long nb, long extra, bool couple_inactive, const Q &edd, const Q &eps) {
    long n = nb + extra; std::vector<std::map<long,std::vector<Q>>> rb(n);
    for (long i = 0; i < n; ++i) for (long j = 0; j < n; ++j) {
        bool inact = i >= nb || j >= nb;
        bool present = (i == j) ? !rng.coin(1, 12) : (inact ? ((i >= nb || couple_inactive) && rng.coin(1, 3)) : rng.coin(1, 2));
        if (!present) continue;
        std::vector<Q> v(B * B); for (auto &x : v) x = rng.coin(3, 4) ? rng.rat(4) : Q(0);
        if (i == j) for (long a = 0; a < B; ++a) if (!rng.coin(1, 6)) v[a*B+a] = rng.coin(1, 6) ? -abs(rng.rat_nz(5)) : abs(rng.rat_nz(5)) + Q(rng.range(0, 3));
        rb[i][j] = v;
    }
    for (long ib = 0; ib < nb; ++ib) if (rb[ib].count(ib)) for (long i = 1; i < B; ++i) {
        if (rng.coin(1, 4)) { Q off(0); for (auto &cv : rb[ib]) if (cv.first != ib && cv.first < nb) off += abs(cv.second[i*B]); rb[ib][ib][i*B] = edd * off; }
        if (rng.coin(1, 5)) { Q rest(0); for (auto &cv : rb[ib]) if (cv.first != ib && cv.first < nb) rest += abs(cv.second[i]); Q want = eps * abs(rb[ib][ib][0]) - rest; if (want >= 0) rb[ib][ib][i] = rng.coin() ? want : -want; }
    }
    BlkMat M; M.B = B; M.n = M.m = n; M.ptr.push_back(0);
    for (long i = 0; i < n; ++i) { for (auto &cv : rb[i]) { M.col.push_back(cv.first); M.val.push_back(cv.second); } M.ptr.push_back((ptrdiff_t)M.col.size()); }
    return M;
}

static void gen_case(Rng &rng, const Opts &o, std::vector<std::string> &lines) {
    bool block = rng.coin(2, 5), upd = rng.coin(1, 3);
    long B = block ? rng.range(2, 4) : (rng.coin(1, 15) ? 1 : rng.range(2, 4));
    long nb = rng.range(1, o.thorough() ? 5 : 4), extra = rng.coin(1, 3) ? rng.range(1, 3) : 0;
    long skind = rng.coin(1, 3) ? 1 : 0, nt = rng.pick(std::vector<long>{1, 1, 1, 2, 3, 4}), ctor = rng.coin(1, 3) ? 1 : 0;
    Q edd = gen_eps(rng, true), eps = gen_eps(rng, false);
    if (rng.coin(1, 10)) edd = eps = Q(0);
    std::vector<Q> W; long wn = nb * B;
    if (rng.coin(1, 3)) { if (rng.coin(1, 20)) wn += rng.coin() ? 1 : -1; for (long i = 0; i < wn; ++i) W.push_back(gen_weight(rng)); }
    Line l;
    if (!block) {
        Mat K = gen_drs_scalar(rng, B, nb, extra, edd, eps); long n = K.n, N = nb * B;
        long act = extra ? N : (rng.coin() ? 0 : N);
        DM Sm = skind ? DM(0, 0) : rand_dense(rng, n, n), Pm = rand_dense(rng, nb, nb);
        if (rng.coin(1, 3) && (W.empty() || (long)W.size() == N)) {   // exact pressure solve: P = App^-1 (App read off a construction run)
            DrsIn in; in.nt = 1; in.ctor = 0; in.B = B; in.act = act; in.edd = edd; in.eps = eps; in.W = W; in.skind = 1; in.Pm = Pm; in.f = std::vector<Q>(n);
            DrsOut oo = run_scalar(K, in); DM Ai; if (!oo.precond && dinverse(ddense(*oo.App), Ai)) Pm = Ai;
        }
        Mat Kin = ctor ? unsort(rng, K, false) : K;
        l << (upd ? "cpr_drs_upd" : "cpr_drs") << nt << ctor << B << act << edd << eps << W << Kin << skind << Sm << Pm << gen_vec(rng, n);
        if (upd) {
            l << rng.coin();
            Mat K2 = K;
            if (rng.coin()) { Q e2 = gen_eps(rng, true); K2 = gen_drs_scalar(rng, B, nb, extra, e2, eps); if (rng.coin()) { K2 = K; for (auto &v : K2.val) if (rng.coin(1, 3)) v = rng.rat(4); } }
            if (rng.coin(1, 3)) K2 = unsort(rng, K2, false);
            l << K2;
        }
    } else {
        BlkMat K = gen_drs_block(rng, B, nb, extra, rng.coin(1, 4), edd, eps); long n = K.n;
        long act = extra ? nb : (rng.coin() ? 0 : nb);
        DM Sm = skind ? DM(0, 0) : rand_dense(rng, n * B, n * B), Pm = rand_dense(rng, nb, nb);
        BlkMat Kin = K; if (ctor) blk_shuffle(rng, Kin);
        l << (upd ? "cpr_drsb_upd" : "cpr_drsb") << nt << ctor << B << act << edd << eps << W << Kin << skind << Sm << Pm << gen_vec(rng, n * B);
        if (upd) {
            l << rng.coin();
            BlkMat K2 = K;
            if (rng.coin()) { if (rng.coin()) K2 = gen_drs_block(rng, B, nb, extra, rng.coin(1, 4), edd, eps); else for (auto &blk : K2.val) for (auto &x : blk) if (rng.coin(1, 3)) x = rng.rat(4); }
            if (rng.coin(1, 3)) blk_shuffle(rng, K2);
            l << K2;
        }
    }
    lines.push_back(l.get());
}

static void generate(Rng &rng, const Opts &o, std::vector<std::string> &lines) {
    long N = o.cases > 0 ? o.cases : (o.thorough() ? 12000 : 900);
    for (long k = 0; k < N; ++k) gen_case(rng, o, lines);
    // malformed stream: both sides must answer bad-input
    lines.push_back("cpr_drs 1 0 2 0 1/5 0 0 2 2 2 0 1 1 1 2 0 1 1 1 1 0 0 1 1 1 2 1 1");       // eps_dd = 1/5 is not a double
    lines.push_back("cpr_drs 1 0 2 0 0 0 1 1/3 2 2 2 0 1 1 1 2 0 1 1 1 1 0 0 1 1 1 2 1 1");     // weight 1/3 is not a double
    lines.push_back("cpr_drs 1 0 2 0 0 0 0 3 3 1 0 1 1 1 1 1 2 1 1 0 0 1 1 1 3 1 1 1");         // n not a multiple of block_size
    lines.push_back("cpr_drs 1 0 2 0 0 0 0 2 2 2 1 1 0 2 1 1 1 1 0 0 1 1 1 2 1 1");             // unsorted row with the shared_ptr constructor
    lines.push_back("cpr_drs 1 2 2 0 0 0 0 2 2 2 0 1 1 1 2 0 1 1 1 1 0 0 1 1 1 2 1 1");         // ctor = 2
    lines.push_back("cpr_drsb 1 0 5 0 0 0 0 0 0 1 0 0 0 0 0");                                   // block size 5
}

// Entry point.  The harness switches the OpenMP thread count per case (omp_set_num_threads(1..4)) on a machine shared with
// other jobs: libgomp's default ACTIVE wait policy lets the workers spin at the end of every (tiny) parallel region; with
// more runnable threads than cores a region then costs a scheduler time slice instead of microseconds (measured: 300 cases
// in 63 s instead of 3 s).  The policy is read when libgomp is loaded, so the process re-executes itself once with
// OMP_WAIT_POLICY=passive.  Results do not depend on the wait policy.
#include <unistd.h>
int main(int argc, char **argv) {
    if (!getenv("OMP_WAIT_POLICY")) { setenv("OMP_WAIT_POLICY", "passive", 1); setenv("GOMP_SPINCOUNT", "0", 1); execv("/proc/self/exe", argv); }
    return vh::harness_main(argc, argv, generate, execute);
}
