// C14 probes: params structs that may not compile when instantiated (DESIGN.md §4 #5 and the like).
//
// Compiled SEPARATELY by h_params at run time (never by vcheck.py's harness build step), one executable per struct
// (-DVP_PROBE_DEFLATED / -DVP_PROBE_ILUT): on a tree where `params::get` of the struct is ill-typed the translation
// unit does not compile and h_params reports `ill-typed` with the compiler's message.  When it compiles it executes
// ONE struct-level op (argv[1]) on the real struct and prints three lines: result, oracle verdict, meta.
#include "params_common.hpp"
#include <amgcl/backend/builtin.hpp>
#if defined(VP_PROBE_DEFLATED)
#include <amgcl/make_solver.hpp>
#include <amgcl/deflated_solver.hpp>
#include <amgcl/amg.hpp>
#include <amgcl/coarsening/smoothed_aggregation.hpp>
#include <amgcl/relaxation/spai0.hpp>
#include <amgcl/solver/cg.hpp>
#elif defined(VP_PROBE_ILUT)
#include <amgcl/relaxation/ilut.hpp>
#else
#error "select a probe"
#endif

int main(int argc, char **argv) {
    typedef amgcl::backend::builtin<double> B;
#if defined(VP_PROBE_DEFLATED)
    typedef amgcl::amg<B, amgcl::coarsening::smoothed_aggregation, amgcl::relaxation::spai0> AMG;
    typedef amgcl::deflated_solver<AMG, amgcl::solver::cg<B>>::params P;
    auto &S = vp::reg<P>("deflated_solver");
    VP_F(S, P, nvec); VP_F(S, P, vec); VP_F(S, P, precond); VP_F(S, P, solver);
#elif defined(VP_PROBE_ILUT)
    typedef amgcl::relaxation::ilut<B>::params P;
    auto &S = vp::reg<P>("relaxation::ilut");
    VP_F(S, P, p); VP_F(S, P, tau); VP_F(S, P, damping); VP_F(S, P, solve);
#endif
    if (argc != 2) return 2;
    vh::Toks t = vh::split(argv[1]);
    vh::Result r;
    try {
        if (t.empty() || !vp::struct_op(t, r)) throw vh::bad_input("op");
    } catch (const vh::bad_input&) { r = vh::Result("bad-input"); }
    std::cout << r.out << "\n" << (r.ok ? std::string("ok") : "FAIL " + r.why) << "\n" << (r.nontrivial ? 1 : 0);
    for (auto &g : r.tags) std::cout << ' ' << g;
    std::cout << "\n";
    return 0;
}
