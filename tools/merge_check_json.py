#!/usr/bin/env python3
"""three-way merge of a tools/checks/Cxx.json that git left in conflict:  merge_check_json.py tools/checks/C06.json
lists (modules, harnesses, assumptions, open items) are merged as unions (ours first, then what theirs added, minus what
theirs removed from the base); strings changed on both sides keep ours and append the text theirs appended to the base
(or theirs in full after ' || ' when theirs rewrote the base)."""
import sys, json, subprocess
def ver(n, p):
    try: return json.loads(subprocess.check_output(["git", "show", ":%d:%s" % (n, p)]))
    except Exception: return None
def key(x): return x.get("name", json.dumps(x, sort_keys=True)) if isinstance(x, dict) else json.dumps(x, sort_keys=True)
def merge(b, o, t):
    if o == t: return o
    if b == o: return t
    if b == t: return o
    if isinstance(o, dict) and isinstance(t, dict):
        b = b if isinstance(b, dict) else {}
        r = {}
        for k in list(o.keys()) + [k for k in t.keys() if k not in o]:
            if k in o and k in t: r[k] = merge(b.get(k), o[k], t[k])
            elif k in o: 
                if k in b and b[k] == o[k]: continue      # theirs deleted, ours untouched
                r[k] = o[k]
            else:
                if k in b and b[k] == t[k]: continue
                r[k] = t[k]
        return r
    if isinstance(o, list) and isinstance(t, list):
        b = b if isinstance(b, list) else []
        bk = {key(x) for x in b}; tk = {key(x): x for x in t}; ok = {key(x) for x in o}
        r = []
        for x in o:
            k = key(x)
            if k in bk and k not in tk and not (isinstance(x, dict) and "name" in x): continue   # theirs removed / rewrote it
            if isinstance(x, dict) and "name" in x and k in tk: x = merge(next((y for y in b if key(y) == k), None), x, tk[k])
            r.append(x)
        for x in t:
            if key(x) not in ok and key(x) not in bk: r.append(x)
        return r
    if isinstance(o, str) and isinstance(t, str):
        if isinstance(b, str) and t.startswith(b): return o + t[len(b):]
        if isinstance(b, str) and o.startswith(b): return t + o[len(b):]
        return o + " || " + t
    return o
p = sys.argv[1]
b, o, t = ver(1, p), ver(2, p), ver(3, p)
json.dump(merge(b, o, t), open(p, "w"), indent=1, ensure_ascii=False)
print("merged", p)
