#!/usr/bin/env python3
"""Run checks against a BEHAVIOUR-PRESERVING change of the library (false-alarm measurement):
   tools/benign_eval.py benign/<id> [--checks C01,C05] [--tier quick] [--seed 1]
The patch is applied to a scratch worktree of /repo's HEAD (never to /repo itself); the checks of every property that
anchors a touched file run with AMGCL_REPO pointing at it.  Expected: every check exits 0.  Prints SILENT / ALARM."""
import sys, os, json, subprocess, argparse, re
V = os.path.dirname(os.path.dirname(os.path.abspath(__file__)))
ap = argparse.ArgumentParser()
ap.add_argument("dir"); ap.add_argument("--checks"); ap.add_argument("--tier", default="quick"); ap.add_argument("--seed", default="1")
a = ap.parse_args()
d = os.path.abspath(a.dir)
patch = open(os.path.join(d, "patch.diff")).read()
files = sorted(set(re.findall(r"^\+\+\+ b/(\S+)", patch, flags=re.M)))
if a.checks: checks = a.checks.split(",")
else:
    checks = []
    for l in open(os.path.join(V, "properties.jsonl")):
        p = json.loads(l)
        if set(p["anchors"].get("files", [])) & set(files): checks.append(p["id"])
wt = "/work/benign-eval-%d" % os.getpid()
subprocess.check_call(["git", "-C", "/repo", "worktree", "add", "-q", "--detach", wt, "HEAD"])
try:
    r = subprocess.run(["git", "-C", wt, "apply", os.path.join(d, "patch.diff")], capture_output=True, text=True)
    if r.returncode != 0:
        print("PATCH-DOES-NOT-APPLY", r.stderr[-300:]); sys.exit(2)
    env = dict(os.environ); env["AMGCL_REPO"] = wt; env["VERIF_EVIDENCE_DIR"] = os.path.join(V, ".cache", "benign_evidence")
    res = {"files": files}
    for c in checks:
        p = subprocess.run([sys.executable, os.path.join(V, "tools", "vcheck.py"), "check", c, "--tier", a.tier, "--seed", a.seed],
                           capture_output=True, text=True, env=env, cwd=V)
        viol = [l for l in p.stdout.split("\n") if l.startswith("VIOLATION")]
        why = [l for l in p.stdout.split("\n") if l.startswith("# ")][:3]
        res[c] = {"rc": p.returncode, "violations": viol[:3], "why": why, "summary": [l for l in p.stdout.split("\n") if l.startswith("[")][-1:]}
        print("%s %s: %s %s" % ("ALARM" if p.returncode != 0 else "SILENT", c, viol[0] if viol else "", why[0] if why else ""), flush=True)
    json.dump(res, open(os.path.join(d, "eval_%s_seed%s.json" % (a.tier, a.seed)), "w"), indent=1)
finally:
    subprocess.call(["git", "-C", "/repo", "worktree", "remove", "--force", wt])
