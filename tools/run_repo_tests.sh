#!/bin/bash
# Build and run the repository's own test suite (guard OFF) on a scratch worktree of /repo's HEAD (or the given ref).
# usage: tools/run_repo_tests.sh [ref] ; result summary on stdout; scratch dir removed afterwards
set -u
REF=${1:-HEAD}
D=/work/repo-test-$$
git -C /repo worktree add -q --detach $D $REF || exit 2
cmake -G Ninja -S $D -B $D/_vbuild -DAMGCL_BUILD_TESTS=ON -DCMAKE_BUILD_TYPE=RelWithDebInfo -DCMAKE_CXX_FLAGS=-Wno-error > $D/cmake.log 2>&1 || { tail -20 $D/cmake.log; git -C /repo worktree remove --force $D; exit 2; }
cmake --build $D/_vbuild -j 16 > $D/build.log 2>&1 || { tail -40 $D/build.log; git -C /repo worktree remove --force $D; exit 2; }
OMP_NUM_THREADS=${TEST_OMP:-4} ctest --test-dir $D/_vbuild -j${TEST_J:-4} --timeout ${TEST_TIMEOUT:-900} 2>&1 | tail -30
rc=${PIPESTATUS[0]}
git -C /repo worktree remove --force $D
exit $rc
