#!/usr/bin/env python3
"""alloc_sites.py — translator for C10 (DESIGN.md §2.4): the table of heap allocations whose content is left
UNINITIALISED by the allocating expression, regenerated from $AMGCL_REPO (default /repo) on every run.

Scanned: every amgcl/**/*.hpp except the GPU / third-party-container backends (OUT_OF_SCOPE below; they are listed in
the generated file as out of scope).  Recognised allocation forms (builtin.hpp decides which overloads initialise):

  numa_vector<T> x(n, false) / make_shared<numa_vector<T>>(n, false) / x.resize(n, false)     cells unwritten
  A.set_size(n, m) / A.set_size(n, m, false)                     ptr[0..n] unwritten   (set_size(n, m, true): zeroed)
  A.set_nonzeros(k) / A.set_nonzeros(k, true)                    col[0..k), val[0..k) unwritten
  A.set_nonzeros(k, false)                                       col[0..k) unwritten, val not allocated
  A.set_nonzeros()                                               zero-filled: not a site
  new T[n]            (no `()` / `{}` behind the bracket)        cells unwritten       (`new T[n]()`: value-initialised)
  malloc / realloc / aligned_alloc / posix_memalign / alloca     unwritten
  v.reserve(k) + a raw access (v[..], v.data(), &v[0]) in the same function and NO growth call
  (push_back/resize/assign/insert) of v there                                                capacity cells unwritten
  (limitation: a raw write into reserved capacity in a function that ALSO grows the vector is not recognised — textual
  order is not execution order inside loops; such code is a container-bounds error, the sanitizers' domain)
  (v.reserve(k) + push_back/emplace_back only; std::vector<T> v(n), resize(n) of a std::vector: value-initialised, no site)

A site is keyed by  <file>|<enclosing struct::function>|<array>[#k]  (k = ordinal of the k-th site with the same key in
the same function, from 2) — NOT by line number, so edits that only move code do not change the table.

Outputs
  lean/Amgcl/Generated/AllocSites.lean   the table as data + `theorem alloc_sites_covered : ∀ s ∈ sites, s.key ∈ coveredKeys`
                                         + `theorem cover_theorems_exist` (every theorem named in Model/AllocCover.lean exists)
  harness/alloc_sites_gen.hpp            (file, first line, last line, key) of every site, for the allocation tracker
  .cache/alloc_sites.json                the same table for tools/alloc_cover.py (post-check: exercised / uncovered sites)

Anything that looks like an allocation and cannot be classified is a loud failure: exit status 1 AND a generated Lean
file whose obligation cannot be discharged (so a stale file can never stand in).
"""
import os, re, sys, json

REPO = os.environ.get("AMGCL_REPO", "/repo")
VERIF = os.path.dirname(os.path.dirname(os.path.abspath(__file__)))
OUT_LEAN = os.path.join(VERIF, "lean", "Amgcl", "Generated", "AllocSites.lean")
OUT_HPP = os.path.join(VERIF, "harness", "alloc_sites_gen.hpp")
OUT_JSON = os.path.join(VERIF, ".cache", "alloc_sites.json")
COVER = os.path.join(VERIF, "lean", "Amgcl", "Model", "AllocCover.lean")

# files outside the scope of the table, with the reason (listed in the generated file and in the evidence)
GPU = "device / third-party-container backend: its allocations are not `operator new`"
EXT = "wrapper of an external partitioning library that is not installed here: can be neither compiled nor run"
NOH = ("distributed composite preconditioner that no harness of the framework instantiates (outside the 20 properties); "
       "the serial counterpart under amgcl/preconditioner/ is in scope")
OUT_OF_SCOPE = {
    "amgcl/backend/cuda.hpp": GPU, "amgcl/backend/vexcl.hpp": GPU, "amgcl/backend/vexcl_static_matrix.hpp": GPU,
    "amgcl/backend/viennacl.hpp": GPU, "amgcl/backend/hpx.hpp": GPU, "amgcl/backend/blaze.hpp": GPU,
    "amgcl/backend/mkl.hpp": GPU, "amgcl/relaxation/cusparse_ilu0.hpp": GPU,
    "amgcl/mpi/partition/parmetis.hpp": EXT, "amgcl/mpi/partition/ptscotch.hpp": EXT,
    "amgcl/mpi/cpr.hpp": NOH, "amgcl/mpi/schur_pressure_correction.hpp": NOH, "amgcl/mpi/subdomain_deflation.hpp": NOH,
}
# single sites excluded, with the reason: branches of in-scope files that no harness of the framework reaches
BR = "branch of the distributed PMIS coarsening (%s) that no harness of the framework instantiates"
EXCLUDED_SITES = {
    "amgcl/mpi/coarsening/pmis.hpp|pmis::tentative_prolongation|P_loc.col+val": BR % "near-null-space vectors",
    "amgcl/mpi/coarsening/pmis.hpp|pmis::tentative_prolongation|P_rem.col+val": BR % "near-null-space vectors",
    "amgcl/mpi/coarsening/pmis.hpp|pmis::expand_conn|C.val": BR % "block_size > 1",
    "amgcl/mpi/coarsening/pmis.hpp|pmis::expand_conn|C.col": BR % "block_size > 1",
}

# callees that take a trailing literal `false` and are NOT allocations (a trailing `false` on anything else that is not
# recognised as one of the allocation forms above is reported as unparsed)
KNOWN_BOOL_CALLEES = {
    "remote_rows", "product", "transpose", "sum", "spgemm_saad", "get", "put", "precondition", "move_to_backend",
    "apply", "rigid_body_modes", "create_device_vector", "init", "do_init", "sort_rows", "diagonal", "assert",
    "set_bool", "compare_exchange_strong", "compare_exchange_weak", "first_scalar_pass", "serial_sweep",
}


class ParseError(Exception):
    pass


# --------------------------------------------------------------------------------------------- lexical preparation
def blank(src):
    """comments, string/char literals and preprocessor lines replaced by blanks (same length, same line structure)"""
    out = list(src)
    i, n = 0, len(src)

    def wipe(a, b):
        for k in range(a, b):
            if out[k] != "\n": out[k] = " "
    bol = True
    while i < n:
        c = src[i]
        if src.startswith("//", i):
            j = src.find("\n", i); j = n if j < 0 else j
            wipe(i, j); i = j; continue
        if src.startswith("/*", i):
            j = src.find("*/", i + 2)
            if j < 0: raise ParseError("unterminated comment")
            wipe(i, j + 2); i = j + 2; continue
        if c == '"' or c == "'":
            # digit separators (1'000) do not occur in amgcl; a quote after an identifier char is treated as a literal start too
            j = i + 1
            while j < n and src[j] != c:
                if src[j] == "\\": j += 1
                if src[j] == "\n" and c == "'": break
                j += 1
            if j >= n: raise ParseError("unterminated literal")
            wipe(i + 1, j); i = j + 1; bol = False; continue
        if c == "#" and bol:
            j = i
            while True:
                k = src.find("\n", j); k = n if k < 0 else k
                if k > 0 and src[k - 1] == "\\" and k < n: j = k + 1; continue
                break
            wipe(i, k); i = k; continue
        if c == "\n": bol = True
        elif not c.isspace(): bol = False
        i += 1
    return "".join(out)


def match_close(s, i):
    op = s[i]; cl = {"(": ")", "[": "]", "{": "}", "<": ">"}[op]
    depth = 0
    for k in range(i, len(s)):
        if s[k] == op: depth += 1
        elif s[k] == cl:
            depth -= 1
            if depth == 0: return k
    raise ParseError("unbalanced %s at offset %d" % (op, i))


def split_args(s):
    """top-level comma split of the text between a pair of parentheses"""
    args, depth, cur = [], 0, []
    for ch in s:
        if ch in "([{": depth += 1
        elif ch in ")]}": depth -= 1
        if ch == "," and depth == 0:
            args.append("".join(cur).strip()); cur = []
        else: cur.append(ch)
    last = "".join(cur).strip()
    if last or args: args.append(last)
    return args


def norm(s):
    s = re.sub(r"\s+", " ", s).strip()
    return re.sub(r"(?<![A-Za-z0-9_]) | (?![A-Za-z0-9_])", "", s)


# --------------------------------------------------------------------------------------------- scopes
CONTROL = {"for", "if", "while", "switch", "catch", "else", "do", "try", "return", "sizeof", "decltype", "alignof"}


def scopes_of(s):
    """list of (start_of_header, open_brace, close_brace, kind, name), kind in type|func|ns|block"""
    res = []
    stack = []            # (open_brace, header_start, kind, name)
    stmt_start, pdepth = 0, 0
    for i, ch in enumerate(s):
        if ch == "(" or ch == "[": pdepth += 1
        elif ch == ")" or ch == "]": pdepth -= 1
        elif ch == ";" and pdepth == 0: stmt_start = i + 1
        elif ch == "{":
            header = s[stmt_start:i]
            kind, name = classify_header(header)
            stack.append((i, stmt_start, kind, name, pdepth))
            stmt_start, pdepth = i + 1, 0
        elif ch == "}":
            if not stack: raise ParseError("unbalanced }")
            ob, hs, kind, name, pd = stack.pop()
            res.append((hs, ob, i, kind, name))
            stmt_start, pdepth = i + 1, pd
    if stack: raise ParseError("unbalanced {")
    return res


def classify_header(h):
    t = h.strip()
    # access specifiers / labels left over in front of the header
    t = re.sub(r"^(?:(?:public|private|protected)\s*:\s*)+", "", t)
    while True:                                       # leading `template < ... >` groups
        mt = re.match(r"template\s*<", t)
        if not mt: break
        try: t = t[match_close(t, mt.end() - 1) + 1:].lstrip()
        except ParseError: break
    if not t: return "block", ""
    m = re.match(r"(?:inline\s+)?namespace\b\s*(\w*)", t)
    if m: return "ns", m.group(1)
    if re.match(r"(?:typedef\s+)?enum\b", t): return "block", ""
    # function-like: an identifier (or operator) in front of the first top-level parenthesis
    p = first_top_paren(t)
    m = re.search(r"\b(struct|class|union)\s+(?:alignas\s*\([^)]*\)\s*)?(\w+)", t)
    if m and (p < 0 or m.start() < p) and not t.rstrip().endswith(")") and not re.search(r"\)\s*(const)?\s*$", t):
        # template <class T> struct X<...> : base<...>
        return "type", m.group(2)
    if p >= 0:
        head = t[:p].rstrip()
        if re.search(r"\boperator$", head): return "func", "operator()"
        mo = re.search(r"(operator\s*(?:\(\s*\)|\[\s*\]|[^\s\w(]+|\w+))\s*$", head)
        if mo: return "func", re.sub(r"\s+", "", mo.group(1))
        mi = re.search(r"(~?\w+)\s*(?:<[^<>]*(?:<[^<>]*>[^<>]*)*>)?\s*$", head)
        if mi:
            nm = mi.group(1)
            if nm in CONTROL: return "block", ""
            return "func", nm
        return "block", ""        # lambda `[&](...)`, cast, ...
    return "block", ""


def first_top_paren(t):
    depth = 0
    for i, ch in enumerate(t):
        if ch == "<": depth += 1
        elif ch == ">": depth = max(0, depth - 1)
        elif ch == "(" and depth == 0: return i
        elif ch == "(":
            # `<` used as less-than in an expression: fall back to the first parenthesis
            return t.index("(")
    return -1


def enclosing(scopes, pos):
    """(type-qualified function name) of the innermost function whose header or body contains pos"""
    inside = [sc for sc in scopes if sc[0] <= pos <= sc[2]]
    inside.sort(key=lambda sc: sc[0])
    types = [sc[4] for sc in inside if sc[3] == "type"]
    funcs = [sc[4] for sc in inside if sc[3] == "func"]
    q = "::".join(types[-2:] + funcs[-1:])
    return q or "<file scope>"


# --------------------------------------------------------------------------------------------- site recognition
def line_of(s, pos): return s.count("\n", 0, pos) + 1


def stmt_bounds(s, pos):
    """[start, end) of the simple statement containing pos (delimited by ; { } at parenthesis depth 0)"""
    a = pos
    depth = 0
    while a > 0:
        ch = s[a - 1]
        if ch in ")]": depth += 1
        elif ch in "([":
            if depth == 0: break          # pos is inside a parenthesised group (for-header / ctor-init-list argument)
            depth -= 1
        elif ch in ";{}" and depth == 0: break
        a -= 1
    b, depth = pos, 0
    while b < len(s):
        ch = s[b]
        if ch in "([": depth += 1
        elif ch in ")]":
            if depth == 0: break
            depth -= 1
        elif ch in ";{}" and depth == 0: break
        b += 1
    return a, b


def obj_before(s, pos):
    """text of the object expression in front of `.name(` / `->name(` ending at pos (pos = index of '.' or '-')"""
    j = pos
    depth = 0
    while j > 0:
        ch = s[j - 1]
        if ch in ")]": depth += 1; j -= 1; continue
        if ch in "([":
            if depth == 0: break
            depth -= 1; j -= 1; continue
        if depth > 0 or ch.isalnum() or ch in "_.:*" or (ch == ">" and j > 1 and s[j - 2] == "-") or (ch == "-" and s[j] == ">"):
            j -= 1; continue
        break
    return norm(s[j:pos]).lstrip("*")


def trailing_template(head):
    """head = `… NAME<ARGS>` (ignoring trailing blanks): returns (NAME, ARGS), else None"""
    h = head.rstrip()
    if not h.endswith(">") or h.endswith("->"): return None
    depth, lt = 0, None
    for k in range(len(h) - 1, -1, -1):
        if h[k] == ">" and not (k > 0 and h[k - 1] == "-"): depth += 1
        elif h[k] == "<":
            depth -= 1
            if depth == 0: lt = k; break
    if lt is None: return None
    nm = re.search(r"([\w:]+)\s*$", h[:lt])
    return (nm.group(1), h[lt + 1:-1]) if nm else None


def scan_file(rel, src):
    s = blank(src)
    scopes = scopes_of(s)
    sites, notes, problems, capacity = [], [], [], []

    def add(pos, end, array, kind, detail=""):
        sites.append({"file": rel, "func": enclosing(scopes, pos), "line": line_of(s, pos), "line_end": line_of(s, end),
                      "array": array.replace("->", "."), "kind": kind, "detail": detail})

    def problem(pos, msg):
        problems.append("%s:%d: %s: `%s`" % (rel, line_of(s, pos), msg, norm(s[stmt_bounds(s, pos)[0]:stmt_bounds(s, pos)[1]])[:160]))

    # ---- new-expressions ------------------------------------------------------------------------------------
    for m in re.finditer(r"\bnew\b", s):
        i = m.end()
        while i < len(s) and s[i].isspace(): i += 1
        if s[i] == "(":                                   # placement arguments
            i = match_close(s, i) + 1
        j = i
        # type: identifiers, ::, <...>, *, &, whitespace, `typename`, `const`
        while j < len(s):
            if s[j] == "<": j = match_close(s, j) + 1; continue
            if s[j].isalnum() or s[j] in "_:*& \n\t": j += 1; continue
            break
        ty = norm(s[i:j])
        if not ty: problem(m.start(), "new-expression without a recognisable type"); continue
        if s[j] == "[":
            k = match_close(s, j)
            e = k + 1
            while e < len(s) and s[e] == "[": e = match_close(s, e) + 1
            t = e
            while t < len(s) and s[t].isspace(): t += 1
            if s[t] in "({":
                notes.append("%s:%d new %s[...] value-initialised" % (rel, line_of(s, m.start()), ty)); continue
            # name of the pointer that receives the array: `p = new`, `p(new ...)` (member initialiser / constructor call)
            head = s[max(0, m.start() - 200):m.start()]
            mm = re.search(r"([\w.\->\[\]]+)\s*=\s*$", head) or re.search(r"(\w+)\s*\(\s*$", head)
            if not mm: problem(m.start(), "array new whose destination cannot be named"); continue
            add(m.start(), e, norm(mm.group(1)), "new[]", "%s[%s]" % (ty, norm(s[j + 1:k])))
        elif s[j] in "({":
            continue                                      # single object, constructor / value-initialisation runs
        else:
            problem(m.start(), "single-object new without initialiser (indeterminate value for scalar types)")

    # ---- crs::set_size / set_nonzeros -----------------------------------------------------------------------
    for m in re.finditer(r"\b(set_size|set_nonzeros)\s*\(", s):
        op = m.end() - 1; cl = match_close(s, op)
        args = split_args(s[op + 1:cl])
        before = s[:m.start()].rstrip()
        if before.endswith("void"): continue             # the definition in backend/builtin.hpp
        if before.endswith("->") or before.endswith("."):
            dot = len(before) - (2 if before.endswith("->") else 1)
            obj = obj_before(s, dot)
        elif enclosing(scopes, m.start()).startswith("crs::"):
            obj = "this"                                  # crs::set_nonzeros() calling set_nonzeros(n)
        else:
            problem(m.start(), "%s call without object" % m.group(1)); continue
        if not obj: problem(m.start(), "%s call whose object cannot be named" % m.group(1)); continue
        if m.group(1) == "set_size":
            if len(args) == 2: add(m.start(), cl, obj + ".ptr", "set_size", "clean_ptr defaulted to false")
            elif len(args) == 3 and args[2] == "true": notes.append("%s:%d %s.set_size(..., true) zero-filled" % (rel, line_of(s, m.start()), obj))
            elif len(args) == 3 and args[2] == "false": add(m.start(), cl, obj + ".ptr", "set_size", "clean_ptr = false")
            elif len(args) == 3: add(m.start(), cl, obj + ".ptr", "set_size", "clean_ptr = %s (not a literal: treated as false)" % norm(args[2]))
            else: problem(m.start(), "set_size with %d arguments" % len(args))
        else:
            if len(args) == 0: notes.append("%s:%d %s.set_nonzeros() zero-filled" % (rel, line_of(s, m.start()), obj))
            elif len(args) == 1: add(m.start(), cl, obj + ".col+val", "set_nonzeros", "need_values defaulted to true")
            elif len(args) == 2 and args[1] == "true": add(m.start(), cl, obj + ".col+val", "set_nonzeros", "need_values = true")
            elif len(args) == 2 and args[1] == "false": add(m.start(), cl, obj + ".col", "set_nonzeros", "need_values = false")
            elif len(args) == 2: add(m.start(), cl, obj + ".col+val", "set_nonzeros", "need_values = %s (not a literal: val treated as allocated)" % norm(args[1]))
            else: problem(m.start(), "set_nonzeros with %d arguments" % len(args))

    # ---- C allocation functions ------------------------------------------------------------------------------
    for m in re.finditer(r"\b(malloc|realloc|aligned_alloc|posix_memalign|alloca|valloc|memalign)\s*\(", s):
        head = s[max(0, m.start() - 200):m.start()]
        mm = re.search(r"([\w.\->\[\]]+)\s*=\s*(?:\([^()]*\)\s*)?(?:std::)?$", head)
        add(m.start(), match_close(s, m.end() - 1), norm(mm.group(1)) if mm else m.group(1), m.group(1))

    # ---- (…, false): numa_vector constructions and resize ----------------------------------------------------
    handled = set()
    for m in re.finditer(r",\s*false\s*\)", s):
        cl = m.end() - 1
        # opening parenthesis of this group
        depth, op = 0, None
        for k in range(cl, -1, -1):
            if s[k] in ")]}": depth += 1
            elif s[k] in "([{":
                depth -= 1
                if depth == 0: op = k; break
        if op is None or s[op] != "(": problem(m.start(), "trailing `false` in an unbalanced group"); continue
        args = split_args(s[op + 1:cl])
        head = s[max(0, op - 400):op]
        hn = norm(head)
        callee = re.search(r"([\w:~]+)\s*(?:<[^;{}]*>)?\s*$", head.rstrip())
        cname = callee.group(1).split("::")[-1] if callee else ""
        if cname in ("set_size", "set_nonzeros"): continue
        a, b = stmt_bounds(s, op)
        stmt = s[a:b]
        # make_shared< ... numa_vector<T> ... >(n, false)
        tt = trailing_template(head)
        if tt and tt[0].split("::")[-1] in ("make_shared", "make_unique", "allocate_shared"):
            targ = tt[1]
            if "numa_vector" in targ:
                if len(args) != 2: problem(op, "make_shared<numa_vector>(…) with %d arguments" % len(args)); continue
                full = s[a:op]
                mm = re.search(r"([\w.\->\[\]]+)\s*=\s*(?:std::)?make_shared\s*<[^;]*$", full) or \
                    re.search(r"(\w+)\s*\(\s*(?:std::)?make_shared\s*<[^;]*$", s[max(0, op - 400):op])
                if not mm: problem(op, "make_shared<numa_vector>(n, false) whose destination cannot be named"); continue
                add(op, cl, norm(mm.group(1)), "numa_vector(n,false)", norm(args[0])); continue
            problem(op, "make_shared<%s>(…, false): not a numa_vector — cannot decide whether this allocates uninitialised memory" % norm(targ)); continue
        if cname == "resize":
            m2 = re.search(r"(\.|->)\s*resize\s*$", s[max(0, op - 80):op])
            if not m2: problem(op, "resize(…, false) without object"); continue
            obj = obj_before(s, max(0, op - 80) + m2.start())
            base = re.sub(r"\[.*$", "", obj).split(".")[-1].split("->")[-1]
            decl = re.search(r"([\w:]+(?:\s*<[^;{}()]*>)?)\s*[&*]?\s*\b%s\b\s*[;,({=]" % re.escape(base), s)
            if decl and "numa_vector" in decl.group(1):
                add(op, cl, obj, "numa_vector.resize(n,false)", norm(args[0])); continue
            if decl and re.search(r"\bvector\s*<\s*(bool|char|int)", decl.group(1)):
                notes.append("%s:%d %s.resize(n, false) on %s: value `false`, initialised" % (rel, line_of(s, op), obj, norm(decl.group(1)))); continue
            problem(op, "resize(…, false) on an object of unknown type"); continue
        # declaration list:  numa_vector<T> a(n, false), b(n, false);
        md = re.match(r"\s*((?:const\s+)?(?:typename\s+)?[\w:]*numa_vector\s*<)", stmt)
        if md:
            lt = a + md.end() - 1
            gt = match_close(s, lt)
            decls = s[gt + 1:b]
            off = gt + 1
            found = False
            for dm in re.finditer(r"(\w+)\s*\(", decls):
                dop = off + dm.end() - 1; dcl = match_close(s, dop)
                dargs = split_args(s[dop + 1:dcl])
                if dop == op:
                    found = True
                    if len(dargs) != 2: problem(op, "numa_vector declarator with %d arguments" % len(dargs)); break
                    add(op, cl, dm.group(1), "numa_vector(n,false)", norm(dargs[0]))
            if not found: problem(op, "numa_vector declaration whose declarator cannot be matched")
            continue
        if re.search(r"numa_vector\s*<[^;{}]*>\s*$", head):     # temporary numa_vector<T>(n, false)
            add(op, cl, "<temporary>", "numa_vector(n,false)", norm(args[0])); continue
        if cname in KNOWN_BOOL_CALLEES: continue
        # a parameter list with a defaulted bool (`bool invert = false)`) or a comparison `x == false)`
        if re.search(r"=\s*false\s*\)$", norm(s[op:cl + 1])) and re.search(r"\bbool\s+\w+\s*=\s*false\s*\)$", s[op:cl + 1]): continue
        if re.search(r"\bbool\s+\w+\s*=\s*false\s*$", args[-1] if args else ""): continue
        if re.match(r"^[\w.]+\s*(\(|$)", args[-1]) and args[-1] != "false": continue
        # member initialiser lists `name(false)` have one argument and are not matched by `, false)`; anything left is unknown
        problem(op, "call with trailing literal `false` not recognised (allocation with init = false? add the callee to KNOWN_BOOL_CALLEES if not)")

    # any remaining mention of numa_vector construction with a non-literal init flag
    for m in re.finditer(r"numa_vector\s*<", s):
        gt = match_close(s, m.end() - 1)
        t = gt + 1
        while t < len(s) and s[t].isspace(): t += 1
        mm = re.match(r"(\w+)\s*\(", s[t:])
        if s[t] == "(": dop = t
        elif mm and mm.group(1) not in ("operator",): dop = t + mm.end() - 1
        else: continue
        dcl = match_close(s, dop)
        dargs = split_args(s[dop + 1:dcl])
        if len(dargs) == 2 and dargs[1] not in ("true", "false") and not re.search(r"\b(const|typename|class)\b|&", s[dop + 1:dcl]) \
                and enclosing(scopes, dop).split("::")[-1] not in ("numa_vector",):
            # two-argument constructions are (n, init) or (begin, end): iterators are recognised by name
            if re.search(r"begin|end|\+|data\(\)|&", dargs[0] + dargs[1]): continue
            problem(dop, "numa_vector constructed with a non-literal second argument: cannot decide whether it is initialised")

    # ---- reserve + raw access -----------------------------------------------------------------------------------
    for m in re.finditer(r"(\.|->)\s*reserve\s*\(", s):
        obj = obj_before(s, m.start())
        if not obj: problem(m.start(), "reserve on an object that cannot be named"); continue
        fn = [sc for sc in scopes if sc[3] == "func" and sc[0] <= m.start() <= sc[2]]
        if not fn: problem(m.start(), "reserve outside a function"); continue
        fn.sort(key=lambda sc: sc[0]); _, ob, cb, _, _ = fn[-1]
        body = s[ob:cb]
        o = re.escape(obj).replace(r"\ ", r"\s*")
        raw = re.search(r"(?<![\w.>])%s\s*\[|(?<![\w.>])%s\s*(\.|->)\s*data\s*\(|&\s*%s\s*\[|&\s*\*?\s*%s\s*(\.|->)\s*(begin|front)" % (o, o, o, o), body)
        grow = re.search(r"(?<![\w.>])%s\s*(\.|->)\s*(push_back|emplace_back|resize|assign|insert)\s*\(|(?<![\w.>])%s\s*=[^=]" % (o, o), body)
        if raw and not grow:
            add(m.start(), match_close(s, m.end() - 1), obj, "reserve+raw", "raw access `%s` and no push_back/resize/assign of it in the same function" % norm(raw.group(0)))
        else:
            capacity.append({"file": rel, "line": line_of(s, m.start()), "func": enclosing(scopes, m.start()), "array": obj,
                             "how": "push_back/resize in the same function" if grow else "no raw access in the same function"})
    return sites, notes, problems, capacity


# --------------------------------------------------------------------------------------------- driver
def lean_str(x): return '"' + x.replace("\\", "\\\\").replace('"', '\\"') + '"'


def cover_keys():
    """keys of the hand-written cover map, in file order"""
    if not os.path.exists(COVER): return []
    return re.findall(r'^\s*\("([^"]+)"\s*,\s*\[', open(COVER).read(), re.M)


def cover_theorems():
    """theorem names referenced by the hand-written cover map (so that a renamed/removed theorem breaks the build)"""
    if not os.path.exists(COVER): return []
    src = open(COVER).read()
    return sorted(set(re.findall(r'\.thm\s+"([\w.]+)"', src)))


def main():
    files = []
    for dp, dn, fn in os.walk(os.path.join(REPO, "amgcl")):
        dn.sort()
        for f in sorted(fn):
            if f.endswith(".hpp"): files.append(os.path.relpath(os.path.join(dp, f), REPO))
    files.sort()
    skipped = [f for f in files if f in OUT_OF_SCOPE]
    missing_skip = [f for f in OUT_OF_SCOPE if f not in files]
    sites, notes, problems, capacity = [], [], [], []
    for rel in files:
        if rel in OUT_OF_SCOPE: continue
        try:
            st, nt, pr, cp = scan_file(rel, open(os.path.join(REPO, rel), errors="replace").read())
        except ParseError as e:
            st, nt, pr, cp = [], [], ["%s: %s" % (rel, e)], []
        sites += st; notes += nt; problems += pr; capacity += cp
    for f in missing_skip: notes.append("out-of-scope file %s does not exist" % f)
    # keys with ordinals
    sites.sort(key=lambda x: (x["file"], x["line"], x["array"]))
    seen = {}
    for x in sites:
        base = "%s|%s|%s" % (x["file"], x["func"], x["array"])
        base = re.sub(r"\s+", "", base)
        seen[base] = seen.get(base, 0) + 1
        x["key"] = base if seen[base] == 1 else "%s#%d" % (base, seen[base])
    excluded = [dict(x, reason=EXCLUDED_SITES[x["key"]]) for x in sites if x["key"] in EXCLUDED_SITES]
    for k in EXCLUDED_SITES:
        if k not in set(x["key"] for x in sites): notes.append("excluded site %s does not exist (any more)" % k)
    sites = [x for x in sites if x["key"] not in EXCLUDED_SITES]

    thms = cover_theorems()
    L = ["-- GENERATED by tools/alloc_sites.py from $AMGCL_REPO/amgcl/**/*.hpp — do not edit; regenerated on every run",
         "import Amgcl.Model.AllocCover",
         "import Amgcl.Properties.C10",
         "import Amgcl.Properties.C10b",
         "import Amgcl.Properties.C10c",
         "import Amgcl.Properties.C10d",
         "import Amgcl.Properties.C10e",
         "import Amgcl.Properties.C10f",
         "import Amgcl.Properties.C10g",
         "import Amgcl.Properties.C10h",
         "import Amgcl.Properties.C10i",
         "import Amgcl.Properties.C10j",
         "/-! Every heap allocation of the (non-GPU) library sources whose cells are left unwritten by the allocating",
         "expression, and the obligation that each one is accounted for in `Amgcl.AllocCover.coveredKeys` (by a definedness",
         "theorem or by a poisoned-heap differential run).",
         "Out of scope (with reasons in tools/alloc_sites.py and in the evidence): " + ", ".join(skipped),
         "Excluded single sites (branches no harness reaches): " + ", ".join(x["key"] for x in excluded) + " -/",
         "namespace Amgcl.Generated.AllocSites", "open Amgcl.AllocCover", "",
         "def sites : List Site := ["]
    rows = []
    for x in sites:
        rows.append("  { file := %s, func := %s, line := %d, array := %s, kind := %s, key := %s }" % (
            lean_str(x["file"]), lean_str(x["func"]), x["line"], lean_str(x["array"]), lean_str(x["kind"]), lean_str(x["key"])))
    L.append(",\n".join(rows) + "]")
    ck = cover_keys()
    pos = {}
    for i, k in enumerate(ck): pos.setdefault(k, i)
    L += ["", "/-- position of each site's key in `coveredKeys`, looked up by the translator (a key that is not there gets the",
          "length of the list, which the check rejects) -/",
          "def coverIndex : List Nat := [" + ", ".join(str(pos.get(x["key"], len(ck))) for x in sites) + "]"]
    uncovered = [x["key"] for x in sites if x["key"] not in pos]
    L += ["", "/-- constructs the translator could not classify (must be empty) -/",
          "def unparsed : List String := [" + ", ".join(lean_str(p) for p in problems) + "]", ""]
    L += ["/-- every uninitialised allocation site found in the sources is a KNOWN site: it has an entry in the hand-written",
          "cover map saying which theorem / which poisoned run accounts for it; and nothing was left unparsed -/",
          "theorem alloc_sites_covered : (∀ s ∈ sites, s.key ∈ coveredKeys) ∧ unparsed = [] :=",
          "  ⟨checkIdx_sound coveredKeys sites coverIndex (by decide +kernel), by decide⟩", "",
          "/-- the definedness theorems the cover map names exist (a renamed or deleted theorem breaks this file) -/",
          "theorem cover_theorems_exist : True := by"]
    for t in thms: L.append("  have _ := @%s" % t)
    L += ["  trivial", "", "end Amgcl.Generated.AllocSites", ""]
    txt = "\n".join(L)
    os.makedirs(os.path.dirname(OUT_JSON), exist_ok=True)
    json.dump({"repo": REPO, "sites": sites, "out_of_scope": skipped, "problems": problems, "notes": notes, "capacity_only": capacity,
               "not_in_cover_map": uncovered, "excluded_sites": excluded,
               "out_of_scope_reasons": {f: OUT_OF_SCOPE[f] for f in skipped}, "stale_cover_entries": [k for k in ck if k not in set(x["key"] for x in sites)]},
              open(OUT_JSON, "w"), indent=1)

    if not os.path.exists(OUT_LEAN) or open(OUT_LEAN).read() != txt: open(OUT_LEAN, "w").write(txt)

    H = ["// GENERATED by tools/alloc_sites.py — do not edit; regenerated on every run",
         "// (file, first line, last line, key) of every uninitialised allocation site of the library sources",
         "#pragma once",
         "namespace alloc_sites { struct Site { const char *file; int line, line_end; const char *key; };",
         "static const Site table[] = {"]
    for x in sites: H.append('  { "%s", %d, %d, "%s" },' % (x["file"], x["line"], x["line_end"], x["key"].replace("\\", "\\\\").replace('"', '\\"')))
    H += ['  { 0, 0, 0, 0 } };', "}", ""]
    htxt = "\n".join(H)
    if not os.path.exists(OUT_HPP) or open(OUT_HPP).read() != htxt: open(OUT_HPP, "w").write(htxt)

    print("alloc_sites: %d files scanned, %d out of scope, %d uninitialised allocation sites, %d capacity-only reserve calls, %d unparsed" % (
        len(files) - len(skipped), len(skipped), len(sites), len(capacity), len(problems)))
    for p in problems: print("UNPARSED " + p)
    for k in uncovered: print("NOT IN COVER MAP " + k)
    if "-v" in sys.argv:
        for x in sites: print("%-48s %5d  %-40s %-22s %s" % (x["file"], x["line"], x["func"], x["array"], x["kind"]))
        for n in notes: print("note: " + n)
    return 1 if problems or uncovered else 0


if __name__ == "__main__":
    sys.exit(main())
