#!/bin/bash
# verify a seeded change: demo passes on clean /repo HEAD, fails with patch.  usage: seeded_verify.sh <dir with patch.diff demo.cpp>
D=$(realpath $1); WT=/work/seeded-verify-$$
git -C /repo worktree add -q --detach $WT HEAD || exit 2
NP=$(head -1 $D/demo.cpp | sed -n 's,^// MPI: *\([0-9][0-9]*\).*,\1,p')
if [ -n "$NP" ]; then CMD="mpicxx -std=c++17 -O1 -I. demo.cpp -o demo"; RUN="mpirun --allow-run-as-root --oversubscribe -np $NP ./demo";
elif grep -q "^// mpicxx" $D/demo.cpp; then CMD="mpicxx -std=c++17 -O1 -I. demo.cpp -o demo"; RUN="mpirun --allow-run-as-root --oversubscribe -np 3 ./demo"; else OMPF=""; head -1 $D/demo.cpp | grep -q fopenmp && OMPF="-fopenmp"; CMD="g++ -std=c++17 -O1 $OMPF -I. demo.cpp -o demo"; RUN="./demo"; fi
HEADCMD=$(head -1 $D/demo.cpp | sed -n 's,^// *\(\(g++\|mpicxx\) .*\)$,\1,p')
HEADCMD=$(echo "$HEADCMD" | sed 's#[^ ]*demo\.cpp#demo.cpp#; s#-o  *[^ ]*#-o demo#')
if [ -n "$HEADCMD" ] && [ -z "$NP" ]; then CMD="$HEADCMD"; case "$HEADCMD" in mpicxx*) RUN="mpirun --allow-run-as-root --oversubscribe -np 3 ./demo";; *) RUN="./demo";; esac; fi
build() { (cd $WT && cp $D/demo.cpp . && eval "$CMD" 2>&1 | tail -3); }
export OMP_NUM_THREADS=${OMP_NUM_THREADS:-2}
build; (cd $WT && timeout 900 $RUN > /tmp/sv_clean_$$.txt 2>&1); RC1=$?
if ! git -C $WT apply $D/patch.diff 2>/tmp/sv_apply_$$.txt; then echo "PATCH-DOES-NOT-APPLY: $(cat /tmp/sv_apply_$$.txt | head -2)"; git -C /repo worktree remove --force $WT; exit 3; fi
export OMP_NUM_THREADS=${OMP_NUM_THREADS:-2}
build; (cd $WT && timeout 900 $RUN > /tmp/sv_patched_$$.txt 2>&1); RC2=$?
echo "clean rc=$RC1 ($(tail -1 /tmp/sv_clean_$$.txt | cut -c1-80)) patched rc=$RC2 ($(tail -1 /tmp/sv_patched_$$.txt | cut -c1-80))"
git -C /repo worktree remove --force $WT
[ $RC1 -eq 0 ] && [ $RC2 -ne 0 ]
